import MJ.Model.Compile
/-!
# The code generator without back-patching (C03 stage 3)

`relExpr e base aux` is the code `cExpr` appends for `e` when the code so far has length `base`,
with all jump targets already resolved (they are computed from the sizes of the parts).
`cExpr_eq_rel` proves that the state-passing, back-patching generator of `MJ.Compile` produces
exactly this: it appends `relExpr` to the code, restores the pending-block stack, and threads the
same auxiliary state.  Fragment: `simpleExpr` (no chained comparison, no call, no keyword
argument).
-/
namespace MJ.Compile
open MJ.Eval

mutual
  /-- the stage-3 expression fragment -/
  def simpleExpr : Expr → Bool
    | .const _ => true
    | .var _ => true
    | .unop _ e => simpleExpr e
    | .binop _ l r => simpleExpr l && simpleExpr r
    | .cmp e ops => decide (2 ≤ ops.length) && simpleExpr e && simpleChain ops
    | .ife c t none => simpleExpr c && simpleExpr t
    | .ife c t (some f) => simpleExpr c && simpleExpr t && simpleExpr f
    | .filter _ e args => simpleExpr e && simpleArgs args
    | .test _ e args => simpleExpr e && simpleArgs args
    | .getattr e _ => simpleExpr e
    | .getitem e i => simpleExpr e && simpleExpr i
    | .call _ _ => false
    | .list items => simpleList items
    | .map kvs => simplePairs kvs
  def simpleChain : List (CmpOp × Expr) → Bool
    | [] => true
    | (_, e) :: rest => simpleExpr e && simpleChain rest
  def simpleArgs : List (Option String × Expr) → Bool
    | [] => true
    | (none, e) :: rest => simpleExpr e && simpleArgs rest
    | (some _, _) :: _ => false
  def simpleList : List Expr → Bool
    | [] => true
    | e :: rest => simpleExpr e && simpleList rest
  def simplePairs : List (Expr × Expr) → Bool
    | [] => true
    | (k, v) :: rest => simpleExpr k && simpleExpr v && simplePairs rest
end

mutual
  /-- the expression fragment of the refinement theorem: `simpleExpr` plus calls `f(args)` of a name
  with positional and keyword arguments -/
  def coreExpr : Expr → Bool
    | .const _ => true
    | .var _ => true
    | .unop _ e => coreExpr e
    | .binop _ l r => coreExpr l && coreExpr r
    | .cmp e ops => decide (2 ≤ ops.length) && coreExpr e && coreChain ops
    | .ife c t none => coreExpr c && coreExpr t
    | .ife c t (some f) => coreExpr c && coreExpr t && coreExpr f
    | .filter _ e args => coreExpr e && coreArgs args
    | .test _ e args => coreExpr e && coreArgs args
    | .getattr e _ => coreExpr e
    | .getitem e i => coreExpr e && coreExpr i
    | .call (.var _) args => coreCallArgs args
    | .call _ _ => false
    | .list items => coreList items
    | .map kvs => corePairs kvs
  def coreChain : List (CmpOp × Expr) → Bool
    | [] => true
    | (_, e) :: rest => coreExpr e && coreChain rest
  def coreArgs : List (Option String × Expr) → Bool
    | [] => true
    | (none, e) :: rest => coreExpr e && coreArgs rest
    | (some _, _) :: _ => false
  def coreCallArgs : List (Option String × Expr) → Bool
    | [] => true
    | (_, e) :: rest => coreExpr e && coreCallArgs rest
  def coreList : List Expr → Bool
    | [] => true
    | e :: rest => coreExpr e && coreList rest
  def corePairs : List (Expr × Expr) → Bool
    | [] => true
    | (k, v) :: rest => coreExpr k && coreExpr v && corePairs rest
end

/-- `emit_compare` -/
def cmpInstrs : CmpOp → List Instr
  | .eq => [.eq] | .ne => [.ne] | .lt => [.lt] | .le => [.lte]
  | .gt => [.gt] | .ge => [.gte] | .isin => [.isIn]
  | .notin => [.isIn, .not]

mutual
  def relExpr : Expr → Nat → Aux → List Instr × Aux
    | e, base, a =>
      match asConst e with
      | .val v => ([.loadConst v], a)
      | .oof => ([], a.markOof)
      | .no =>
        match e with
        | .const l => ([.loadConst (litVal l)], a)
        | .var x => ([.lookup x], a)
        | .unop .not x => ((relExpr x base a).1 ++ [.not], (relExpr x base a).2)
        | .unop .neg x => ((relExpr x base a).1 ++ [.neg], (relExpr x base a).2)
        | .binop .and l r =>
          let rl := relExpr l base a
          let rr := relExpr r (base + rl.1.length + 1) rl.2
          (rl.1 ++ [.jumpIfFalseOrPop (base + rl.1.length + 1 + rr.1.length)] ++ rr.1, rr.2)
        | .binop .or l r =>
          let rl := relExpr l base a
          let rr := relExpr r (base + rl.1.length + 1) rl.2
          (rl.1 ++ [.jumpIfTrueOrPop (base + rl.1.length + 1 + rr.1.length)] ++ rr.1, rr.2)
        | .binop op l r =>
          let rl := relExpr l base a
          let rr := relExpr r (base + rl.1.length) rl.2
          (rl.1 ++ rr.1 ++ [binInstr op], rr.2)
        | .cmp x ops =>
          -- operands; all but the last comparison jump to the clean-up code at `cs` when false
          let rx := relExpr x base a
          let len := (relChain ops (base + rx.1.length) rx.2 0).1.length
          let cs := base + rx.1.length + len + 1
          let rc := relChain ops (base + rx.1.length) rx.2 cs
          (rx.1 ++ rc.1 ++ [.jump (cs + 2), .swap, .discardTop], rc.2)
        | .ife c t f =>
          let rc := relExpr c base a
          let rt := relExpr t (base + rc.1.length + 1) rc.2
          let fbase := base + rc.1.length + 1 + rt.1.length + 1
          let rf : List Instr × Aux := match f with
            | some f => relExpr f fbase rt.2
            | none => ([.loadConst .undef], rt.2)
          (rc.1 ++ [.jumpIfFalse fbase] ++ rt.1 ++ [.jump (fbase + rf.1.length)] ++ rf.1, rf.2)
        | .filter name x args =>
          let rx := relExpr x base a
          let ra := relArgs args (base + rx.1.length) rx.2
          (rx.1 ++ ra.1 ++ [.applyFilter name (1 + args.length) (ra.2.filterId name).1], (ra.2.filterId name).2)
        | .test name x args =>
          let rx := relExpr x base a
          let ra := relArgs args (base + rx.1.length) rx.2
          (rx.1 ++ ra.1 ++ [.performTest name (1 + args.length) (ra.2.testId name).1], (ra.2.testId name).2)
        | .getattr x name => ((relExpr x base a).1 ++ [.getAttr name], (relExpr x base a).2)
        | .getitem x i =>
          let rx := relExpr x base a
          let ri := relExpr i (base + rx.1.length) rx.2
          (rx.1 ++ ri.1 ++ [.getItem], ri.2)
        | .call (.var x) args =>
          -- `compile_call` of a function call: positional arguments, then the keyword arguments as one
          -- value (a constant if all values are literals, else built at run time)
          let rp := relPosArgs args base a
          match kwArgs args with
          | [] => (rp.1 ++ [.callFunction x (posArgs args).length], rp.2)
          | k0 :: ks =>
            match staticKwargs (k0 :: ks) with
            | some m => (rp.1 ++ [.loadConst (.kwargs m), .callFunction x ((posArgs args).length + 1)], rp.2)
            | none =>
              let rk := relKwArgs args (base + rp.1.length) rp.2
              (rp.1 ++ rk.1 ++ [.buildKwargs (k0 :: ks).length, .callFunction x ((posArgs args).length + 1)], rk.2)
        | .call _ _ => ([], a.markOof)
        | .list items => ((relList items base a).1 ++ [.buildList (some items.length)], (relList items base a).2)
        | .map kvs => ((relPairs kvs base a).1 ++ [.buildMap kvs.length], (relPairs kvs base a).2)
  /-- the operator loop of `compile_compare` with the target `cs` of the clean-up jumps resolved -/
  def relChain : List (CmpOp × Expr) → Nat → Aux → Nat → List Instr × Aux
    | [], _, a, _ => ([], a)
    | [(op, e)], base, a, _ => ((relExpr e base a).1 ++ cmpInstrs op, (relExpr e base a).2)
    | (op, e) :: o2 :: rest, base, a, cs =>
      let re := relExpr e base a
      let rr := relChain (o2 :: rest) (base + re.1.length + 2) re.2 cs
      (re.1 ++ [.compareAndPreserve op, .jumpIfFalseOrPop cs] ++ rr.1, rr.2)
  def relArgs : List (Option String × Expr) → Nat → Aux → List Instr × Aux
    | [], _, a => ([], a)
    | (none, e) :: rest, base, a =>
      let re := relExpr e base a
      let rr := relArgs rest (base + re.1.length) re.2
      (re.1 ++ rr.1, rr.2)
    | (some _, _) :: _, _, a => ([], a.markOof)
  /-- the positional arguments of a call -/
  def relPosArgs : List (Option String × Expr) → Nat → Aux → List Instr × Aux
    | [], _, a => ([], a)
    | (none, e) :: rest, base, a =>
      let re := relExpr e base a
      let rr := relPosArgs rest (base + re.1.length) re.2
      (re.1 ++ rr.1, rr.2)
    | (some _, _) :: rest, base, a => relPosArgs rest base a
  /-- the keyword arguments of a call as `LoadConst key; value` pairs -/
  def relKwArgs : List (Option String × Expr) → Nat → Aux → List Instr × Aux
    | [], _, a => ([], a)
    | (none, _) :: rest, base, a => relKwArgs rest base a
    | (some k, e) :: rest, base, a =>
      let re := relExpr e (base + 1) a
      let rr := relKwArgs rest (base + 1 + re.1.length) re.2
      ([.loadConst (.str k)] ++ re.1 ++ rr.1, rr.2)
  def relList : List Expr → Nat → Aux → List Instr × Aux
    | [], _, a => ([], a)
    | e :: rest, base, a =>
      let re := relExpr e base a
      let rr := relList rest (base + re.1.length) re.2
      (re.1 ++ rr.1, rr.2)
  def relPairs : List (Expr × Expr) → Nat → Aux → List Instr × Aux
    | [], _, a => ([], a)
    | (k, v) :: rest, base, a =>
      let rk := relExpr k base a
      let rv := relExpr v (base + rk.1.length) rk.2
      let rr := relPairs rest (base + rk.1.length + rv.1.length) rv.2
      (rk.1 ++ rv.1 ++ rr.1, rr.2)
end

/-- the generator state after appending `r.1` with auxiliary state `r.2` -/
def CG.extend (g : CG) (r : List Instr × Aux) : CG :=
  { code := g.code ++ r.1, pending := g.pending, aux := r.2 }


/-! ## The back-patching generator produces `relExpr` -/

theorem getElem?_mid {α : Type} (A B : List α) (x : α) (n : Nat) (h : n = A.length) :
    (A ++ x :: B)[n]? = some x := by subst h; simp

theorem set_mid {α : Type} (A B : List α) (x y : α) (n : Nat) (h : n = A.length) :
    (A ++ x :: B).set n y = A ++ y :: B := by subst h; simp

@[simp] theorem CG.next_extend (g : CG) (r : List Instr × Aux) : (g.extend r).next = g.next + r.1.length := by
  simp [CG.extend, CG.next]

@[simp] theorem CG.extend_add (g : CG) (r : List Instr × Aux) (i : Instr) :
    (g.extend r).add i = g.extend (r.1 ++ [i], r.2) := by
  simp [CG.extend, CG.add]

theorem CG.extend_extend (g : CG) (r r' : List Instr × Aux) :
    (g.extend r).extend r' = g.extend (r.1 ++ r'.1, r'.2) := by
  simp [CG.extend]

@[simp] theorem CG.extend_aux (g : CG) (r : List Instr × Aux) : (g.extend r).aux = r.2 := rfl
@[simp] theorem CG.extend_pending (g : CG) (r : List Instr × Aux) : (g.extend r).pending = g.pending := rfl

theorem CG.add_eq_extend (g : CG) (i : Instr) : g.add i = g.extend ([i], g.aux) := by
  simp [CG.extend, CG.add]

theorem CG.markOof_eq_extend (g : CG) : g.markOof = g.extend ([], g.aux.markOof) := by
  simp [CG.extend, CG.markOof]


theorem patch_jifop (g : CG) (A B : List Instr) (n u t : Nat) (hc : g.code = A ++ .jumpIfFalseOrPop u :: B)
    (hn : n = A.length) : g.patch n t = { g with code := A ++ .jumpIfFalseOrPop t :: B } := by
  simp [CG.patch, hc, getElem?_mid A B _ n hn, set_mid A B _ _ n hn]

theorem patch_jitop (g : CG) (A B : List Instr) (n u t : Nat) (hc : g.code = A ++ .jumpIfTrueOrPop u :: B)
    (hn : n = A.length) : g.patch n t = { g with code := A ++ .jumpIfTrueOrPop t :: B } := by
  simp [CG.patch, hc, getElem?_mid A B _ n hn, set_mid A B _ _ n hn]

theorem patch_jif (g : CG) (A B : List Instr) (n u t : Nat) (hc : g.code = A ++ .jumpIfFalse u :: B)
    (hn : n = A.length) : g.patch n t = { g with code := A ++ .jumpIfFalse t :: B } := by
  simp [CG.patch, hc, getElem?_mid A B _ n hn, set_mid A B _ _ n hn]

theorem patch_jump (g : CG) (A B : List Instr) (n u t : Nat) (hc : g.code = A ++ .jump u :: B)
    (hn : n = A.length) : g.patch n t = { g with code := A ++ .jump t :: B } := by
  simp [CG.patch, hc, getElem?_mid A B _ n hn, set_mid A B _ _ n hn]


theorem scBool_block (g : CG) (L R : List Instr × Aux) (isAnd : Bool) :
    (((g.startScBool.extend L).scBool isAnd).extend R).endScBool =
      g.extend (L.1 ++ [if isAnd then Instr.jumpIfFalseOrPop (g.next + L.1.length + 1 + R.1.length)
                        else Instr.jumpIfTrueOrPop (g.next + L.1.length + 1 + R.1.length)] ++ R.1, R.2) := by
  cases isAnd
  · simp only [CG.startScBool, CG.scBool, CG.endScBool, CG.extend, CG.add, CG.next, CG.patchAll, List.foldl,
      List.nil_append, Bool.false_eq_true, if_false]
    rw [patch_jitop _ (g.code ++ L.1) R.1 _ unpatched _ (by simp) (by simp)]
    simp [Nat.add_assoc]; omega
  · simp only [CG.startScBool, CG.scBool, CG.endScBool, CG.extend, CG.add, CG.next, CG.patchAll, List.foldl,
      List.nil_append, if_true]
    rw [patch_jifop _ (g.code ++ L.1) R.1 _ unpatched _ (by simp) (by simp)]
    simp [Nat.add_assoc]; omega


theorem startIf_extend (g : CG) (C : List Instr × Aux) :
    (g.extend C).startIf =
      { code := (g.code ++ C.1) ++ Instr.jumpIfFalse unpatched :: [],
        pending := .branch (g.next + C.1.length) :: g.pending, aux := C.2 } := by
  simp [CG.startIf, CG.extend, CG.add, CG.next]

theorem startElse_after (A : List Instr) (P : List Pending) (a : Aux) (C : List Instr × Aux) (n : Nat)
    (hn : n = A.length) :
    (({ code := A ++ Instr.jumpIfFalse unpatched :: [], pending := .branch n :: P, aux := a } : CG).extend C).startElse =
      { code := (A ++ Instr.jumpIfFalse (A.length + 1 + C.1.length + 1) :: C.1) ++ Instr.jump unpatched :: [],
        pending := .branch (A.length + 1 + C.1.length) :: P, aux := C.2 } := by
  subst hn
  simp only [CG.startElse, CG.endCondition, CG.extend, CG.add, CG.next]
  rw [patch_jif _ A (C.1 ++ [Instr.jump unpatched]) _ unpatched _ (by simp) rfl]
  simp [Nat.add_assoc]; omega

theorem endIf_after (A : List Instr) (P : List Pending) (a : Aux) (C : List Instr × Aux) (n : Nat)
    (hn : n = A.length) :
    (({ code := A ++ Instr.jump unpatched :: [], pending := .branch n :: P, aux := a } : CG).extend C).endIf =
      { code := A ++ Instr.jump (A.length + 1 + C.1.length) :: C.1, pending := P, aux := C.2 } := by
  subst hn
  simp only [CG.endIf, CG.endCondition, CG.extend, CG.next]
  rw [patch_jump _ A C.1 _ unpatched _ (by simp) rfl]
  simp [Nat.add_assoc]; omega

theorem if_block (g : CG) (Cc Ct Cf : List Instr × Aux) :
    ((((g.extend Cc).startIf.extend Ct).startElse).extend Cf).endIf =
      g.extend (Cc.1 ++ [Instr.jumpIfFalse (g.next + Cc.1.length + 1 + Ct.1.length + 1)] ++ Ct.1 ++
        [Instr.jump (g.next + Cc.1.length + 1 + Ct.1.length + 1 + Cf.1.length)] ++ Cf.1, Cf.2) := by
  rw [startIf_extend, startElse_after _ _ _ _ _ (by simp [CG.next]), endIf_after _ _ _ _ _ (by simp; omega)]
  simp [CG.extend, CG.next, Nat.add_assoc]; omega


@[simp] theorem next_startScBool (g : CG) : g.startScBool.next = g.next := rfl
@[simp] theorem aux_startScBool (g : CG) : g.startScBool.aux = g.aux := rfl
@[simp] theorem next_scBool_ext (g : CG) (L : List Instr × Aux) (b : Bool) :
    ((g.startScBool.extend L).scBool b).next = g.next + L.1.length + 1 := by
  simp [CG.startScBool, CG.scBool, CG.extend, CG.add, CG.next, Nat.add_assoc]
@[simp] theorem aux_scBool_ext (g : CG) (L : List Instr × Aux) (b : Bool) :
    ((g.startScBool.extend L).scBool b).aux = L.2 := by
  simp [CG.startScBool, CG.scBool, CG.extend, CG.add]
@[simp] theorem next_startIf_ext (g : CG) (C : List Instr × Aux) :
    (g.extend C).startIf.next = g.next + C.1.length + 1 := by
  simp [CG.startIf, CG.extend, CG.add, CG.next, Nat.add_assoc]
@[simp] theorem aux_startIf_ext (g : CG) (C : List Instr × Aux) : (g.extend C).startIf.aux = C.2 := by
  simp [CG.startIf, CG.extend, CG.add]
@[simp] theorem next_startElse_ext (g : CG) (Cc Ct : List Instr × Aux) :
    (((g.extend Cc).startIf.extend Ct).startElse).next = g.next + Cc.1.length + 1 + Ct.1.length + 1 := by
  rw [startIf_extend, startElse_after _ _ _ _ _ (by simp [CG.next])]
  simp [CG.next, Nat.add_assoc]; omega
@[simp] theorem aux_startElse_ext (g : CG) (Cc Ct : List Instr × Aux) :
    (((g.extend Cc).startIf.extend Ct).startElse).aux = Ct.2 := by
  rw [startIf_extend, startElse_after _ _ _ _ _ (by simp [CG.next])]

theorem extend_nil_markOof (g : CG) : g.markOof = g.extend ([], g.aux.markOof) := CG.markOof_eq_extend g

@[simp] theorem patch_next (g : CG) (i t : Nat) : (g.patch i t).next = g.next := by
  unfold CG.patch; split <;> simp [CG.next]
@[simp] theorem patch_aux (g : CG) (i t : Nat) : (g.patch i t).aux = g.aux := by
  unfold CG.patch; split <;> rfl
@[simp] theorem patch_pending (g : CG) (i t : Nat) : (g.patch i t).pending = g.pending := by
  unfold CG.patch; split <;> rfl
@[simp] theorem patchAll_next (is : List Nat) (t : Nat) : ∀ g : CG, (g.patchAll is t).next = g.next := by
  induction is with
  | nil => intro g; rfl
  | cons i rest ih => intro g; simp [CG.patchAll] at ih ⊢; rw [ih]; simp
@[simp] theorem patchAll_aux (is : List Nat) (t : Nat) : ∀ g : CG, (g.patchAll is t).aux = g.aux := by
  induction is with
  | nil => intro g; rfl
  | cons i rest ih => intro g; simp [CG.patchAll] at ih ⊢; rw [ih]; simp

/-- absolute positions of the `JumpIfFalseOrPop`s of a comparison chain -/
def chainJumps : List (CmpOp × Expr) → Nat → Aux → List Nat
  | [], _, _ => []
  | [_], _, _ => []
  | (_, e) :: o2 :: rest, base, a =>
    (base + (relExpr e base a).1.length + 1) ::
      chainJumps (o2 :: rest) (base + (relExpr e base a).1.length + 2) (relExpr e base a).2

/-- the clean-up target only occurs as a jump operand: sizes and auxiliary state do not depend on it -/
theorem relChain_cs : ∀ (ops : List (CmpOp × Expr)) (base : Nat) (a : Aux) (cs cs' : Nat),
    (relChain ops base a cs).1.length = (relChain ops base a cs').1.length ∧
    (relChain ops base a cs).2 = (relChain ops base a cs').2
  | [], _, _, _, _ => by simp [relChain]
  | [(op, e)], _, _, _, _ => by simp [relChain]
  | (op, e) :: o2 :: rest, base, a, cs, cs' => by
    have ih := relChain_cs (o2 :: rest) (base + (relExpr e base a).1.length + 2) (relExpr e base a).2 cs cs'
    simp only [relChain, List.length_append, List.length_cons, List.length_nil]
    exact ⟨by rw [ih.1], ih.2⟩

theorem emitCompare_eq (g : CG) (op : CmpOp) : emitCompare g op = g.extend (cmpInstrs op, g.aux) := by
  cases op <;> simp [emitCompare, cmpInstrs, CG.add, CG.extend]

/-- patching all clean-up jumps of a chain resolves them to `cs` -/
theorem patchAll_chain : ∀ (ops : List (CmpOp × Expr)) (base : Nat) (a : Aux) (cs : Nat) (pre post : List Instr)
    (P : List Pending) (aux' : Aux), pre.length = base →
    ({ code := pre ++ (relChain ops base a unpatched).1 ++ post, pending := P, aux := aux' } : CG).patchAll
        (chainJumps ops base a) cs =
      { code := pre ++ (relChain ops base a cs).1 ++ post, pending := P, aux := aux' }
  | [], _, _, _, _, _, _, _, _ => by simp [chainJumps, relChain, CG.patchAll]
  | [(op, e)], _, _, _, _, _, _, _, _ => by simp [chainJumps, relChain, CG.patchAll]
  | (op, e) :: o2 :: rest, base, a, cs, pre, post, P, aux', hpre => by
    simp only [chainJumps, relChain, CG.patchAll, List.foldl]
    rw [patch_jifop _ (pre ++ (relExpr e base a).1 ++ [Instr.compareAndPreserve op])
      ((relChain (o2 :: rest) (base + (relExpr e base a).1.length + 2) (relExpr e base a).2 unpatched).1 ++ post)
      _ unpatched _ (by simp) (by simp [hpre]; omega)]
    have ih := patchAll_chain (o2 :: rest) (base + (relExpr e base a).1.length + 2) (relExpr e base a).2 cs
      (pre ++ (relExpr e base a).1 ++ [Instr.compareAndPreserve op, Instr.jumpIfFalseOrPop cs]) post P aux'
      (by simp [hpre]; omega)
    simp only [CG.patchAll] at ih
    have e1 : pre ++ (relExpr e base a).1 ++ [Instr.compareAndPreserve op] ++
        Instr.jumpIfFalseOrPop cs ::
          ((relChain (o2 :: rest) (base + (relExpr e base a).1.length + 2) (relExpr e base a).2 unpatched).1 ++ post) =
        pre ++ (relExpr e base a).1 ++ [Instr.compareAndPreserve op, Instr.jumpIfFalseOrPop cs] ++
          (relChain (o2 :: rest) (base + (relExpr e base a).1.length + 2) (relExpr e base a).2 unpatched).1 ++ post := by
      simp
    rw [e1, ih]
    simp

/-- the tail of `compile_compare`: jump over the clean-up code, clean-up code, patching -/
theorem cmp_block (g : CG) (Cx : List Instr × Aux) (ops : List (CmpOp × Expr)) (n : Nat)
    (hn : n = g.next + Cx.1.length + (relChain ops (g.next + Cx.1.length) Cx.2 unpatched).1.length + 3) :
    ((((((g.extend Cx).extend (relChain ops (g.next + Cx.1.length) Cx.2 unpatched)).add (Instr.jump unpatched)).add
          Instr.swap).add Instr.discardTop).patchAll (chainJumps ops (g.next + Cx.1.length) Cx.2)
        ((((g.extend Cx).extend (relChain ops (g.next + Cx.1.length) Cx.2 unpatched)).add (Instr.jump unpatched)).next)).patch
      (g.next + Cx.1.length + (relChain ops (g.next + Cx.1.length) Cx.2 unpatched).1.length) n =
    g.extend (Cx.1 ++ (relChain ops (g.next + Cx.1.length) Cx.2
        (g.next + Cx.1.length + (relChain ops (g.next + Cx.1.length) Cx.2 0).1.length + 1)).1 ++
      [Instr.jump (g.next + Cx.1.length + (relChain ops (g.next + Cx.1.length) Cx.2 0).1.length + 1 + 2),
       Instr.swap, Instr.discardTop],
      (relChain ops (g.next + Cx.1.length) Cx.2
        (g.next + Cx.1.length + (relChain ops (g.next + Cx.1.length) Cx.2 0).1.length + 1)).2) := by
  subst hn
  have hl := relChain_cs ops (g.next + Cx.1.length) Cx.2 unpatched 0
  have hl2 := relChain_cs ops (g.next + Cx.1.length) Cx.2
    (g.next + Cx.1.length + (relChain ops (g.next + Cx.1.length) Cx.2 0).1.length + 1) 0
  have hP := patchAll_chain ops (g.next + Cx.1.length) Cx.2
    (g.next + Cx.1.length + (relChain ops (g.next + Cx.1.length) Cx.2 0).1.length + 1)
    (g.code ++ Cx.1) [Instr.jump unpatched, Instr.swap, Instr.discardTop] g.pending
    (relChain ops (g.next + Cx.1.length) Cx.2 unpatched).2 (by simp [CG.next])
  have e0 : ((((g.extend Cx).extend (relChain ops (g.next + Cx.1.length) Cx.2 unpatched)).add (Instr.jump unpatched)).add
          Instr.swap).add Instr.discardTop =
      { code := g.code ++ Cx.1 ++ (relChain ops (g.next + Cx.1.length) Cx.2 unpatched).1 ++
          [Instr.jump unpatched, Instr.swap, Instr.discardTop], pending := g.pending,
        aux := (relChain ops (g.next + Cx.1.length) Cx.2 unpatched).2 } := by
    simp [CG.extend, CG.add]
  have e1 : (((g.extend Cx).extend (relChain ops (g.next + Cx.1.length) Cx.2 unpatched)).add (Instr.jump unpatched)).next =
      g.next + Cx.1.length + (relChain ops (g.next + Cx.1.length) Cx.2 0).1.length + 1 := by
    have hnext : g.next = g.code.length := rfl
    simp only [CG.extend, CG.add, List.length_append, List.length_cons, List.length_nil]
    show (g.code ++ Cx.1 ++ (relChain ops (g.next + Cx.1.length) Cx.2 unpatched).1 ++ [Instr.jump unpatched]).length = _
    simp only [List.length_append, List.length_cons, List.length_nil]; omega
  rw [e0, e1, hP]
  rw [patch_jump _ (g.code ++ Cx.1 ++ (relChain ops (g.next + Cx.1.length) Cx.2
      (g.next + Cx.1.length + (relChain ops (g.next + Cx.1.length) Cx.2 0).1.length + 1)).1)
    [Instr.swap, Instr.discardTop] _ unpatched _ (by simp)
    (by have hnext : g.next = g.code.length := rfl
        simp only [List.length_append]; omega)]
  have e2 := relChain_cs ops (g.next + Cx.1.length) Cx.2 unpatched
    (g.next + Cx.1.length + (relChain ops (g.next + Cx.1.length) Cx.2 0).1.length + 1)
  rw [hl.1, e2.2]
  simp [CG.extend, Nat.add_assoc]

theorem chainJumps_cons (op : CmpOp) (e : Expr) (o2 : CmpOp × Expr) (rest : List (CmpOp × Expr)) (b : Nat) (a : Aux) :
    chainJumps ((op, e) :: o2 :: rest) b a =
      (b + (relExpr e b a).1.length + 1) :: chainJumps (o2 :: rest) (b + (relExpr e b a).1.length + 2) (relExpr e b a).2 := by
  simp [chainJumps]

/-- `compile_call` for a function call `x(args)` -/
theorem cExpr_call_var (x : String) (args : List (Option String × Expr)) (g : CG) :
    cExpr (.call (.var x) args) g =
      match kwArgs args with
      | [] => (cPosArgs args g).add (.callFunction x (posArgs args).length)
      | k0 :: ks =>
        match staticKwargs (k0 :: ks) with
        | some m => ((cPosArgs args g).add (.loadConst (.kwargs m))).add (.callFunction x ((posArgs args).length + 1))
        | none => ((cKwArgs args (cPosArgs args g)).add (.buildKwargs (k0 :: ks).length)).add
            (.callFunction x ((posArgs args).length + 1)) := by
  conv => lhs; unfold cExpr
  simp only [asConst, callKind, callName]
  cases kwArgs args with
  | nil => simp
  | cons k0 ks =>
    simp only
    cases staticKwargs (k0 :: ks) <;> simp

mutual
theorem cExpr_eq_core : ∀ (e : Expr) (g : CG), coreExpr e = true →
    cExpr e g = g.extend (relExpr e g.next g.aux)
  | .const l, g, _ => by unfold cExpr relExpr; simp [asConst, CG.add_eq_extend]
  | .var x, g, _ => by unfold cExpr relExpr; simp [asConst, CG.add_eq_extend]
  | .unop .not x, g, h => by
    have ih := cExpr_eq_core x g (by simpa [coreExpr] using h)
    unfold cExpr relExpr
    cases hc : asConst (.unop .not x) <;> simp [CG.add_eq_extend, CG.markOof_eq_extend, ih, CG.extend_extend]
  | .unop .neg x, g, h => by
    have ih := cExpr_eq_core x g (by simpa [coreExpr] using h)
    unfold cExpr relExpr
    cases hc : asConst (.unop .neg x) <;> simp [CG.add_eq_extend, CG.markOof_eq_extend, ih, CG.extend_extend]
  | .binop op l r, g, h => by
    have hs : coreExpr l = true ∧ coreExpr r = true := by simpa [coreExpr] using h
    unfold cExpr relExpr
    cases hc : asConst (.binop op l r) with
    | val v => simp [CG.add_eq_extend]
    | oof => simp [CG.markOof_eq_extend]
    | no =>
      cases op
      case and =>
        simp only
        rw [cExpr_eq_core l g.startScBool hs.1, cExpr_eq_core r _ hs.2, scBool_block]
        simp [Nat.add_assoc]
      case or =>
        simp only
        rw [cExpr_eq_core l g.startScBool hs.1, cExpr_eq_core r _ hs.2, scBool_block]
        simp [Nat.add_assoc]
      all_goals
        simp only
        rw [cExpr_eq_core l g hs.1, cExpr_eq_core r _ hs.2]
        simp [CG.extend_extend, Nat.add_assoc]
  | .cmp x [], g, h => by simp [coreExpr] at h
  | .cmp x [_], g, h => by simp [coreExpr] at h
  | .cmp x (o1 :: o2 :: rest), g, h => by
    have hs : coreExpr x = true ∧ coreChain (o1 :: o2 :: rest) = true := by
      have := h; simp [coreExpr] at this; exact ⟨this.1, this.2⟩
    unfold cExpr
    cases hc : asConst (.cmp x (o1 :: o2 :: rest)) with
    | val v => unfold relExpr; simp [hc, CG.add_eq_extend]
    | oof => unfold relExpr; simp [hc, CG.markOof_eq_extend]
    | no =>
      simp only
      rw [cExpr_eq_core x g hs.1, cChain_eq_core (o1 :: o2 :: rest) [] _ hs.2]
      obtain ⟨op1, e1⟩ := o1
      -- the list of clean-up jumps is not empty
      simp only [List.nil_append, CG.next_extend, CG.extend_aux, chainJumps_cons]
      rw [← chainJumps_cons]
      rw [cmp_block g (relExpr x g.next g.aux) ((op1, e1) :: o2 :: rest) _
        (by rw [patchAll_next]; simp only [CG.extend, CG.add, CG.next, List.length_append, List.length_cons, List.length_nil])]
      conv => rhs; unfold relExpr
      simp [hc, Nat.add_assoc]
  | .ife c t none, g, h => by
    have hs : coreExpr c = true ∧ coreExpr t = true := by simpa [coreExpr] using h
    unfold cExpr relExpr
    cases hc : asConst (.ife c t none) with
    | val v => simp [CG.add_eq_extend]
    | oof => simp [CG.markOof_eq_extend]
    | no =>
      simp only
      rw [cExpr_eq_core c g hs.1, cExpr_eq_core t _ hs.2, CG.add_eq_extend, if_block]
      simp [Nat.add_assoc]
  | .ife c t (some f), g, h => by
    have hs : (coreExpr c = true ∧ coreExpr t = true) ∧ coreExpr f = true := by simpa [coreExpr] using h
    unfold cExpr relExpr
    cases hc : asConst (.ife c t (some f)) with
    | val v => simp [CG.add_eq_extend]
    | oof => simp [CG.markOof_eq_extend]
    | no =>
      simp only
      rw [cExpr_eq_core c g hs.1.1, cExpr_eq_core t _ hs.1.2, cExpr_eq_core f _ hs.2, if_block]
      simp [Nat.add_assoc]
  | .filter name x args, g, h => by
    have hs : coreExpr x = true ∧ coreArgs args = true := by simpa [coreExpr] using h
    unfold cExpr relExpr
    cases hc : asConst (.filter name x args) with
    | val v => simp [CG.add_eq_extend]
    | oof => simp [CG.markOof_eq_extend]
    | no =>
      simp only
      rw [cExpr_eq_core x g hs.1, cArgs_eq_core args _ hs.2]
      simp [CG.filterId, CG.extend, CG.add, CG.next]
  | .test name x args, g, h => by
    have hs : coreExpr x = true ∧ coreArgs args = true := by simpa [coreExpr] using h
    unfold cExpr relExpr
    cases hc : asConst (.test name x args) with
    | val v => simp [CG.add_eq_extend]
    | oof => simp [CG.markOof_eq_extend]
    | no =>
      simp only
      rw [cExpr_eq_core x g hs.1, cArgs_eq_core args _ hs.2]
      simp [CG.testId, CG.extend, CG.add, CG.next]
  | .getattr x name, g, h => by
    have ih := cExpr_eq_core x g (by simpa [coreExpr] using h)
    unfold cExpr relExpr
    cases hc : asConst (.getattr x name) <;> simp [CG.add_eq_extend, CG.markOof_eq_extend, ih, CG.extend_extend]
  | .getitem x i, g, h => by
    have hs : coreExpr x = true ∧ coreExpr i = true := by simpa [coreExpr] using h
    unfold cExpr relExpr
    cases hc : asConst (.getitem x i) with
    | val v => simp [CG.add_eq_extend]
    | oof => simp [CG.markOof_eq_extend]
    | no =>
      simp only
      rw [cExpr_eq_core x g hs.1, cExpr_eq_core i _ hs.2]
      simp [CG.extend_extend, Nat.add_assoc]
  | .call (.var x) args, g, h => by
    have hs : coreCallArgs args = true := by simpa [coreExpr] using h
    rw [cExpr_call_var]
    unfold relExpr
    simp only [asConst]
    rw [cPosArgs_eq_core args g hs]
    cases hk : kwArgs args with
    | nil => simp [CG.extend, CG.add]
    | cons k0 ks =>
      simp only
      cases hst : staticKwargs (k0 :: ks) with
      | some m => simp [CG.extend, CG.add]
      | none =>
        simp only
        rw [cKwArgs_eq_core args _ hs]
        simp [CG.extend, CG.add, CG.next]
  | .call (.const _) _, _, h => by simp [coreExpr] at h
  | .call (.unop _ _) _, _, h => by simp [coreExpr] at h
  | .call (.binop _ _ _) _, _, h => by simp [coreExpr] at h
  | .call (.cmp _ _) _, _, h => by simp [coreExpr] at h
  | .call (.ife _ _ _) _, _, h => by simp [coreExpr] at h
  | .call (.filter _ _ _) _, _, h => by simp [coreExpr] at h
  | .call (.test _ _ _) _, _, h => by simp [coreExpr] at h
  | .call (.getattr _ _) _, _, h => by simp [coreExpr] at h
  | .call (.getitem _ _) _, _, h => by simp [coreExpr] at h
  | .call (.call _ _) _, _, h => by simp [coreExpr] at h
  | .call (.list _) _, _, h => by simp [coreExpr] at h
  | .call (.map _) _, _, h => by simp [coreExpr] at h
  | .list items, g, h => by
    have ih := cList_eq_core items g (by simpa [coreExpr] using h)
    unfold cExpr relExpr
    cases hc : asConst (.list items) <;> simp [CG.add_eq_extend, CG.markOof_eq_extend, ih, CG.extend_extend]
  | .map kvs, g, h => by
    have ih := cPairs_eq_core kvs g (by simpa [coreExpr] using h)
    unfold cExpr relExpr
    cases hc : asConst (.map kvs) <;> simp [CG.add_eq_extend, CG.markOof_eq_extend, ih, CG.extend_extend]
theorem cChain_eq_core : ∀ (ops : List (CmpOp × Expr)) (jumps : List Nat) (g : CG), coreChain ops = true →
    cChain ops jumps g =
      (g.extend (relChain ops g.next g.aux unpatched), jumps ++ chainJumps ops g.next g.aux)
  | [], jumps, g, _ => by simp [cChain, relChain, chainJumps, CG.extend]
  | [(op, e)], jumps, g, h => by
    have hs : coreExpr e = true := by simpa [coreChain] using h
    simp only [cChain, relChain, chainJumps, List.append_nil]
    rw [cExpr_eq_core e g hs, emitCompare_eq, CG.extend_extend]
    simp
  | (op, e) :: o2 :: rest, jumps, g, h => by
    have hs : coreExpr e = true ∧ coreChain (o2 :: rest) = true := by simpa [coreChain] using h
    simp only [cChain, relChain, chainJumps]
    rw [cExpr_eq_core e g hs.1, CG.extend_add, CG.extend_add, CG.next_extend]
    rw [cChain_eq_core (o2 :: rest) _ _ hs.2]
    simp [CG.extend_extend, Nat.add_assoc]
theorem cArgs_eq_core : ∀ (args : List (Option String × Expr)) (g : CG), coreArgs args = true →
    cArgs args g = g.extend (relArgs args g.next g.aux)
  | [], g, _ => by simp [cArgs, relArgs, CG.extend]
  | (none, e) :: rest, g, h => by
    have hs : coreExpr e = true ∧ coreArgs rest = true := by simpa [coreArgs] using h
    simp only [cArgs, relArgs]
    rw [cExpr_eq_core e g hs.1, cArgs_eq_core rest _ hs.2]
    simp [CG.extend_extend]
  | (some _, _) :: _, _, h => by simp [coreArgs] at h
theorem cList_eq_core : ∀ (es : List Expr) (g : CG), coreList es = true →
    cList es g = g.extend (relList es g.next g.aux)
  | [], g, _ => by simp [cList, relList, CG.extend]
  | e :: rest, g, h => by
    have hs : coreExpr e = true ∧ coreList rest = true := by simpa [coreList] using h
    simp only [cList, relList]
    rw [cExpr_eq_core e g hs.1, cList_eq_core rest _ hs.2]
    simp [CG.extend_extend]
theorem cPairs_eq_core : ∀ (kvs : List (Expr × Expr)) (g : CG), corePairs kvs = true →
    cPairs kvs g = g.extend (relPairs kvs g.next g.aux)
  | [], g, _ => by simp [cPairs, relPairs, CG.extend]
  | (k, v) :: rest, g, h => by
    have hs : (coreExpr k = true ∧ coreExpr v = true) ∧ corePairs rest = true := by simpa [corePairs] using h
    simp only [cPairs, relPairs]
    rw [cExpr_eq_core k g hs.1.1, cExpr_eq_core v _ hs.1.2, cPairs_eq_core rest _ hs.2]
    simp [CG.extend_extend, Nat.add_assoc]
theorem cPosArgs_eq_core : ∀ (args : List (Option String × Expr)) (g : CG), coreCallArgs args = true →
    cPosArgs args g = g.extend (relPosArgs args g.next g.aux)
  | [], g, _ => by simp [cPosArgs, relPosArgs, CG.extend]
  | (none, e) :: rest, g, h => by
    have hs : coreExpr e = true ∧ coreCallArgs rest = true := by simpa [coreCallArgs] using h
    simp only [cPosArgs, relPosArgs]
    rw [cExpr_eq_core e g hs.1, cPosArgs_eq_core rest _ hs.2]
    simp [CG.extend_extend]
  | (some _, e) :: rest, g, h => by
    have hs : coreExpr e = true ∧ coreCallArgs rest = true := by simpa [coreCallArgs] using h
    simp only [cPosArgs, relPosArgs]
    exact cPosArgs_eq_core rest g hs.2
theorem cKwArgs_eq_core : ∀ (args : List (Option String × Expr)) (g : CG), coreCallArgs args = true →
    cKwArgs args g = g.extend (relKwArgs args g.next g.aux)
  | [], g, _ => by simp [cKwArgs, relKwArgs, CG.extend]
  | (none, e) :: rest, g, h => by
    have hs : coreExpr e = true ∧ coreCallArgs rest = true := by simpa [coreCallArgs] using h
    simp only [cKwArgs, relKwArgs]
    exact cKwArgs_eq_core rest g hs.2
  | (some k, e) :: rest, g, h => by
    have hs : coreExpr e = true ∧ coreCallArgs rest = true := by simpa [coreCallArgs] using h
    simp only [cKwArgs, relKwArgs]
    rw [CG.add_eq_extend, cExpr_eq_core e _ hs.1, cKwArgs_eq_core rest _ hs.2]
    simp [CG.extend_extend, Nat.add_assoc, Nat.add_comm 1]
end

/-! ## the call-free fragment `simpleExpr` is part of `coreExpr` -/

mutual
theorem simple_core : ∀ (e : Expr), simpleExpr e = true → coreExpr e = true
  | .const _, _ => rfl
  | .var _, _ => rfl
  | .unop _ e, h => by simp only [simpleExpr] at h; simp only [coreExpr]; exact simple_core e h
  | .binop _ l r, h => by
    simp only [simpleExpr, Bool.and_eq_true] at h; simp only [coreExpr, Bool.and_eq_true]
    exact ⟨simple_core l h.1, simple_core r h.2⟩
  | .cmp e ops, h => by
    simp only [simpleExpr, Bool.and_eq_true] at h; simp only [coreExpr, Bool.and_eq_true]
    exact ⟨⟨h.1.1, simple_core e h.1.2⟩, simple_coreChain ops h.2⟩
  | .ife c t none, h => by
    simp only [simpleExpr, Bool.and_eq_true] at h; simp only [coreExpr, Bool.and_eq_true]
    exact ⟨simple_core c h.1, simple_core t h.2⟩
  | .ife c t (some f), h => by
    simp only [simpleExpr, Bool.and_eq_true] at h; simp only [coreExpr, Bool.and_eq_true]
    exact ⟨⟨simple_core c h.1.1, simple_core t h.1.2⟩, simple_core f h.2⟩
  | .filter _ e args, h => by
    simp only [simpleExpr, Bool.and_eq_true] at h; simp only [coreExpr, Bool.and_eq_true]
    exact ⟨simple_core e h.1, simple_coreArgs args h.2⟩
  | .test _ e args, h => by
    simp only [simpleExpr, Bool.and_eq_true] at h; simp only [coreExpr, Bool.and_eq_true]
    exact ⟨simple_core e h.1, simple_coreArgs args h.2⟩
  | .getattr e _, h => by simp only [simpleExpr] at h; simp only [coreExpr]; exact simple_core e h
  | .getitem e i, h => by
    simp only [simpleExpr, Bool.and_eq_true] at h; simp only [coreExpr, Bool.and_eq_true]
    exact ⟨simple_core e h.1, simple_core i h.2⟩
  | .call _ _, h => by simp [simpleExpr] at h
  | .list items, h => by simp only [simpleExpr] at h; simp only [coreExpr]; exact simple_coreList items h
  | .map kvs, h => by simp only [simpleExpr] at h; simp only [coreExpr]; exact simple_corePairs kvs h
theorem simple_coreChain : ∀ (ops : List (CmpOp × Expr)), simpleChain ops = true → coreChain ops = true
  | [], _ => rfl
  | (_, e) :: rest, h => by
    simp only [simpleChain, Bool.and_eq_true] at h; simp only [coreChain, Bool.and_eq_true]
    exact ⟨simple_core e h.1, simple_coreChain rest h.2⟩
theorem simple_coreArgs : ∀ (args : List (Option String × Expr)), simpleArgs args = true → coreArgs args = true
  | [], _ => rfl
  | (none, e) :: rest, h => by
    simp only [simpleArgs, Bool.and_eq_true] at h; simp only [coreArgs, Bool.and_eq_true]
    exact ⟨simple_core e h.1, simple_coreArgs rest h.2⟩
  | (some _, _) :: _, h => by simp [simpleArgs] at h
theorem simple_coreList : ∀ (es : List Expr), simpleList es = true → coreList es = true
  | [], _ => rfl
  | e :: rest, h => by
    simp only [simpleList, Bool.and_eq_true] at h; simp only [coreList, Bool.and_eq_true]
    exact ⟨simple_core e h.1, simple_coreList rest h.2⟩
theorem simple_corePairs : ∀ (kvs : List (Expr × Expr)), simplePairs kvs = true → corePairs kvs = true
  | [], _ => rfl
  | (k, v) :: rest, h => by
    simp only [simplePairs, Bool.and_eq_true] at h; simp only [corePairs, Bool.and_eq_true]
    exact ⟨⟨simple_core k h.1.1, simple_core v h.1.2⟩, simple_corePairs rest h.2⟩
end

theorem cExpr_eq_rel (e : Expr) (g : CG) (h : simpleExpr e = true) : cExpr e g = g.extend (relExpr e g.next g.aux) :=
  cExpr_eq_core e g (simple_core e h)
theorem cArgs_eq_rel (args : List (Option String × Expr)) (g : CG) (h : simpleArgs args = true) :
    cArgs args g = g.extend (relArgs args g.next g.aux) := cArgs_eq_core args g (simple_coreArgs args h)

end MJ.Compile
