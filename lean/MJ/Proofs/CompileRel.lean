import MJ.Model.Compile
/-!
# The code generator without back-patching (C03 stage 3)

`relExpr e base aux` is the code `cExpr` appends for `e` when the code so far has length `base`,
with all jump targets already resolved (they are computed from the sizes of the parts).
`cExpr_eq_rel` proves that the state-passing, back-patching generator of `MJ.Compile` produces
exactly this: it appends `relExpr` to the code, restores the pending-block stack, and threads the
same auxiliary state.  Fragment: `simpleExpr` (no chained comparison, no call, no keyword
argument).
-/
namespace MJ.Compile
open MJ.Eval

mutual
  /-- the stage-3 expression fragment -/
  def simpleExpr : Expr → Bool
    | .const _ => true
    | .var _ => true
    | .unop _ e => simpleExpr e
    | .binop _ l r => simpleExpr l && simpleExpr r
    | .cmp _ _ => false
    | .ife c t none => simpleExpr c && simpleExpr t
    | .ife c t (some f) => simpleExpr c && simpleExpr t && simpleExpr f
    | .filter _ e args => simpleExpr e && simpleArgs args
    | .test _ e args => simpleExpr e && simpleArgs args
    | .getattr e _ => simpleExpr e
    | .getitem e i => simpleExpr e && simpleExpr i
    | .call _ _ => false
    | .list items => simpleList items
    | .map kvs => simplePairs kvs
  def simpleArgs : List (Option String × Expr) → Bool
    | [] => true
    | (none, e) :: rest => simpleExpr e && simpleArgs rest
    | (some _, _) :: _ => false
  def simpleList : List Expr → Bool
    | [] => true
    | e :: rest => simpleExpr e && simpleList rest
  def simplePairs : List (Expr × Expr) → Bool
    | [] => true
    | (k, v) :: rest => simpleExpr k && simpleExpr v && simplePairs rest
end

mutual
  def relExpr : Expr → Nat → Aux → List Instr × Aux
    | e, base, a =>
      match asConst e with
      | .val v => ([.loadConst v], a)
      | .oof => ([], a.markOof)
      | .no =>
        match e with
        | .const l => ([.loadConst (litVal l)], a)
        | .var x => ([.lookup x], a)
        | .unop .not x => ((relExpr x base a).1 ++ [.not], (relExpr x base a).2)
        | .unop .neg x => ((relExpr x base a).1 ++ [.neg], (relExpr x base a).2)
        | .binop .and l r =>
          let rl := relExpr l base a
          let rr := relExpr r (base + rl.1.length + 1) rl.2
          (rl.1 ++ [.jumpIfFalseOrPop (base + rl.1.length + 1 + rr.1.length)] ++ rr.1, rr.2)
        | .binop .or l r =>
          let rl := relExpr l base a
          let rr := relExpr r (base + rl.1.length + 1) rl.2
          (rl.1 ++ [.jumpIfTrueOrPop (base + rl.1.length + 1 + rr.1.length)] ++ rr.1, rr.2)
        | .binop op l r =>
          let rl := relExpr l base a
          let rr := relExpr r (base + rl.1.length) rl.2
          (rl.1 ++ rr.1 ++ [binInstr op], rr.2)
        | .cmp _ _ => ([], a.markOof)
        | .ife c t f =>
          let rc := relExpr c base a
          let rt := relExpr t (base + rc.1.length + 1) rc.2
          let fbase := base + rc.1.length + 1 + rt.1.length + 1
          let rf : List Instr × Aux := match f with
            | some f => relExpr f fbase rt.2
            | none => ([.loadConst .undef], rt.2)
          (rc.1 ++ [.jumpIfFalse fbase] ++ rt.1 ++ [.jump (fbase + rf.1.length)] ++ rf.1, rf.2)
        | .filter name x args =>
          let rx := relExpr x base a
          let ra := relArgs args (base + rx.1.length) rx.2
          (rx.1 ++ ra.1 ++ [.applyFilter name (1 + args.length) (ra.2.filterId name).1], (ra.2.filterId name).2)
        | .test name x args =>
          let rx := relExpr x base a
          let ra := relArgs args (base + rx.1.length) rx.2
          (rx.1 ++ ra.1 ++ [.performTest name (1 + args.length) (ra.2.testId name).1], (ra.2.testId name).2)
        | .getattr x name => ((relExpr x base a).1 ++ [.getAttr name], (relExpr x base a).2)
        | .getitem x i =>
          let rx := relExpr x base a
          let ri := relExpr i (base + rx.1.length) rx.2
          (rx.1 ++ ri.1 ++ [.getItem], ri.2)
        | .call _ _ => ([], a.markOof)
        | .list items => ((relList items base a).1 ++ [.buildList (some items.length)], (relList items base a).2)
        | .map kvs => ((relPairs kvs base a).1 ++ [.buildMap kvs.length], (relPairs kvs base a).2)
  def relArgs : List (Option String × Expr) → Nat → Aux → List Instr × Aux
    | [], _, a => ([], a)
    | (none, e) :: rest, base, a =>
      let re := relExpr e base a
      let rr := relArgs rest (base + re.1.length) re.2
      (re.1 ++ rr.1, rr.2)
    | (some _, _) :: _, _, a => ([], a.markOof)
  def relList : List Expr → Nat → Aux → List Instr × Aux
    | [], _, a => ([], a)
    | e :: rest, base, a =>
      let re := relExpr e base a
      let rr := relList rest (base + re.1.length) re.2
      (re.1 ++ rr.1, rr.2)
  def relPairs : List (Expr × Expr) → Nat → Aux → List Instr × Aux
    | [], _, a => ([], a)
    | (k, v) :: rest, base, a =>
      let rk := relExpr k base a
      let rv := relExpr v (base + rk.1.length) rk.2
      let rr := relPairs rest (base + rk.1.length + rv.1.length) rv.2
      (rk.1 ++ rv.1 ++ rr.1, rr.2)
end

/-- the generator state after appending `r.1` with auxiliary state `r.2` -/
def CG.extend (g : CG) (r : List Instr × Aux) : CG :=
  { code := g.code ++ r.1, pending := g.pending, aux := r.2 }

end MJ.Compile
