import MJ.Model.Path
/-! Helper lemmas for C17 (`MJ/Props/C17.lean`). -/
namespace MJ.Path

/-! ### `splitOn` -/

theorem consHead_ne_nil (c : Char) (l : List Str) : consHead c l ≠ [] := by
  cases l <;> simp [consHead]

theorem splitOn_ne_nil (sep : Char) (s : Str) : splitOn sep s ≠ [] := by
  cases s with
  | nil => simp [splitOn]
  | cons c cs =>
    unfold splitOn
    split
    · simp
    · exact consHead_ne_nil _ _

theorem consHead_append (c : Char) (l r : List Str) (h : l ≠ []) :
    consHead c (l ++ r) = consHead c l ++ r := by
  cases l with
  | nil => exact absurd rfl h
  | cons x xs => simp [consHead]

/-- splitting distributes over a separator -/
theorem splitOn_append_sep (sep : Char) (a b : Str) :
    splitOn sep (a ++ sep :: b) = splitOn sep a ++ splitOn sep b := by
  induction a with
  | nil => simp [splitOn]
  | cons c cs ih =>
    by_cases hc : c = sep
    · simp [splitOn, hc, ← ih]
    · simp only [List.cons_append, splitOn, hc, if_false, ih]
      exact consHead_append _ _ _ (splitOn_ne_nil _ _)

theorem splitOn_no_sep (sep : Char) (s : Str) (h : sep ∉ s) : splitOn sep s = [s] := by
  induction s with
  | nil => simp [splitOn]
  | cons c cs ih =>
    have hc : c ≠ sep := fun e => h (by simp [e])
    have hcs : sep ∉ cs := fun e => h (by simp [e])
    simp [splitOn, hc, ih hcs, consHead]

/-- no piece contains the separator -/
theorem sep_not_mem_of_mem_splitOn (sep : Char) (s t : Str) (h : t ∈ splitOn sep s) : sep ∉ t := by
  induction s generalizing t with
  | nil => simp [splitOn] at h; simp [h]
  | cons c cs ih =>
    by_cases hc : c = sep
    · simp only [splitOn, hc, if_true, List.mem_cons] at h
      rcases h with h | h
      · simp [h]
      · exact ih t h
    · simp only [splitOn, hc, if_false] at h
      cases hs : splitOn sep cs with
      | nil => exact absurd hs (splitOn_ne_nil _ _)
      | cons x r =>
        rw [hs] at h
        simp only [consHead, List.mem_cons] at h
        rcases h with h | h
        · subst h
          have hx : sep ∉ x := ih x (by simp [hs])
          intro hm
          simp only [List.mem_cons] at hm
          rcases hm with hm | hm
          · exact hc hm.symm
          · exact hx hm
        · exact ih t (by simp [hs, h])

/-! ### `push` with a separator-free argument -/

theorem head?_ne_of_not_mem {c : Char} {s : Str} (h : c ∉ s) : s.head? ≠ some c := by
  cases s with
  | nil => simp
  | cons x xs =>
    simp only [List.head?_cons, ne_eq, Option.some.injEq]
    intro e; exact h (by simp [e])

/-- the "absolute argument replaces the path" branch of `PathBuf::push` is not taken -/
theorem push_of_no_sep (p s : Str) (h : '/' ∉ s) :
    push p s = if p ≠ [] ∧ p.getLast? ≠ some '/' then p ++ '/' :: s else p ++ s := by
  unfold push
  rw [if_neg (head?_ne_of_not_mem h)]

theorem prefix_push (p s : Str) (h : '/' ∉ s) : p <+: push p s := by
  rw [push_of_no_sep p s h]
  split <;> exact List.prefix_append _ _

theorem isAbs_push (p s : Str) (h : '/' ∉ s) : isAbs (push p s) = isAbs p := by
  rw [push_of_no_sep p s h]
  cases p with
  | nil =>
    have := head?_ne_of_not_mem h
    simp [isAbs, this]
  | cons x xs => split <;> simp [isAbs]

theorem eq_append_of_getLast? {p : Str} {c : Char} (h : p.getLast? = some c) :
    ∃ q, p = q ++ [c] := by
  have hne : p ≠ [] := by intro e; simp [e] at h
  refine ⟨p.dropLast, ?_⟩
  have h2 : p.getLast hne = c := by
    rw [List.getLast?_eq_some_getLast hne] at h
    exact Option.some.inj h
  rw [← h2, List.dropLast_concat_getLast hne]

theorem comps_nil : comps [] = [] := by simp [comps, splitOn, keepPiece]

theorem comps_single (s : Str) (h : '/' ∉ s) (hdot : s ≠ ['.']) :
    comps s = if s = [] then [] else [s] := by
  unfold comps
  rw [splitOn_no_sep _ _ h]
  by_cases he : s = []
  · simp [he, keepPiece]
  · simp [he, keepPiece, hdot]

theorem comps_append_sep (a b : Str) : comps (a ++ '/' :: b) = comps a ++ comps b := by
  simp [comps, splitOn_append_sep]

/-- pushing a separator-free piece other than `.` appends it as one component (or nothing when it is empty) -/
theorem comps_push (p s : Str) (h : '/' ∉ s) (hdot : s ≠ ['.']) :
    comps (push p s) = comps p ++ (if s = [] then [] else [s]) := by
  rw [push_of_no_sep p s h]
  split
  · rw [comps_append_sep, comps_single s h hdot]
  · rename_i hc
    by_cases hp : p = []
    · subst hp; simp [comps_nil, comps_single s h hdot]
    · have hl : p.getLast? = some '/' := by
        by_cases hl : p.getLast? = some '/'
        · exact hl
        · exact absurd ⟨hp, hl⟩ hc
      obtain ⟨q, rfl⟩ := eq_append_of_getLast? hl
      have e1 : q ++ ['/'] ++ s = q ++ '/' :: s := by simp
      have e2 : q ++ ['/'] = q ++ '/' :: [] := rfl
      rw [e1, comps_append_sep, e2, comps_append_sep, comps_nil, comps_single s h hdot]
      simp

/-! ### the segment filter -/

/-- the separator the extractor found in the source is `/` -/
theorem sep_eq : MJ.Gen.c17SafeJoinSep = '/' := by decide

/-- the rules the extractor found in the source contain "hidden" and "backslash" -/
theorem rules_cover : '.' ∈ MJ.Gen.c17RejectPrefix ∧ '\\' ∈ MJ.Gen.c17RejectContains := by decide

theorem badSeg_of_head {s : Str} (h : s.head? = some '.') : badSeg s = true := by
  have := rules_cover.1
  simp only [badSeg, Bool.or_eq_true, List.any_eq_true]
  exact Or.inl (Or.inl ⟨'.', this, by simp [h]⟩)

theorem badSeg_of_mem {s : Str} (h : '\\' ∈ s) : badSeg s = true := by
  have := rules_cover.2
  simp only [badSeg, Bool.or_eq_true, List.any_eq_true]
  exact Or.inl (Or.inr ⟨'\\', this, by simpa using h⟩)

theorem badSeg_false_imp (s : Str) (h : badSeg s = false) : s.head? ≠ some '.' ∧ '\\' ∉ s := by
  constructor
  · intro e; rw [badSeg_of_head e] at h; exact absurd h (by decide)
  · intro e; rw [badSeg_of_mem e] at h; exact absurd h (by decide)

theorem not_dot_of_good {s : Str} (h : badSeg s = false) : s ≠ ['.'] := by
  intro e; subst e; exact (badSeg_false_imp _ h).1 rfl

theorem not_dotdot_of_good {s : Str} (h : badSeg s = false) : s ≠ dotdot := by
  intro e; subst e; exact (badSeg_false_imp _ h).1 rfl

/-- what the loop of `safe_join` establishes -/
theorem safeJoinLoop_some (rv p : Str) (segs : List Str) (hsep : ∀ s ∈ segs, '/' ∉ s)
    (h : safeJoinLoop rv segs = some p) :
    (∀ s ∈ segs, badSeg s = false) ∧
    comps p = comps rv ++ segs.filter (fun s => s != []) ∧
    isAbs p = isAbs rv ∧ rv <+: p := by
  induction segs generalizing rv with
  | nil =>
    simp only [safeJoinLoop, Option.some.injEq] at h
    subst h
    simp
  | cons s rest ih =>
    have hs : '/' ∉ s := hsep s (by simp)
    unfold safeJoinLoop at h
    by_cases hb : badSeg s = true
    · simp [hb] at h
    · have hb' : badSeg s = false := by simpa using hb
      rw [if_neg hb] at h
      obtain ⟨h1, h2, h3, h4⟩ := ih (push rv s) (fun t ht => hsep t (by simp [ht])) h
      refine ⟨?_, ?_, ?_, ?_⟩
      · intro t ht
        simp only [List.mem_cons] at ht
        rcases ht with rfl | ht
        · exact hb'
        · exact h1 t ht
      · rw [h2, comps_push rv s hs (not_dot_of_good hb')]
        by_cases he : s = []
        · simp [he]
        · simp [he]
      · rw [h3, isAbs_push rv s hs]
      · exact List.IsPrefix.trans (prefix_push rv s hs) h4

theorem safeJoinLoop_none_of_bad (rv : Str) (segs : List Str) (s : Str) (hm : s ∈ segs)
    (hb : badSeg s = true) : safeJoinLoop rv segs = none := by
  induction segs generalizing rv with
  | nil => simp at hm
  | cons t rest ih =>
    unfold safeJoinLoop
    by_cases ht : badSeg t = true
    · simp [ht]
    · rw [if_neg ht]
      simp only [List.mem_cons] at hm
      rcases hm with rfl | hm
      · exact absurd hb ht
      · exact ih _ hm

theorem safeJoinLoop_isSome_of_good (rv : Str) (segs : List Str)
    (h : ∀ s ∈ segs, badSeg s = false) : (safeJoinLoop rv segs).isSome = true := by
  induction segs generalizing rv with
  | nil => simp [safeJoinLoop]
  | cons t rest ih =>
    unfold safeJoinLoop
    have ht : badSeg t = false := h t (by simp)
    simp only [ht, Bool.false_eq_true, if_false]
    exact ih _ (fun s hs => h s (by simp [hs]))

/-! ### lexical normalisation and the abstract directory tree -/

/-- a name in the strict sense: neither empty nor `.` nor `..` -/
def plain (s : Str) : Prop := s ≠ [] ∧ s ≠ ['.'] ∧ s ≠ dotdot

theorem normalizeFrom_plain (abs : Bool) (st segs : List Str) (h : ∀ s ∈ segs, plain s) :
    normalizeFrom abs st segs = st ++ segs := by
  induction segs generalizing st with
  | nil => simp [normalizeFrom]
  | cons s rest ih =>
    obtain ⟨h1, h2, h3⟩ := h s (by simp)
    have : normStep abs st s = st ++ [s] := by simp [normStep, h1, h2, h3]
    simp only [normalizeFrom, List.foldl_cons, this]
    have := ih (st ++ [s]) (fun t ht => h t (by simp [ht]))
    simpa [normalizeFrom] using this

theorem normalize_append (abs : Bool) (cs segs : List Str) :
    normalize abs (cs ++ segs) = normalizeFrom abs (normalize abs cs) segs := by
  simp [normalize, normalizeFrom, List.foldl_append]

theorem walk_append (fs : FS) (d : fs.Node) (xs ys : List Str) :
    walk fs d (xs ++ ys) = (walk fs d xs).bind (fun e => walk fs e ys) := by
  induction xs generalizing d with
  | nil => simp [walk]
  | cons s r ih =>
    simp only [List.cons_append, walk]
    split
    · exact ih d
    · split
      · exact ih _
      · cases fs.child d s with
        | none => simp
        | some e => simpa using ih e

theorem Below.trans {fs : FS} {a b c : fs.Node} (h1 : Below fs a b) (h2 : Below fs b c) :
    Below fs a c := by
  induction h2 with
  | refl => exact h1
  | step _ hc ih => exact Below.step ih hc

theorem walk_plain_below (fs : FS) (d e : fs.Node) (segs : List Str) (h : ∀ s ∈ segs, plain s)
    (hw : walk fs d segs = some e) : Below fs d e := by
  induction segs generalizing d with
  | nil => simp only [walk, Option.some.injEq] at hw; subst hw; exact Below.refl
  | cons s r ih =>
    obtain ⟨h1, h2, h3⟩ := h s (by simp)
    simp only [walk, h1, h2, h3, false_or, if_false] at hw
    cases hc : fs.child d s with
    | none => simp [hc] at hw
    | some x =>
      simp only [hc] at hw
      exact Below.trans (Below.step Below.refl hc) (ih x (fun t ht => h t (by simp [ht])) hw)

/-! ### the loader, the template store and file-system histories -/

/-- the answer `s` for the name `n` is what some snapshot of `past` held at the path
    `safe_join(dir, n)` designates -/
def Justified (dir : Str) (past : List (Snapshot × Str)) (n s : Str) : Prop :=
  ∃ x ∈ past, x.2 = n ∧ ∃ p, safeJoin dir n = some p ∧ x.1 p = .content s

def CacheOk (dir : Str) (past : List (Snapshot × Str)) (c : List (Str × Str)) : Prop :=
  ∀ n s, (n, s) ∈ c → Justified dir past n s

theorem Justified.mono {dir : Str} {past more : List (Snapshot × Str)} {n s : Str}
    (h : Justified dir past n s) (hsub : ∀ x ∈ past, x ∈ more) : Justified dir more n s := by
  obtain ⟨x, hx, h1, h2⟩ := h
  exact ⟨x, hsub x hx, h1, h2⟩

theorem lookup_mem {name s : Str} {c : List (Str × Str)} (h : lookup name c = some s) :
    (name, s) ∈ c := by
  induction c with
  | nil => simp [lookup] at h
  | cons x r ih =>
    obtain ⟨n, t⟩ := x
    simp only [lookup] at h
    by_cases hn : n = name
    · simp only [hn, if_true, Option.some.injEq] at h
      subst hn; subst h; simp
    · simp only [hn, if_false] at h
      exact List.mem_cons_of_mem _ (ih h)

theorem load_found {l : Loader} {fs : Snapshot} {name s : Str} (h : l.load fs name = .found s) :
    ∃ p, safeJoin l.base name = some p ∧ fs p = .content s := by
  unfold Loader.load at h
  cases hj : safeJoin l.base name with
  | none => simp [hj] at h
  | some p =>
    simp only [hj] at h
    cases hf : fs p with
    | content t => simp only [hf, LoadResult.found.injEq] at h; subst h; exact ⟨p, rfl, hf⟩
    | notFound => simp [hf] at h
    | failed => simp [hf] at h

/-- one request: the answer is justified by the store or by the snapshot of the moment, and the
    store stays justified -/
theorem get_step (dir : Str) (e : Env) (past : List (Snapshot × Str)) (fs : Snapshot) (name : Str)
    (hb : e.loader.base = dir) (hc : CacheOk dir past e.cache) :
    (e.get fs name).2.loader.base = dir ∧
    CacheOk dir (past ++ [(fs, name)]) (e.get fs name).2.cache ∧
    ∀ s, (e.get fs name).1 = .found s → Justified dir (past ++ [(fs, name)]) name s := by
  have mono : ∀ n s, Justified dir past n s → Justified dir (past ++ [(fs, name)]) n s :=
    fun n s h => h.mono (fun x hx => by simp [hx])
  unfold Env.get
  cases hl : lookup name e.cache with
  | some t =>
    refine ⟨hb, fun n s hm => mono n s (hc n s hm), fun s hs => ?_⟩
    simp only [LoadResult.found.injEq] at hs
    subst hs
    exact mono name t (hc name t (lookup_mem hl))
  | none =>
    simp only []
    cases hr : e.loader.load fs name with
    | found t =>
      obtain ⟨p, hp, hf⟩ := load_found hr
      rw [hb] at hp
      have hj : Justified dir (past ++ [(fs, name)]) name t :=
        ⟨(fs, name), by simp, rfl, p, hp, hf⟩
      refine ⟨hb, fun n s hm => ?_, fun s hs => ?_⟩
      · simp only [List.mem_cons, Prod.mk.injEq] at hm
        rcases hm with ⟨rfl, rfl⟩ | hm
        · exact hj
        · exact mono n s (hc n s hm)
      · simp only [LoadResult.found.injEq] at hs
        subst hs; exact hj
    | missing => exact ⟨hb, fun n s hm => mono n s (hc n s hm), fun s hs => by simp at hs⟩
    | unreadable => exact ⟨hb, fun n s hm => mono n s (hc n s hm), fun s hs => by simp at hs⟩

theorem run_justified (dir : Str) (h : List (Snapshot × Str)) (e : Env) (past : List (Snapshot × Str))
    (hb : e.loader.base = dir) (hc : CacheOk dir past e.cache) :
    (∀ n s, (n, LoadResult.found s) ∈ e.run h → Justified dir (past ++ h) n s) ∧
    CacheOk dir (past ++ h) (e.after h).cache ∧ (e.after h).loader.base = dir := by
  induction h generalizing e past with
  | nil => simp only [Env.run, Env.after, List.append_nil]; exact ⟨fun n s hm => by simp at hm, hc, hb⟩
  | cons x rest ih =>
    obtain ⟨fs, name⟩ := x
    obtain ⟨g1, g2, g3⟩ := get_step dir e past fs name hb hc
    obtain ⟨i1, i2, i3⟩ := ih (e.get fs name).2 (past ++ [(fs, name)]) g1 g2
    have assoc : past ++ [(fs, name)] ++ rest = past ++ (fs, name) :: rest := by simp
    rw [assoc] at i1 i2
    refine ⟨fun n s hm => ?_, by simpa [Env.after] using i2, by simpa [Env.after] using i3⟩
    simp only [Env.run, List.mem_cons, Prod.mk.injEq] at hm
    rcases hm with ⟨rfl, hr⟩ | hm
    · exact (g3 s hr.symm).mono (fun y hy => by
        simp only [List.mem_append, List.mem_cons, List.not_mem_nil, or_false] at hy ⊢
        rcases hy with hy | hy
        · exact Or.inl hy
        · exact Or.inr (Or.inl hy))
    · exact i1 n s hm

end MJ.Path
