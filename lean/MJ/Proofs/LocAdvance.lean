import MJ.Model.Loc
/-!
Helper lemmas for C14, part 1: the position counters as a function of the consumed prefix.
-/
namespace MJ.Loc
open MJ

/-- the `(line, col)` the tokenizer has after consuming the prefix `p` -/
def posOf (p : List Char) : Nat × Nat := p.foldl stepChar (1, 0)

/-- length of the last line of `p` (everything after the last `\n`) -/
def lastSeg : List Char → Nat
  | [] => 0
  | c :: cs => if '\n' ∈ cs then lastSeg cs else if c = '\n' then cs.length else cs.length + 1

theorem lastSeg_no_nl (p : List Char) (h : '\n' ∉ p) : lastSeg p = p.length := by
  induction p with
  | nil => rfl
  | cons c cs ih =>
    simp only [List.mem_cons, not_or] at h
    have h1 : '\n' ≠ c := h.1
    simp [lastSeg, h.2]
    intro hc; exact absurd hc.symm h1

theorem lastSeg_append_nl (a b : List Char) (hb : '\n' ∉ b) : lastSeg (a ++ '\n' :: b) = b.length := by
  induction a with
  | nil => simp [lastSeg, hb]
  | cons c cs ih => simp [lastSeg, ih]

theorem lastSeg_append (a b : List Char) :
    lastSeg (a ++ b) = if '\n' ∈ b then lastSeg b else lastSeg a + b.length := by
  induction a with
  | nil =>
    by_cases hb : '\n' ∈ b
    · simp [hb]
    · simp [hb, lastSeg_no_nl b hb, lastSeg]
  | cons c cs ih =>
    simp only [List.cons_append, lastSeg, List.mem_append]
    by_cases hb : '\n' ∈ b
    · simp [hb, ih]
    · simp only [hb, or_false, if_false] at ih ⊢
      by_cases hcs : '\n' ∈ cs
      · simp [hcs, ih]
      · simp only [hcs, if_false, List.length_append]
        split <;> omega

theorem satInc_le (x : Nat) : satInc x ≤ x + 1 := by unfold satInc; split <;> omega
theorem satInc_le_max (x : Nat) : satInc x ≤ 65535 := by unfold satInc; split <;> omega
theorem satInc_eq_min (x : Nat) (h : x ≤ 65535) : satInc x = min (x + 1) 65535 := by
  unfold satInc; split <;> omega

/-- closed form of the loop in `advance` from any start `(l, c)` -/
theorem foldl_stepChar (cs : List Char) (l c : Nat) (hl : l ≤ 65535) (hc : c ≤ 65535) :
    cs.foldl stepChar (l, c) =
      (min (l + cs.count '\n') 65535,
       if '\n' ∈ cs then min (lastSeg cs) 65535 else min (c + cs.length) 65535) := by
  induction cs generalizing l c with
  | nil => simp; omega
  | cons ch cs ih =>
    rw [List.foldl_cons]
    by_cases hch : ch = '\n'
    · subst hch
      have : stepChar (l, c) '\n' = (satInc l, 0) := by simp [stepChar]
      rw [this, ih _ _ (satInc_le_max l) (by omega)]
      simp only [List.count_cons_self, List.mem_cons, true_or, if_true, lastSeg]
      congr 1
      · rw [satInc_eq_min l hl]; omega
      · by_cases hm : '\n' ∈ cs <;> simp [hm]
    · have : stepChar (l, c) ch = (l, satInc c) := by simp [stepChar, hch]
      rw [this, ih _ _ hl (satInc_le_max c)]
      have hne : ¬ ('\n' = ch) := fun h => hch h.symm
      rw [List.count_cons_of_ne hch]
      simp only [List.mem_cons, hne, false_or, lastSeg, List.length_cons]
      by_cases hm : '\n' ∈ cs
      · simp [hm]
      · simp only [hm, if_false]
        congr 1
        rw [satInc_eq_min c hc]; omega

theorem posOf_eq (p : List Char) :
    posOf p = (min (1 + p.count '\n') 65535, min (lastSeg p) 65535) := by
  unfold posOf
  rw [foldl_stepChar p 1 0 (by omega) (by omega)]
  by_cases hm : '\n' ∈ p
  · simp [hm]
  · simp [hm, lastSeg_no_nl p hm]

theorem posOf_append (p q : List Char) : posOf (p ++ q) = q.foldl stepChar (posOf p) := by
  simp [posOf, List.foldl_append]

theorem posOf_le (p : List Char) : (posOf p).1 ≤ 65535 ∧ (posOf p).2 ≤ 65535 := by
  rw [posOf_eq]; simp; omega

theorem foldl_stepChar_line_le (cs : List Char) (l c : Nat) :
    (cs.foldl stepChar (l, c)).1 ≤ l + cs.count '\n' := by
  induction cs generalizing l c with
  | nil => simp
  | cons ch cs ih =>
    rw [List.foldl_cons]
    by_cases hch : ch = '\n'
    · subst hch
      have : stepChar (l, c) '\n' = (satInc l, 0) := by simp [stepChar]
      rw [this]
      have := ih (satInc l) 0
      have := satInc_le l
      simp only [List.count_cons_self]; omega
    · have : stepChar (l, c) ch = (l, satInc c) := by simp [stepChar, hch]
      rw [this]
      have := ih l (satInc c)
      rw [List.count_cons_of_ne hch]
      exact this

/-! ### utf8 lengths -/

theorem utf8Len_append (p q : List Char) : utf8Len (p ++ q) = utf8Len p + utf8Len q := by
  induction p with
  | nil => simp [utf8Len]
  | cons c cs ih => simp [utf8Len, ih]; omega

theorem utf8Size_pos' (c : Char) : 0 < c.utf8Size := Char.utf8Size_pos c
theorem utf8Size_le4 (c : Char) : c.utf8Size ≤ 4 := Char.utf8Size_le_four c

theorem utf8Len_take_le (src : List Char) (k : Nat) : utf8Len (src.take k) ≤ utf8Len src := by
  have h := utf8Len_append (src.take k) (src.drop k)
  rw [List.take_append_drop] at h; omega

theorem utf8Len_take_mono (src : List Char) {a b : Nat} (h : a ≤ b) :
    utf8Len (src.take a) ≤ utf8Len (src.take b) := by
  have : src.take a = (src.take b).take a := by rw [List.take_take]; congr; omega
  rw [this]; exact utf8Len_take_le _ _

theorem length_le_utf8Len (p : List Char) : p.length ≤ utf8Len p := by
  induction p with
  | nil => simp [utf8Len]
  | cons c cs ih => simp [utf8Len]; have := utf8Size_pos' c; omega

theorem utf8Len_replicate_nl (n : Nat) : utf8Len (List.replicate n '\n') = n := by
  induction n with
  | zero => rfl
  | succ n ih =>
    have : '\n'.utf8Size = 1 := by decide
    simp [List.replicate_succ, utf8Len, ih, this]; omega

/-! ### `advanceGo` consumes exactly a prefix -/

theorem advanceGo_spec (cs : List Char) (n : Nat) (lc : Nat × Nat) (rest : List Char) (lc' : Nat × Nat)
    (h : advanceGo cs n lc = some (rest, lc')) :
    ∃ p, cs = p ++ rest ∧ utf8Len p = n ∧ lc' = p.foldl stepChar lc := by
  induction cs generalizing n lc with
  | nil =>
    cases n with
    | zero => simp [advanceGo] at h; exact ⟨[], by simp [h.1], rfl, by simp [h.2]⟩
    | succ n => simp [advanceGo] at h
  | cons c cs ih =>
    cases n with
    | zero => simp [advanceGo] at h; exact ⟨[], by simp [h.1], rfl, by simp [h.2]⟩
    | succ n =>
      simp only [advanceGo] at h
      split at h
      · rename_i hle
        obtain ⟨p, hp, hl, hlc⟩ := ih _ _ h
        refine ⟨c :: p, by simp [hp], ?_, by simp [hlc]⟩
        simp [utf8Len, hl]; omega
      · cases h

theorem advanceGo_prefix (p rest : List Char) (lc : Nat × Nat) :
    advanceGo (p ++ rest) (utf8Len p) lc = some (rest, p.foldl stepChar lc) := by
  induction p generalizing lc with
  | nil => cases rest <;> simp [utf8Len, advanceGo]
  | cons c cs ih =>
    have hpos := utf8Size_pos' c
    obtain ⟨m, hm⟩ : ∃ m, c.utf8Size + utf8Len cs = m + 1 := ⟨c.utf8Size + utf8Len cs - 1, by omega⟩
    simp only [List.cons_append, utf8Len, hm, advanceGo]
    have hle : c.utf8Size ≤ m + 1 := by omega
    rw [if_pos hle]
    have : m + 1 - c.utf8Size = utf8Len cs := by omega
    rw [this, ih]; simp

/-- two prefixes of the same text with the same byte length are the same prefix -/
theorem take_eq_of_utf8Len_eq (src : List Char) (a b : Nat) (ha : a ≤ src.length) (hb : b ≤ src.length)
    (h : utf8Len (src.take a) = utf8Len (src.take b)) : a = b := by
  induction src generalizing a b with
  | nil => simp at ha hb; omega
  | cons c cs ih =>
    cases a with
    | zero =>
      cases b with
      | zero => rfl
      | succ b => simp [utf8Len] at h; have := utf8Size_pos' c; omega
    | succ a =>
      cases b with
      | zero => simp [utf8Len] at h; have := utf8Size_pos' c; omega
      | succ b =>
        simp [utf8Len] at h ha hb
        rw [ih a b ha hb h]

end MJ.Loc
