import MJ.Proofs.JsonStr
/-! The HTML-safe alphabet of `tojson` on the *bytes* of the output (C16): what reaches the HTML
parser is the UTF-8 encoding; none of its bytes is `<`, `>`, `&` or `'`. -/
namespace MJ.Json
open MJ.Serde

theorem char_of_toNat_eq (c d : Char) (h : c.toNat = d.toNat) : c = d := by
  apply Char.ext
  apply UInt32.toNat_inj.mp
  exact h

/-- a byte of the UTF-8 encoding of a character is the character itself (ASCII) or ≥ 0x80 -/
theorem utf8EncodeChar_byte (c : Char) (b : Nat) (hb : b ∈ utf8EncodeChar c) :
    (c.toNat < 128 ∧ b = c.toNat) ∨ 128 ≤ b := by
  unfold utf8EncodeChar at hb
  simp only at hb
  split at hb
  · left; simp at hb; exact ⟨by assumption, hb⟩
  · right
    split at hb
    · simp at hb; omega
    · split at hb
      · simp at hb; omega
      · simp at hb; omega

def forbiddenBytes : List Nat := [60, 62, 38, 39]

theorem forbidden_char_of_byte (c : Char) (h : c.toNat ∈ forbiddenBytes) : c ∈ forbidden := by
  simp only [forbiddenBytes, List.mem_cons, List.not_mem_nil, or_false] at h
  simp only [forbidden, List.mem_cons, List.not_mem_nil, or_false]
  rcases h with h | h | h | h
  · left; exact char_of_toNat_eq c '<' h
  · right; left; exact char_of_toNat_eq c '>' h
  · right; right; left; exact char_of_toNat_eq c '&' h
  · right; right; right; exact char_of_toNat_eq c '\'' h

/-- post-processing with a clean, covering table: no byte of the UTF-8 output is one of `< > & '` -/
theorem postT_alphabet_bytes (t : List (Char × List Char)) (hclean : replClean t = true) (hcov : replCovers t = true)
    (s : List Char) (b : Nat) (hb : b ∈ utf8Encode (postT t s)) : b ∉ forbiddenBytes := by
  simp only [utf8Encode, List.mem_flatMap] at hb
  obtain ⟨c, hc, hbc⟩ := hb
  have hcf := postT_alphabet t hclean hcov s c hc
  rcases utf8EncodeChar_byte c b hbc with ⟨_, rfl⟩ | h128
  · exact fun hf => hcf (forbidden_char_of_byte c hf)
  · simp only [forbiddenBytes, List.mem_cons, List.not_mem_nil, or_false]
    omega

end MJ.Json
