import MJ.Model.Safe
/-! Helper lemmas for C02: `Clean`/`NoMeta` algebra, the escaper, membership lemmas of the string
algorithms ("every output character is an input character"), `Inv` of containers. -/
namespace MJ.Safe

/-- no metacharacter at all -/
def NoMeta (s : TStr) : Prop := ∀ ch ∈ s, isMeta ch.c = false

theorem NoMeta.clean {s : TStr} (h : NoMeta s) : Clean s := fun ch hm _ => h ch hm

theorem Clean.nil : Clean [] := by intro ch h; cases h
theorem NoMeta.nil : NoMeta [] := by intro ch h; cases h

theorem Clean.append {a b : TStr} (ha : Clean a) (hb : Clean b) : Clean (a ++ b) := by
  intro ch h; rcases List.mem_append.mp h with h | h
  · exact ha ch h
  · exact hb ch h

theorem NoMeta.append {a b : TStr} (ha : NoMeta a) (hb : NoMeta b) : NoMeta (a ++ b) := by
  intro ch h; rcases List.mem_append.mp h with h | h
  · exact ha ch h
  · exact hb ch h

theorem Clean.of_append_left {a b : TStr} (h : Clean (a ++ b)) : Clean a :=
  fun ch hm => h ch (List.mem_append.mpr (Or.inl hm))
theorem Clean.of_append_right {a b : TStr} (h : Clean (a ++ b)) : Clean b :=
  fun ch hm => h ch (List.mem_append.mpr (Or.inr hm))

/-- monotone in the set of characters -/
theorem Clean.mono {s t : TStr} (hs : Clean s) (h : ∀ ch ∈ t, ch ∈ s) : Clean t :=
  fun ch hm => hs ch (h ch hm)

theorem Clean.of_mem2 {a b t : TStr} (ha : Clean a) (hb : Clean b) (h : ∀ ch ∈ t, ch ∈ a ∨ ch ∈ b) :
    Clean t := by
  intro ch hm; rcases h ch hm with h | h
  · exact ha ch h
  · exact hb ch h

theorem Clean.ofTmpl (s : String) : Clean (ofTmpl s) := by
  intro ch h ht
  simp only [Safe.ofTmpl, List.mem_map] at h
  obtain ⟨c, _, rfl⟩ := h
  cases ht

theorem Clean.tmpl_cons {c : Char} {s : TStr} (h : Clean s) : Clean (⟨c, .tmpl⟩ :: s) := by
  intro ch hm ht
  rcases List.mem_cons.mp hm with rfl | hm
  · cases ht
  · exact h ch hm ht

theorem Clean.cons {c : TChar} {s : TStr} (hc : c.t = .data → isMeta c.c = false) (h : Clean s) :
    Clean (c :: s) := by
  intro ch hm ht
  rcases List.mem_cons.mp hm with rfl | hm
  · exact hc ht
  · exact h ch hm ht

theorem Clean.spaces (n : Nat) : Clean (spaces n) := by
  intro ch h ht
  simp only [Safe.spaces, List.mem_replicate] at h
  rw [h.2] at ht; cases ht

theorem Clean.flatten {ls : List TStr} (h : ∀ l ∈ ls, Clean l) : Clean ls.flatten := by
  intro ch hm
  obtain ⟨l, hl, hc⟩ := List.mem_flatten.mp hm
  exact h l hl ch hc

theorem Clean.flatMap {α : Type} {xs : List α} {f : α → TStr} (h : ∀ x ∈ xs, Clean (f x)) :
    Clean (xs.flatMap f) := by
  intro ch hm
  obtain ⟨x, hx, hc⟩ := List.mem_flatMap.mp hm
  exact h x hx ch hc

/-! ### the escaper -/

theorem isMeta_cases {c : Char} (h : isMeta c = true) : c = '<' ∨ c = '>' ∨ c = '"' ∨ c = '\'' := by
  simpa [isMeta, or_assoc] using h

/-- every metacharacter passes the range pre-filter of `HtmlEscape` and has a row in its table -/
theorem escapeOf_meta {c : Char} (h : isMeta c = true) : (escapeOf c).isSome = true := by
  rcases isMeta_cases h with rfl | rfl | rfl | rfl <;> decide

/-- every metacharacter is seen by `needs_html_escaping` -/
theorem needsChar_meta {c : Char} (h : isMeta c = true) : needsChar c = true := by
  rcases isMeta_cases h with rfl | rfl | rfl | rfl <;> decide

/-- no replacement string of the table contains a metacharacter -/
theorem table_noMeta : ∀ p ∈ Gen.htmlEscapeTable, ∀ c ∈ p.2.toList, isMeta c = false := by decide

theorem lookup_mem {c : Char} {r : String} {l : List (Char × String)} (h : l.lookup c = some r) :
    ∃ p ∈ l, p.2 = r := by
  induction l with
  | nil => simp [List.lookup] at h
  | cons p ps ih =>
    obtain ⟨a, b⟩ := p
    simp only [List.lookup] at h
    split at h
    · cases h; exact ⟨_, List.mem_cons_self, rfl⟩
    · obtain ⟨q, hq, hr⟩ := ih h
      exact ⟨q, List.mem_cons_of_mem _ hq, hr⟩

theorem htmlEscape_noMeta (s : TStr) : NoMeta (htmlEscape s) := by
  intro ch hm
  simp only [htmlEscape, List.mem_flatMap] at hm
  obtain ⟨src, _, hc⟩ := hm
  cases he : escapeOf src.c with
  | some r =>
    rw [he] at hc
    simp only [Safe.ofTmpl, List.mem_map] at hc
    obtain ⟨c, hcr, rfl⟩ := hc
    have he' := he
    unfold escapeOf at he'
    split at he'
    · obtain ⟨p, hp, rfl⟩ := lookup_mem he'
      exact table_noMeta p hp c hcr
    · cases he'
  | none =>
    rw [he] at hc
    simp only [List.mem_singleton] at hc
    subst hc
    cases hmeta : isMeta ch.c with
    | false => rfl
    | true => have := escapeOf_meta hmeta; rw [he] at this; cases this

theorem escapeStr_noMeta (s : TStr) : NoMeta (escapeStr s) := by
  unfold escapeStr
  split
  · exact htmlEscape_noMeta s
  · rename_i h
    intro ch hm
    cases hmeta : isMeta ch.c with
    | false => rfl
    | true =>
      exfalso; apply h
      simp only [needsEscaping, List.any_eq_true]
      exact ⟨ch, hm, needsChar_meta hmeta⟩

/-! ### scalars -/

theorem digit_noMeta : ∀ d, d < 10 → isMeta (Char.ofNat (48 + d)) = false := by decide

theorem natDigits_noMeta (n : Nat) : ∀ c ∈ natDigits n, isMeta c = false := by
  induction n using Nat.strongRecOn with
  | _ n ih =>
    intro c hc
    unfold natDigits at hc
    split at hc
    · simp only [List.mem_singleton] at hc; subst hc; exact digit_noMeta n (by assumption)
    · rcases List.mem_append.mp hc with h | h
      · exact ih (n / 10) (by omega) c h
      · simp only [List.mem_singleton] at h; subst h; exact digit_noMeta (n % 10) (by omega)

theorem intChars_noMeta (n : Int) : ∀ c ∈ intChars n, isMeta c = false := by
  intro c hc
  unfold intChars at hc
  split at hc
  · rcases List.mem_cons.mp hc with rfl | h
    · decide
    · exact natDigits_noMeta _ c h
  · exact natDigits_noMeta _ c hc

theorem ofDataL_noMeta {cs : List Char} (h : ∀ c ∈ cs, isMeta c = false) : NoMeta (ofDataL cs) := by
  intro ch hm
  simp only [ofDataL, List.mem_map] at hm
  obtain ⟨c, hc, rfl⟩ := hm
  exact h c hc

theorem ofData_noMeta {s : String} (h : ∀ c ∈ s.toList, isMeta c = false) : NoMeta (ofData s) := by
  intro ch hm
  simp only [ofData, List.mem_map] at hm
  obtain ⟨c, hc, rfl⟩ := hm
  exact h c hc

/-! ### membership lemmas of the string algorithms -/

theorem mem_replaceGo {pat to : TStr} {ch : TChar} :
    ∀ (s : TStr) (k : Nat), ch ∈ replaceGo pat to k s → ch ∈ s ∨ ch ∈ to := by
  intro s
  induction s with
  | nil => intro k h; cases k <;> simp [replaceGo] at h
  | cons c rest ih =>
    intro k h
    cases k with
    | succ k =>
      simp only [replaceGo] at h
      rcases ih k h with h | h
      · exact Or.inl (List.mem_cons_of_mem _ h)
      · exact Or.inr h
    | zero =>
      simp only [replaceGo] at h
      split at h
      · rcases List.mem_append.mp h with h | h
        · exact Or.inr h
        · rcases ih _ h with h | h
          · exact Or.inl (List.mem_cons_of_mem _ h)
          · exact Or.inr h
      · rcases List.mem_cons.mp h with rfl | h
        · exact Or.inl List.mem_cons_self
        · rcases ih _ h with h | h
          · exact Or.inl (List.mem_cons_of_mem _ h)
          · exact Or.inr h

theorem mem_replaceAll {s pat to : TStr} {ch : TChar} (h : ch ∈ replaceAll s pat to) :
    ch ∈ s ∨ ch ∈ to := by
  unfold replaceAll at h
  split at h
  · rcases List.mem_append.mp h with h | h
    · exact Or.inr h
    · obtain ⟨c, hc, hm⟩ := List.mem_flatMap.mp h
      rcases List.mem_cons.mp hm with rfl | hm
      · exact Or.inl hc
      · exact Or.inr hm
  · exact mem_replaceGo s 0 h

theorem mem_splitGo {sep : TStr} {ch : TChar} :
    ∀ (s cur : TStr) (left k : Nat) (p : TStr), p ∈ splitGo sep left k cur s → ch ∈ p → ch ∈ cur ∨ ch ∈ s := by
  intro s
  induction s with
  | nil =>
    intro cur left k p hp hc
    cases k <;> simp only [splitGo, List.mem_singleton] at hp <;> subst hp <;> exact Or.inl hc
  | cons c rest ih =>
    intro cur left k p hp hc
    cases k with
    | succ k =>
      simp only [splitGo] at hp
      rcases ih cur left k p hp hc with h | h
      · exact Or.inl h
      · exact Or.inr (List.mem_cons_of_mem _ h)
    | zero =>
      simp only [splitGo] at hp
      split at hp
      · rcases List.mem_cons.mp hp with rfl | hp
        · exact Or.inl hc
        · rcases ih [] _ _ p hp hc with h | h
          · cases h
          · exact Or.inr (List.mem_cons_of_mem _ h)
      · rcases ih _ _ _ p hp hc with h | h
        · rcases List.mem_append.mp h with h | h
          · exact Or.inl h
          · simp only [List.mem_singleton] at h; subst h; exact Or.inr List.mem_cons_self
        · exact Or.inr (List.mem_cons_of_mem _ h)

theorem mem_splitWsGo {ch : TChar} :
    ∀ (s cur : TStr) (p : TStr), p ∈ splitWsGo cur s → ch ∈ p → ch ∈ cur ∨ ch ∈ s := by
  intro s
  induction s with
  | nil =>
    intro cur p hp hc
    simp only [splitWsGo] at hp
    split at hp
    · cases hp
    · simp only [List.mem_singleton] at hp; subst hp; exact Or.inl hc
  | cons c rest ih =>
    intro cur p hp hc
    simp only [splitWsGo] at hp
    split at hp
    · split at hp
      · rcases ih [] p hp hc with h | h
        · cases h
        · exact Or.inr (List.mem_cons_of_mem _ h)
      · rcases List.mem_cons.mp hp with rfl | hp
        · exact Or.inl hc
        · rcases ih [] p hp hc with h | h
          · cases h
          · exact Or.inr (List.mem_cons_of_mem _ h)
    · rcases ih _ p hp hc with h | h
      · rcases List.mem_append.mp h with h | h
        · exact Or.inl h
        · simp only [List.mem_singleton] at h; subst h; exact Or.inr List.mem_cons_self
      · exact Or.inr (List.mem_cons_of_mem _ h)

theorem mem_splitNl {ch : TChar} :
    ∀ (s cur : TStr) (p : TStr), p ∈ splitNl cur s → ch ∈ p → ch ∈ cur ∨ ch ∈ s := by
  intro s
  induction s with
  | nil =>
    intro cur p hp hc
    simp only [splitNl, List.mem_singleton] at hp; subst hp; exact Or.inl hc
  | cons c rest ih =>
    intro cur p hp hc
    simp only [splitNl] at hp
    split at hp
    · rcases List.mem_cons.mp hp with rfl | hp
      · exact Or.inl hc
      · rcases ih [] p hp hc with h | h
        · cases h
        · exact Or.inr (List.mem_cons_of_mem _ h)
    · rcases ih _ p hp hc with h | h
      · rcases List.mem_append.mp h with h | h
        · exact Or.inl h
        · simp only [List.mem_singleton] at h; subst h; exact Or.inr List.mem_cons_self
      · exact Or.inr (List.mem_cons_of_mem _ h)

theorem mem_dropWhile {α : Type} {p : α → Bool} {a : α} : ∀ {l : List α}, a ∈ l.dropWhile p → a ∈ l := by
  intro l
  induction l with
  | nil => intro h; simp at h
  | cons x xs ih =>
    intro h
    simp only [List.dropWhile] at h
    split at h
    · exact List.mem_cons_of_mem _ (ih h)
    · exact h

theorem mem_takeWhile {α : Type} {p : α → Bool} {a : α} : ∀ {l : List α}, a ∈ l.takeWhile p → a ∈ l := by
  intro l
  induction l with
  | nil => intro h; simp at h
  | cons x xs ih =>
    intro h
    simp only [List.takeWhile] at h
    split at h
    · rcases List.mem_cons.mp h with rfl | h
      · exact List.mem_cons_self
      · exact List.mem_cons_of_mem _ (ih h)
    · cases h

theorem mem_stripLast {c0 : Char} {l : TStr} {ch : TChar} (h : ch ∈ stripLast c0 l) : ch ∈ l := by
  unfold stripLast at h
  split at h
  · rename_i c r hr
    split at h
    · have : ch ∈ l.reverse := by rw [hr]; exact List.mem_cons_of_mem _ (List.mem_reverse.mp h)
      exact List.mem_reverse.mp this
    · exact h
  · exact h

theorem mem_stripCr {l : TStr} {ch : TChar} (h : ch ∈ stripCr l) : ch ∈ l := mem_stripLast h

theorem mem_linesOf {s p : TStr} {ch : TChar} (hp : p ∈ linesOf s) (hc : ch ∈ p) : ch ∈ s := by
  have key : ∀ q ∈ splitNl [] s, ∀ x ∈ q, x ∈ s := by
    intro q hq x hx
    rcases mem_splitNl s [] q hq hx with h | h
    · cases h
    · exact h
  unfold linesOf at hp
  simp only at hp
  split at hp
  · rename_i last r hr
    have hsub : ∀ q, q ∈ last :: r → q ∈ splitNl [] s := by
      intro q hq
      have : q ∈ (splitNl [] s).reverse := by rw [hr]; exact hq
      exact List.mem_reverse.mp this
    split at hp
    · simp only [List.mem_map, List.mem_reverse] at hp
      obtain ⟨q, hq, rfl⟩ := hp
      exact key q (hsub q (List.mem_cons_of_mem _ hq)) ch (mem_stripCr hc)
    · simp only [List.mem_reverse, List.mem_cons, List.mem_map] at hp
      rcases hp with rfl | ⟨q, hq, rfl⟩
      · exact key _ (hsub _ List.mem_cons_self) ch hc
      · exact key q (hsub q (List.mem_cons_of_mem _ hq)) ch (mem_stripCr hc)
  · cases hp

theorem mem_trimBy {p : Char → Bool} {s : TStr} {ch : TChar} (h : ch ∈ trimBy p s) : ch ∈ s := by
  unfold trimBy at h
  exact mem_dropWhile (List.mem_reverse.mp (mem_dropWhile (List.mem_reverse.mp h)))

theorem mem_stripTrailingNl {s : TStr} {ch : TChar} (h : ch ∈ stripTrailingNl s) : ch ∈ s :=
  mem_stripLast (mem_stripLast h)

/-- `indent` only adds engine text (spaces, newlines) -/
theorem clean_indentStr {s : TStr} (w : Nat) (first blank : Bool) (hs : Clean s) :
    Clean (indentStr s w first blank) := by
  have hin : Clean (stripTrailingNl s) := hs.mono fun ch h => mem_stripTrailingNl h
  have hl : ∀ l ∈ splitNl [] (stripTrailingNl s), Clean l := by
    intro l hl
    apply hin.mono
    intro ch hc
    rcases mem_splitNl _ [] l hl hc with h | h
    · cases h
    · exact h
  have hnl : Clean [nl] := by intro ch h ht; simp only [List.mem_singleton] at h; subst h; cases ht
  have hind : ∀ l, Clean l → Clean ((if l.isEmpty then (if blank then spaces w else []) else spaces w ++ l) ++ [nl]) := by
    intro l hl
    apply Clean.append _ hnl
    split
    · split
      · exact Clean.spaces w
      · exact Clean.nil
    · exact (Clean.spaces w).append hl
  unfold indentStr
  simp only
  apply Clean.mono _ (fun ch h => mem_stripTrailingNl h)
  split
  · rename_i l rest heq
    have hl' : ∀ q ∈ l :: rest, Clean q := by intro q hq; apply hl; rw [heq]; exact hq
    apply Clean.append
    · exact (hl' l List.mem_cons_self).append hnl
    · apply Clean.flatMap
      intro q hq
      exact hind q (hl' q (List.mem_cons_of_mem _ hq))
  · apply Clean.flatMap
    intro q hq
    exact hind q (hl q hq)

/-- a character map that creates no metacharacter (the image of a non-metacharacter is free of
    metacharacters) -/
def MetaReflecting (f : Char → List Char) : Prop := ∀ c, ∀ d ∈ f c, isMeta d = true → isMeta c = true

theorem clean_mapChars {f : Char → List Char} (hf : MetaReflecting f) {s : TStr} (hs : Clean s) :
    Clean (mapChars f s) := by
  intro ch hm ht
  simp only [mapChars, List.mem_flatMap, List.mem_map] at hm
  obtain ⟨src, hsrc, d, hd, rfl⟩ := hm
  cases hmeta : isMeta d with
  | false => rfl
  | true =>
    have h1 := hf src.c d hd hmeta
    have h2 := hs src hsrc ht
    rw [h1] at h2; cases h2

theorem isMeta_lt (c : Char) (h : isMeta c = true) : c.toNat = 60 ∨ c.toNat = 62 ∨ c.toNat = 34 ∨ c.toNat = 39 := by
  rcases isMeta_cases h with rfl | rfl | rfl | rfl <;> decide

theorem isMeta_ofNat_false (n : Nat) (h : n ≠ 60 ∧ n ≠ 62 ∧ n ≠ 34 ∧ n ≠ 39)
    (hv : n.isValidChar) : isMeta (Char.ofNat n) = false := by
  cases hm : isMeta (Char.ofNat n) with
  | false => rfl
  | true =>
    have := isMeta_lt _ hm
    have e : (Char.ofNat n).toNat = n := by
      simp [Char.ofNat, hv, Char.toNat, Char.ofNatAux]
    omega

end MJ.Safe
