import MJ.Model.Cmp
/-!
# `Value::cmp` is `compare` on an explicit, linearly ordered key

`key : V → List Tok` flattens a value into a token list such that the engine's comparison is the
lexicographic comparison of the token lists (`cmpK`).  `Tok.cmp` compares four plain fields
lexicographically, so `cmpK` is a lawful total preorder by the library instances
(`Std.TransCmp` for `compareLex`, `compareOn`, `List.compareLex`); the order laws of `cmpV` are
corollaries.

The numeric part is a parameter here: `NumSpec P` says that on numbers satisfying `P` the engine's
numeric comparison `cmpN` is `compare` on `numKey` (the exact value scaled by `2^1074`).
-/
namespace MJ.CmpKey
open MJ MJ.Val MJ.Cmp MJ.F64 Std

/-! ## tokens -/

structure Tok where
  rank : Nat
  sub : Nat
  num : Int
  str : List Nat
  deriving Repr

def Tok.cmp : Tok → Tok → Ordering :=
  compareLex (compareOn (·.rank))
    (compareLex (compareOn (·.sub)) (compareLex (compareOn (·.num)) (compareOn (·.str))))

instance : TransCmp Tok.cmp := by unfold Tok.cmp; infer_instance
instance : ReflCmp Tok.cmp := by unfold Tok.cmp; infer_instance

theorem Tok.cmp_def (a b : Tok) :
    Tok.cmp a b = (compare a.rank b.rank).then ((compare a.sub b.sub).then
      ((compare a.num b.num).then (compare a.str b.str))) := rfl

/-- the key type: token lists under the lexicographic order -/
abbrev K := List Tok
def cmpK : K → K → Ordering := List.compareLex Tok.cmp

instance : TransCmp cmpK := by unfold cmpK; infer_instance
instance : ReflCmp cmpK := by unfold cmpK; infer_instance

/-- closes a sequence; smaller than the first token of any value -/
def endTok : Tok := ⟨0, 0, 0, []⟩

/-! ## the key of a value -/

/-- the exact value of a number times `2^1074` (floats: continued through ±inf and the NaNs in
    `total_cmp` order) -/
def numKey : N → Int
  | .f64 b => key b
  | n => n.int * (scale : Int)

/-- first token: kind slot, then what the kind compares first -/
def hd (v : V) : Tok :=
  match v with
  | .bool b => ⟨v.rank + 1, 0, (boolN b).int, []⟩
  | .num n => ⟨v.rank + 1, 0, numKey n, []⟩
  | .str s => ⟨v.rank + 1, 0, 0, s⟩
  | .bytes s => ⟨v.rank + 1, 0, 0, s⟩
  | .plain s => ⟨v.rank + 1, 0, 0, s⟩
  | .tuple _ => ⟨v.rank + 1, 1, 0, []⟩
  | _ => ⟨v.rank + 1, 0, 0, []⟩

mutual
def tl : V → K
  | .seq xs => keyL xs
  | .tuple xs => keyL xs
  | .iter xs => keyL xs
  | .map ps => keyPL ps
  | _ => []
def keyL : List V → K
  | [] => [endTok]
  | x :: xs => hd x :: (tl x ++ keyL xs)
def keyPL : List (V × V) → K
  | [] => [endTok]
  | (k, v) :: ps => hd k :: (tl k ++ (hd v :: (tl v ++ keyPL ps)))
end

def key (v : V) : K := hd v :: tl v

/-! ## kind slots are injective on the classes of values (from the regenerated table) -/

inductive Cls where
  | undef | none | bool | num | str | bytes | seq | map | plain
  deriving DecidableEq, Repr

def cls : V → Cls
  | .undef => .undef
  | .none => .none
  | .bool _ => .bool
  | .num _ => .num
  | .str _ => .str
  | .bytes _ => .bytes
  | .seq _ => .seq
  | .tuple _ => .seq
  | .iter _ => .seq
  | .map _ => .map
  | .plain _ => .plain

def Cls.rank : Cls → Nat
  | .undef => kindRank (cmpKindName "Undefined")
  | .none => kindRank (cmpKindName "None")
  | .bool => kindRank (cmpKindName "Bool")
  | .num => kindRank (cmpKindName "Number")
  | .str => kindRank (cmpKindName "String")
  | .bytes => kindRank (cmpKindName "Bytes")
  | .seq => kindRank (cmpKindName "Seq")
  | .map => kindRank (cmpKindName "Map")
  | .plain => kindRank (cmpKindName "Plain")

theorem rank_cls (v : V) : v.rank = (cls v).rank := by
  cases v <;> first | rfl | decide

theorem Cls.rank_inj : ∀ c d : Cls, c.rank = d.rank → c = d := by
  intro c d; cases c <;> cases d <;> decide

theorem cls_eq_of_rank_eq {a b : V} (h : a.rank = b.rank) : cls a = cls b :=
  Cls.rank_inj _ _ (by rw [← rank_cls, ← rank_cls]; exact h)

/-! ## the numeric parameter -/

/-- on numbers satisfying `P`, `cmpN` is `compare` on the exact scaled values -/
def NumSpec (P : N → Prop) : Prop :=
  ∀ x y : N, P x → P y → cmpN x y = compare (numKey x) (numKey y)

mutual
/-- every number inside the value satisfies `P` -/
def AllNum (P : N → Prop) : V → Prop
  | .num n => P n
  | .seq xs => AllNumL P xs
  | .tuple xs => AllNumL P xs
  | .iter xs => AllNumL P xs
  | .map ps => AllNumPL P ps
  | _ => True
def AllNumL (P : N → Prop) : List V → Prop
  | [] => True
  | x :: xs => AllNum P x ∧ AllNumL P xs
def AllNumPL (P : N → Prop) : List (V × V) → Prop
  | [] => True
  | (k, v) :: ps => AllNum P k ∧ AllNum P v ∧ AllNumPL P ps
end

/-! ## refinement -/

theorem then_of_ne_eq {o p : Ordering} (h : o ≠ .eq) : o.then p = o := by
  cases o <;> simp_all [Ordering.then]

theorem compare_succ (a b : Nat) : compare (a + 1) (b + 1) = compare a b := by
  simp only [Nat.compare_eq_ite_lt]
  by_cases h1 : a < b
  · simp [h1]
  · by_cases h2 : b < a <;> simp [h1, h2]

theorem hd_rank (v : V) : (hd v).rank = v.rank + 1 := by
  cases v <;> rfl

theorem endTok_lt_hd (v : V) : Tok.cmp endTok (hd v) = .lt := by
  rw [Tok.cmp_def, hd_rank]
  have : compare endTok.rank (v.rank + 1) = .lt := by
    simp [endTok, Nat.compare_eq_lt]
  rw [this]; rfl

theorem hd_gt_endTok (v : V) : Tok.cmp (hd v) endTok = .gt := by
  rw [Tok.cmp_def, hd_rank]
  have : compare (v.rank + 1) endTok.rank = .gt := by
    simp [endTok, Nat.compare_eq_gt]
  rw [this]; rfl

/-- when the kind slots differ the first tokens decide -/
theorem hd_cmp_of_rank_ne {a b : V} (h : a.rank ≠ b.rank) :
    Tok.cmp (hd a) (hd b) = compare a.rank b.rank ∧ compare a.rank b.rank ≠ .eq := by
  have hne : compare a.rank b.rank ≠ .eq := by
    intro hc; exact h (Nat.compare_eq_eq.mp hc)
  refine ⟨?_, hne⟩
  rw [Tok.cmp_def, hd_rank, hd_rank, compare_succ, then_of_ne_eq hne]

theorem compare_list_nat (x y : List Nat) : compare x y = cmpBytes x y := rfl

section
variable {P : N → Prop} (hN : NumSpec P)
include hN

mutual
theorem key_spec (a b : V) (ha : AllNum P a) (hb : AllNum P b) (r1 r2 : K) :
    cmpK (hd a :: (tl a ++ r1)) (hd b :: (tl b ++ r2)) = (cmpV a b).then (cmpK r1 r2) := by
  unfold cmpK
  rw [List.compareLex_cons_cons]
  by_cases hr : a.rank = b.rank
  · have hc := cls_eq_of_rank_eq hr
    rw [Tok.cmp_def, hd_rank, hd_rank, hr]
    have hrefl : compare (b.rank + 1) (b.rank + 1) = .eq := by simp
    rw [hrefl]
    cases a <;> cases b <;> simp only [cls, reduceCtorEq] at hc <;>
      simp only [cmpV, hr, ne_eq, not_true_eq_false, if_false, hd, tl, Ordering.eq_then, List.nil_append]
    -- undef, none
    · simp
    · simp
    -- bool
    · simp [Ordering.then_eq]
    -- num
    · rename_i x y
      simp only [AllNum] at ha hb
      rw [hN x y ha hb]
      simp [Ordering.then_eq]
    -- str, bytes
    · simp [compare_list_nat]
    · simp [compare_list_nat]
    -- seq / tuple / iter in all combinations
    all_goals first
      | (rename_i xs ys
         simp only [AllNum] at ha hb
         first
          | (simpa [cmpK] using keyL_spec xs ys ha hb r1 r2)
          | (simpa [cmpK] using keyPL_spec xs ys ha hb r1 r2))
      | (simp [compare_list_nat]; done)
      | (have h01 : compare (0:Nat) 1 = .lt := by decide
         have h10 : compare (1:Nat) 0 = .gt := by decide
         simp [h01, h10]; done)
  · obtain ⟨h1, h2⟩ := hd_cmp_of_rank_ne hr
    rw [h1, then_of_ne_eq h2]
    rw [cmpV.eq_def]
    simp [hr, then_of_ne_eq h2]

theorem keyL_spec (xs ys : List V) (ha : AllNumL P xs) (hb : AllNumL P ys) (r1 r2 : K) :
    cmpK (keyL xs ++ r1) (keyL ys ++ r2) = (cmpL xs ys).then (cmpK r1 r2) := by
  cases xs with
  | nil =>
    cases ys with
    | nil =>
      simp [keyL, cmpL, cmpK, List.compareLex_cons_cons, ReflCmp.compare_self]
    | cons y ys =>
      simp [keyL, cmpL, cmpK, List.compareLex_cons_cons, endTok_lt_hd]
  | cons x xs =>
    cases ys with
    | nil =>
      simp [keyL, cmpL, cmpK, List.compareLex_cons_cons, hd_gt_endTok]
    | cons y ys =>
      simp only [AllNumL] at ha hb
      have h1 := key_spec x y ha.1 hb.1 (keyL xs ++ r1) (keyL ys ++ r2)
      have h2 := keyL_spec xs ys ha.2 hb.2 r1 r2
      simp only [keyL, cmpL, List.cons_append, List.append_assoc]
      rw [h1, h2, Ordering.then_assoc]

theorem keyPL_spec (ps qs : List (V × V)) (ha : AllNumPL P ps) (hb : AllNumPL P qs) (r1 r2 : K) :
    cmpK (keyPL ps ++ r1) (keyPL qs ++ r2) = (cmpPL ps qs).then (cmpK r1 r2) := by
  cases ps with
  | nil =>
    cases qs with
    | nil =>
      simp [keyPL, cmpPL, cmpK, List.compareLex_cons_cons, ReflCmp.compare_self]
    | cons q qs =>
      obtain ⟨k', v'⟩ := q
      simp [keyPL, cmpPL, cmpK, List.compareLex_cons_cons, endTok_lt_hd]
  | cons p ps =>
    obtain ⟨k, v⟩ := p
    cases qs with
    | nil =>
      simp [keyPL, cmpPL, cmpK, List.compareLex_cons_cons, hd_gt_endTok]
    | cons q qs =>
      obtain ⟨k', v'⟩ := q
      simp only [AllNumPL] at ha hb
      have h1 := key_spec k k' ha.1 hb.1 (hd v :: (tl v ++ (keyPL ps ++ r1))) (hd v' :: (tl v' ++ (keyPL qs ++ r2)))
      have h2 := key_spec v v' ha.2.1 hb.2.1 (keyPL ps ++ r1) (keyPL qs ++ r2)
      have h3 := keyPL_spec ps qs ha.2.2 hb.2.2 r1 r2
      simp only [keyPL, cmpPL, List.cons_append, List.append_assoc]
      rw [h1, h2, h3, Ordering.then_assoc, Ordering.then_assoc]
end

/-- `Value::cmp` is `compare` on the keys -/
theorem cmpV_eq_cmpK (a b : V) (ha : AllNum P a) (hb : AllNum P b) :
    cmpV a b = cmpK (key a) (key b) := by
  have h := key_spec hN a b ha hb [] []
  simp only [List.append_nil] at h
  unfold key
  rw [h]
  have : cmpK [] [] = .eq := rfl
  rw [this]
  cases cmpV a b <;> rfl

end

end MJ.CmpKey
