import MJ.Proofs.CmpF64Round
import MJ.Model.Value
/-!
# Signed conversions: `x as f64` for integers, `f as <int>` (saturating), `trunc`
-/
namespace MJ.F64

/-- the exact value of `x as f64` for an integer -/
def rndI (x : Int) : Int := if x < 0 then -(rnd x.natAbs : Int) else (rnd x.natAbs : Int)

theorem sign_of_lt {m : Nat} (h : m < P63) : sign m = false ∧ mag m = m := by
  unfold sign mag
  have : m % P64 = m := Nat.mod_eq_of_lt (by unfold P63 P64 at *; omega)
  rw [this, Nat.mod_eq_of_lt h]
  simp; omega

theorem sign_of_neg {m : Nat} (h : m < P63) : sign (P63 + m) = true ∧ mag (P63 + m) = m := by
  unfold sign mag
  have : (P63 + m) % P64 = P63 + m := Nat.mod_eq_of_lt (by unfold P63 P64 at *; omega)
  rw [this]
  have h2 : (P63 + m) % P63 = m := by
    rw [Nat.add_mod, Nat.mod_self, Nat.zero_add, Nat.mod_mod, Nat.mod_eq_of_lt h]
  rw [h2]; simp

theorem infMag_lt_P63 : infMag < P63 := by decide

/-- `x as f64` is a finite float whose value is `rndI x` -/
theorem ofInt_spec (x : Int) (hx : x.natAbs.log2 < 1000) :
    isNaN (ofInt x) = false ∧ isFinite (ofInt x) = true ∧ key (ofInt x) = rndI x * (scale : Int) := by
  obtain ⟨h1, h2⟩ := ofNat_spec x.natAbs hx
  have hlt : ofNat x.natAbs < P63 := Nat.lt_trans h1 infMag_lt_P63
  unfold ofInt rndI
  by_cases hneg : x < 0
  · rw [if_pos hneg, if_pos hneg]
    obtain ⟨s1, s2⟩ := sign_of_neg hlt
    refine ⟨?_, ?_, ?_⟩
    · unfold isNaN; rw [s2]; simp; omega
    · unfold isFinite; rw [s2]; simp; exact h1
    · unfold key scaled; rw [s1, s2, h2]; simp [Int.neg_mul]
  · rw [if_neg hneg, if_neg hneg]
    obtain ⟨s1, s2⟩ := sign_of_lt hlt
    refine ⟨?_, ?_, ?_⟩
    · unfold isNaN; rw [s2]; simp; omega
    · unfold isFinite; rw [s2]; simp; exact h1
    · unfold key scaled; rw [s1, s2, h2]; simp

/-- no float lies strictly between an integer and its rounding (signed) -/
theorem rndI_above (x : Int) (b : Nat) (h : x * (scale : Int) ≤ key b) : rndI x * (scale : Int) ≤ key b := by
  have sp : (0 : Int) < (scale : Int) := by have := scale_pos'; omega
  unfold rndI key scaled at *
  by_cases hneg : x < 0
  · rw [if_pos hneg]
    by_cases hs : sign b = true
    · rw [if_pos hs] at h ⊢
      -- scaled ≤ |x| scale → scaled ≤ rnd |x| scale
      have h' : scaledOfMag (mag b) ≤ x.natAbs * scale := by
        have : ((scaledOfMag (mag b) : Nat) : Int) ≤ ((x.natAbs * scale : Nat) : Int) := by
          rw [Int.natCast_mul]
          have : (x.natAbs : Int) = -x := by omega
          rw [this, Int.neg_mul]; omega
        exact Int.ofNat_le.mp this
      have := rnd_below x.natAbs (mag b) h'
      have : ((scaledOfMag (mag b) : Nat) : Int) ≤ ((rnd x.natAbs * scale : Nat) : Int) := Int.ofNat_le.mpr this
      rw [Int.natCast_mul] at this
      rw [Int.neg_mul]; omega
    · rw [if_neg hs] at h ⊢
      have : (0 : Int) ≤ (rnd x.natAbs : Int) * (scale : Int) := Int.mul_nonneg (by omega) (by omega)
      rw [Int.neg_mul]; omega
  · rw [if_neg hneg]
    have hx : x = (x.natAbs : Int) := by omega
    by_cases hs : sign b = true
    · rw [if_pos hs] at h ⊢
      -- -scaled ≥ x scale ≥ 0 forces both to be 0
      have h0 : (0 : Int) ≤ x * (scale : Int) := Int.mul_nonneg (by omega) (by omega)
      have hx0 : x = 0 := by
        by_cases hz : x = 0
        · exact hz
        · have : (0 : Int) < x * (scale : Int) := Int.mul_pos (by omega) sp
          omega
      subst hx0
      simp [rnd] at h ⊢; omega
    · rw [if_neg hs] at h ⊢
      have h' : x.natAbs * scale ≤ scaledOfMag (mag b) := by
        have : ((x.natAbs * scale : Nat) : Int) ≤ ((scaledOfMag (mag b) : Nat) : Int) := by
          rw [Int.natCast_mul, ← hx]; exact h
        exact Int.ofNat_le.mp this
      have := rnd_above x.natAbs (mag b) h'
      have : ((rnd x.natAbs * scale : Nat) : Int) ≤ ((scaledOfMag (mag b) : Nat) : Int) := Int.ofNat_le.mpr this
      rw [Int.natCast_mul] at this
      exact this

theorem rndI_below (x : Int) (b : Nat) (h : key b ≤ x * (scale : Int)) : key b ≤ rndI x * (scale : Int) := by
  have sp : (0 : Int) < (scale : Int) := by have := scale_pos'; omega
  unfold rndI key scaled at *
  by_cases hneg : x < 0
  · rw [if_pos hneg]
    by_cases hs : sign b = true
    · rw [if_pos hs] at h ⊢
      have h' : x.natAbs * scale ≤ scaledOfMag (mag b) := by
        have : ((x.natAbs * scale : Nat) : Int) ≤ ((scaledOfMag (mag b) : Nat) : Int) := by
          rw [Int.natCast_mul]
          have : (x.natAbs : Int) = -x := by omega
          rw [this, Int.neg_mul]; omega
        exact Int.ofNat_le.mp this
      have := rnd_above x.natAbs (mag b) h'
      have : ((rnd x.natAbs * scale : Nat) : Int) ≤ ((scaledOfMag (mag b) : Nat) : Int) := Int.ofNat_le.mpr this
      rw [Int.natCast_mul] at this
      rw [Int.neg_mul]; omega
    · rw [if_neg hs] at h ⊢
      -- scaled ≤ x scale < 0: impossible
      have : x * (scale : Int) < 0 := Int.mul_neg_of_neg_of_pos hneg sp
      omega
  · rw [if_neg hneg]
    have hx : x = (x.natAbs : Int) := by omega
    by_cases hs : sign b = true
    · rw [if_pos hs] at h ⊢
      have : (0 : Int) ≤ (rnd x.natAbs : Int) * (scale : Int) := Int.mul_nonneg (by omega) (by omega)
      omega
    · rw [if_neg hs] at h ⊢
      have h' : scaledOfMag (mag b) ≤ x.natAbs * scale := by
        have : ((scaledOfMag (mag b) : Nat) : Int) ≤ ((x.natAbs * scale : Nat) : Int) := by
          rw [Int.natCast_mul, ← hx]; exact h
        exact Int.ofNat_le.mp this
      have := rnd_below x.natAbs (mag b) h'
      have : ((scaledOfMag (mag b) : Nat) : Int) ≤ ((rnd x.natAbs * scale : Nat) : Int) := Int.ofNat_le.mpr this
      rw [Int.natCast_mul] at this
      exact this

theorem log2_small (n : Nat) (h : n < 2 ^ 129) : n.log2 < 1000 := by
  by_cases h0 : n = 0
  · subst h0; decide
  · have := (Nat.log2_lt (k := 129) h0).mpr h
    omega

theorem int_scale_pos : (0 : Int) < (scale : Int) := by have := scale_pos'; omega

theorem mul_scale_lt {a b : Int} : a * (scale : Int) < b * (scale : Int) ↔ a < b :=
  ⟨fun h => Int.lt_of_mul_lt_mul_right h (Int.le_of_lt int_scale_pos),
   fun h => Int.mul_lt_mul_of_pos_right h int_scale_pos⟩

theorem mul_scale_le {a b : Int} : a * (scale : Int) ≤ b * (scale : Int) ↔ a ≤ b :=
  ⟨fun h => Int.le_of_mul_le_mul_right h int_scale_pos,
   fun h => Int.mul_le_mul_of_nonneg_right h (Int.le_of_lt int_scale_pos)⟩

theorem mul_scale_inj {a b : Int} (h : a * (scale : Int) = b * (scale : Int)) : a = b := by
  have h1 := mul_scale_le.mp (Int.le_of_eq h)
  have h2 := mul_scale_le.mp (Int.le_of_eq h.symm)
  omega

/-- `trunc` of a float whose value is the integer `z` -/
theorem truncInt_of_int_valued (b : Nat) (z : Int) (h : key b = z * (scale : Int)) : truncInt b = z := by
  unfold truncInt
  unfold key at h
  have sp := scale_pos'
  by_cases hs : sign b = true
  · rw [if_pos hs] at h ⊢
    have hz : z ≤ 0 := by
      apply Int.not_lt.mp; intro hz
      have : (0 : Int) < z * (scale : Int) := Int.mul_pos hz int_scale_pos
      omega
    have : scaled b = z.natAbs * scale := by
      have : ((scaled b : Nat) : Int) = ((z.natAbs * scale : Nat) : Int) := by
        rw [Int.natCast_mul]
        have : (z.natAbs : Int) = -z := by omega
        rw [this, Int.neg_mul]; omega
      exact Int.ofNat_inj.mp this
    rw [this, Nat.mul_div_cancel _ sp]; omega
  · rw [if_neg hs] at h ⊢
    have hz : 0 ≤ z := by
      apply Int.not_lt.mp; intro hz
      have : z * (scale : Int) < 0 := Int.mul_neg_of_neg_of_pos hz int_scale_pos
      omega
    have : scaled b = z.natAbs * scale := by
      have : ((scaled b : Nat) : Int) = ((z.natAbs * scale : Nat) : Int) := by
        rw [Int.natCast_mul]
        have : (z.natAbs : Int) = z := by omega
        rw [this]; exact h
      exact Int.ofNat_inj.mp this
    rw [this, Nat.mul_div_cancel _ sp]; omega

/-- the saturating cast of a finite float whose value is the integer `z` -/
theorem castInt_of_int_valued (lo hi : Int) (b : Nat) (z : Int) (hn : isNaN b = false)
    (hf : isFinite b = true) (h : key b = z * (scale : Int)) :
    castInt lo hi b = if z < lo then lo else if hi < z then hi else z := by
  unfold castInt
  rw [hn, hf, truncInt_of_int_valued b z h]
  simp

/-- the `checked!` round trip succeeds only for exactly representable integers -/
theorem checked_exact (x lo hi : Int) (hx : x.natAbs.log2 < 1000) (hh : hi.natAbs.log2 < 1000)
    (hlo : rndI lo = lo) (rv : Nat) (h : MJ.Val.checkedF64 x lo hi false = some rv) :
    rv = ofInt x ∧ key rv = x * (scale : Int) := by
  unfold MJ.Val.checkedF64 at h
  simp only [Bool.false_or] at h
  obtain ⟨n1, f1, k1⟩ := ofInt_spec x hx
  obtain ⟨n2, _, k2⟩ := ofInt_spec hi hh
  by_cases hc : (flt (ofInt x) (ofInt hi) && decide (castInt lo hi (ofInt x) = x)) = true
  · rw [if_pos hc] at h
    cases h
    refine ⟨rfl, ?_⟩
    simp only [Bool.and_eq_true, decide_eq_true_eq] at hc
    obtain ⟨hflt, hcast⟩ := hc
    unfold flt at hflt
    simp only [n1, n2, Bool.not_false, Bool.true_and, decide_eq_true_eq] at hflt
    rw [k1, k2, mul_scale_lt] at hflt
    rw [castInt_of_int_valued lo hi (ofInt x) (rndI x) n1 f1 k1] at hcast
    rw [k1]
    congr 1
    by_cases c1 : rndI x < lo
    · rw [if_pos c1] at hcast
      rw [← hcast, hlo] at c1; omega
    · rw [if_neg c1] at hcast
      by_cases c2 : hi < rndI x
      · rw [if_pos c2] at hcast
        rw [← hcast] at hflt; omega
      · rw [if_neg c2] at hcast; exact hcast
  · rw [if_neg hc] at h; cases h

/-- … and it does succeed for them -/
theorem checked_of_exact (x lo hi : Int) (hx : x.natAbs.log2 < 1000) (hh : hi.natAbs.log2 < 1000)
    (hrange : lo ≤ x ∧ x ≤ hi) (hhi : hi < rndI hi) (f : Nat) (hf : key f = x * (scale : Int)) :
    MJ.Val.checkedF64 x lo hi false = some (ofInt x) ∧ key (ofInt x) = x * (scale : Int) := by
  obtain ⟨n1, f1, k1⟩ := ofInt_spec x hx
  obtain ⟨n2, _, k2⟩ := ofInt_spec hi hh
  have hr : rndI x = x := by
    have a := rndI_above x f (Int.le_of_eq hf.symm)
    have b := rndI_below x f (Int.le_of_eq hf)
    rw [hf] at a b
    have a' := mul_scale_le.mp a
    have b' := mul_scale_le.mp b
    omega
  refine ⟨?_, by rw [k1, hr]⟩
  unfold MJ.Val.checkedF64
  simp only [Bool.false_or]
  have hc : (flt (ofInt x) (ofInt hi) && decide (castInt lo hi (ofInt x) = x)) = true := by
    simp only [Bool.and_eq_true, decide_eq_true_eq]
    refine ⟨?_, ?_⟩
    · unfold flt
      simp only [n1, n2, Bool.not_false, Bool.true_and, decide_eq_true_eq]
      rw [k1, k2, mul_scale_lt, hr]; omega
    · rw [castInt_of_int_valued lo hi (ofInt x) (rndI x) n1 f1 k1, hr]
      rw [if_neg (by omega), if_neg (by omega)]
  rw [if_pos hc]

end MJ.F64
