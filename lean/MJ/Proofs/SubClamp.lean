import MJ.Model.Subscript
import MJ.Model.PySlice
/-!
# Clamping a slice bound or step into the `i64` range does not change what Python selects

`slice_bound` maps integers beyond `i64` to `i64::MIN`/`i64::MAX`.  For sequences shorter than 2^63
(every Rust allocation is) Python's `slice.indices` cannot tell the difference.
-/
namespace MJ.Sub
open MJ

/-- what `slice_bound` makes of the integer `x` -/
def clampI64 (x : Int) : Int := if x < i64Min then i64Min else if i64Max < x then i64Max else x

theorem clampI64_in (x : Int) : i64Min ≤ clampI64 x ∧ clampI64 x ≤ i64Max := by
  unfold clampI64 i64Min i64Max; repeat' split
  all_goals omega

theorem clampI64_id (x : Int) (h : i64Min ≤ x ∧ x ≤ i64Max) : clampI64 x = x := by
  unfold clampI64; unfold i64Min i64Max at *; repeat' split
  all_goals omega

theorem clampI64_big (x : Int) (h : i64Max < x) : clampI64 x = i64Max := by
  unfold clampI64; unfold i64Min i64Max at *; repeat' split
  all_goals omega

theorem clampI64_small (x : Int) (h : x < i64Min) : clampI64 x = i64Min := by
  unfold clampI64; unfold i64Min i64Max at *; repeat' split
  all_goals omega

theorem clampPos_clamp (L : Int) (b : Option Int) (d : Int) (h0 : 0 ≤ L) (hL : L < 9223372036854775808) :
    PySlice.clampPos L (b.map clampI64) d = PySlice.clampPos L b d := by
  cases b with
  | none => rfl
  | some s =>
    simp only [Option.map_some, PySlice.clampPos, clampI64, i64Min, i64Max]
    repeat' split
    all_goals omega

theorem clampNeg_clamp (L : Int) (b : Option Int) (d : Int) (h0 : 0 ≤ L) (hL : L < 9223372036854775808) :
    PySlice.clampNeg L (b.map clampI64) d = PySlice.clampNeg L b d := by
  cases b with
  | none => rfl
  | some s =>
    simp only [Option.map_some, PySlice.clampNeg, clampI64, i64Min, i64Max]
    repeat' split
    all_goals omega

theorem clampPos_range (L : Int) (b : Option Int) (d : Int) (h0 : 0 ≤ L) (hd : 0 ≤ d ∧ d ≤ L) :
    0 ≤ PySlice.clampPos L b d ∧ PySlice.clampPos L b d ≤ L := by
  cases b with
  | none => exact hd
  | some s => simp only [PySlice.clampPos]; split <;> omega

theorem clampNeg_range (L : Int) (b : Option Int) (d : Int) (h0 : 0 ≤ L) (hd : -1 ≤ d ∧ d ≤ L - 1) :
    -1 ≤ PySlice.clampNeg L b d ∧ PySlice.clampNeg L b d ≤ L - 1 := by
  cases b with
  | none => exact hd
  | some s => simp only [PySlice.clampNeg]; split <;> omega

/-- a step at least as large as the sequence selects one position -/
theorem indices_big_pos (len : Nat) (a b : Option Int) (c : Int) (hc : (len : Int) ≤ c) (hc0 : 0 < c) :
    PySlice.indices len a b c =
      if PySlice.clampPos len a 0 < PySlice.clampPos len b len then [(PySlice.clampPos len a 0).toNat] else [] := by
  have hs := clampPos_range len a 0 (by omega) (by omega)
  have he := clampPos_range len b len (by omega) (by omega)
  simp only [PySlice.indices, PySlice.adjust, hc0, if_true]
  split
  next h =>
    have : (PySlice.clampPos len b len - PySlice.clampPos len a 0 - 1) / c = 0 :=
      Int.ediv_eq_zero_of_lt (by omega) (by omega)
    rw [this]
    simp
  next h => simp

theorem indices_big_neg (len : Nat) (a b : Option Int) (c : Int) (hc : c ≤ -(len : Int)) (hc0 : c < 0) :
    PySlice.indices len a b c =
      if PySlice.clampNeg len b (-1) < PySlice.clampNeg len a ((len : Int) - 1)
      then [(PySlice.clampNeg len a ((len : Int) - 1)).toNat] else [] := by
  have hs := clampNeg_range len a ((len : Int) - 1) (by omega) (by omega)
  have he := clampNeg_range len b (-1) (by omega) (by omega)
  have hn : ¬ c > 0 := by omega
  simp only [PySlice.indices, PySlice.adjust, hn, if_false]
  split
  next h =>
    have : (PySlice.clampNeg len a ((len : Int) - 1) - PySlice.clampNeg len b (-1) - 1) / (-c) = 0 :=
      Int.ediv_eq_zero_of_lt (by omega) (by omega)
    rw [this]
    simp
  next h => simp

/-- Python's selection does not change when bounds and step are clamped into `i64` -/
theorem indices_clamp (len : Nat) (a b : Option Int) (c : Int) (hl : len < 9223372036854775808) (hc : c ≠ 0) :
    PySlice.indices len (a.map clampI64) (b.map clampI64) (clampI64 c) = PySlice.indices len a b c := by
  have hL : (len : Int) < 9223372036854775808 := by omega
  by_cases hin : i64Min ≤ c ∧ c ≤ i64Max
  · rw [clampI64_id c hin]
    simp only [PySlice.indices, PySlice.adjust]
    rw [clampPos_clamp _ a _ (by omega) hL, clampPos_clamp _ b _ (by omega) hL,
      clampNeg_clamp _ a _ (by omega) hL, clampNeg_clamp _ b _ (by omega) hL]
  · by_cases hpos : 0 < c
    · have hc' : clampI64 c = i64Max := clampI64_big c (by unfold i64Min i64Max at hin; unfold i64Max; omega)
      rw [hc', indices_big_pos len _ _ i64Max (by unfold i64Max; omega) (by unfold i64Max; omega),
        indices_big_pos len a b c (by unfold i64Min i64Max at hin; omega) hpos,
        clampPos_clamp _ a _ (by omega) hL, clampPos_clamp _ b _ (by omega) hL]
    · have hc' : clampI64 c = i64Min := clampI64_small c (by unfold i64Min i64Max at hin; unfold i64Min; omega)
      rw [hc', indices_big_neg len _ _ i64Min (by unfold i64Min; omega) (by unfold i64Min; omega),
        indices_big_neg len a b c (by unfold i64Min i64Max at hin; omega) (by omega),
        clampNeg_clamp _ a _ (by omega) hL, clampNeg_clamp _ b _ (by omega) hL]

end MJ.Sub
