import MJ.Proofs.Blocks
/-!
# Further lemmas about the composition model: `load_blocks` bookkeeping, cycles, double extends,
# missing templates, include, import, termination
-/
set_option linter.unusedSimpArgs false
namespace MJ.Blocks

/-! ### pigeonhole for duplicate-free lists of small numbers -/

theorem nodup_length_le (N : Nat) : ∀ (l : List Nat), l.Nodup → (∀ x ∈ l, x < N) → l.length ≤ N := by
  induction N with
  | zero =>
    intro l _ h
    cases l with
    | nil => simp
    | cons a as => exact absurd (h a (by simp)) (by omega)
  | succ N ih =>
    intro l hnd h
    have hnd' : (l.erase N).Nodup := hnd.sublist (List.erase_sublist)
    have hlt : ∀ x ∈ l.erase N, x < N := by
      intro x hx
      have := (hnd.mem_erase_iff).1 hx
      have := h x this.2
      omega
    have := ih (l.erase N) hnd' hlt
    by_cases hN : N ∈ l
    · rw [List.length_erase_of_mem hN] at this; omega
    · rw [List.erase_of_not_mem hN] at this; omega

theorem nodup_full (N : Nat) : ∀ (l : List Nat), l.Nodup → (∀ x ∈ l, x < N) → N ≤ l.length →
    ∀ x, x < N → x ∈ l := by
  induction N with
  | zero => intro l _ _ _ x hx; omega
  | succ N ih =>
    intro l hnd h hlen x hx
    have hN : N ∈ l := by
      apply Classical.byContradiction
      intro hN
      have : ∀ x ∈ l, x < N := by
        intro y hy
        have := h y hy
        have : y ≠ N := fun e => hN (e ▸ hy)
        omega
      have := nodup_length_le N l hnd this
      omega
    by_cases hxN : x = N
    · subst hxN; exact hN
    · have hnd' : (l.erase N).Nodup := hnd.sublist (List.erase_sublist)
      have hlt : ∀ y ∈ l.erase N, y < N := by
        intro y hy
        have := (hnd.mem_erase_iff).1 hy
        have := h y this.2
        omega
      have hlen' : N ≤ (l.erase N).length := by rw [List.length_erase_of_mem hN]; omega
      have := ih (l.erase N) hnd' hlt hlen' x (by omega)
      exact List.mem_of_mem_erase this

/-! ### `load_blocks` -/

theorem loadBlocks_ok (env : Env) (t : Nat) (st st' : St) (l : List Item)
    (h : loadBlocks env t st = .ok (st', l)) :
    t ∉ st.loaded ∧ t < env.length ∧ st'.loaded = t :: st.loaded ∧
      ∃ T, env[t]? = some T ∧ T.loadErr = none ∧ l = T.layout ∧ st'.blocks = appendBlocks st.blocks T.blocks ∧
        st'.depth = st.depth ∧ st'.frames = st.frames := by
  unfold loadBlocks at h
  by_cases hmem : t ∈ st.loaded
  · simp [hmem] at h
  · simp only [hmem, if_false] at h
    cases hT : env[t]? with
    | none => simp [hT] at h
    | some T =>
      simp only [hT] at h
      cases hL : T.loadErr with
      | some kk => simp [hL] at h
      | none =>
      simp only [hL, Except.ok.injEq, Prod.mk.injEq] at h
      obtain ⟨rfl, rfl⟩ := h
      have hlt : t < env.length := by
        rcases Nat.lt_or_ge t env.length with h | h
        · exact h
        · rw [List.getElem?_eq_none h] at hT; cases hT
      exact ⟨hmem, hlt, rfl, T, rfl, hL, rfl, rfl, rfl, rfl⟩

/-- the loaded set stays duplicate-free and inside the environment -/
theorem loadBlocks_inv (env : Env) (t : Nat) (st st' : St) (l : List Item)
    (h : loadBlocks env t st = .ok (st', l))
    (hnd : st.loaded.Nodup) (hlt : ∀ x ∈ st.loaded, x < env.length) :
    st'.loaded.Nodup ∧ (∀ x ∈ st'.loaded, x < env.length) ∧
      st'.loaded.length = st.loaded.length + 1 ∧ st'.loaded.length ≤ env.length := by
  obtain ⟨h1, h2, h3, _⟩ := loadBlocks_ok env t st st' l h
  have hnd' : st'.loaded.Nodup := by rw [h3]; exact List.nodup_cons.2 ⟨h1, hnd⟩
  have hlt' : ∀ x ∈ st'.loaded, x < env.length := by
    rw [h3]; intro x hx
    rcases List.mem_cons.1 hx with rfl | hx
    · exact h2
    · exact hlt x hx
  exact ⟨hnd', hlt', by rw [h3]; simp, nodup_length_le _ _ hnd' hlt'⟩

/-- after as many successful `LoadBlocks` as there are templates, every further one fails -/
theorem loadBlocks_exhausted (env : Env) (t : Nat) (st : St)
    (hnd : st.loaded.Nodup) (hlt : ∀ x ∈ st.loaded, x < env.length)
    (hfull : env.length ≤ st.loaded.length) :
    loadBlocks env t st = .error [.invalidOperation] ∨ loadBlocks env t st = .error [.templateNotFound] := by
  unfold loadBlocks
  by_cases hmem : t ∈ st.loaded
  · simp [hmem]
  · simp only [hmem, if_false]
    rcases Nat.lt_or_ge t env.length with h | h
    · exact absurd (nodup_full env.length st.loaded hnd hlt hfull t h) hmem
    · rw [List.getElem?_eq_none h]; simp


/-! ### driver-level facts that hold for every callback and state -/

/-- what may follow an executed `extends` without any effect: text, block tags, `extends` tags -/
def Item.isPost : Item → Bool
  | .text _ | .callBlock _ | .extends _ _ => true
  | _ => false

def Item.isPlain : Item → Bool
  | .text _ | .callBlock _ | .extends false _ => true
  | _ => false

/-- once a parent is pending, a further executed `extends` is an error whatever stands in
    between (text, blocks, non-executed `extends`) and whatever its target is -/
theorem second_extends_error (rd : Rd) (rec : Rec) (p mid post : List Item) (t : Nat)
    (hmid : mid.all Item.isPost = true) (st : St) :
    stepItems rd rec (some p) (mid ++ .extends true t :: post) st = .error [.invalidOperation] := by
  induction mid with
  | nil => simp [stepItems]
  | cons it rest ih =>
    simp only [List.all_cons, Bool.and_eq_true] at hmid
    have ih := ih hmid.2
    simp only [List.cons_append]
    cases it with
    | text s => simp [stepItems, varItem, Res.andThen, ih]
    | callBlock m => simp [stepItems, Res.andThen, ih]
    | «extends» exec t' =>
      cases exec with
      | true => simp [stepItems]
      | false => simp [stepItems, Res.andThen, ih]
    | _ => simp [Item.isPost] at hmid

/-- behind an executed `extends`: text is discarded and block tags are skipped -/
theorem post_plain_silent (rd : Rd) (rec : Rec) (p post : List Item) (st : St)
    (h : post.all Item.isPlain = true) :
    stepItems rd rec (some p) post st = .ok ([], st, some p) := by
  induction post with
  | nil => simp [stepItems]
  | cons it rest ih =>
    simp only [List.all_cons, Bool.and_eq_true] at h
    have ih := ih h.2
    cases it with
    | text s => simp [stepItems, varItem, Res.andThen, ih]
    | callBlock m => simp [stepItems, Res.andThen, ih]
    | «extends» exec t' =>
      cases exec with
      | true => simp [Item.isPlain] at h
      | false => simp [stepItems, Res.andThen, ih]
    | _ => simp [Item.isPlain] at h

/-- `extends` of a missing template -/
theorem extends_missing_error (rd : Rd) (rec : Rec) (t : Nat) (rest : List Item) (st : St)
    (hnl : t ∉ st.loaded) (hmiss : rd.env.length ≤ t) :
    stepItems rd rec none (.extends true t :: rest) st = .error [.templateNotFound] := by
  simp [stepItems, loadBlocks, hnl, List.getElem?_eq_none hmiss]

/-- include: missing names are skipped, the first existing template is rendered as its own
    chain (fresh block table, empty loaded set) with the includer's frames, at
    `INCLUDE_RECURSION_COST` more depth; its errors are wrapped, never swallowed; the includer's
    block state is restored -/
theorem performInclude_first (env : Env) (rec : Rec) (cur : Option Nat) (disc ign : Bool) (outer : Nat)
    (missing : List Nat) (more : List Cand) (t : Nat) (T : Template)
    (hmiss : ∀ m ∈ missing, env[m]? = none) (hT : env[t]? = some T) (hL : T.loadErr = none) (tried : Bool) (st : St) :
    performInclude env rec cur disc ign outer (missing.map some ++ some t :: more) tried st =
      if outer + INCLUDE_COST + st.frames.length > LIMIT then .error [.invalidOperation]
      else
        match rec cur disc false (outer + INCLUDE_COST) T.ae T.layout
            { st with blocks := prepare T.blocks, depth := fun _ => 0, loaded := [],
                      frames := st.frames.setTopClosure none } with
        | .error e => .error (.badInclude :: e)
        | .ok (o, st') =>
          .ok (o, { blocks := st.blocks, depth := st.depth, loaded := st.loaded,
                    frames := (st'.frames.take st.frames.length).setTopClosure st.frames.topClosure }) := by
  induction missing generalizing tried with
  | nil =>
    simp only [List.map_nil, List.nil_append, performInclude, hT, hL]
    split
    · rfl
    · cases rec cur disc false (outer + INCLUDE_COST) T.ae T.layout
        { st with blocks := prepare T.blocks, depth := fun _ => 0, loaded := [],
                  frames := st.frames.setTopClosure none } with
      | error e => rfl
      | ok r => rfl
  | cons m rest ih =>
    have hm : env[m]? = none := hmiss m (by simp)
    simp only [List.map_cons, List.cons_append, performInclude, hm]
    exact ih (fun x hx => hmiss x (by simp [hx])) true

/-- a name that exists but cannot be loaded (does not compile, loader error) is not "missing":
    the lookup error is returned as it is, with or without `ignore missing`, whatever follows -/
theorem performInclude_load_error (env : Env) (rec : Rec) (cur : Option Nat) (disc ign : Bool) (outer : Nat)
    (missing : List Nat) (more : List Cand) (t : Nat) (T : Template) (k : LoadErr)
    (hmiss : ∀ m ∈ missing, env[m]? = none) (hT : env[t]? = some T) (hL : T.loadErr = some k)
    (tried : Bool) (st : St) :
    performInclude env rec cur disc ign outer (missing.map some ++ some t :: more) tried st = .error [loadErrKind t k] := by
  induction missing generalizing tried with
  | nil => simp only [List.map_nil, List.nil_append, performInclude, hT, hL]
  | cons m rest ih =>
    have hm : env[m]? = none := hmiss m (by simp)
    simp only [List.map_cons, List.cons_append, performInclude, hm]
    exact ih (fun x hx => hmiss x (by simp [hx])) true

theorem performInclude_all_missing (env : Env) (rec : Rec) (cur : Option Nat) (disc ign : Bool) (outer : Nat)
    (names : List Nat) (hmiss : ∀ m ∈ names, env[m]? = none) (tried : Bool) (st : St) :
    performInclude env rec cur disc ign outer (names.map some) tried st =
      if (tried || !names.isEmpty) && !ign then .error [.templateNotFound] else .ok ([], st) := by
  induction names generalizing tried with
  | nil => simp [performInclude, notFoundRaised_eq]
  | cons m rest ih =>
    have hm : env[m]? = none := hmiss m (by simp)
    simp only [List.map_cons, performInclude, hm]
    rw [ih (fun x hx => hmiss x (by simp [hx])) true]
    simp

/-! ### import of a module template (top-level text, `set`, macro definitions) -/

def Item.isAssign : Item → Bool
  | .text _ | .setVar _ _ | .defMacro _ _ => true
  | _ => false

/-- the locals a list of such statements leaves in the frame `fr` (newest first) -/
def assigns : List Item → Frame → Frame
  | [], fr => fr
  | .setVar v s :: rest, fr => assigns rest ((v, .str s) :: fr)
  | .defMacro v s :: rest, fr => assigns rest ((v, .mac v s) :: fr)
  | _ :: rest, fr => assigns rest fr

def assignsVar (v : Nat) : Item → Bool
  | .setVar w _ | .defMacro w _ => w == v
  | _ => false

/-- every frame has its closure slot -/
def Vars.WF (v : Vars) : Prop := v.cls.length = v.stack.length

theorem store_push (base : Vars) (fr : Frame) (v : Nat) (x : Val) :
    store (base.push [fr]) v x = base.push [(v, x) :: fr] := by
  cases base
  simp [store, closureWrite, Vars.push, Vars.topClosure]

theorem topFrame_push (base : Vars) (fr : Frame) : topFrame (base.push [fr]) = fr := by
  simp [topFrame, Vars.push]

theorem setTopClosure_push (base : Vars) (fr : Frame) :
    (base.push [fr]).setTopClosure none = base.push [fr] := by
  cases base
  simp [Vars.setTopClosure, Vars.push]

theorem topClosure_push (base : Vars) (fr : Frame) : (base.push [fr]).topClosure = none := by
  simp [Vars.topClosure, Vars.push]

theorem length_push (base : Vars) (fr : Frame) : (base.push [fr]).length = base.length + 1 := by
  simp [Vars.length, Vars.push]

theorem take_push_self (base : Vars) (fr : Frame) (h : base.WF) :
    (base.push [fr]).take (base.length + 1) = base.push [fr] := by
  cases base
  simp only [Vars.WF] at h
  simp only [Vars.take, Vars.push, Vars.length, List.map_cons, List.map_nil]
  congr 1
  · apply List.take_of_length_le; simp
  · apply List.take_of_length_le; simp [h]

theorem take_push (base : Vars) (fr : Frame) (h : base.WF) :
    (base.push [fr]).take base.length = base := by
  cases base
  simp only [Vars.WF] at h
  simp [Vars.take, Vars.push, Vars.length, ← h]

theorem simple_steps (rd : Rd) (rec : Rec) (items : List Item) (h : items.all Item.isAssign = true)
    (st : St) (base : Vars) (fr : Frame) (hfr : st.frames = base.push [fr]) :
    ∃ o, stepItems rd rec none items st =
      .ok (o, { st with frames := base.push [assigns items fr] }, none) := by
  induction items generalizing st fr with
  | nil => exact ⟨[], by simp [stepItems, assigns, ← hfr]⟩
  | cons it rest ih =>
    simp only [List.all_cons, Bool.and_eq_true] at h
    cases it with
    | text s =>
      obtain ⟨o, ho⟩ := ih h.2 st fr hfr
      exact ⟨_, by simp only [stepItems, varItem, Res.andThen, ho, assigns]; rfl⟩
    | setVar v s =>
      obtain ⟨o, ho⟩ := ih h.2 { st with frames := store st.frames v (.str s) } ((v, .str s) :: fr)
        (by simp [hfr, store_push])
      exact ⟨_, by simp only [stepItems, varItem, Res.andThen, ho, assigns]; rfl⟩
    | defMacro v s =>
      obtain ⟨o, ho⟩ := ih h.2 { st with frames := store st.frames v (.mac v s) } ((v, .mac v s) :: fr)
        (by simp [hfr, store_push])
      exact ⟨_, by simp only [stepItems, varItem, Res.andThen, ho, assigns]; rfl⟩
    | _ => simp [Item.isAssign] at h

/-- a name no top-level statement assigns is not among the module's locals -/
theorem lookup_assigns_other (v : Nat) (items : List Item) (fr : Frame)
    (h : items.all (fun it => !assignsVar v it) = true) :
    lookupVal v (assigns items fr) = lookupVal v fr := by
  induction items generalizing fr with
  | nil => rfl
  | cons it rest ih =>
    simp only [List.all_cons, Bool.and_eq_true] at h
    cases it with
    | setVar w s =>
      have hw : w ≠ v := by simpa [assignsVar] using h.1
      simp only [assigns]; rw [ih _ h.2]; simp [lookupVal, hw]
    | defMacro w s =>
      have hw : w ≠ v := by simpa [assignsVar] using h.1
      simp only [assigns]; rw [ih _ h.2]; simp [lookupVal, hw]
    | _ => simp only [assigns]; exact ih _ h.2

/-- what an include into a fresh `with` frame leaves behind when the first existing candidate
    `t` is a module template -/
theorem include_module (env : Env) (ctx : Cfg) (f : Nat) (cur : Option Nat) (disc : Bool) (outer : Nat)
    (missing : List Nat) (more : List Cand) (hmiss : ∀ m ∈ missing, env[m]? = none)
    (t : Nat) (T : Template) (hT : env[t]? = some T) (hL : T.loadErr = none)
    (hs : T.layout.all Item.isAssign = true)
    (st : St) (hwf : st.frames.WF) (hd : outer + INCLUDE_COST + (st.frames.length + 1) ≤ LIMIT) :
    ∃ o, performInclude env (evalImpl env ctx (f + 1)) cur disc false outer (missing.map some ++ some t :: more) false
        { st with frames := st.frames.push [[]] } =
      .ok (o, { st with frames := st.frames.push [assigns T.layout []] }) := by
  obtain ⟨o, ho⟩ := simple_steps ⟨env, ctx, cur, disc, false, outer + INCLUDE_COST, T.ae⟩ (evalImpl env ctx f)
    T.layout hs
    { blocks := prepare T.blocks, depth := fun _ => 0, loaded := [], frames := st.frames.push [[]] }
    st.frames [] rfl
  refine ⟨o, ?_⟩
  have hd' : ¬ (outer + INCLUDE_COST + (st.frames.length + 1) > LIMIT) := by omega
  rw [performInclude_first env _ cur disc false outer missing more t T hmiss hT hL false]
  simp only [evalImpl, length_push, hd', if_false, setTopClosure_push, ho,
    take_push_self _ _ hwf, topClosure_push]

theorem andThen_nil (st : St) (k : St → Except Err (List String × St × Option (List Item))) :
    Res.andThen (.ok ([], st)) k = k st := by
  simp only [Res.andThen]
  cases k st with
  | error e => rfl
  | ok r => obtain ⟨o, s, a⟩ := r; simp

theorem pushFails_false_of (outer : Nat) (fs : Vars)
    (hd : outer + INCLUDE_COST + (fs.length + 1) ≤ LIMIT) : pushFails outer fs = false := by
  simp only [pushFails, decide_eq_false_iff_not]; omega

theorem importAs_step (env : Env) (ctx : Cfg) (f : Nat) (cur : Option Nat) (d0 e0 : Bool) (outer : Nat)
    (ae : AE) (parent : Option (List Item)) (a : Arg) (missing : List Nat) (more : List Cand)
    (t v : Nat) (T : Template) (hc : a.cands = missing.map some ++ some t :: more)
    (hmiss : ∀ m ∈ missing, env[m]? = none) (hT : env[t]? = some T)
    (hL : T.loadErr = none) (hs : T.layout.all Item.isAssign = true) (rest : List Item) (st : St)
    (hwf : st.frames.WF) (hd : outer + INCLUDE_COST + (st.frames.length + 1) ≤ LIMIT) :
    stepItems ⟨env, ctx, cur, d0, e0, outer, ae⟩ (evalImpl env ctx (f + 1)) parent (.importAs a v :: rest) st =
      stepItems ⟨env, ctx, cur, d0, e0, outer, ae⟩ (evalImpl env ctx (f + 1)) parent rest
        { st with frames := store st.frames v (.module (dedupKeys (assigns T.layout []))) } := by
  obtain ⟨o, ho⟩ := include_module env ctx f cur false outer missing more hmiss t T hT hL hs st hwf hd
  simp only [stepItems, choices_eq_cands, hc, pushFails_false_of outer st.frames hd, Bool.false_eq_true, if_false, ho,
    topFrame_push, take_push _ _ hwf, andThen_nil]

theorem fromImport_step (env : Env) (ctx : Cfg) (f : Nat) (cur : Option Nat) (d0 e0 : Bool) (outer : Nat)
    (ae : AE) (parent : Option (List Item)) (a : Arg) (missing : List Nat) (more : List Cand)
    (t name alias : Nat) (T : Template) (hc : a.cands = missing.map some ++ some t :: more)
    (hmiss : ∀ m ∈ missing, env[m]? = none) (hT : env[t]? = some T)
    (hL : T.loadErr = none) (hs : T.layout.all Item.isAssign = true) (rest : List Item) (st : St)
    (hwf : st.frames.WF) (hd : outer + INCLUDE_COST + (st.frames.length + 1) ≤ LIMIT) :
    stepItems ⟨env, ctx, cur, d0, e0, outer, ae⟩ (evalImpl env ctx (f + 1)) parent (.fromImport a name alias :: rest) st =
      stepItems ⟨env, ctx, cur, d0, e0, outer, ae⟩ (evalImpl env ctx (f + 1)) parent rest
        { st with frames := store st.frames alias ((lookupVal name (assigns T.layout [])).getD .undef) } := by
  obtain ⟨o, ho⟩ := include_module env ctx f cur true outer missing more hmiss t T hT hL hs st hwf hd
  simp only [stepItems, choices_eq_cands, hc, pushFails_false_of outer st.frames hd, Bool.false_eq_true, if_false, ho,
    topFrame_push, take_push _ _ hwf, andThen_nil]

/-! ### lengths of the frame stack -/

@[simp] theorem store_length (fs : Vars) (v : Nat) (x : Val) : (store fs v x).length = fs.length := by
  unfold store
  cases h : fs.stack.reverse with
  | nil => rfl
  | cons top below =>
    have : fs.stack.length = below.length + 1 := by
      have := congrArg List.length h; simpa using this
    simp [Vars.length, this]

@[simp] theorem setTopClosure_length (fs : Vars) (c : Option Nat) : (fs.setTopClosure c).length = fs.length := by
  unfold Vars.setTopClosure
  cases fs.cls.reverse <;> rfl

@[simp] theorem openClosure_length (fs : Vars) : fs.openClosure.length = fs.length := by
  unfold Vars.openClosure
  cases fs.topClosure with
  | some c => rfl
  | none => exact setTopClosure_length fs _

@[simp] theorem enclose_length (ctx : Frame) (fs : Vars) (w : Nat) : (enclose ctx fs w).length = fs.length := by
  unfold enclose
  simp only []
  split
  · exact openClosure_length fs
  · split <;> exact openClosure_length fs

theorem take_length_le (fs : Vars) (n : Nat) (h : n ≤ fs.length) : (fs.take n).length = n := by
  simp only [Vars.take, Vars.length, List.length_take] at *
  omega

@[simp] theorem push_length (fs : Vars) (l : List Frame) : (fs.push l).length = fs.length + l.length := by
  simp [Vars.push, Vars.length]

@[simp] theorem Vars.length_take (fs : Vars) (n : Nat) : (fs.take n).length = min n fs.length := by
  simp [Vars.take, Vars.length, List.length_take]

@[simp] theorem macroCtx_length (fs : Vars) (a : Nat) (x : Val) : (fs.macroCtx a x).length = 2 := rfl

/-! ### termination: the recursion limit bounds the nesting, the model's fuel is never the reason -/

/-- not the fuel error, and (on success) the frame stack has `n` frames -/
def Fine (n : Nat) (r : SRes) : Prop :=
  (∀ e, r = .error e → Kind.recursion ∉ e) ∧ (∀ o fs, r = .ok (o, fs) → fs.length = n)

theorem fine_error {n : Nat} {e : Err} (h : Kind.recursion ∉ e) : Fine n (.error e) :=
  ⟨fun e' he => (by cases he; exact h), fun o fs he => (by cases he)⟩

theorem fine_ok {n : Nat} {o : List String} {fs : Vars} (h : fs.length = n) : Fine n (.ok (o, fs)) :=
  ⟨fun e he => (by cases he), fun o' fs' he => (by cases he; exact h)⟩

theorem fine_cont {n : Nat} (r : SRes) (S : Vars → SRes) :
    Fine n r → (∀ fs, fs.length = n → Fine n (S fs)) →
    Fine n (match r with
      | .error e => .error e
      | .ok (o, fs') =>
        match S fs' with
        | .error e => .error e
        | .ok (o', fs'') => .ok (o ++ o', fs'')) := by
  intro hr hS
  cases r with
  | error e => exact fine_error (hr.1 e rfl)
  | ok p =>
    obtain ⟨o, fs'⟩ := p
    have h2 := hS fs' (hr.2 o fs' rfl)
    simp only []
    cases hSf : S fs' with
    | error e => exact fine_error (h2.1 e hSf)
    | ok q => obtain ⟨o', fs''⟩ := q; exact fine_ok (h2.2 o' fs'' hSf)

theorem fine_take {n : Nat} (r : SRes) :
    Fine (n + 1) r →
    Fine n (match r with
      | .error e => .error e
      | .ok (o, fs') => .ok (o, fs'.take n)) := by
  intro hr
  cases r with
  | error e => exact fine_error (hr.1 e rfl)
  | ok p =>
    obtain ⟨o, fs'⟩ := p
    exact fine_ok (by
      have := hr.2 o fs' rfl
      rw [Vars.length_take, this]; omega)

theorem emitUndef_fine (cfg : Cfg) (q : Bool) (ae : AE) (fs : Vars) :
    Fine fs.length (emitUndef cfg q ae fs) := by
  unfold emitUndef
  split
  · exact fine_error (by simp)
  · split <;> exact fine_ok rfl

theorem varItem_fine (ctx : Cfg) (q : Bool) (ae : AE) (it : Item) (fs : Vars)
    (r : Except Err (List String × Vars))
    (h : varItem ctx q ae it fs = some r) : Fine fs.length r := by
  unfold varItem at h
  cases it <;> simp only [] at h <;> try (cases h)
  case text s => exact fine_ok rfl
  case required => exact fine_ok rfl
  case setVar v s => exact fine_ok (store_length _ _ _)
  case defMacro v s => exact fine_ok (store_length _ _ _)
  all_goals
    repeat' split at h
    all_goals
      cases h
      first
        | exact fine_ok rfl
        | exact fine_ok (by rw [store_length, enclose_length])
        | exact fine_error (by simp)
        | exact emitUndef_fine _ _ _ _
        | exact fine_error ((emitUndef_fine _ _ _ _).1 _ (by assumption))

/-- the callbacks one level down are `Fine` wherever the guards of `specItems` let them be called
    from a statement list running at `outer` with `n` frames -/
structure CbFine (cbs : SpecCbs) (outer n : Nat) : Prop where
  body : ∀ D m k disc ae fs1, fs1.length = n + 1 → outer + (n + 1) ≤ LIMIT →
    Fine (n + 1) (cbs.body D m k disc outer ae fs1)
  list : ∀ D cur disc ext ae items fs1, fs1.length = n + 1 → outer + (n + 1) ≤ LIMIT →
    Fine (n + 1) (cbs.list D cur disc ext outer ae items fs1)
  mac : ∀ D ae items (fs1 : Vars), fs1.length = 2 → outer + n + MACRO_COST + 2 ≤ LIMIT →
    Fine 2 (cbs.list D none false false (outer + n + MACRO_COST) ae items fs1)
  chain : ∀ t inh disc ae layout fs1, (fs1.length = n ∨ fs1.length = n + 1) →
    outer + INCLUDE_COST + fs1.length ≤ LIMIT →
    Fine fs1.length (cbs.chain [t] inh disc (outer + INCLUDE_COST) ae layout fs1)

theorem pushFails_false_iff (outer : Nat) (fs : Vars) :
    pushFails outer fs = false ↔ outer + (fs.length + 1) ≤ LIMIT := by
  simp only [pushFails, decide_eq_false_iff_not]; omega

theorem specBlock_fine {cbs : SpecCbs} {outer n : Nat} (h : CbFine cbs outer n)
    (D : Nat → List (List Item)) (disc : Bool) (ae : AE) (m : Nat) (fs : Vars) (hfs : fs.length = n) :
    Fine n (specBlock cbs D disc outer ae m fs) := by
  unfold specBlock
  cases D m with
  | nil => exact fine_error (by simp)
  | cons b bs =>
    simp only []
    split
    · exact fine_error (by simp)
    · cases hpf : pushFails outer fs with
      | true => exact fine_error (by simp)
      | false =>
        simp only [Bool.false_eq_true, if_false]
        have hd := (pushFails_false_iff outer fs).1 hpf
        rw [hfs] at hd ⊢
        exact fine_take _ (h.body D m 0 disc ae (fs.push [[]]) (by simp [hfs]) hd)

theorem specSuper_fine {cbs : SpecCbs} {outer n : Nat} (h : CbFine cbs outer n)
    (D : Nat → List (List Item)) (cur : Option (Nat × Nat)) (disc : Bool) (ae : AE) (fs : Vars)
    (hfs : fs.length = n) : Fine n (specSuper cbs D cur disc outer ae fs) := by
  unfold specSuper
  cases cur with
  | none => exact fine_error (by simp)
  | some p =>
    obtain ⟨b, k⟩ := p
    simp only []
    split
    · cases hpf : pushFails outer fs with
      | true => exact fine_error (by simp)
      | false =>
        simp only [Bool.false_eq_true, if_false]
        have hd := (pushFails_false_iff outer fs).1 hpf
        rw [hfs] at hd ⊢
        have hb := h.body D b (k + 1) disc ae (fs.push [[]]) (by simp [hfs]) hd
        cases hr : cbs.body D b (k + 1) disc outer ae (fs.push [[]]) with
        | error e => exact fine_error (by simp [hb.1 e hr])
        | ok q => obtain ⟨o, fs'⟩ := q; exact fine_ok (by simp [hb.2 o fs' hr])
    · exact fine_error (by simp)

theorem specInclude_fine {cbs : SpecCbs} {outer n : Nat} (h : CbFine cbs outer n) (env : Env)
    (inh : Option Nat) (disc ign : Bool) (names : List Cand) (tried : Bool) (fs : Vars)
    (hfs : fs.length = n ∨ fs.length = n + 1) :
    Fine fs.length (specInclude env cbs inh disc ign outer names tried fs) := by
  induction names generalizing tried with
  | nil =>
    simp only [specInclude]
    split
    · exact fine_error (by simp)
    · exact fine_ok rfl
  | cons c rest ih =>
    cases c with
    | none => simp only [specInclude]; exact fine_error (by simp)
    | some t =>
    simp only [specInclude]
    cases env[t]? with
    | none => exact ih true
    | some T =>
      simp only []
      cases hL : T.loadErr with
      | some kk => exact fine_error (by cases kk <;> simp [loadErrKind])
      | none =>
      simp only []
      split
      · exact fine_error (by simp)
      · rename_i hd
        have hc := h.chain t inh disc T.ae T.layout (fs.setTopClosure none) (by simpa using hfs) (by simpa using hd)
        cases hr : cbs.chain [t] inh disc (outer + INCLUDE_COST) T.ae T.layout (fs.setTopClosure none) with
        | error e => exact fine_error (by simp [hc.1 e hr])
        | ok q =>
          obtain ⟨o, fs'⟩ := q
          have := hc.2 o fs' hr
          exact fine_ok (by simp at this; simp [this])

theorem specLoop_fine (run : Vars → SRes) (v : Nat) (vals : List String) (fl : Nat)
    (hrun : ∀ fs, fs.length = fl + 1 → Fine (fl + 1) (run fs)) (fs : Vars)
    (hfs : fs.length = fl + 1) : Fine (fl + 1) (specLoop run v vals fl fs) := by
  unfold specLoop
  have key : ∀ (acc : SRes), Fine (fl + 1) acc →
      Fine (fl + 1) (vals.foldl (fun (acc : SRes) val =>
        match acc with
        | .error e => .error e
        | .ok (o, s) =>
          match run ((s.take fl).push [[(v, Val.str val)]]) with
          | .error e => .error e
          | .ok (o', s') => .ok (o ++ o', s')) acc) := by
    induction vals with
    | nil => intro acc h; exact h
    | cons val rest ih =>
      intro acc hacc
      simp only [List.foldl_cons]
      apply ih
      cases acc with
      | error e => exact fine_error (hacc.1 e rfl)
      | ok p =>
        obtain ⟨o, s⟩ := p
        have hs := hacc.2 o s rfl
        have hr := hrun ((s.take fl).push [[(v, Val.str val)]]) (by simp [hs])
        simp only []
        cases hrr : run ((s.take fl).push [[(v, Val.str val)]]) with
        | error e => exact fine_error (hr.1 e hrr)
        | ok q => obtain ⟨o', s'⟩ := q; exact fine_ok (hr.2 o' s' hrr)
  exact key _ (fine_ok hfs)

theorem aeDepth_mem (m : AE) (body items : List Item) (h : Item.autoesc m body ∈ items) :
    aeDepthL body + 1 ≤ aeDepthL items := by
  induction items with
  | nil => cases h
  | cons it rest ih =>
    simp only [aeDepthL]
    rcases List.mem_cons.1 h with rfl | h'
    · simp only [aeDepth]; omega
    · have := ih h'; omega

theorem specItems_fine (env : Env) (ctx : Cfg) {cbs : SpecCbs} {outer n : Nat} (h : CbFine cbs outer n)
    (D : Nat → List (List Item)) (cur : Option (Nat × Nat)) (disc ext : Bool) (ae : AE) (items : List Item)
    (hsame : ∀ m body, Item.autoesc m body ∈ items → aeDepthL body < AE_NEST_MAX →
      ∀ fs1 : Vars, fs1.length = n → Fine n (cbs.list D cur disc ext outer m body fs1))
    (fs : Vars) (hfs : fs.length = n) :
    Fine n (specItems env ctx cbs D cur disc ext outer ae items fs) := by
  induction items generalizing fs with
  | nil => exact fine_ok hfs
  | cons it rest ih =>
    have ih := ih (fun m body hm hb => hsame m body (List.mem_cons_of_mem _ hm) hb)
    have hcont : ∀ r : SRes, Fine n r →
        Fine n (match r with
          | .error e => .error e
          | .ok (o, fs') =>
            match specItems env ctx cbs D cur disc ext outer ae rest fs' with
            | .error e => .error e
            | .ok (o', fs'') => .ok (o ++ o', fs'')) :=
      fun r hr => fine_cont r _ hr (fun fs' hfs' => ih fs' hfs')
    cases it with
    | callBlock m =>
      simp only [specItems]
      split
      · exact hcont _ (fine_ok hfs)
      · exact hcont _ (specBlock_fine h D disc ae m fs hfs)
    | super =>
      simp only [specItems]
      exact hcont _ (specSuper_fine h D cur disc ae fs hfs)
    | setSuper v =>
      simp only [specItems]
      have hs := specSuper_fine h D cur false ae fs hfs
      cases hr : specSuper cbs D cur false outer ae fs with
      | error e => exact fine_error (hs.1 e hr)
      | ok q =>
        obtain ⟨o, fs'⟩ := q
        exact hcont _ (fine_ok (by rw [store_length]; exact hs.2 o fs' hr))
    | setSelf v m =>
      simp only [specItems]
      split
      · exact hcont _ (fine_ok (by rw [store_length]; exact hfs))
      · have hs := specBlock_fine h D false ae m fs hfs
        cases hr : specBlock cbs D false outer ae m fs with
        | error e => exact fine_error (hs.1 e hr)
        | ok q =>
          obtain ⟨o, fs'⟩ := q
          exact hcont _ (fine_ok (by rw [store_length]; exact hs.2 o fs' hr))
    | «extends» exec t =>
      simp only [specItems]
      split
      · exact hcont _ (fine_ok hfs)
      · split <;> exact fine_error (by simp)
    | incl a ign =>
      simp only [specItems]
      have := specInclude_fine h env (cur.map Prod.fst) disc ign a.cands false fs (Or.inl hfs)
      rw [hfs] at this
      exact hcont _ this
    | importAs a v =>
      simp only [specItems]
      cases hpf : pushFails outer fs with
      | true => exact fine_error (by simp)
      | false =>
        simp only [Bool.false_eq_true, if_false]
        have hi := specInclude_fine h env (cur.map Prod.fst) false false a.cands false (fs.push [[]]) (Or.inr (by simp [hfs]))
        cases hr : specInclude env cbs (cur.map Prod.fst) false false outer a.cands false (fs.push [[]]) with
        | error e => exact fine_error (hi.1 e hr)
        | ok q =>
          obtain ⟨o, fs'⟩ := q
          have hl := hi.2 o fs' hr
          exact hcont _ (fine_ok (by rw [store_length]; simp [hl, hfs]))
    | fromImport a name alias =>
      simp only [specItems]
      cases hpf : pushFails outer fs with
      | true => exact fine_error (by simp)
      | false =>
        simp only [Bool.false_eq_true, if_false]
        have hi := specInclude_fine h env (cur.map Prod.fst) true false a.cands false (fs.push [[]]) (Or.inr (by simp [hfs]))
        cases hr : specInclude env cbs (cur.map Prod.fst) true false outer a.cands false (fs.push [[]]) with
        | error e => exact fine_error (hi.1 e hr)
        | ok q =>
          obtain ⟨o, fs'⟩ := q
          have hl := hi.2 o fs' hr
          exact hcont _ (fine_ok (by rw [store_length]; simp [hl, hfs]))
    | loop v vals body =>
      simp only [specItems]
      split
      · exact fine_error (by simp)
      · cases hpf : pushFails outer fs with
        | true => exact fine_error (by simp)
        | false =>
          simp only [Bool.false_eq_true, if_false]
          have hd := (pushFails_false_iff outer fs).1 hpf
          rw [hfs] at hd
          have hl := specLoop_fine (cbs.list D cur disc ext outer ae body) v vals n
            (fun fs1 h1 => h.list D cur disc ext ae body fs1 h1 hd) (fs.push [[]]) (by simp [hfs])
          rw [hfs]
          cases hr : specLoop (cbs.list D cur disc ext outer ae body) v vals n (fs.push [[]]) with
          | error e => exact fine_error (hl.1 e hr)
          | ok q =>
            obtain ⟨o, s⟩ := q
            exact hcont _ (fine_ok (by simp [hl.2 o s hr]))
    | inMacro m arg val body =>
      simp only [specItems]
      split
      · exact fine_error (by simp)
      · split
        · exact fine_error (by simp)
        · rename_i hd
          rw [store_length, hfs] at hd
          have hm := h.mac D ae body ((store fs m Val.opaque).macroCtx arg (Val.str val)) rfl (by omega)
          rw [store_length, hfs]
          cases hr : cbs.list D none false false (outer + n + MACRO_COST) ae body ((store fs m Val.opaque).macroCtx arg (Val.str val)) with
          | error e => exact fine_error (hm.1 e hr)
          | ok q =>
            obtain ⟨o, s⟩ := q
            exact hcont _ (fine_ok (by rw [store_length]; exact hfs))
    | badTarget => simp only [specItems]; exact fine_error (by simp)
    | autoesc m body =>
      simp only [specItems]
      cases hx : (body.any isExtends || decide (AE_NEST_MAX ≤ aeDepthL body)) with
      | true => simp only [if_true]; exact fine_error (by simp)
      | false =>
        simp only [Bool.false_eq_true, if_false]
        have hb : aeDepthL body < AE_NEST_MAX := by
          simp only [Bool.or_eq_false_iff, decide_eq_false_iff_not] at hx
          omega
        exact hcont _ (hsame m body (by simp) hb fs hfs)
    | text s =>
      simp only [specItems]
      cases hv : varItem ctx disc ae _ fs with
      | none => exact fine_error (by simp)
      | some r =>
        have hf := varItem_fine ctx disc ae _ fs r hv
        rw [hfs] at hf
        cases r with
        | error e => exact fine_error (hf.1 e rfl)
        | ok q => obtain ⟨o, fs'⟩ := q; exact hcont _ hf
    | emitVar v =>
      simp only [specItems]
      cases hv : varItem ctx disc ae _ fs with
      | none => exact fine_error (by simp)
      | some r =>
        have hf := varItem_fine ctx disc ae _ fs r hv
        rw [hfs] at hf
        cases r with
        | error e => exact fine_error (hf.1 e rfl)
        | ok q => obtain ⟨o, fs'⟩ := q; exact hcont _ hf
    | setVar v s =>
      simp only [specItems]
      cases hv : varItem ctx disc ae _ fs with
      | none => exact fine_error (by simp)
      | some r =>
        have hf := varItem_fine ctx disc ae _ fs r hv
        rw [hfs] at hf
        cases r with
        | error e => exact fine_error (hf.1 e rfl)
        | ok q => obtain ⟨o, fs'⟩ := q; exact hcont _ hf
    | defMacroV m' w' =>
      simp only [specItems]
      cases hv : varItem ctx disc ae _ fs with
      | none => exact fine_error (by simp)
      | some r =>
        have hf := varItem_fine ctx disc ae _ fs r hv
        rw [hfs] at hf
        cases r with
        | error e => exact fine_error (hf.1 e rfl)
        | ok q => obtain ⟨o, fs'⟩ := q; exact hcont _ hf
    | defMacro v s =>
      simp only [specItems]
      cases hv : varItem ctx disc ae _ fs with
      | none => exact fine_error (by simp)
      | some r =>
        have hf := varItem_fine ctx disc ae _ fs r hv
        rw [hfs] at hf
        cases r with
        | error e => exact fine_error (hf.1 e rfl)
        | ok q => obtain ⟨o, fs'⟩ := q; exact hcont _ hf
    | emitAttr v a =>
      simp only [specItems]
      cases hv : varItem ctx disc ae _ fs with
      | none => exact fine_error (by simp)
      | some r =>
        have hf := varItem_fine ctx disc ae _ fs r hv
        rw [hfs] at hf
        cases r with
        | error e => exact fine_error (hf.1 e rfl)
        | ok q => obtain ⟨o, fs'⟩ := q; exact hcont _ hf
    | emitKeys v =>
      simp only [specItems]
      cases hv : varItem ctx disc ae _ fs with
      | none => exact fine_error (by simp)
      | some r =>
        have hf := varItem_fine ctx disc ae _ fs r hv
        rw [hfs] at hf
        cases r with
        | error e => exact fine_error (hf.1 e rfl)
        | ok q => obtain ⟨o, fs'⟩ := q; exact hcont _ hf
    | callVar v =>
      simp only [specItems]
      cases hv : varItem ctx disc ae _ fs with
      | none => exact fine_error (by simp)
      | some r =>
        have hf := varItem_fine ctx disc ae _ fs r hv
        rw [hfs] at hf
        cases r with
        | error e => exact fine_error (hf.1 e rfl)
        | ok q => obtain ⟨o, fs'⟩ := q; exact hcont _ hf
    | required =>
      simp only [specItems]
      cases hv : varItem ctx disc ae _ fs with
      | none => exact fine_error (by simp)
      | some r =>
        have hf := varItem_fine ctx disc ae _ fs r hv
        rw [hfs] at hf
        cases r with
        | error e => exact fine_error (hf.1 e rfl)
        | ok q => obtain ⟨o, fs'⟩ := q; exact hcont _ hf

/-- an include costs at least one unit of depth (`INCLUDE_RECURSION_COST` as extracted from the
    sources); with a cost of 0 include cycles would not be stopped by the recursion limit -/
theorem INCLUDE_COST_pos : 1 ≤ INCLUDE_COST := by decide

theorem W_succ (E d : Nat) (h : d ≤ LIMIT) : W E d = W E (d + 1) + (E + 3 + AE_NEST_MAX) := by
  unfold W
  have : LIMIT + 1 - d = (LIMIT + 1 - (d + 1)) + 1 := by omega
  rw [this, Nat.add_mul, Nat.one_mul]

theorem W_mono (E d d' : Nat) (h : d ≤ d') : W E d' ≤ W E d := by
  unfold W
  exact Nat.mul_le_mul_right _ (by omega)

theorem W_pos (E d : Nat) (h : d ≤ LIMIT) : 1 ≤ W E d := by
  rw [W_succ E d h]; omega

/-- with `f` levels of fuel, nothing that starts at a depth the fuel covers runs out of fuel,
    and every successful run returns as many frames as it was given -/
structure Term (env : Env) (ctx : Cfg) (f : Nat) : Prop where
  list : ∀ D cur disc ext outer ae items (fs : Vars), outer + fs.length ≤ LIMIT →
    W env.length (outer + fs.length) ≤ f →
    Fine fs.length ((specAll env ctx f).list D cur disc ext outer ae items fs)
  /-- a list in which `autoescape` blocks are nested at most `a` deep directly in one another
      (the body of such a block: it runs at the same stack depth, so the fuel pays per level) -/
  nest : ∀ (a : Nat) D cur disc ext outer ae (items : List Item) (fs : Vars), aeDepthL items ≤ a →
    outer + fs.length ≤ LIMIT → W env.length (outer + fs.length + 1) + a + 1 ≤ f →
    Fine fs.length ((specAll env ctx f).list D cur disc ext outer ae items fs)
  body : ∀ D n k disc outer ae (fs : Vars), outer + fs.length ≤ LIMIT →
    W env.length (outer + fs.length) ≤ f →
    Fine fs.length ((specAll env ctx f).body D n k disc outer ae fs)
  chain : ∀ (chain : List Nat) inh disc outer ae layout (fs : Vars), chain ≠ [] → chain.tail.Nodup →
    (∀ x ∈ chain.tail, x < env.length) → outer + fs.length ≤ LIMIT →
    W env.length (outer + fs.length + 1) + (env.length - chain.tail.length) + 2 + AE_NEST_MAX ≤ f →
    Fine fs.length ((specAll env ctx f).chain chain inh disc outer ae layout fs)

theorem cbfine_of_term {env : Env} {ctx : Cfg} {f : Nat} (ht : Term env ctx f) (outer n : Nat)
    (hw : W env.length (outer + n + 1) ≤ f) :
    CbFine (specAll env ctx f) outer n := by
  refine ⟨?_, ?_, ?_, ?_⟩
  · intro D m k disc ae fs1 h1 hd
    have := ht.body D m k disc outer ae fs1 (by omega) (by rw [h1]; exact hw)
    rwa [h1] at this
  · intro D cur disc ext ae items fs1 h1 hd
    have := ht.list D cur disc ext outer ae items fs1 (by omega) (by rw [h1]; exact hw)
    rwa [h1] at this
  · intro D ae items fs1 h1 hd
    have := ht.list D none false false (outer + n + MACRO_COST) ae items fs1 (by omega)
      (Nat.le_trans (W_mono _ _ _ (by omega)) hw)
    rwa [h1] at this
  · intro t inh disc ae layout fs1 h1 hd
    have hpos := INCLUDE_COST_pos
    apply ht.chain [t] inh disc (outer + INCLUDE_COST) ae layout fs1 (by simp) (by simp) (by simp) hd
    have h2 : outer + n + 1 ≤ LIMIT := by omega
    have h3 := W_succ env.length (outer + n + 1) h2
    have h4 := W_mono env.length (outer + n + 1 + 1) (outer + INCLUDE_COST + fs1.length + 1) (by omega)
    simp only [List.tail_cons, List.length_nil, Nat.sub_zero]
    omega

theorem term_zero (env : Env) (ctx : Cfg) : Term env ctx 0 := by
  refine ⟨?_, ?_, ?_, ?_⟩
  · intro D cur disc ext outer ae items fs hd hw
    have := W_pos env.length _ hd; omega
  · intro a D cur disc ext outer ae items fs _ hd hw
    omega
  · intro D n k disc outer ae fs hd hw
    have := W_pos env.length _ hd; omega
  · intro chain inh disc outer ae layout fs _ _ _ hd hw
    omega

theorem term_succ (env : Env) (ctx : Cfg) (f : Nat) (ht : Term env ctx f) : Term env ctx (f + 1) := by
  have hsame : ∀ (outer : Nat) (fs : Vars), outer + fs.length ≤ LIMIT →
      W env.length (outer + fs.length + 1) + AE_NEST_MAX ≤ f →
      ∀ D cur disc ext (items : List Item) m body, Item.autoesc m body ∈ items → aeDepthL body < AE_NEST_MAX →
      ∀ fs1 : Vars, fs1.length = fs.length →
        Fine fs.length ((specAll env ctx f).list D cur disc ext outer m body fs1) := by
    intro outer fs hd hw D cur disc ext items m body _ hb fs1 h1
    have := ht.nest (aeDepthL body) D cur disc ext outer m body fs1 (Nat.le_refl _) (by omega) (by rw [h1]; omega)
    rwa [h1] at this
  refine ⟨?_, ?_, ?_, ?_⟩
  · intro D cur disc ext outer ae items fs hd hw
    have h1 := W_succ env.length _ hd
    exact specItems_fine env ctx (cbfine_of_term ht outer fs.length (by omega)) D cur disc ext ae items
      (hsame outer fs hd (by omega) D cur disc ext items) fs rfl
  · intro a D cur disc ext outer ae items fs hnest hd hw
    exact specItems_fine env ctx (cbfine_of_term ht outer fs.length (by omega)) D cur disc ext ae items
      (by
        intro m body hm _ fs1 h1
        have hlt := aeDepth_mem m body items hm
        have := ht.nest (a - 1) D cur disc ext outer m body fs1 (by omega) (by omega) (by rw [h1]; omega)
        rwa [h1] at this) fs rfl
  · intro D n k disc outer ae fs hd hw
    have h1 := W_succ env.length _ hd
    simp only [specAll]
    cases (D n)[k]? with
    | none => exact fine_error (by simp)
    | some b =>
      exact specItems_fine env ctx (cbfine_of_term ht outer fs.length (by omega)) D _ disc false ae b
        (hsame outer fs hd (by omega) D _ disc false b) fs rfl
  · intro chain inh disc outer ae layout fs hne hnd hlt hd hw
    have hcb : ∀ fs' : Vars, fs'.length = fs.length → CbFine (specAll env ctx f) outer fs'.length := by
      intro fs' h'; rw [h']; exact cbfine_of_term ht outer fs.length (by omega)
    have hsm : ∀ (fs' : Vars), fs'.length = fs.length → ∀ D cur disc ext (items : List Item) m body,
        Item.autoesc m body ∈ items → aeDepthL body < AE_NEST_MAX →
        ∀ fs1 : Vars, fs1.length = fs'.length →
          Fine fs'.length ((specAll env ctx f).list D cur disc ext outer m body fs1) := by
      intro fs' h'
      exact hsame outer fs' (by omega) (by rw [h']; omega)
    simp only [specAll, specChain]
    cases hs : splitExtends layout with
    | none =>
      exact specItems_fine env ctx (hcb fs rfl) _ _ disc false ae layout
        (hsm fs rfl _ _ disc false layout) fs rfl
    | some r =>
      obtain ⟨pre, t, post⟩ := r
      simp only []
      have hpre := specItems_fine env ctx (hcb fs rfl) (defs env chain) (inh.map (fun n => (n, 0))) disc false ae pre
        (hsm fs rfl _ _ disc false pre) fs rfl
      cases hr1 : specItems env ctx (specAll env ctx f) (defs env chain) (inh.map (fun n => (n, 0))) disc false outer ae pre fs with
      | error e => exact fine_error (hpre.1 e hr1)
      | ok q1 =>
        obtain ⟨o, fs1⟩ := q1
        have hl1 : fs1.length = fs.length := hpre.2 o fs1 hr1
        simp only []
        by_cases hmem : t ∈ chain.tail
        · simp only [hmem, if_true]; exact fine_error (by simp)
        · simp only [hmem, if_false]
          cases hT : env[t]? with
          | none => exact fine_error (by simp)
          | some T =>
            simp only []
            cases hL : T.loadErr with
            | some kk => exact fine_error (by cases kk <;> simp [loadErrKind])
            | none =>
            simp only []
            have hpost := specItems_fine env ctx (hcb fs1 hl1) (defs env (chain ++ [t])) (inh.map (fun n => (n, 0))) true true ae post
              (hsm fs1 hl1 _ _ true true post) fs1 rfl
            cases hr2 : specItems env ctx (specAll env ctx f) (defs env (chain ++ [t])) (inh.map (fun n => (n, 0))) true true outer ae post fs1 with
            | error e => exact fine_error (hpost.1 e hr2)
            | ok q2 =>
              obtain ⟨o2, fs2⟩ := q2
              have hl2 : fs2.length = fs1.length := hpost.2 o2 fs2 hr2
              simp only []
              have hlt' : t < env.length := by
                rcases Nat.lt_or_ge t env.length with h | h
                · exact h
                · rw [List.getElem?_eq_none h] at hT; cases hT
              have hroom : chain.tail.length < env.length := by
                rcases Nat.lt_or_ge chain.tail.length env.length with h | h
                · exact h
                · exact absurd (nodup_full env.length chain.tail hnd hlt h t hlt') hmem
              have htail : (chain ++ [t]).tail = chain.tail ++ [t] := by
                cases chain with
                | nil => exact absurd rfl hne
                | cons c cs => rfl
              have hc := ht.chain (chain ++ [t]) inh disc outer ae T.layout fs2 (by simp)
                (by rw [htail]; exact List.nodup_append.2 ⟨hnd, by simp, by
                  intro a ha b hb; simp at hb; subst hb; intro e; exact hmem (e ▸ ha)⟩)
                (by rw [htail]; intro x hx'; rcases List.mem_append.1 hx' with h | h
                    · exact hlt x h
                    · simp at h; omega)
                (by omega)
                (by rw [htail, List.length_append, List.length_singleton, hl2, hl1]; omega)
              cases hr3 : (specAll env ctx f).chain (chain ++ [t]) inh disc outer ae T.layout fs2 with
              | error e => exact fine_error (hc.1 e hr3)
              | ok q3 =>
                obtain ⟨o3, fs3⟩ := q3
                exact fine_ok (by rw [hc.2 o3 fs3 hr3, hl2, hl1])

theorem term_all (env : Env) (ctx : Cfg) : ∀ f, Term env ctx f
  | 0 => term_zero env ctx
  | f + 1 => term_succ env ctx f (term_all env ctx f)

/-! ### cycles -/

def Item.isText : Item → Bool
  | .text _ => true
  | _ => false

/-- a layout of the usual shape: text, an executed `extends`, then text / block tags / `extends` -/
def extendsAfterText : List Item → Bool
  | [] => false
  | .extends true _ :: rest => rest.all Item.isPost
  | .text _ :: rest => extendsAfterText rest
  | _ => false

theorem extendsAfterText_split (layout : List Item) (h : extendsAfterText layout = true) :
    ∃ pre t post, splitExtends layout = some (pre, t, post) ∧ pre.all Item.isText = true ∧
      post.all Item.isPost = true := by
  induction layout with
  | nil => simp [extendsAfterText] at h
  | cons it rest ih =>
    cases it with
    | text s =>
      obtain ⟨pre, t, post, h1, h2, h3⟩ := ih (by simpa [extendsAfterText] using h)
      exact ⟨.text s :: pre, t, post, by simp [splitExtends, h1], by simp [Item.isText, h2], h3⟩
    | «extends» exec t =>
      cases exec with
      | true => exact ⟨[], t, rest, rfl, rfl, by simpa [extendsAfterText] using h⟩
      | false => simp [extendsAfterText] at h
    | _ => simp [extendsAfterText] at h

theorem specItems_texts (env : Env) (ctx : Cfg) (cbs : SpecCbs) (D : Nat → List (List Item))
    (cur : Option (Nat × Nat)) (disc ext : Bool) (outer : Nat) (ae : AE) (pre more : List Item)
    (h : pre.all Item.isText = true) (fs : Vars) :
    ∃ o, specItems env ctx cbs D cur disc ext outer ae (pre ++ more) fs =
      match specItems env ctx cbs D cur disc ext outer ae more fs with
      | .error e => .error e
      | .ok (o', fs') => .ok (o ++ o', fs') := by
  induction pre with
  | nil =>
    refine ⟨[], ?_⟩
    simp only [List.nil_append]
    cases specItems env ctx cbs D cur disc ext outer ae more fs with
    | error e => rfl
    | ok r => rfl
  | cons it rest ih =>
    simp only [List.all_cons, Bool.and_eq_true] at h
    obtain ⟨o, ho⟩ := ih h.2
    cases it with
    | text s =>
      refine ⟨(if disc then [] else [s]) ++ o, ?_⟩
      simp only [List.cons_append, specItems, varItem, ho]
      cases specItems env ctx cbs D cur disc ext outer ae more fs with
      | error e => rfl
      | ok r => obtain ⟨o', fs'⟩ := r; simp
    | _ => simp [Item.isText] at h

theorem specItems_post (env : Env) (ctx : Cfg) (cbs : SpecCbs) (D : Nat → List (List Item))
    (cur : Option (Nat × Nat)) (outer : Nat) (ae : AE) (post : List Item) (h : post.all Item.isPost = true) (fs : Vars) :
    specItems env ctx cbs D cur true true outer ae post fs =
      if hasExecExtends post then .error [.invalidOperation] else .ok ([], fs) := by
  induction post with
  | nil => simp [specItems, hasExecExtends]
  | cons it rest ih =>
    simp only [List.all_cons, Bool.and_eq_true] at h
    have ih := ih h.2
    cases it with
    | text s =>
      rw [show hasExecExtends (Item.text s :: rest) = hasExecExtends rest from rfl]
      simp only [specItems, varItem, ih]
      cases hasExecExtends rest <;> simp
    | callBlock m =>
      rw [show hasExecExtends (Item.callBlock m :: rest) = hasExecExtends rest from rfl]
      simp only [specItems, ih, Bool.or_true, if_true]
      cases hasExecExtends rest <;> simp
    | «extends» exec t =>
      cases exec with
      | true => simp [specItems, hasExecExtends]
      | false =>
        rw [show hasExecExtends (Item.extends false t :: rest) = hasExecExtends rest from rfl]
        simp only [specItems, ih, Bool.not_false, if_true]
        cases hasExecExtends rest <;> simp
    | _ => simp [Item.isPost] at h

/-- every template extends something: the spec reports a *detected* error (cycle, missing
    template or a second `extends`; not exhaustion) as soon as the fuel allows `|env| + 1`
    template activations -/
theorem cycle_detected_spec (env : Env) (ctx : Cfg)
    (hall : ∀ T ∈ env, extendsAfterText T.layout = true) (hload : ∀ T ∈ env, T.loadErr = none) :
    ∀ d f chain inh disc outer ae layout fs, chain ≠ [] → chain.tail.Nodup → (∀ x ∈ chain.tail, x < env.length) →
      env.length - chain.tail.length ≤ d → d + 1 ≤ f → extendsAfterText layout = true →
      (specAll env ctx f).chain chain inh disc outer ae layout fs = .error [.invalidOperation] ∨
        (specAll env ctx f).chain chain inh disc outer ae layout fs = .error [.templateNotFound] := by
  intro d
  induction d with
  | zero =>
    intro f chain inh disc outer ae layout fs hne hnd hlt hd hf hl
    obtain ⟨f', rfl⟩ : ∃ f', f = f' + 1 := ⟨f - 1, by omega⟩
    obtain ⟨pre, t, post, hs, hpre, hpost⟩ := extendsAfterText_split layout hl
    obtain ⟨o, ho⟩ := specItems_texts env ctx (specAll env ctx f') (defs env chain) (inh.map (fun n => (n, 0))) disc false outer ae
      pre [] hpre fs
    simp only [List.append_nil, specItems] at ho
    simp only [specAll, specChain, hs, ho]
    by_cases hmem : t ∈ chain.tail
    · simp [hmem]
    · simp only [hmem, if_false]
      cases hT : env[t]? with
      | none => simp
      | some T =>
        have hlt' : t < env.length := by
          rcases Nat.lt_or_ge t env.length with h | h
          · exact h
          · rw [List.getElem?_eq_none h] at hT; cases hT
        exact absurd (nodup_full env.length chain.tail hnd hlt (by omega) t hlt') hmem
  | succ d ih =>
    intro f chain inh disc outer ae layout fs hne hnd hlt hd hf hl
    obtain ⟨f', rfl⟩ : ∃ f', f = f' + 1 := ⟨f - 1, by omega⟩
    obtain ⟨pre, t, post, hs, hpre, hpost⟩ := extendsAfterText_split layout hl
    obtain ⟨o, ho⟩ := specItems_texts env ctx (specAll env ctx f') (defs env chain) (inh.map (fun n => (n, 0))) disc false outer ae
      pre [] hpre fs
    simp only [List.append_nil, specItems] at ho
    simp only [specAll, specChain, hs, ho]
    by_cases hmem : t ∈ chain.tail
    · simp [hmem]
    · simp only [hmem, if_false]
      cases hT : env[t]? with
      | none => simp
      | some T =>
        simp only [hload T (List.mem_of_getElem? hT), specItems_post env ctx _ _ _ outer ae post hpost]
        by_cases hx : hasExecExtends post = true
        · simp [hx]
        · have hx' : hasExecExtends post = false := by simpa using hx
          simp only [hx', Bool.false_eq_true, if_false]
          have hlt' : t < env.length := by
            rcases Nat.lt_or_ge t env.length with h | h
            · exact h
            · rw [List.getElem?_eq_none h] at hT; cases hT
          have htail : (chain ++ [t]).tail = chain.tail ++ [t] := by
            cases chain with
            | nil => exact absurd rfl hne
            | cons c cs => rfl
          have := ih f' (chain ++ [t]) inh disc outer ae T.layout fs (by simp)
            (by rw [htail]; exact List.nodup_append.2 ⟨hnd, by simp, by
              intro a ha b hb; simp at hb; subst hb; intro e; exact hmem (e ▸ ha)⟩)
            (by rw [htail]; intro x hx'; rcases List.mem_append.1 hx' with h | h
                · exact hlt x h
                · simp at h; omega)
            (by rw [htail, List.length_append, List.length_singleton]; omega) (by omega)
            (hall T (List.mem_of_getElem? hT))
          rcases this with h | h <;> simp [h]

/-- text, then an (unconditional) include of one existing template -/
def includesAfterText (env : Env) : List Item → Bool
  | [] => false
  | .incl (.single (some t)) _ :: _ => decide (t < env.length)
  | .text _ :: rest => includesAfterText env rest
  | _ => false

theorem includesAfterText_split (env : Env) (layout : List Item) (h : includesAfterText env layout = true) :
    ∃ pre t ign rest, layout = pre ++ .incl (.single (some t)) ign :: rest ∧ pre.all Item.isText = true ∧ t < env.length := by
  induction layout with
  | nil => simp [includesAfterText] at h
  | cons it rest ih =>
    cases it with
    | text s =>
      obtain ⟨pre, t, ign, r, h1, h2, h3⟩ := ih (by simpa [includesAfterText] using h)
      exact ⟨.text s :: pre, t, ign, r, by rw [h1]; rfl, by simp [Item.isText, h2], h3⟩
    | incl a ign =>
      match a, h with
      | .single (some t), h => exact ⟨[], t, ign, rest, rfl, rfl, by simpa [includesAfterText] using h⟩
      | .single none, h => simp [includesAfterText] at h
      | .object _ _, h => simp [includesAfterText] at h
    | _ => simp [includesAfterText] at h

theorem split_after_texts (pre : List Item) (x : Item) (rest : List Item)
    (hpre : pre.all Item.isText = true) (hx : isExtends x = false) :
    splitExtends (pre ++ x :: rest) = none ∨
      ∃ rest' t post, splitExtends (pre ++ x :: rest) = some (pre ++ x :: rest', t, post) := by
  induction pre with
  | nil =>
    simp only [List.nil_append]
    have hstep : splitExtends (x :: rest) =
        match splitExtends rest with
        | none => none
        | some (p, t, q) => some (x :: p, t, q) := by
      cases x <;> first | rfl | simp [isExtends] at hx
    rw [hstep]
    cases splitExtends rest with
    | none => exact Or.inl rfl
    | some r => obtain ⟨p, t, q⟩ := r; exact Or.inr ⟨p, t, q, rfl⟩
  | cons it pre' ih =>
    simp only [List.all_cons, Bool.and_eq_true] at hpre
    cases it with
    | text s =>
      simp only [List.cons_append, splitExtends]
      rcases ih hpre.2 with h | ⟨r', t, q, h⟩
      · rw [h]; exact Or.inl rfl
      · rw [h]; exact Or.inr ⟨r', t, q, rfl⟩
    | _ => simp [Item.isText] at hpre

/-- `BadInclude`ⁿ around the recursion-limit error (or around the model's fuel error) -/
def IncErr (e : Err) : Prop :=
  ∃ j k, e = List.replicate j Kind.badInclude ++ [k] ∧ (k = Kind.invalidOperation ∨ k = Kind.recursion)

theorem include_items_err (env : Env) (ctx : Cfg) (cbs : SpecCbs)
    (hcb : ∀ t, t < env.length → ∀ T, env[t]? = some T → ∀ inh disc outer ae fs,
      ∃ e, cbs.chain [t] inh disc outer ae T.layout fs = .error e ∧ IncErr e)
    (D : Nat → List (List Item)) (cur : Option (Nat × Nat)) (disc ext : Bool) (outer : Nat) (ae : AE)
    (pre : List Item) (t : Nat) (ign : Bool) (more : List Item)
    (hpre : pre.all Item.isText = true) (ht : t < env.length) (hload : ∀ T ∈ env, T.loadErr = none)
    (fs : Vars) :
    ∃ e, specItems env ctx cbs D cur disc ext outer ae (pre ++ .incl (.single (some t)) ign :: more) fs = .error e ∧ IncErr e := by
  obtain ⟨o, ho⟩ := specItems_texts env ctx cbs D cur disc ext outer ae pre (.incl (.single (some t)) ign :: more) hpre fs
  rw [ho]
  have hT : env[t]? = some env[t] := List.getElem?_eq_getElem ht
  simp only [specItems, Arg.cands, specInclude, hT, hload _ (List.getElem_mem ht)]
  by_cases hd : outer + INCLUDE_COST + fs.length > LIMIT
  · exact ⟨[.invalidOperation], by simp [hd], 0, .invalidOperation, rfl, Or.inl rfl⟩
  · obtain ⟨e, he, j, k, hjk, hk⟩ := hcb t ht _ hT (cur.map Prod.fst) disc (outer + INCLUDE_COST) env[t].ae (fs.setTopClosure none)
    refine ⟨.badInclude :: e, by simp [hd, he], j + 1, k, ?_, hk⟩
    rw [hjk]; rfl

/-- every template includes some existing template before anything else can go wrong: rendering
    is an error for every fuel, of the shape `BadInclude … BadInclude` around the limit error -/
theorem include_cycle_spec (env : Env) (ctx : Cfg)
    (hall : ∀ T ∈ env, includesAfterText env T.layout = true) (hload : ∀ T ∈ env, T.loadErr = none) :
    ∀ f t, t < env.length → ∀ T, env[t]? = some T → ∀ inh disc outer ae fs,
      ∃ e, (specAll env ctx f).chain [t] inh disc outer ae T.layout fs = .error e ∧ IncErr e := by
  intro f
  induction f with
  | zero =>
    intro t _ T _ inh disc outer ae fs
    exact ⟨[.recursion], rfl, 0, .recursion, rfl, Or.inr rfl⟩
  | succ f ih =>
    intro t ht T hT inh disc outer ae fs
    obtain ⟨pre, t', ign, rest, hl, hpre, ht'⟩ := includesAfterText_split env T.layout (hall T (List.mem_of_getElem? hT))
    simp only [specAll, specChain]
    rw [hl]
    rcases split_after_texts pre (.incl (.single (some t')) ign) rest hpre rfl with hs | ⟨rest', tx, post, hs⟩
    · rw [hs]
      exact include_items_err env ctx _ ih _ _ disc false outer ae pre t' ign rest hpre ht' hload fs
    · rw [hs]
      obtain ⟨e, he, hie⟩ := include_items_err env ctx _ ih (defs env [t]) (inh.map (fun n => (n, 0))) disc false outer ae pre t' ign rest' hpre ht' hload fs
      exact ⟨e, by simp only [he], hie⟩

/-! ### import of a template that extends another one -/

theorem spec_simple_steps (env : Env) (ctx : Cfg) (cbs : SpecCbs) (D : Nat → List (List Item))
    (cur : Option (Nat × Nat)) (disc ext : Bool) (outer : Nat) (ae : AE) (items : List Item)
    (h : items.all Item.isAssign = true) (base : Vars) (fr : Frame) :
    ∃ o, specItems env ctx cbs D cur disc ext outer ae items (base.push [fr]) =
      .ok (o, base.push [assigns items fr]) := by
  induction items generalizing fr with
  | nil => exact ⟨[], rfl⟩
  | cons it rest ih =>
    simp only [List.all_cons, Bool.and_eq_true] at h
    cases it with
    | text s =>
      obtain ⟨o, ho⟩ := ih h.2 fr
      exact ⟨_, by simp only [specItems, varItem, ho, assigns]; rfl⟩
    | setVar v s =>
      obtain ⟨o, ho⟩ := ih h.2 ((v, .str s) :: fr)
      exact ⟨_, by simp only [specItems, varItem, store_push, ho, assigns]; rfl⟩
    | defMacro v s =>
      obtain ⟨o, ho⟩ := ih h.2 ((v, .mac v s) :: fr)
      exact ⟨_, by simp only [specItems, varItem, store_push, ho, assigns]; rfl⟩
    | _ => simp [Item.isAssign] at h

theorem splitExtends_assign_none (items : List Item) (h : items.all Item.isAssign = true) :
    splitExtends items = none := by
  induction items with
  | nil => rfl
  | cons it rest ih =>
    simp only [List.all_cons, Bool.and_eq_true] at h
    cases it <;> first | (simp [Item.isAssign] at h; done) | simp [splitExtends, ih h.2]

theorem splitExtends_assign_some (pre post : List Item) (p : Nat) (h : pre.all Item.isAssign = true) :
    splitExtends (pre ++ .extends true p :: post) = some (pre, p, post) := by
  induction pre with
  | nil => rfl
  | cons it rest ih =>
    simp only [List.all_cons, Bool.and_eq_true] at h
    cases it <;> first | (simp [Item.isAssign] at h; done) | simp [splitExtends, ih h.2]

/-- the spec's include of a child template `t = pre ++ [extends p] ++ post` whose statements
    (and those of its parent) are top-level assignments: the new frame collects the child's
    assignments in front of *and behind* the `extends` tag, then the parent's -/
theorem spec_include_extending (env : Env) (ctx : Cfg) (f : Nat) (inh : Option Nat) (disc : Bool) (outer : Nat)
    (t p : Nat) (T P : Template) (pre post : List Item)
    (hT : env[t]? = some T) (hP : env[p]? = some P) (hLT : T.loadErr = none) (hLP : P.loadErr = none)
    (hl : T.layout = pre ++ .extends true p :: post)
    (hpre : pre.all Item.isAssign = true) (hpost : post.all Item.isAssign = true)
    (hpl : P.layout.all Item.isAssign = true) (fs : Vars) (hwf : fs.WF)
    (hd : outer + INCLUDE_COST + (fs.length + 1) ≤ LIMIT) :
    ∃ o, specInclude env (specAll env ctx (f + 2)) inh disc false outer [some t] false (fs.push [[]]) =
      .ok (o, fs.push [assigns P.layout (assigns post (assigns pre []))]) := by
  have hd' : ¬ (outer + INCLUDE_COST + (fs.push [[]]).length > LIMIT) := by simp; omega
  obtain ⟨o1, h1⟩ := spec_simple_steps env ctx (specAll env ctx f.succ) (defs env [t]) (inh.map (fun n => (n, 0))) disc false
    (outer + INCLUDE_COST) T.ae pre hpre fs []
  obtain ⟨o2, h2⟩ := spec_simple_steps env ctx (specAll env ctx f.succ) (defs env ([t] ++ [p])) (inh.map (fun n => (n, 0))) true true
    (outer + INCLUDE_COST) T.ae post hpost fs (assigns pre [])
  obtain ⟨o3, h3⟩ := spec_simple_steps env ctx (specAll env ctx f) (defs env ([t] ++ [p])) (inh.map (fun n => (n, 0))) disc false
    (outer + INCLUDE_COST) T.ae P.layout hpl fs (assigns post (assigns pre []))
  refine ⟨o1 ++ o2 ++ o3, ?_⟩
  simp only [specInclude, hT, hLT, hd', if_false, setTopClosure_push, topClosure_push]
  have hchain : (specAll env ctx (f + 2)).chain [t] inh disc (outer + INCLUDE_COST) T.ae T.layout (fs.push [[]]) =
      .ok (o1 ++ o2 ++ o3, fs.push [assigns P.layout (assigns post (assigns pre []))]) := by
    have e1 : (specAll env ctx (f + 2)).chain [t] inh disc (outer + INCLUDE_COST) T.ae T.layout (fs.push [[]]) =
        specChain env ctx (specAll env ctx (f + 1)) [t] inh disc (outer + INCLUDE_COST) T.ae T.layout (fs.push [[]]) := rfl
    have e2 : (specAll env ctx (f + 1)).chain ([t] ++ [p]) inh disc (outer + INCLUDE_COST) T.ae P.layout
          (fs.push [assigns post (assigns pre [])]) =
        specChain env ctx (specAll env ctx f) ([t] ++ [p]) inh disc (outer + INCLUDE_COST) T.ae P.layout
          (fs.push [assigns post (assigns pre [])]) := rfl
    rw [e1]
    simp only [specChain, hl, splitExtends_assign_some pre post p hpre, h1, List.tail_cons,
      List.not_mem_nil, if_false, hP, hLP, h2, e2, splitExtends_assign_none P.layout hpl, h3]
  rw [hchain]
  simp only [length_push, take_push_self _ _ hwf, setTopClosure_push]

theorem importAs_extending_step (env : Env) (ctx : Cfg) (henv : EnvOK env) (f : Nat)
    (cur : Option Nat) (d0 e0 : Bool) (outer : Nat) (ae : AE) (parent : Option (List Item))
    (a : Arg) (t p v : Nat) (T P : Template) (pre post : List Item) (hc : a.cands = [some t])
    (hT : env[t]? = some T) (hP : env[p]? = some P) (hLT : T.loadErr = none) (hLP : P.loadErr = none)
    (hl : T.layout = pre ++ .extends true p :: post)
    (hpre : pre.all Item.isAssign = true) (hpost : post.all Item.isAssign = true)
    (hpl : P.layout.all Item.isAssign = true) (rest : List Item) (st : St) (hwf : st.frames.WF)
    (hd : outer + INCLUDE_COST + (st.frames.length + 1) ≤ LIMIT) :
    stepItems ⟨env, ctx, cur, d0, e0, outer, ae⟩ (evalImpl env ctx (f + 2)) parent (.importAs a v :: rest) st =
      stepItems ⟨env, ctx, cur, d0, e0, outer, ae⟩ (evalImpl env ctx (f + 2)) parent rest
        { st with frames := (store st.frames v
            (Val.module (dedupKeys (assigns P.layout (assigns post (assigns pre [])))))) } := by
  obtain ⟨o, ho⟩ := spec_include_extending env ctx f cur false outer t p T P pre post hT hP hLT hLP hl hpre hpost hpl
    st.frames hwf hd
  simp only [stepItems, choices_eq_cands, hc, pushFails_false_of outer st.frames hd, Bool.false_eq_true, if_false]
  rw [include_sim (hyp_all env ctx henv (f + 2)) henv cur false false outer [some t] false
    { st with frames := st.frames.push [[]] }]
  simp only [ho, liftS, topFrame_push, take_push _ _ hwf, andThen_nil]

/-! ### the state a render leaves behind (`State::render_block`) -/

theorem ChainSt.setFrames {env : Env} {chain : List Nat} {st : St} (h : ChainSt env chain st)
    (fs : Vars) : ChainSt env chain { st with frames := fs } :=
  ⟨h.blocks, h.depth, h.loaded⟩

/-- the state a successful render leaves behind: the block stacks hold the definitions of the
    whole chain that was followed, all cursors are back at 0 -/
theorem final_chainSt (env : Env) (ctx : Cfg) (henv : EnvOK env) :
    ∀ f chain layout st rcur disc outer ae, ChainSt env chain st → layoutOK layout = true → chain ≠ [] →
      ∀ o st', evalImpl env ctx f rcur disc false outer ae layout st = .ok (o, st') →
        ∃ more, ChainSt env (chain ++ more) st' := by
  intro f
  induction f with
  | zero => intro chain layout st rcur disc outer ae _ _ _ o st' h; simp [evalImpl] at h
  | succ f ih =>
    intro chain layout st rcur disc outer ae hst hlay hne o st' hev
    have h := hyp_all env ctx henv f
    have hwf := WF_defs env henv chain
    have hg : Good (defs env chain) none true 0 st :=
      ⟨hst.blocks, (by intro n hn; cases hn), fun _ m _ => hst.depth m⟩
    have hscOf : ∀ st' : St, (∀ m, st'.depth m = 0) → SuperCtx (rcur.map (fun n => (n, 0))) rcur st' := by
      intro st' hd
      refine ⟨by cases rcur <;> rfl, ?_⟩
      intro n j hnj
      cases rcur with
      | none => cases hnj
      | some r => cases hnj; exact ⟨hd _, fun m _ => hd m⟩
    simp only [evalImpl] at hev
    cases hs : splitExtends layout with
    | none =>
      have hp := sim_prefix h henv _ hwf none true 0 (rcur.map (fun n => (n, 0))) rcur disc false outer ae none
        layout
        (fun it hm => Or.inl (splitExtends_none layout hs hlay it hm)) [] st (hscOf st hst.depth) hg
      simp only [List.append_nil, Option.isSome_none, Bool.or_false, stepItems] at hp
      rw [hp] at hev
      cases hr : specItems env ctx (specAll env ctx f) (defs env chain) (rcur.map (fun n => (n, 0))) disc false outer ae layout st.frames with
      | error e => rw [hr] at hev; simp [thenStepsF] at hev
      | ok r =>
        obtain ⟨o1, fs⟩ := r
        rw [hr] at hev
        simp only [thenStepsF, Except.ok.injEq, Prod.mk.injEq] at hev
        obtain ⟨_, rfl⟩ := hev
        exact ⟨[], by simpa using hst.setFrames fs⟩
    | some r =>
      obtain ⟨pre, t, post⟩ := r
      obtain ⟨hl, hpre, hpost⟩ := splitExtends_some layout pre post t hs hlay
      have hp := sim_prefix h henv _ hwf none true 0 (rcur.map (fun n => (n, 0))) rcur disc false outer ae none
        pre
        (fun it hm => Or.inl (hpre it hm)) (.extends true t :: post) st (hscOf st hst.depth) hg
      simp only [Option.isSome_none, Bool.or_false] at hp
      rw [hl, hp] at hev
      cases hr1 : specItems env ctx (specAll env ctx f) (defs env chain) (rcur.map (fun n => (n, 0))) disc false outer ae pre st.frames with
      | error e => rw [hr1] at hev; simp [thenStepsF] at hev
      | ok r1 =>
        obtain ⟨o1, fs1⟩ := r1
        rw [hr1] at hev
        simp only [thenStepsF, stepItems, Bool.not_true, Bool.false_eq_true, if_false, Option.isSome_none, loadBlocks] at hev
        by_cases hmem : t ∈ st.loaded
        · simp [hmem] at hev
        · simp only [hmem, if_false] at hev
          cases hT : env[t]? with
          | none => simp [hT] at hev
          | some T =>
            simp only [hT] at hev
            cases hL : T.loadErr with
            | some kk => simp [hL] at hev
            | none =>
            simp only [hL] at hev
            have hst1 : ∀ fs, ChainSt env (chain ++ [t])
                { blocks := appendBlocks st.blocks T.blocks, depth := st.depth, loaded := t :: st.loaded,
                  frames := fs } := by
              intro fs
              refine ⟨?_, hst.depth, ?_⟩
              · simp only [hst.blocks]; exact appendBlocks_defs env chain t T hT
              · intro t'
                cases chain with
                | nil => exact absurd rfl hne
                | cons c cs =>
                  simp only [List.cons_append, List.tail_cons, List.mem_cons, List.mem_append]
                  have := hst.loaded t'
                  simp only [List.tail_cons] at this
                  rw [this]; simp [or_comm]
            have hg1 : Good (defs env (chain ++ [t])) none true 0
                { blocks := appendBlocks st.blocks T.blocks, depth := st.depth, loaded := t :: st.loaded,
                  frames := fs1 } :=
              ⟨(hst1 fs1).blocks, (by intro n hn; cases hn), fun _ m _ => hst.depth m⟩
            have hp2 := sim_prefix h henv _ (WF_defs env henv (chain ++ [t])) none true 0 (rcur.map (fun n => (n, 0))) rcur
              disc false outer ae
              (some T.layout) post
              (fun it hm => (hpost it hm).elim Or.inl (fun hx => Or.inr ⟨rfl, hx⟩)) []
              { blocks := appendBlocks st.blocks T.blocks, depth := st.depth, loaded := t :: st.loaded, frames := fs1 }
              (hscOf { blocks := appendBlocks st.blocks T.blocks, depth := st.depth, loaded := t :: st.loaded, frames := fs1 }
                hst.depth) hg1
            simp only [List.append_nil, Option.isSome_some, Bool.or_true, stepItems] at hp2
            rw [hp2] at hev
            cases hr2 : specItems env ctx (specAll env ctx f) (defs env (chain ++ [t])) (rcur.map (fun n => (n, 0))) true true outer ae post fs1 with
            | error e => rw [hr2] at hev; simp [thenStepsF] at hev
            | ok r2 =>
              obtain ⟨o2, fs2⟩ := r2
              rw [hr2] at hev
              simp only [thenStepsF, List.append_nil] at hev
              cases hE : evalImpl env ctx f rcur disc false outer ae T.layout
                  { blocks := appendBlocks st.blocks T.blocks, depth := st.depth, loaded := t :: st.loaded,
                    frames := fs2 } with
              | error e => rw [hE] at hev; simp at hev
              | ok r3 =>
                obtain ⟨o3, st3⟩ := r3
                rw [hE] at hev
                simp only [Except.ok.injEq, Prod.mk.injEq] at hev
                obtain ⟨_, rfl⟩ := hev
                obtain ⟨more, hm⟩ := ih (chain ++ [t]) T.layout _ rcur disc outer ae (hst1 fs2) (henv.layout hT)
                  (by simp) o3 st3 hE
                exact ⟨t :: more, by simpa using hm⟩

/-! ### closures are kept apart across an include -/

/-- the frame on top writes through to no closure older than `H` -/
def QT (H : Nat) (a : Vars) : Prop := ∀ c, a.topClosure = some c → H ≤ c

/-- what an evaluation may do to the variable state when closures `< H` are foreign: same frame
    count, the closure slots below the top frame untouched, the old closures untouched -/
structure Rel (H : Nat) (a b : Vars) : Prop where
  len : b.stack.length = a.stack.length
  clen : b.cls.length = a.cls.length
  low : ∀ i, i + 1 < a.cls.length → b.cls[i]? = a.cls[i]?
  old : ∀ i, i < H → b.heap[i]? = a.heap[i]?
  grow : a.heap.length ≤ b.heap.length
  /-- the frames below the top frame hold what they held: statements assign into the frame on
      top only (`Context::store`), everything nested runs in frames pushed above it -/
  below : ∀ i, i + 1 < a.stack.length → b.stack[i]? = a.stack[i]?

structure Pre (H : Nat) (a : Vars) : Prop where
  qt : QT H a
  hh : H ≤ a.heap.length
  wf : a.cls.length = a.stack.length

theorem Rel.refl (H : Nat) (a : Vars) : Rel H a a :=
  ⟨rfl, rfl, fun _ _ => rfl, fun _ _ => rfl, Nat.le_refl _, fun _ _ => rfl⟩

theorem Rel.trans {H : Nat} {a b c : Vars} (h1 : Rel H a b) (h2 : Rel H b c) : Rel H a c :=
  ⟨h2.len.trans h1.len, h2.clen.trans h1.clen,
   fun i hi => (h2.low i (by rw [h1.clen]; exact hi)).trans (h1.low i hi),
   fun i hi => (h2.old i hi).trans (h1.old i hi), Nat.le_trans h1.grow h2.grow,
   fun i hi => (h2.below i (by rw [h1.len]; exact hi)).trans (h1.below i hi)⟩

theorem topClosure_eq (a : Vars) : a.topClosure = (a.cls[a.cls.length - 1]?).getD none := by
  unfold Vars.topClosure
  cases h : a.cls.reverse with
  | nil => simp at h; simp [h]
  | cons x xs =>
    have hl : a.cls = xs.reverse ++ [x] := by
      have := congrArg List.reverse h; simpa using this
    simp [hl]

theorem modAt_length (l : List Frame) (i : Nat) (f : Frame → Frame) : (modAt l i f).length = l.length := by
  induction l generalizing i with
  | nil => rfl
  | cons x rest ih => cases i <;> simp [modAt, ih]

theorem modAt_get_ne (l : List Frame) (i j : Nat) (f : Frame → Frame) (h : j ≠ i) :
    (modAt l i f)[j]? = l[j]? := by
  induction l generalizing i j with
  | nil => rfl
  | cons x rest ih =>
    cases i with
    | zero => cases j with
      | zero => exact absurd rfl h
      | succ j => simp [modAt]
    | succ i => cases j with
      | zero => simp [modAt]
      | succ j => simp [modAt]; exact ih i j (by omega)

theorem store_rel (H : Nat) (a : Vars) (v : Nat) (x : Val) (hp : Pre H a) :
    Rel H a (store a v x) ∧ Pre H (store a v x) := by
  unfold store
  cases hs : a.stack.reverse with
  | nil => exact ⟨Rel.refl H a, hp⟩
  | cons top below =>
    have hlen : a.stack.length = below.length + 1 := by
      have := congrArg List.length hs; simpa using this
    have hold : ∀ i, i < H → (closureWrite a v x)[i]? = a.heap[i]? := by
      intro i hi
      unfold closureWrite
      cases hc : a.topClosure with
      | none => rfl
      | some c =>
        have := hp.qt c hc
        exact modAt_get_ne _ _ _ _ (by omega)
    have hhl : (closureWrite a v x).length = a.heap.length := by
      unfold closureWrite
      cases a.topClosure <;> simp [modAt_length]
    have hst : a.stack = below.reverse ++ [top] := by
      have := congrArg List.reverse hs; simpa using this
    have hbelow : ∀ i, i + 1 < a.stack.length →
        ((((v, x) :: top) :: below).reverse)[i]? = a.stack[i]? := by
      intro i hi
      rw [hst] at hi ⊢
      simp only [List.length_append, List.length_reverse, List.length_singleton] at hi
      simp only [List.reverse_cons]
      rw [List.getElem?_append_left (by simp; omega), List.getElem?_append_left (by simp; omega)]
    refine ⟨⟨by simp [hlen], rfl, fun _ _ => rfl, hold, by simp only []; rw [hhl]; exact Nat.le_refl _, hbelow⟩, ?_, ?_, ?_⟩
    · intro c hc; exact hp.qt c hc
    · simp only []; rw [hhl]; exact hp.hh
    · simp [hp.wf, hlen]


theorem stc_stack (a : Vars) (c : Option Nat) : (a.setTopClosure c).stack = a.stack := by
  unfold Vars.setTopClosure; cases a.cls.reverse <;> rfl
theorem stc_heap (a : Vars) (c : Option Nat) : (a.setTopClosure c).heap = a.heap := by
  unfold Vars.setTopClosure; cases a.cls.reverse <;> rfl
theorem stc_clen (a : Vars) (c : Option Nat) : (a.setTopClosure c).cls.length = a.cls.length := by
  unfold Vars.setTopClosure
  cases h : a.cls.reverse with
  | nil => rfl
  | cons x xs =>
    have := congrArg List.length h
    simp at this
    simp [this]
theorem stc_low (a : Vars) (c : Option Nat) (i : Nat) (hi : i + 1 < a.cls.length) :
    (a.setTopClosure c).cls[i]? = a.cls[i]? := by
  unfold Vars.setTopClosure
  cases h : a.cls.reverse with
  | nil => rfl
  | cons x xs =>
    have hl : a.cls = xs.reverse ++ [x] := by
      have := congrArg List.reverse h; simpa using this
    have hlen : a.cls.length = xs.length + 1 := by rw [hl]; simp
    simp only [List.reverse_cons]
    rw [hl, List.getElem?_append_left (by simp; omega), List.getElem?_append_left (by simp; omega)]
theorem stc_top (a : Vars) (c : Option Nat) (h : a.cls ≠ []) : (a.setTopClosure c).topClosure = c := by
  unfold Vars.setTopClosure Vars.topClosure
  cases hr : a.cls.reverse with
  | nil => simp at hr; exact absurd hr h
  | cons x xs => simp
theorem stc_top_nil (a : Vars) (c : Option Nat) (h : a.cls = []) : (a.setTopClosure c).topClosure = none := by
  unfold Vars.setTopClosure Vars.topClosure
  simp [h]

theorem stc_rel (H : Nat) (a : Vars) (c : Option Nat) : Rel H a (a.setTopClosure c) :=
  ⟨by rw [stc_stack], stc_clen a c, fun i hi => stc_low a c i hi, fun i _ => by rw [stc_heap],
   by rw [stc_heap]; exact Nat.le_refl _, fun i _ => by rw [stc_stack]⟩

theorem stc_pre (H : Nat) (a : Vars) (c : Option Nat) (hp : Pre H a) (hc : ∀ k, c = some k → H ≤ k) :
    Pre H (a.setTopClosure c) := by
  refine ⟨?_, by rw [stc_heap]; exact hp.hh, by rw [stc_clen, stc_stack]; exact hp.wf⟩
  intro k hk
  by_cases h : a.cls = []
  · rw [stc_top_nil a c h] at hk; cases hk
  · rw [stc_top a c h] at hk; exact hc k hk

theorem push_pre (H : Nat) (a : Vars) (fr : Frame) (hp : Pre H a) : Pre H (a.push [fr]) := by
  refine ⟨?_, hp.hh, by simp [Vars.push, hp.wf]⟩
  intro c hc; rw [topClosure_push] at hc; cases hc

/-- back from a nested frame: `take` restores the frame count and the includer's own top closure -/
theorem take_back (H : Nat) (a b : Vars) (fr : Frame) (hp : Pre H a) (hr : Rel H (a.push [fr]) b) :
    Rel H a (b.take a.length) ∧ Pre H (b.take a.length) := by
  have hn : a.cls.length = a.stack.length := hp.wf
  have hbl : b.stack.length = a.stack.length + 1 := by rw [hr.len]; simp [Vars.push]
  have hbc : b.cls.length = a.cls.length + 1 := by rw [hr.clen]; simp [Vars.push]
  have hlow : ∀ i, i < a.cls.length → b.cls[i]? = a.cls[i]? := by
    intro i hi
    rw [hr.low i (by simp [Vars.push]; omega)]
    simp only [Vars.push, List.map_cons, List.map_nil]
    exact List.getElem?_append_left hi
  have hrel : Rel H a (b.take a.length) := by
    refine ⟨?_, ?_, ?_, fun i hi => hr.old i hi, hr.grow, ?_⟩
    · simp [Vars.take, Vars.length]; omega
    · simp [Vars.take, Vars.length]; omega
    · intro i hi
      simp only [Vars.take, Vars.length]
      rw [List.getElem?_take_of_lt (by omega)]
      exact hlow i (by omega)
    · intro i hi
      simp only [Vars.take, Vars.length]
      rw [List.getElem?_take_of_lt (by omega), hr.below i (by simp [Vars.push]; omega)]
      simp only [Vars.push]
      exact List.getElem?_append_left (by omega)
  refine ⟨hrel, ?_, Nat.le_trans hp.hh hr.grow, by simp [Vars.take, Vars.length]; omega⟩
  intro c hc
  rw [topClosure_eq] at hc
  apply hp.qt c
  rw [topClosure_eq]
  by_cases h0 : a.cls.length = 0
  · have : (b.take a.length).cls.length = 0 := by
      show (b.cls.take a.stack.length).length = 0
      rw [List.length_take]; omega
    rw [this] at hc
    have : (b.take a.length).cls = [] := List.eq_nil_of_length_eq_zero this
    rw [this] at hc; simp at hc
  · have hcl : (b.take a.length).cls.length = a.cls.length := by simp [Vars.take, Vars.length]; omega
    rw [hcl] at hc
    simp only [Vars.take, Vars.length] at hc
    rw [List.getElem?_take_of_lt (by omega), hlow _ (by omega)] at hc
    exact hc


theorem openClosure_rel (H : Nat) (a : Vars) (hp : Pre H a) :
    Rel H a a.openClosure ∧ Pre H a.openClosure := by
  unfold Vars.openClosure
  cases hc : a.topClosure with
  | some c => exact ⟨Rel.refl H a, hp⟩
  | none =>
    simp only []
    have hs := stc_rel H a (some a.heap.length)
    have hq := stc_pre H a (some a.heap.length) hp (by intro k hk; cases hk; exact hp.hh)
    refine ⟨⟨hs.len, hs.clen, hs.low, ?_, ?_, hs.below⟩, ⟨?_, ?_, hq.wf⟩⟩
    · intro i hi
      show (a.heap ++ [[]])[i]? = a.heap[i]?
      exact List.getElem?_append_left (Nat.lt_of_lt_of_le hi hp.hh)
    · show a.heap.length ≤ (a.heap ++ [[]]).length
      simp
    · intro c hc'
      have : ({ (a.setTopClosure (some a.heap.length)) with heap := a.heap ++ [[]] } : Vars).topClosure
          = (a.setTopClosure (some a.heap.length)).topClosure := rfl
      rw [this] at hc'
      exact hq.qt c hc'
    · show H ≤ (a.heap ++ [[]]).length
      simp; exact Nat.le_succ_of_le hp.hh

theorem heapmod_rel (H : Nat) (a : Vars) (c : Nat) (f : Frame → Frame) (hp : Pre H a) (hc : H ≤ c) :
    Rel H a { a with heap := modAt a.heap c f } ∧ Pre H { a with heap := modAt a.heap c f } := by
  refine ⟨⟨rfl, rfl, fun _ _ => rfl, ?_, ?_, fun _ _ => rfl⟩, ⟨hp.qt, ?_, hp.wf⟩⟩
  · intro i hi; exact modAt_get_ne _ _ _ _ (by omega)
  · show a.heap.length ≤ (modAt a.heap c f).length
    rw [modAt_length]; exact Nat.le_refl _
  · show H ≤ (modAt a.heap c f).length
    rw [modAt_length]; exact hp.hh

theorem enclose_rel (H : Nat) (ctx : Frame) (a : Vars) (w : Nat) (hp : Pre H a) :
    Rel H a (enclose ctx a w) ∧ Pre H (enclose ctx a w) := by
  obtain ⟨h1, h2⟩ := openClosure_rel H a hp
  unfold enclose
  simp only []
  cases hc : a.openClosure.topClosure with
  | none => exact ⟨h1, h2⟩
  | some c =>
    simp only []
    split
    · exact ⟨h1, h2⟩
    · obtain ⟨h3, h4⟩ := heapmod_rel H a.openClosure c
        (fun cl => (w, (load ctx a.openClosure w).getD .undef) :: cl) h2 (h2.qt c hc)
      exact ⟨h1.trans h3, h4⟩

/-- a successful result leaves foreign closures alone -/
def Keeps (H : Nat) (a : Vars) (r : SRes) : Prop := ∀ o b, r = .ok (o, b) → Rel H a b ∧ Pre H b

theorem keeps_error {H : Nat} {a : Vars} {e : Err} : Keeps H a (.error e) := by
  intro o b h; cases h
theorem keeps_ok {H : Nat} {a b : Vars} {o : List String} (h : Rel H a b ∧ Pre H b) :
    Keeps H a (.ok (o, b)) := by
  intro o' b' h'; cases h'; exact h

theorem keeps_cont {H : Nat} {a : Vars} (r : SRes) (S : Vars → SRes) :
    Keeps H a r → (∀ b, Pre H b → Keeps H b (S b)) →
    Keeps H a (match r with
      | .error e => .error e
      | .ok (o, fs') =>
        match S fs' with
        | .error e => .error e
        | .ok (o', fs'') => .ok (o ++ o', fs'')) := by
  intro hr hS
  cases r with
  | error e => exact keeps_error
  | ok p =>
    obtain ⟨o, fs'⟩ := p
    obtain ⟨h1, h2⟩ := hr o fs' rfl
    have h3 := hS fs' h2
    simp only []
    cases hSf : S fs' with
    | error e => exact keeps_error
    | ok q =>
      obtain ⟨o', fs''⟩ := q
      obtain ⟨h4, h5⟩ := h3 o' fs'' hSf
      exact keeps_ok ⟨h1.trans h4, h5⟩

theorem emitUndef_keeps (H : Nat) (cfg : Cfg) (q : Bool) (ae : AE) (a : Vars) (hp : Pre H a) :
    Keeps H a (emitUndef cfg q ae a) := by
  unfold emitUndef
  split
  · exact keeps_error
  · split <;> exact keeps_ok ⟨Rel.refl H a, hp⟩

theorem varItem_keeps (H : Nat) (ctx : Cfg) (q : Bool) (ae : AE) (it : Item) (a : Vars)
    (r : Except Err (List String × Vars)) (hp : Pre H a)
    (h : varItem ctx q ae it a = some r) : Keeps H a r := by
  unfold varItem at h
  cases it <;> simp only [] at h <;> try (cases h)
  case text s => exact keeps_ok ⟨Rel.refl H a, hp⟩
  case required => exact keeps_ok ⟨Rel.refl H a, hp⟩
  case setVar v s => exact keeps_ok (store_rel H a _ _ hp)
  case defMacro v s => exact keeps_ok (store_rel H a _ _ hp)
  case defMacroV m w =>
    obtain ⟨h1, h2⟩ := enclose_rel H ctx.rootCtx a w hp
    split at h
    · cases h
      obtain ⟨h3, h4⟩ := store_rel H _ m (Val.macv m w _) h2
      exact keeps_ok ⟨h1.trans h3, h4⟩
    · cases h; exact keeps_error
  all_goals
    repeat' split at h
    all_goals
      cases h
      first
        | exact keeps_ok ⟨Rel.refl H a, hp⟩
        | exact keeps_error
        | exact emitUndef_keeps H _ _ _ _ hp


/-- the callbacks one level down keep foreign closures alone -/
structure CbKeeps (cbs : SpecCbs) (H : Nat) : Prop where
  body : ∀ D m k disc outer ae a, Pre H a → Keeps H a (cbs.body D m k disc outer ae a)
  list : ∀ D cur disc ext outer ae items a, Pre H a → Keeps H a (cbs.list D cur disc ext outer ae items a)
  chain : ∀ chain inh disc outer ae layout a, Pre H a → Keeps H a (cbs.chain chain inh disc outer ae layout a)

theorem keeps_take {H : Nat} {a : Vars} (hp : Pre H a) (fr : Frame) (r : SRes) :
    Keeps H (a.push [fr]) r →
    Keeps H a (match r with
      | .error e => .error e
      | .ok (o, fs') => .ok (o, fs'.take a.length)) := by
  intro hr
  cases r with
  | error e => exact keeps_error
  | ok p =>
    obtain ⟨o, b⟩ := p
    exact keeps_ok (take_back H a b fr hp (hr o b rfl).1)

theorem specBlock_keeps {cbs : SpecCbs} {H : Nat} (h : CbKeeps cbs H)
    (D : Nat → List (List Item)) (disc : Bool) (outer : Nat) (ae : AE) (m : Nat) (a : Vars) (hp : Pre H a) :
    Keeps H a (specBlock cbs D disc outer ae m a) := by
  unfold specBlock
  split
  · exact keeps_error
  · split
    · exact keeps_error
    · split
      · exact keeps_error
      · exact keeps_take hp [] _ (h.body D m 0 disc outer ae _ (push_pre H a [] hp))

theorem specSuper_keeps {cbs : SpecCbs} {H : Nat} (h : CbKeeps cbs H)
    (D : Nat → List (List Item)) (cur : Option (Nat × Nat)) (disc : Bool) (outer : Nat) (ae : AE)
    (a : Vars) (hp : Pre H a) :
    Keeps H a (specSuper cbs D cur disc outer ae a) := by
  unfold specSuper
  cases cur with
  | none => exact keeps_error
  | some p =>
    obtain ⟨n, k⟩ := p
    simp only []
    split
    · split
      · exact keeps_error
      · have hb := h.body D n (k + 1) disc outer ae _ (push_pre H a [] hp)
        cases hr : cbs.body D n (k + 1) disc outer ae (a.push [[]]) with
        | error e => exact keeps_error
        | ok q =>
          obtain ⟨o, b⟩ := q
          exact keeps_ok (take_back H a b [] hp (hb o b hr).1)
    · exact keeps_error

theorem take_self (b : Vars) (n : Nat) (h1 : b.stack.length = n) (h2 : b.cls.length = n) :
    b.take n = b := by
  cases b with
  | mk s c hp =>
    simp only [Vars.take]
    simp at h1 h2
    rw [List.take_of_length_le (by omega), List.take_of_length_le (by omega)]

/-- the heart of the matter: an include hands the included file a frame whose closure is detached,
    so nothing the file does reaches a closure that existed before (`Rel.old` with
    `H = a.heap.length`), and the includer's closure is attached again afterwards -/
theorem specInclude_keeps {cbs : SpecCbs} {H : Nat} (h : CbKeeps cbs H) (env : Env) (inh : Option Nat)
    (disc ign : Bool) (outer : Nat) (names : List Cand) (tried : Bool) (a : Vars) (hp : Pre H a) :
    Keeps H a (specInclude env cbs inh disc ign outer names tried a) := by
  induction names generalizing tried with
  | nil =>
    simp only [specInclude]
    split
    · exact keeps_error
    · exact keeps_ok ⟨Rel.refl H a, hp⟩
  | cons c rest ih =>
    cases c with
    | none => simp only [specInclude]; exact keeps_error
    | some t =>
    simp only [specInclude]
    cases env[t]? with
    | none => exact ih true
    | some T =>
      simp only []
      cases hL : T.loadErr with
      | some kk => exact keeps_error
      | none =>
      simp only []
      split
      · exact keeps_error
      · have h0 := stc_rel H a none
        have hp0 := stc_pre H a none hp (by intro k hk; cases hk)
        have hc := h.chain [t] inh disc (outer + INCLUDE_COST) T.ae T.layout _ hp0
        cases hr : cbs.chain [t] inh disc (outer + INCLUDE_COST) T.ae T.layout (a.setTopClosure none) with
        | error e => exact keeps_error
        | ok q =>
          obtain ⟨o, b⟩ := q
          obtain ⟨h1, h2⟩ := hc o b hr
          have hab := h0.trans h1
          have : b.take a.length = b := take_self b _ hab.len (by rw [hab.clen]; exact hp.wf)
          simp only [this]
          exact keeps_ok ⟨hab.trans (stc_rel H b _), stc_pre H b _ h2 hp.qt⟩

theorem retake (H : Nat) (a s : Vars) (x fr : Frame) (hp : Pre H a) (hr : Rel H (a.push [x]) s) :
    Rel H (a.push [x]) ((s.take a.length).push [fr]) ∧ Pre H ((s.take a.length).push [fr]) := by
  obtain ⟨h1, h2⟩ := take_back H a s x hp hr
  refine ⟨⟨?_, ?_, ?_, ?_, ?_, ?_⟩, push_pre H _ fr h2⟩
  rotate_left 5
  · intro i hi
    have hi' : i < a.stack.length := by simp [Vars.push] at hi; omega
    rw [← hr.below i hi]
    show ((s.stack.take a.stack.length) ++ [fr])[i]? = s.stack[i]?
    have hsl : s.stack.length = a.stack.length + 1 := by rw [hr.len]; simp [Vars.push]
    rw [List.getElem?_append_left (by rw [List.length_take]; omega)]
    exact List.getElem?_take_of_lt hi'
  · simp [Vars.push]; exact h1.len
  · simp [Vars.push]; exact h1.clen
  · intro i hi
    have hi' : i < a.cls.length := by simp [Vars.push] at hi; omega
    have hsl : s.cls.length = a.cls.length + 1 := by rw [hr.clen]; simp [Vars.push]
    rw [← hr.low i hi]
    show ((s.cls.take a.stack.length) ++ [none])[i]? = s.cls[i]?
    rw [List.getElem?_append_left (by rw [List.length_take]; have := hp.wf; omega)]
    exact List.getElem?_take_of_lt (by have := hp.wf; omega)
  · intro i hi; exact hr.old i hi
  · exact hr.grow

theorem specLoop_keeps {H : Nat} (run : Vars → SRes) (v : Nat) (vals : List String) (a : Vars)
    (hp : Pre H a) (hrun : ∀ b, Pre H b → Keeps H b (run b)) :
    ∀ o s, specLoop run v vals a.length (a.push [[]]) = .ok (o, s) → Rel H (a.push [[]]) s := by
  unfold specLoop
  have key : ∀ (acc : SRes), (∀ o s, acc = .ok (o, s) → Rel H (a.push [[]]) s) →
      ∀ o s, (vals.foldl (fun (acc : SRes) val =>
        match acc with
        | .error e => .error e
        | .ok (o, s) =>
          match run ((s.take a.length).push [[(v, Val.str val)]]) with
          | .error e => .error e
          | .ok (o', s') => .ok (o ++ o', s')) acc) = .ok (o, s) → Rel H (a.push [[]]) s := by
    induction vals with
    | nil => intro acc h; exact h
    | cons val rest ih =>
      intro acc hacc
      simp only [List.foldl_cons]
      apply ih
      cases acc with
      | error e => intro o s h; cases h
      | ok p =>
        obtain ⟨o, s⟩ := p
        obtain ⟨h1, h2⟩ := retake H a s [] [(v, Val.str val)] hp (hacc o s rfl)
        have hr := hrun _ h2
        simp only []
        cases hrr : run ((s.take a.length).push [[(v, Val.str val)]]) with
        | error e => intro o s h; cases h
        | ok q =>
          obtain ⟨o', s'⟩ := q
          intro o'' s'' h; cases h
          exact h1.trans (hr o' s' hrr).1
  exact key _ (by intro o s h; cases h; exact Rel.refl H _)


theorem specItems_keeps (env : Env) (ctx : Cfg) {cbs : SpecCbs} {H : Nat} (h : CbKeeps cbs H)
    (D : Nat → List (List Item)) (cur : Option (Nat × Nat)) (disc ext : Bool) (outer : Nat) (ae : AE)
    (items : List Item) (a : Vars) (hp : Pre H a) :
    Keeps H a (specItems env ctx cbs D cur disc ext outer ae items a) := by
  induction items generalizing a with
  | nil => exact keeps_ok ⟨Rel.refl H a, hp⟩
  | cons it rest ih =>
    have hcont : ∀ (a : Vars) (r : SRes), Keeps H a r →
        Keeps H a (match r with
          | .error e => .error e
          | .ok (o, fs') =>
            match specItems env ctx cbs D cur disc ext outer ae rest fs' with
            | .error e => .error e
            | .ok (o', fs'') => .ok (o ++ o', fs'')) :=
      fun a r hr => keeps_cont r _ hr (fun b hb => ih b hb)
    cases it with
    | callBlock m =>
      simp only [specItems]
      split
      · exact hcont _ _ (keeps_ok ⟨Rel.refl H a, hp⟩)
      · exact hcont _ _ (specBlock_keeps h D disc outer ae m a hp)
    | super =>
      simp only [specItems]
      exact hcont _ _ (specSuper_keeps h D cur disc outer ae a hp)
    | setSuper v =>
      simp only [specItems]
      have hs := specSuper_keeps h D cur false outer ae a hp
      cases hr : specSuper cbs D cur false outer ae a with
      | error e => exact keeps_error
      | ok q =>
        obtain ⟨o, b⟩ := q
        obtain ⟨h1, h2⟩ := hs o b hr
        obtain ⟨h3, h4⟩ := store_rel H b v (captured ae o) h2
        exact hcont _ _ (keeps_ok ⟨h1.trans h3, h4⟩)
    | setSelf v m =>
      simp only [specItems]
      split
      · exact hcont _ _ (keeps_ok (store_rel H a _ _ hp))
      · have hs := specBlock_keeps h D false outer ae m a hp
        cases hr : specBlock cbs D false outer ae m a with
        | error e => exact keeps_error
        | ok q =>
          obtain ⟨o, b⟩ := q
          obtain ⟨h1, h2⟩ := hs o b hr
          obtain ⟨h3, h4⟩ := store_rel H b v (captured ae o) h2
          exact hcont _ _ (keeps_ok ⟨h1.trans h3, h4⟩)
    | «extends» exec t =>
      simp only [specItems]
      split
      · exact hcont _ _ (keeps_ok ⟨Rel.refl H a, hp⟩)
      · split <;> exact keeps_error
    | incl arg ign =>
      simp only [specItems]
      exact hcont _ _ (specInclude_keeps h env _ disc ign outer arg.cands false a hp)
    | importAs arg v =>
      simp only [specItems]
      split
      · exact keeps_error
      · have hi := specInclude_keeps h env (cur.map Prod.fst) false false outer arg.cands false _ (push_pre H a [] hp)
        cases hr : specInclude env cbs (cur.map Prod.fst) false false outer arg.cands false (a.push [[]]) with
        | error e => exact keeps_error
        | ok q =>
          obtain ⟨o, b⟩ := q
          obtain ⟨h1, h2⟩ := take_back H a b [] hp (hi o b hr).1
          obtain ⟨h3, h4⟩ := store_rel H (b.take a.length) v (.module (dedupKeys (topFrame b))) h2
          exact hcont _ _ (keeps_ok ⟨h1.trans h3, h4⟩)
    | fromImport arg name alias =>
      simp only [specItems]
      split
      · exact keeps_error
      · have hi := specInclude_keeps h env (cur.map Prod.fst) true false outer arg.cands false _ (push_pre H a [] hp)
        cases hr : specInclude env cbs (cur.map Prod.fst) true false outer arg.cands false (a.push [[]]) with
        | error e => exact keeps_error
        | ok q =>
          obtain ⟨o, b⟩ := q
          obtain ⟨h1, h2⟩ := take_back H a b [] hp (hi o b hr).1
          obtain ⟨h3, h4⟩ := store_rel H (b.take a.length) alias
            ((lookupVal name (topFrame b)).getD .undef) h2
          exact hcont _ _ (keeps_ok ⟨h1.trans h3, h4⟩)
    | loop v vals body =>
      simp only [specItems]
      split
      · exact keeps_error
      · split
        · exact keeps_error
        · have hl := specLoop_keeps (H := H) (cbs.list D cur disc ext outer ae body) v vals a hp
            (fun b hb => h.list D cur disc ext outer ae body b hb)
          cases hr : specLoop (cbs.list D cur disc ext outer ae body) v vals a.length (a.push [[]]) with
          | error e => exact keeps_error
          | ok q =>
            obtain ⟨o, s⟩ := q
            exact hcont _ _ (keeps_ok (take_back H a s [] hp (hl o s hr)))
    | inMacro m arg val body =>
      simp only [specItems]
      split
      · exact keeps_error
      · split
        · exact keeps_error
        · split
          · exact keeps_error
          · exact hcont _ _ (keeps_ok (store_rel H a _ _ hp))
    | badTarget => simp only [specItems]; exact keeps_error
    | autoesc m body =>
      simp only [specItems]
      split
      · exact keeps_error
      · exact hcont _ _ (h.list D cur disc ext outer m body a hp)
    | text s =>
      simp only [specItems]
      cases hv : varItem ctx disc ae _ a with
      | none => exact keeps_error
      | some r =>
        have hf := varItem_keeps H ctx disc ae _ a r hp hv
        cases r with
        | error e => exact keeps_error
        | ok q => obtain ⟨o, b⟩ := q; exact hcont _ _ hf
    | emitVar v =>
      simp only [specItems]
      cases hv : varItem ctx disc ae _ a with
      | none => exact keeps_error
      | some r =>
        have hf := varItem_keeps H ctx disc ae _ a r hp hv
        cases r with
        | error e => exact keeps_error
        | ok q => obtain ⟨o, b⟩ := q; exact hcont _ _ hf
    | setVar v s =>
      simp only [specItems]
      cases hv : varItem ctx disc ae _ a with
      | none => exact keeps_error
      | some r =>
        have hf := varItem_keeps H ctx disc ae _ a r hp hv
        cases r with
        | error e => exact keeps_error
        | ok q => obtain ⟨o, b⟩ := q; exact hcont _ _ hf
    | defMacro v s =>
      simp only [specItems]
      cases hv : varItem ctx disc ae _ a with
      | none => exact keeps_error
      | some r =>
        have hf := varItem_keeps H ctx disc ae _ a r hp hv
        cases r with
        | error e => exact keeps_error
        | ok q => obtain ⟨o, b⟩ := q; exact hcont _ _ hf
    | defMacroV m' w' =>
      simp only [specItems]
      cases hv : varItem ctx disc ae _ a with
      | none => exact keeps_error
      | some r =>
        have hf := varItem_keeps H ctx disc ae _ a r hp hv
        cases r with
        | error e => exact keeps_error
        | ok q => obtain ⟨o, b⟩ := q; exact hcont _ _ hf
    | emitAttr v x =>
      simp only [specItems]
      cases hv : varItem ctx disc ae _ a with
      | none => exact keeps_error
      | some r =>
        have hf := varItem_keeps H ctx disc ae _ a r hp hv
        cases r with
        | error e => exact keeps_error
        | ok q => obtain ⟨o, b⟩ := q; exact hcont _ _ hf
    | emitKeys v =>
      simp only [specItems]
      cases hv : varItem ctx disc ae _ a with
      | none => exact keeps_error
      | some r =>
        have hf := varItem_keeps H ctx disc ae _ a r hp hv
        cases r with
        | error e => exact keeps_error
        | ok q => obtain ⟨o, b⟩ := q; exact hcont _ _ hf
    | callVar v =>
      simp only [specItems]
      cases hv : varItem ctx disc ae _ a with
      | none => exact keeps_error
      | some r =>
        have hf := varItem_keeps H ctx disc ae _ a r hp hv
        cases r with
        | error e => exact keeps_error
        | ok q => obtain ⟨o, b⟩ := q; exact hcont _ _ hf
    | required =>
      simp only [specItems]
      cases hv : varItem ctx disc ae _ a with
      | none => exact keeps_error
      | some r =>
        have hf := varItem_keeps H ctx disc ae _ a r hp hv
        cases r with
        | error e => exact keeps_error
        | ok q => obtain ⟨o, b⟩ := q; exact hcont _ _ hf

theorem specChain_keeps (env : Env) (ctx : Cfg) {cbs : SpecCbs} {H : Nat} (h : CbKeeps cbs H)
    (chain : List Nat) (inh : Option Nat) (disc : Bool) (outer : Nat) (ae : AE) (layout : List Item) (a : Vars)
    (hp : Pre H a) : Keeps H a (specChain env ctx cbs chain inh disc outer ae layout a) := by
  unfold specChain
  simp only []
  split
  · exact specItems_keeps env ctx h _ _ disc false outer ae layout a hp
  · rename_i pre t post _
    have h1 := specItems_keeps env ctx h (defs env chain) (inh.map (fun n => (n, 0))) disc false outer ae pre a hp
    cases hr1 : specItems env ctx cbs (defs env chain) (inh.map (fun n => (n, 0))) disc false outer ae pre a with
    | error e => exact keeps_error
    | ok q =>
      obtain ⟨o, b⟩ := q
      obtain ⟨r1, p1⟩ := h1 o b hr1
      simp only []
      split
      · exact keeps_error
      · split
        · exact keeps_error
        · split
          · exact keeps_error
          · have h2 := specItems_keeps env ctx h (defs env (chain ++ [t])) (inh.map (fun n => (n, 0))) true true outer ae post b p1
            cases hr2 : specItems env ctx cbs (defs env (chain ++ [t])) (inh.map (fun n => (n, 0))) true true outer ae post b with
            | error e => exact keeps_error
            | ok q2 =>
              obtain ⟨o2, b2⟩ := q2
              obtain ⟨r2, p2⟩ := h2 o2 b2 hr2
              rename_i T _ _ _
              have h3 := h.chain (chain ++ [t]) inh disc outer ae T.layout b2 p2
              simp only []
              cases hr3 : cbs.chain (chain ++ [t]) inh disc outer ae T.layout b2 with
              | error e => exact keeps_error
              | ok q3 =>
                obtain ⟨o3, b3⟩ := q3
                obtain ⟨r3, p3⟩ := h3 o3 b3 hr3
                exact keeps_ok ⟨(r1.trans r2).trans r3, p3⟩

theorem keeps_all (env : Env) (ctx : Cfg) (H : Nat) : ∀ f, CbKeeps (specAll env ctx f) H := by
  intro f
  induction f with
  | zero => exact ⟨fun _ _ _ _ _ _ _ _ => keeps_error, fun _ _ _ _ _ _ _ _ _ => keeps_error,
                  fun _ _ _ _ _ _ _ _ => keeps_error⟩
  | succ f ih =>
    refine ⟨?_, ?_, ?_⟩
    · intro D m k disc outer ae a hp
      simp only [specAll]
      cases (D m)[k]? with
      | none => exact keeps_error
      | some b => exact specItems_keeps env ctx ih D _ disc false outer ae b a hp
    · intro D cur disc ext outer ae items a hp
      exact specItems_keeps env ctx ih D cur disc ext outer ae items a hp
    · intro chain inh disc outer ae layout a hp
      exact specChain_keeps env ctx ih chain inh disc outer ae layout a hp


theorem specInclude_apart (env : Env) (ctx : Cfg) (f : Nat) (inh : Option Nat) (disc ign : Bool) (outer : Nat)
    (names : List Cand) (tried : Bool) (a b : Vars) (o : List String)
    (hwf : a.cls.length = a.stack.length)
    (h : specInclude env (specAll env ctx f) inh disc ign outer names tried a = .ok (o, b)) :
    (∀ i, i < a.heap.length → b.heap[i]? = a.heap[i]?) ∧ b.topClosure = a.topClosure ∧
      b.length = a.length ∧ b.cls.length = a.cls.length ∧ a.heap.length ≤ b.heap.length := by
  induction names generalizing tried with
  | nil =>
    simp only [specInclude] at h
    split at h
    · cases h
    · cases h; exact ⟨fun _ _ => rfl, rfl, rfl, rfl, Nat.le_refl _⟩
  | cons c rest ih =>
    cases c with
    | none => simp only [specInclude] at h; cases h
    | some t =>
    simp only [specInclude] at h
    cases hT : env[t]? with
    | none => rw [hT] at h; exact ih true h
    | some T =>
      rw [hT] at h
      simp only [] at h
      cases hL : T.loadErr with
      | some kk => rw [hL] at h; cases h
      | none =>
      rw [hL] at h
      simp only [] at h
      split at h
      · cases h
      · have hp0 : Pre a.heap.length (a.setTopClosure none) := by
          refine ⟨?_, ?_, ?_⟩
          · intro k hk
            by_cases hc : a.cls = []
            · rw [stc_top_nil a none hc] at hk; cases hk
            · rw [stc_top a none hc] at hk; cases hk
          · rw [stc_heap]; exact Nat.le_refl _
          · rw [stc_clen, stc_stack]; exact hwf
        have hc := (keeps_all env ctx a.heap.length f).chain [t] inh disc (outer + INCLUDE_COST) T.ae T.layout _ hp0
        cases hr : (specAll env ctx f).chain [t] inh disc (outer + INCLUDE_COST) T.ae T.layout (a.setTopClosure none) with
        | error e => rw [hr] at h; cases h
        | ok q =>
          obtain ⟨o', b'⟩ := q
          rw [hr] at h
          simp only [] at h
          obtain ⟨h1, _⟩ := hc o' b' hr
          have hab := (stc_rel a.heap.length a none).trans h1
          have hts : b'.take a.length = b' := take_self b' _ hab.len (by rw [hab.clen]; exact hwf)
          rw [hts] at h
          cases h
          refine ⟨?_, ?_, ?_, ?_, ?_⟩
          · intro i hi; rw [stc_heap]; exact hab.old i hi
          · by_cases hc : a.cls = []
            · have hb : b'.cls = [] := List.eq_nil_of_length_eq_zero (by rw [hab.clen, hc]; rfl)
              rw [stc_top_nil _ _ hb]
              simp [Vars.topClosure, hc]
            · have hb : b'.cls ≠ [] := by
                intro hb
                have := hab.clen; rw [hb] at this
                exact hc (List.eq_nil_of_length_eq_zero this.symm)
              exact stc_top _ _ hb
          · show (b'.setTopClosure a.topClosure).stack.length = a.stack.length
            rw [stc_stack]; exact hab.len
          · rw [stc_clen]; exact hab.clen
          · rw [stc_heap]; exact hab.grow

/-- a `store` by the frame on top writes to the frame's own closure only -/
theorem store_heap_other (a : Vars) (v : Nat) (x : Val) (i : Nat)
    (hi : ∀ c, a.topClosure = some c → i ≠ c) : (store a v x).heap[i]? = a.heap[i]? := by
  unfold store
  cases a.stack.reverse with
  | nil => rfl
  | cons top below =>
    show (closureWrite a v x)[i]? = a.heap[i]?
    unfold closureWrite
    cases hc : a.topClosure with
    | none => rfl
    | some c => exact modAt_get_ne _ _ _ _ (hi c hc)

/-- … and so does `Enclose` -/
theorem enclose_heap_other (ctx : Frame) (a : Vars) (w : Nat) (i : Nat) (hlt : i < a.heap.length)
    (hi : ∀ c, a.topClosure = some c → i ≠ c) : (enclose ctx a w).heap[i]? = a.heap[i]? := by
  have hopen : a.openClosure.heap[i]? = a.heap[i]? ∧ ∀ c, a.openClosure.topClosure = some c → i ≠ c := by
    unfold Vars.openClosure
    cases hc : a.topClosure with
    | some c => exact ⟨rfl, fun c' hc' => hi c' (hc.symm ▸ hc')⟩
    | none =>
      simp only []
      refine ⟨List.getElem?_append_left hlt, ?_⟩
      intro c hc'
      have : ({ (a.setTopClosure (some a.heap.length)) with heap := a.heap ++ [[]] } : Vars).topClosure
          = (a.setTopClosure (some a.heap.length)).topClosure := rfl
      rw [this] at hc'
      by_cases he : a.cls = []
      · rw [stc_top_nil _ _ he] at hc'; cases hc'
      · rw [stc_top _ _ he] at hc'; cases hc'; omega
  unfold enclose
  simp only []
  cases hc : a.openClosure.topClosure with
  | none => exact hopen.1
  | some c =>
    simp only []
    split
    · exact hopen.1
    · show (modAt a.openClosure.heap c _)[i]? = a.heap[i]?
      rw [modAt_get_ne _ _ _ _ (hopen.2 c hc)]
      exact hopen.1


/-! ### the candidate selection of an include -/

/-- `perform_include` is "select, then act on the selection" -/
theorem performInclude_select (env : Env) (rec : Rec) (cur : Option Nat) (disc ign : Bool) (outer : Nat)
    (cands : List Cand) (tried : Bool) (st : St) :
    performInclude env rec cur disc ign outer cands tried st =
      match select env cands tried with
      | .render _ T => includeTemplate rec cur disc outer T st
      | .loadError t k => .error [loadErrKind t k]
      | .notAString => .error [.invalidOperation]
      | .nothing tr => if tr && !ign then .error [.templateNotFound] else .ok ([], st) := by
  induction cands generalizing tried with
  | nil => simp only [performInclude, select, notFoundRaised_eq]
  | cons c rest ih =>
    cases c with
    | none => simp only [performInclude, select]
    | some t =>
      simp only [performInclude, select]
      cases hT : env[t]? with
      | none => exact ih true
      | some T =>
        simp only []
        cases hL : T.loadErr with
        | some k => rfl
        | none => rfl

theorem select_first (env : Env) (missing : List Nat) (more : List Cand) (t : Nat) (T : Template)
    (hmiss : ∀ m ∈ missing, env[m]? = none) (hT : env[t]? = some T) (hL : T.loadErr = none) (tried : Bool) :
    select env (missing.map some ++ some t :: more) tried = .render t T := by
  induction missing generalizing tried with
  | nil => simp only [List.map_nil, List.nil_append, select, hT, hL]
  | cons m rest ih =>
    have hm : env[m]? = none := hmiss m (by simp)
    simp only [List.map_cons, List.cons_append, select, hm]
    exact ih (fun x hx => hmiss x (by simp [hx])) true

theorem select_render_inv (env : Env) (cands : List Cand) (tried : Bool) (t : Nat) (T : Template)
    (h : select env cands tried = .render t T) :
    ∃ (missing : List Nat) (more : List Cand), cands = missing.map some ++ some t :: more ∧
      (∀ m ∈ missing, env[m]? = none) ∧ env[t]? = some T ∧ T.loadErr = none := by
  induction cands generalizing tried with
  | nil => simp [select] at h
  | cons c rest ih =>
    cases c with
    | none => simp [select] at h
    | some u =>
      simp only [select] at h
      cases hU : env[u]? with
      | none =>
        rw [hU] at h
        obtain ⟨missing, more, h1, h2, h3, h4⟩ := ih true h
        refine ⟨u :: missing, more, by rw [h1]; rfl, ?_, h3, h4⟩
        intro m hm
        rcases List.mem_cons.1 hm with rfl | hm
        · exact hU
        · exact h2 m hm
      | some U =>
        rw [hU] at h
        simp only [] at h
        cases hL : U.loadErr with
        | some k => rw [hL] at h; cases h
        | none =>
          rw [hL] at h
          simp only [Selection.render.injEq] at h
          obtain ⟨rfl, rfl⟩ := h
          exact ⟨[], rest, rfl, (by intro m hm; cases hm), hU, hL⟩

theorem select_nothing_inv (env : Env) (cands : List Cand) (tried tr : Bool)
    (h : select env cands tried = .nothing tr) :
    (∀ c ∈ cands, ∃ m, c = some m ∧ env[m]? = none) ∧ tr = (tried || !cands.isEmpty) := by
  induction cands generalizing tried with
  | nil =>
    simp only [select, Selection.nothing.injEq] at h
    subst h
    exact ⟨(by intro c hc; cases hc), by simp⟩
  | cons c rest ih =>
    cases c with
    | none => simp [select] at h
    | some u =>
      simp only [select] at h
      cases hU : env[u]? with
      | none =>
        rw [hU] at h
        obtain ⟨h1, h2⟩ := ih true h
        refine ⟨?_, by rw [h2]; simp⟩
        intro c hc
        rcases List.mem_cons.1 hc with rfl | hc
        · exact ⟨u, rfl, hU⟩
        · exact h1 c hc
      | some U =>
        rw [hU] at h
        simp only [] at h
        cases hL : U.loadErr with
        | some k => rw [hL] at h; cases h
        | none => rw [hL] at h; cases h

theorem select_all_missing (env : Env) (cands : List Cand) (tried : Bool)
    (h : ∀ c ∈ cands, ∃ m, c = some m ∧ env[m]? = none) :
    select env cands tried = .nothing (tried || !cands.isEmpty) := by
  induction cands generalizing tried with
  | nil => simp [select]
  | cons c rest ih =>
    obtain ⟨m, rfl, hm⟩ := h c (by simp)
    simp only [select, hm]
    rw [ih true (fun c hc => h c (List.mem_cons_of_mem _ hc))]
    simp


/-! ### which variables an include / import reads and writes -/

theorem load_setTopClosure (ctx : Frame) (fs : Vars) (c : Option Nat) (v : Nat) :
    load ctx (fs.setTopClosure c) v = load ctx fs v := by
  unfold load
  rw [stc_stack]

theorem stc_roundtrip (a : Vars) (h : a.WF) :
    ((a.setTopClosure none).take a.length).setTopClosure a.topClosure = a := by
  obtain ⟨stack, cls, heap⟩ := a
  simp only [Vars.WF] at h
  rcases List.eq_nil_or_concat cls with rfl | ⟨xs, x, rfl⟩
  · have : stack = [] := List.eq_nil_of_length_eq_zero (by simpa using h.symm)
    subst this
    rfl
  · have h' : stack.length = xs.length + 1 := by simpa using h.symm
    have t1 : List.take (xs.length + 1) (xs ++ [none]) = xs ++ [(none : Option Nat)] :=
      List.take_of_length_le (by simp)
    have t2 : List.take (xs.length + 1) stack = stack := List.take_of_length_le (by omega)
    simp [Vars.setTopClosure, Vars.take, Vars.topClosure, Vars.length, h', t1, t2]

/-- what `{{ v }}` prints for the value a lookup found (`Emit` ⇒ `write_escaped`) -/
def emitVarOut (cfg : Cfg) (quiet : Bool) (ae : AE) : Option Val → Except Err (List String)
  | some (.str s) => .ok (if quiet then [] else [fmtStr ae s])
  | some (.safe s) => .ok (if quiet then [] else [s])
  | some (.mac name _) =>
    match ae with
    | .json => .ok (if quiet then [] else ["{\"name\":\"v" ++ toString name ++ "\",\"arguments\":[],\"caller\":false}"])
    | _ => .ok (if quiet then [] else [fmtStr ae s!"<macro v{name}>"])
  | some .undef | none =>
    if cfg.ub.isStrict then .error [.undefinedError]
    else match ae with
      | .json => .ok (if quiet then [] else ["null"])
      | _ => .ok []
  | some _ => .error [.unsupported]

theorem varItem_emitVar (cfg : Cfg) (quiet : Bool) (ae : AE) (v : Nat) (fs : Vars) :
    varItem cfg quiet ae (.emitVar v) fs =
      some (match emitVarOut cfg quiet ae (load cfg.rootCtx fs v) with
        | .ok o => .ok (o, fs)
        | .error e => .error e) := by
  cases hl : load cfg.rootCtx fs v with
  | none =>
    cases hs : cfg.ub.isStrict <;> cases ae <;> cases quiet <;> simp [varItem, emitUndef, emitVarOut, hl, hs]
  | some x =>
    cases x <;> cases hs : cfg.ub.isStrict <;> cases ae <;> cases quiet <;>
      simp [varItem, emitUndef, emitVarOut, hl, hs]

theorem includeTemplate_emitVar (env : Env) (ctx : Cfg) (f : Nat) (cur : Option Nat) (disc : Bool) (outer : Nat)
    (T : Template) (v : Nat) (st : St) (hl : T.layout = [.emitVar v]) (hwf : st.frames.WF)
    (hd : outer + INCLUDE_COST + st.frames.length ≤ LIMIT) :
    includeTemplate (evalImpl env ctx (f + 1)) cur disc outer T st =
      match emitVarOut ctx disc T.ae (load ctx.rootCtx st.frames v) with
      | .ok o => .ok (o, st)
      | .error e => .error (.badInclude :: e) := by
  have hd' : ¬ (outer + INCLUDE_COST + st.frames.length > LIMIT) := by omega
  simp only [includeTemplate, hd', if_false, hl, evalImpl, stepItems, varItem_emitVar, load_setTopClosure,
    Option.isSome_none, Bool.or_false]
  cases emitVarOut ctx disc T.ae (load ctx.rootCtx st.frames v) with
  | error e => rfl
  | ok o =>
    simp only [Res.andThen, List.append_nil, stc_roundtrip _ hwf]

theorem pre_zero (a : Vars) (h : a.WF) : Pre 0 a :=
  ⟨fun _ _ => Nat.zero_le _, Nat.zero_le _, h⟩

/-- a successful include (on the includer's own frames) returns as many frames as it got, and the
    frames below the current one hold what they held -/
theorem include_frames (env : Env) (ctx : Cfg) (fuel : Nat) (henv : EnvOK env)
    (cur : Option Nat) (disc ign : Bool) (outer : Nat) (cands : List Cand) (tried : Bool)
    (st st' : St) (o : List String) (hwf : st.frames.WF)
    (h : performInclude env (evalImpl env ctx fuel) cur disc ign outer cands tried st = .ok (o, st')) :
    st'.frames.stack.length = st.frames.stack.length ∧
      ∀ i, i + 1 < st.frames.stack.length → st'.frames.stack[i]? = st.frames.stack[i]? := by
  rw [include_sim (hyp_all env ctx henv fuel) henv] at h
  cases hs : specInclude env (specAll env ctx fuel) cur disc ign outer cands tried st.frames with
  | error e => rw [hs] at h; cases h
  | ok q =>
    obtain ⟨o', b⟩ := q
    rw [hs] at h
    obtain ⟨hr, _⟩ := specInclude_keeps (keeps_all env ctx 0 fuel) env cur disc ign outer cands tried st.frames
      (pre_zero _ hwf) o' b hs
    simp only [liftS, Except.ok.injEq, Prod.mk.injEq] at h
    obtain ⟨_, rfl⟩ := h
    exact ⟨hr.len, hr.below⟩

theorem push_WF (a : Vars) (fr : Frame) (h : a.WF) : (a.push [fr]).WF := by
  simp [Vars.WF, Vars.push] at *; exact h

/-- an include into a fresh frame (`import`, `from … import`): when it succeeds there is exactly
    one frame more, and *all* of the importer's frames hold what they held -/
theorem import_frames (env : Env) (ctx : Cfg) (fuel : Nat) (henv : EnvOK env)
    (cur : Option Nat) (disc ign : Bool) (outer : Nat) (cands : List Cand) (tried : Bool)
    (st st' : St) (o : List String) (hwf : st.frames.WF)
    (h : performInclude env (evalImpl env ctx fuel) cur disc ign outer cands tried
          { st with frames := st.frames.push [[]] } = .ok (o, st')) :
    st'.frames.length = st.frames.length + 1 ∧
      (st'.frames.take st.frames.length).stack = st.frames.stack := by
  obtain ⟨h1, h2⟩ := include_frames env ctx fuel henv cur disc ign outer cands tried
    { st with frames := st.frames.push [[]] } st' o (push_WF _ _ hwf) h
  have hl : st'.frames.stack.length = st.frames.stack.length + 1 := by
    rw [h1]; simp [Vars.push]
  refine ⟨hl, ?_⟩
  show st'.frames.stack.take st.frames.stack.length = st.frames.stack
  apply List.ext_getElem?
  intro i
  by_cases hi : i < st.frames.stack.length
  · rw [List.getElem?_take_of_lt hi, h2 i (by simp [Vars.push]; omega)]
    simp only [Vars.push]
    exact List.getElem?_append_left hi
  · rw [List.getElem?_eq_none (by simp; omega), List.getElem?_eq_none (by omega)]

end MJ.Blocks
