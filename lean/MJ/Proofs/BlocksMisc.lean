import MJ.Proofs.Blocks
/-!
# Further lemmas about the composition model: `load_blocks` bookkeeping, cycles, double extends,
# missing templates, include, import
-/
set_option linter.unusedSimpArgs false
namespace MJ.Blocks

/-! ### pigeonhole for duplicate-free lists of small numbers -/

theorem nodup_length_le (N : Nat) : ∀ (l : List Nat), l.Nodup → (∀ x ∈ l, x < N) → l.length ≤ N := by
  induction N with
  | zero =>
    intro l _ h
    cases l with
    | nil => simp
    | cons a as => exact absurd (h a (by simp)) (by omega)
  | succ N ih =>
    intro l hnd h
    have hnd' : (l.erase N).Nodup := hnd.sublist (List.erase_sublist)
    have hlt : ∀ x ∈ l.erase N, x < N := by
      intro x hx
      have := (hnd.mem_erase_iff).1 hx
      have := h x this.2
      omega
    have := ih (l.erase N) hnd' hlt
    by_cases hN : N ∈ l
    · rw [List.length_erase_of_mem hN] at this; omega
    · rw [List.erase_of_not_mem hN] at this; omega

theorem nodup_full (N : Nat) : ∀ (l : List Nat), l.Nodup → (∀ x ∈ l, x < N) → N ≤ l.length →
    ∀ x, x < N → x ∈ l := by
  induction N with
  | zero => intro l _ _ _ x hx; omega
  | succ N ih =>
    intro l hnd h hlen x hx
    have hN : N ∈ l := by
      apply Classical.byContradiction
      intro hN
      have : ∀ x ∈ l, x < N := by
        intro y hy
        have := h y hy
        have : y ≠ N := fun e => hN (e ▸ hy)
        omega
      have := nodup_length_le N l hnd this
      omega
    by_cases hxN : x = N
    · subst hxN; exact hN
    · have hnd' : (l.erase N).Nodup := hnd.sublist (List.erase_sublist)
      have hlt : ∀ y ∈ l.erase N, y < N := by
        intro y hy
        have := (hnd.mem_erase_iff).1 hy
        have := h y this.2
        omega
      have hlen' : N ≤ (l.erase N).length := by rw [List.length_erase_of_mem hN]; omega
      have := ih (l.erase N) hnd' hlt hlen' x (by omega)
      exact List.mem_of_mem_erase this

/-! ### `load_blocks` -/

theorem loadBlocks_ok (env : Env) (t : Nat) (st st' : St) (l : List Item)
    (h : loadBlocks env t st = .ok (st', l)) :
    t ∉ st.loaded ∧ t < env.length ∧ st'.loaded = t :: st.loaded ∧
      ∃ T, env[t]? = some T ∧ l = T.layout ∧ st'.blocks = appendBlocks st.blocks T.blocks ∧
        st'.depth = st.depth ∧ st'.frames = st.frames := by
  unfold loadBlocks at h
  by_cases hmem : t ∈ st.loaded
  · simp [hmem] at h
  · simp only [hmem, if_false] at h
    cases hT : env[t]? with
    | none => simp [hT] at h
    | some T =>
      simp only [hT, Except.ok.injEq, Prod.mk.injEq] at h
      obtain ⟨rfl, rfl⟩ := h
      have hlt : t < env.length := by
        rcases Nat.lt_or_ge t env.length with h | h
        · exact h
        · rw [List.getElem?_eq_none h] at hT; cases hT
      exact ⟨hmem, hlt, rfl, T, rfl, rfl, rfl, rfl, rfl⟩

/-- the loaded set stays duplicate-free and inside the environment -/
theorem loadBlocks_inv (env : Env) (t : Nat) (st st' : St) (l : List Item)
    (h : loadBlocks env t st = .ok (st', l))
    (hnd : st.loaded.Nodup) (hlt : ∀ x ∈ st.loaded, x < env.length) :
    st'.loaded.Nodup ∧ (∀ x ∈ st'.loaded, x < env.length) ∧
      st'.loaded.length = st.loaded.length + 1 ∧ st'.loaded.length ≤ env.length := by
  obtain ⟨h1, h2, h3, _⟩ := loadBlocks_ok env t st st' l h
  have hnd' : st'.loaded.Nodup := by rw [h3]; exact List.nodup_cons.2 ⟨h1, hnd⟩
  have hlt' : ∀ x ∈ st'.loaded, x < env.length := by
    rw [h3]; intro x hx
    rcases List.mem_cons.1 hx with rfl | hx
    · exact h2
    · exact hlt x hx
  exact ⟨hnd', hlt', by rw [h3]; simp, nodup_length_le _ _ hnd' hlt'⟩

/-- after as many successful `LoadBlocks` as there are templates, every further one fails -/
theorem loadBlocks_exhausted (env : Env) (t : Nat) (st : St)
    (hnd : st.loaded.Nodup) (hlt : ∀ x ∈ st.loaded, x < env.length)
    (hfull : env.length ≤ st.loaded.length) :
    loadBlocks env t st = .error [.invalidOperation] ∨ loadBlocks env t st = .error [.templateNotFound] := by
  unfold loadBlocks
  by_cases hmem : t ∈ st.loaded
  · simp [hmem]
  · simp only [hmem, if_false]
    rcases Nat.lt_or_ge t env.length with h | h
    · exact absurd (nodup_full env.length st.loaded hnd hlt hfull t h) hmem
    · rw [List.getElem?_eq_none h]; simp

/-- a layout of the usual shape: text, then an executed `extends` -/
def extendsAfterText : List Item → Bool
  | [] => false
  | .extends true _ :: _ => true
  | .text _ :: rest => extendsAfterText rest
  | _ => false

def Item.isText : Item → Bool
  | .text _ => true
  | _ => false

theorem extendsAfterText_split (layout : List Item) (h : extendsAfterText layout = true) :
    ∃ pre t post, splitExtends layout = some (pre, t, post) ∧ pre.all Item.isText = true := by
  induction layout with
  | nil => simp [extendsAfterText] at h
  | cons it rest ih =>
    cases it with
    | text s =>
      obtain ⟨pre, t, post, h1, h2⟩ := ih (by simpa [extendsAfterText] using h)
      exact ⟨.text s :: pre, t, post, by simp [splitExtends, h1], by simp [Item.isText, h2]⟩
    | «extends» exec t =>
      cases exec with
      | true => exact ⟨[], t, rest, rfl, rfl⟩
      | false => simp [extendsAfterText] at h
    | _ => simp [extendsAfterText] at h

theorem specItems_text (D : Nat → List (List Item)) (r : Nat → Nat → Except Err (List String))
    (cur : Option (Nat × Nat)) (pre : List Item) (h : pre.all Item.isText = true) :
    ∃ o, specItems D r cur pre = .ok o := by
  induction pre with
  | nil => exact ⟨[], rfl⟩
  | cons it rest ih =>
    simp only [List.all_cons, Bool.and_eq_true] at h
    obtain ⟨o, ho⟩ := ih h.2
    cases it with
    | text s => exact ⟨s :: o, by simp [specItems, ho]⟩
    | _ => simp [Item.isText] at h

/-- every template extends something: the spec reports a *detected* error (cycle or missing
    template, not exhaustion) as soon as the fuel allows `|env| + 1` template activations -/
theorem cycle_detected_spec (env : Env) (hall : ∀ T ∈ env, extendsAfterText T.layout = true) :
    ∀ d f chain layout, chain ≠ [] → chain.tail.Nodup → (∀ x ∈ chain.tail, x < env.length) →
      env.length - chain.tail.length ≤ d → d + 1 ≤ f → extendsAfterText layout = true →
      specTemplate env f chain layout = .error [.invalidOperation] ∨
        specTemplate env f chain layout = .error [.templateNotFound] := by
  intro d
  induction d with
  | zero =>
    intro f chain layout hne hnd hlt hd hf hl
    obtain ⟨f', rfl⟩ : ∃ f', f = f' + 1 := ⟨f - 1, by omega⟩
    obtain ⟨pre, t, post, hs, hpre⟩ := extendsAfterText_split layout hl
    obtain ⟨o, ho⟩ := specItems_text (defs env chain) (specBody (defs env chain) f') none pre hpre
    simp only [specTemplate, hs, ho]
    by_cases hmem : t ∈ chain.tail
    · simp [hmem]
    · simp only [hmem, if_false]
      cases hT : env[t]? with
      | none => simp
      | some T =>
        have hlt' : t < env.length := by
          rcases Nat.lt_or_ge t env.length with h | h
          · exact h
          · rw [List.getElem?_eq_none h] at hT; cases hT
        exact absurd (nodup_full env.length chain.tail hnd hlt (by omega) t hlt') hmem
  | succ d ih =>
    intro f chain layout hne hnd hlt hd hf hl
    obtain ⟨f', rfl⟩ : ∃ f', f = f' + 1 := ⟨f - 1, by omega⟩
    obtain ⟨pre, t, post, hs, hpre⟩ := extendsAfterText_split layout hl
    obtain ⟨o, ho⟩ := specItems_text (defs env chain) (specBody (defs env chain) f') none pre hpre
    simp only [specTemplate, hs, ho]
    by_cases hmem : t ∈ chain.tail
    · simp [hmem]
    · simp only [hmem, if_false]
      cases hT : env[t]? with
      | none => simp
      | some T =>
        simp only []
        by_cases hx : hasExecExtends post = true
        · simp [hx]
        · simp only [hx, if_false]
          have hlt' : t < env.length := by
            rcases Nat.lt_or_ge t env.length with h | h
            · exact h
            · rw [List.getElem?_eq_none h] at hT; cases hT
          have htail : (chain ++ [t]).tail = chain.tail ++ [t] := by
            cases chain with
            | nil => exact absurd rfl hne
            | cons c cs => rfl
          have := ih f' (chain ++ [t]) T.layout (by simp)
            (by rw [htail]; exact List.nodup_append.2 ⟨hnd, by simp, by
              intro a ha b hb; simp at hb; subst hb; intro e; exact hmem (e ▸ ha)⟩)
            (by rw [htail]; intro x hx'; rcases List.mem_append.1 hx' with h | h
                · exact hlt x h
                · simp at h; omega)
            (by rw [htail, List.length_append, List.length_singleton]; omega) (by omega) (hall T (List.mem_of_getElem? hT))
          rcases this with h | h <;> simp [h]

/-- once a parent is pending, a further executed `extends` is an error whatever stands in
    between (text, blocks, non-executed `extends`) and whatever its target is -/
theorem second_extends_error (rd : Rd) (rec : Rec) (p mid post : List Item) (t : Nat)
    (hmid : mid.all Item.isPost = true) (st : St) :
    stepItems rd rec (some p) (mid ++ .extends true t :: post) st = .error [.invalidOperation] := by
  induction mid with
  | nil => simp [stepItems]
  | cons it rest ih =>
    simp only [List.all_cons, Bool.and_eq_true] at hmid
    have ih := ih hmid.2
    simp only [List.cons_append]
    cases it with
    | text s => simp [stepItems, Res.andThen, ih]
    | callBlock m => simp [stepItems, Res.andThen, ih]
    | «extends» exec t' =>
      cases exec with
      | true => simp [stepItems]
      | false => simp [stepItems, Res.andThen, ih]
    | _ => simp [Item.isPost] at hmid

/-- `extends` of a missing template -/
theorem extends_missing_error (rd : Rd) (rec : Rec) (t : Nat) (rest : List Item) (st : St)
    (hnl : t ∉ st.loaded) (hmiss : rd.env.length ≤ t) :
    stepItems rd rec none (.extends true t :: rest) st = .error [.templateNotFound] := by
  simp [stepItems, loadBlocks, hnl, List.getElem?_eq_none hmiss]

/-- include: missing names are skipped, the first existing template is rendered as its own
    chain (fresh block table, empty loaded set) with the includer's frames; its errors are
    wrapped, never swallowed; the includer's block state is restored -/
theorem performInclude_first (env : Env) (rec : Rec) (cur : Option Nat) (disc ign : Bool)
    (missing more : List Nat) (t : Nat) (T : Template)
    (hmiss : ∀ m ∈ missing, env[m]? = none) (hT : env[t]? = some T) (tried : Bool) (st : St) :
    performInclude env rec cur disc ign (missing ++ t :: more) tried st =
      match rec cur disc T.layout { st with blocks := prepare T.blocks, depth := fun _ => 0, loaded := [] } with
      | .error e => .error (.badInclude :: e)
      | .ok (o, st') =>
        .ok (o, { blocks := st.blocks, depth := st.depth, loaded := st.loaded,
                  frames := st'.frames.take st.frames.length }) := by
  induction missing generalizing tried with
  | nil =>
    simp only [List.nil_append, performInclude, hT]
    cases rec cur disc T.layout { st with blocks := prepare T.blocks, depth := fun _ => 0, loaded := [] } with
    | error e => rfl
    | ok r => rfl
  | cons m rest ih =>
    have hm : env[m]? = none := hmiss m (by simp)
    simp only [List.cons_append, performInclude, hm]
    exact ih (fun x hx => hmiss x (by simp [hx])) true

theorem performInclude_all_missing (env : Env) (rec : Rec) (cur : Option Nat) (disc ign : Bool)
    (names : List Nat) (hmiss : ∀ m ∈ names, env[m]? = none) (tried : Bool) (st : St) :
    performInclude env rec cur disc ign names tried st =
      if (tried || !names.isEmpty) && !ign then .error [.templateNotFound] else .ok ([], st) := by
  induction names generalizing tried with
  | nil => simp [performInclude]
  | cons m rest ih =>
    have hm : env[m]? = none := hmiss m (by simp)
    simp only [performInclude, hm]
    rw [ih (fun x hx => hmiss x (by simp [hx])) true]
    simp

/-- top-level statements of a module template: text, `set`, macro definitions -/
def Item.isAssign : Item → Bool
  | .text _ | .setVar _ _ | .defMacro _ _ => true
  | _ => false

/-- the locals a list of such statements leaves in the frame `fr` (newest first) -/
def assigns : List Item → Frame → Frame
  | [], fr => fr
  | .setVar v s :: rest, fr => assigns rest ((v, .str s) :: fr)
  | .defMacro v s :: rest, fr => assigns rest ((v, .mac v s) :: fr)
  | _ :: rest, fr => assigns rest fr

def assignsVar (v : Nat) : Item → Bool
  | .setVar w _ | .defMacro w _ => w == v
  | _ => false

theorem store_snoc (base : List Frame) (fr : Frame) (v : Nat) (x : Val) :
    store (base ++ [fr]) v x = base ++ [(v, x) :: fr] := by
  simp [store]

theorem topFrame_snoc (base : List Frame) (fr : Frame) : topFrame (base ++ [fr]) = fr := by
  simp [topFrame]

theorem simple_steps (rd : Rd) (rec : Rec) (items : List Item) (h : items.all Item.isAssign = true)
    (st : St) (base : List Frame) (fr : Frame) (hfr : st.frames = base ++ [fr]) :
    ∃ o, stepItems rd rec none items st =
      .ok (o, { st with frames := base ++ [assigns items fr] }, none) := by
  induction items generalizing st fr with
  | nil => exact ⟨[], by simp [stepItems, assigns, ← hfr]⟩
  | cons it rest ih =>
    simp only [List.all_cons, Bool.and_eq_true] at h
    cases it with
    | text s =>
      obtain ⟨o, ho⟩ := ih h.2 st fr hfr
      exact ⟨_, by simp only [stepItems, Res.andThen, ho, assigns]; rfl⟩
    | setVar v s =>
      obtain ⟨o, ho⟩ := ih h.2 { st with frames := store st.frames v (.str s) } ((v, .str s) :: fr)
        (by simp [hfr, store_snoc])
      exact ⟨_, by simp only [stepItems, Res.andThen, ho, assigns]; rfl⟩
    | defMacro v s =>
      obtain ⟨o, ho⟩ := ih h.2 { st with frames := store st.frames v (.mac v s) } ((v, .mac v s) :: fr)
        (by simp [hfr, store_snoc])
      exact ⟨_, by simp only [stepItems, Res.andThen, ho, assigns]; rfl⟩
    | _ => simp [Item.isAssign] at h

/-- a name no top-level statement assigns is not among the module's locals -/
theorem lookup_assigns_other (v : Nat) (items : List Item) (fr : Frame)
    (h : items.all (fun it => !assignsVar v it) = true) :
    lookupVal v (assigns items fr) = lookupVal v fr := by
  induction items generalizing fr with
  | nil => rfl
  | cons it rest ih =>
    simp only [List.all_cons, Bool.and_eq_true] at h
    cases it with
    | setVar w s =>
      have hw : w ≠ v := by simpa [assignsVar] using h.1
      simp only [assigns]; rw [ih _ h.2]; simp [lookupVal, hw]
    | defMacro w s =>
      have hw : w ≠ v := by simpa [assignsVar] using h.1
      simp only [assigns]; rw [ih _ h.2]; simp [lookupVal, hw]
    | _ => simp only [assigns]; exact ih _ h.2

/-- what `include [t]` into a fresh `with` frame leaves behind when `t` is a module template -/
theorem include_module (env : Env) (ctx : Frame) (f : Nat) (cur : Option Nat) (disc : Bool)
    (t : Nat) (T : Template) (hT : env[t]? = some T) (hs : T.layout.all Item.isAssign = true)
    (st : St) :
    ∃ o, performInclude env (evalImpl env ctx (f + 1)) cur disc false [t] false
        { st with frames := st.frames ++ [[]] } =
      .ok (o, { st with frames := st.frames ++ [assigns T.layout []] }) := by
  obtain ⟨o, ho⟩ := simple_steps ⟨env, ctx, cur, disc⟩ (evalImpl env ctx f) T.layout hs
    { blocks := prepare T.blocks, depth := fun _ => 0, loaded := [], frames := st.frames ++ [[]] }
    st.frames [] rfl
  refine ⟨o, ?_⟩
  simp only [performInclude, hT, evalImpl, ho, List.length_append, List.length_singleton]
  congr 2
  have : (st.frames ++ [assigns T.layout []]).take (st.frames.length + 1) = st.frames ++ [assigns T.layout []] := by
    apply List.take_of_length_le; simp
  simp [this]

theorem andThen_nil (st : St) (k : St → Except Err (List String × St × Option (List Item))) :
    Res.andThen (.ok ([], st)) k = k st := by
  simp only [Res.andThen]
  cases k st with
  | error e => rfl
  | ok r => obtain ⟨o, s, a⟩ := r; simp

theorem importAs_step (env : Env) (ctx : Frame) (f : Nat) (cur : Option Nat) (d0 : Bool)
    (parent : Option (List Item)) (t v : Nat) (T : Template) (hT : env[t]? = some T)
    (hs : T.layout.all Item.isAssign = true) (rest : List Item) (st : St) :
    stepItems ⟨env, ctx, cur, d0⟩ (evalImpl env ctx (f + 1)) parent (.importAs t v :: rest) st =
      stepItems ⟨env, ctx, cur, d0⟩ (evalImpl env ctx (f + 1)) parent rest
        { st with frames := store st.frames v (.module (dedupKeys (assigns T.layout []))) } := by
  obtain ⟨o, ho⟩ := include_module env ctx f cur false t T hT hs st
  simp only [stepItems, ho, topFrame_snoc, take_append_one, andThen_nil]

theorem fromImport_step (env : Env) (ctx : Frame) (f : Nat) (cur : Option Nat) (d0 : Bool)
    (parent : Option (List Item)) (t name alias : Nat) (T : Template) (hT : env[t]? = some T)
    (hs : T.layout.all Item.isAssign = true) (rest : List Item) (st : St) :
    stepItems ⟨env, ctx, cur, d0⟩ (evalImpl env ctx (f + 1)) parent (.fromImport t name alias :: rest) st =
      stepItems ⟨env, ctx, cur, d0⟩ (evalImpl env ctx (f + 1)) parent rest
        { st with frames := store st.frames alias ((lookupVal name (assigns T.layout [])).getD .undef) } := by
  obtain ⟨o, ho⟩ := include_module env ctx f cur true t T hT hs st
  simp only [stepItems, ho, topFrame_snoc, take_append_one, andThen_nil]

/-- the result is not (caused by) an exhausted fuel budget -/
def noRec {α : Type} (r : Except Err α) : Prop := ∀ e, r = .error e → Kind.recursion ∉ e

theorem noRec_ok {α : Type} (a : α) : noRec (Except.ok a : Except Err α) := by
  intro e h; cases h

theorem specItems_noRec (D : Nat → List (List Item)) (rec : Nat → Nat → Except Err (List String))
    (cur : Option (Nat × Nat)) (items : List Item)
    (h1 : ∀ m, .callBlock m ∈ items → (D m).isEmpty = false → noRec (rec m 0))
    (h2 : ∀ n k, cur = some (n, k) → k + 1 < (D n).length → noRec (rec n (k + 1))) :
    noRec (specItems D rec cur items) := by
  induction items with
  | nil => exact noRec_ok _
  | cons it rest ih =>
    have ih := ih (fun m hm => h1 m (List.mem_cons_of_mem _ hm))
    intro e he
    cases it with
    | text s =>
      simp only [specItems] at he
      cases hr : specItems D rec cur rest with
      | error e' => rw [hr] at he; cases he; exact ih _ hr
      | ok o => rw [hr] at he; cases he
    | callBlock m =>
      simp only [specItems] at he
      cases hDm : (D m).isEmpty with
      | true => simp [hDm] at he; subst he; simp
      | false =>
        simp only [hDm, Bool.false_eq_true, if_false] at he
        cases hm : rec m 0 with
        | error e' =>
          rw [hm] at he; cases he
          exact h1 m (by simp) hDm _ hm
        | ok o =>
          rw [hm] at he
          cases hr : specItems D rec cur rest with
          | error e' => rw [hr] at he; cases he; exact ih _ hr
          | ok o' => rw [hr] at he; cases he
    | super =>
      simp only [specItems] at he
      cases cur with
      | none => cases he; simp
      | some p =>
        obtain ⟨n, k⟩ := p
        simp only [] at he
        by_cases hlt : k + 1 < (D n).length
        · simp only [hlt, if_true] at he
          cases hm : rec n (k + 1) with
          | error e' =>
            rw [hm] at he; simp only [liftErr] at he; cases he
            have := h2 n k rfl hlt _ hm
            simp [this]
          | ok o =>
            rw [hm] at he; simp only [liftErr] at he
            cases hr : specItems D rec (some (n, k)) rest with
            | error e' => rw [hr] at he; cases he; exact ih _ hr
            | ok o' => rw [hr] at he; cases he
        · simp only [hlt, if_false] at he; cases he; simp
    | «extends» exec t =>
      cases exec with
      | false => simp only [specItems] at he; exact ih e he
      | true => simp only [specItems] at he; cases he; simp
    | _ => simp only [specItems] at he; cases he; simp

/-- nesting measure: blocks are entered in increasing order, levels of one block upwards -/
def mu (B L n k : Nat) : Nat := (B - n) * (L + 1) + (L - k)

theorem mu_block (B L n k m : Nat) (hnm : n < m) (hm : m < B) : mu B L m 0 < mu B L n k := by
  unfold mu
  have hab : (B - m) + 1 ≤ B - n := by omega
  have h := Nat.mul_le_mul_right (L + 1) hab
  rw [Nat.add_mul] at h
  generalize (B - m) * (L + 1) = X at h ⊢
  generalize (B - n) * (L + 1) = Y at h ⊢
  omega

theorem mu_super (B L n k : Nat) (hk : k + 1 < L + 1) : mu B L n (k + 1) < mu B L n k := by
  unfold mu
  generalize (B - n) * (L + 1) = Y
  omega

theorem mu_le (B L n k : Nat) : mu B L n k ≤ B * (L + 1) + L := by
  unfold mu
  have := Nat.mul_le_mul_right (L + 1) (Nat.sub_le B n)
  generalize (B - n) * (L + 1) = X at this ⊢
  generalize B * (L + 1) = Y at this ⊢
  omega

/-- block rendering needs only bounded nesting: with block names below `B` and at most `L`
    definitions per block, fuel above `mu B L n k` is never exhausted -/
theorem specBody_noRec (D : Nat → List (List Item)) (hwf : WF D) (B L : Nat)
    (hB : ∀ m, B ≤ m → D m = []) (hL : ∀ n, (D n).length ≤ L) :
    ∀ f n k, mu B L n k < f → noRec (specBody D f n k) := by
  intro f
  induction f with
  | zero => intro n k h; omega
  | succ f ih =>
    intro n k hmu
    simp only [specBody]
    cases hb : (D n)[k]? with
    | none => intro e he; cases he; simp
    | some body =>
      simp only []
      have hk : k < (D n).length := by
        rcases Nat.lt_or_ge k (D n).length with h | h
        · exact h
        · rw [List.getElem?_eq_none h] at hb; cases hb
      have hbody := hwf n k body hb
      apply specItems_noRec
      · intro m hmem hne
        have hnm : n < m := by
          unfold bodyOK at hbody
          rw [List.all_eq_true] at hbody
          have := hbody _ hmem
          simpa [Item.isBody] using this
        have hmB : m < B := by
          rcases Nat.lt_or_ge m B with h | h
          · exact h
          · rw [hB m h] at hne; simp at hne
        exact ih m 0 (by have := mu_block B L n k m hnm hmB; omega)
      · intro n' k' hcur hlt
        cases hcur
        have := hL n
        exact ih n (k + 1) (by have := mu_super B L n k (by omega); omega)

theorem lookupBlock_none_of_ge (B m : Nat) (bs : List (Nat × List Item))
    (hB : ∀ p ∈ bs, p.1 < B) (hm : B ≤ m) : lookupBlock m bs = none := by
  cases h : lookupBlock m bs with
  | none => rfl
  | some b =>
    have := hB _ (lookupBlock_mem m bs b h)
    simp at this; omega

theorem defs_empty_of_ge (env : Env) (B : Nat) (hB : ∀ T ∈ env, ∀ p ∈ T.blocks, p.1 < B)
    (chain : List Nat) (m : Nat) (hm : B ≤ m) : defs env chain m = [] := by
  simp only [defs, List.filterMap_eq_nil_iff]
  intro i _
  simp only [blockOf]
  cases hT : env[i]? with
  | none => rfl
  | some T => exact lookupBlock_none_of_ge B m T.blocks (hB T (List.mem_of_getElem? hT)) hm

theorem defs_length_le (env : Env) (chain : List Nat) (n : Nat) :
    (defs env chain n).length ≤ chain.length := by
  simp only [defs]; exact List.length_filterMap_le _ _

/-- rendering a core environment needs only bounded nesting: with block names below `B`, fuel
    of `|env| + B·(|env|+3) + |env| + 4` is never exhausted — cyclic chains included (they end
    in the cycle error).  `noRec`: the result is not the recursion-limit error. -/
theorem specTemplate_noRec (env : Env) (hcore : CoreEnv env) (B : Nat)
    (hB : ∀ T ∈ env, ∀ p ∈ T.blocks, p.1 < B) :
    ∀ f chain layout, chain ≠ [] → chain.tail.Nodup → (∀ x ∈ chain.tail, x < env.length) →
      (env.length - chain.tail.length) + (B * (env.length + 2) + (env.length + 1)) + 2 ≤ f →
      layoutOK layout = true → noRec (specTemplate env f chain layout) := by
  intro f
  induction f with
  | zero => intro chain layout _ _ _ h _; omega
  | succ f ih =>
    intro chain layout hne hnd hlt hf hlay
    have htl : chain.tail.length ≤ env.length := nodup_length_le _ _ hnd hlt
    have hchain : chain.length ≤ env.length + 1 := by
      cases chain with
      | nil => exact absurd rfl hne
      | cons c cs => simp only [List.tail_cons] at htl; simp; omega
    have hwf := WF_defs env hcore chain
    have hbody : ∀ m, noRec (specBody (defs env chain) f m 0) := by
      intro m
      apply specBody_noRec (defs env chain) hwf B (env.length + 1)
        (fun m hm => defs_empty_of_ge env B hB chain m hm)
        (fun n => Nat.le_trans (defs_length_le env chain n) hchain)
      have := mu_le B (env.length + 1) m 0
      rw [show env.length + 1 + 1 = env.length + 2 from rfl] at this
      omega
    have hitems : ∀ items, noRec (specItems (defs env chain) (specBody (defs env chain) f) none items) :=
      fun items => specItems_noRec _ _ none items (fun m _ _ => hbody m) (by intro n k h; cases h)
    simp only [specTemplate]
    cases hs : splitExtends layout with
    | none => exact hitems layout
    | some r =>
      obtain ⟨pre, t, post⟩ := r
      simp only []
      cases hpre : specItems (defs env chain) (specBody (defs env chain) f) none pre with
      | error e => intro e' he; cases he; exact hitems pre _ hpre
      | ok o =>
        simp only []
        by_cases hmem : t ∈ chain.tail
        · simp only [hmem, if_true]; intro e he; cases he; simp
        · simp only [hmem, if_false]
          cases hT : env[t]? with
          | none => intro e he; cases he; simp
          | some T =>
            simp only []
            by_cases hx : hasExecExtends post = true
            · simp only [hx, if_true]; intro e he; cases he; simp
            · simp only [hx, if_false]
              have hlt' : t < env.length := by
                rcases Nat.lt_or_ge t env.length with h | h
                · exact h
                · rw [List.getElem?_eq_none h] at hT; cases hT
              have hroom : chain.tail.length < env.length := by
                rcases Nat.lt_or_ge chain.tail.length env.length with h | h
                · exact h
                · exact absurd (nodup_full env.length chain.tail hnd hlt h t hlt') hmem
              have htail : (chain ++ [t]).tail = chain.tail ++ [t] := by
                cases chain with
                | nil => exact absurd rfl hne
                | cons c cs => rfl
              have hTok : layoutOK T.layout = true := by
                have := hcore T (List.mem_of_getElem? hT)
                simp only [templateOK, Bool.and_eq_true] at this
                exact this.1
              have := ih (chain ++ [t]) T.layout (by simp)
                (by rw [htail]; exact List.nodup_append.2 ⟨hnd, by simp, by
                  intro a ha b hb; simp at hb; subst hb; intro e; exact hmem (e ▸ ha)⟩)
                (by rw [htail]; intro x hx'; rcases List.mem_append.1 hx' with h | h
                    · exact hlt x h
                    · simp at h; omega)
                (by rw [htail, List.length_append, List.length_singleton]; omega) hTok
              intro e he
              cases hr : specTemplate env f (chain ++ [t]) T.layout with
              | error e' => rw [hr] at he; cases he; exact this _ hr
              | ok o' => rw [hr] at he; cases he

end MJ.Blocks
