import MJ.Model.OutputEmit
import MJ.Proofs.Output
/-!
# Lemmas about the `Emit` layer and about `Interrupted` (C19)
-/
namespace MJ.Output
open MJ

/-! ## `HtmlEscape` writes exactly the escaped text, in non-empty pieces -/

theorem htmlEscape_cons (b : UInt8) (s : Bytes) :
    htmlEscape (b :: s) = (htmlQuote b).getD [b] ++ htmlEscape s := by
  simp [htmlEscape]

theorem htmlPiecesAux_flatten (pending s : Bytes) :
    (htmlPiecesAux pending s).flatten = pending ++ htmlEscape s := by
  induction s generalizing pending with
  | nil =>
    simp only [htmlPiecesAux, htmlEscape]
    by_cases h : pending = [] <;> simp [h]
  | cons b rest ih =>
    simp only [htmlPiecesAux, htmlEscape_cons]
    cases hq : htmlQuote b with
    | none => simp [ih]
    | some q =>
      by_cases h : pending = [] <;> simp [h, ih]

theorem htmlPieces_flatten (s : Bytes) : (htmlPieces s).flatten = htmlEscape s := by
  simpa [htmlPieces] using htmlPiecesAux_flatten [] s

/-- every replacement of the (regenerated) table is non-empty -/
theorem htmlTable_nonempty : ∀ r ∈ MJ.Gen.htmlEscapeTable, r.2.toUTF8.toList ≠ [] := by decide +kernel

theorem htmlQuote_nonempty {b : UInt8} {q : Bytes} (h : htmlQuote b = some q) : q ≠ [] := by
  unfold htmlQuote at h
  split at h
  · cases hf : MJ.Gen.htmlEscapeTable.find? (fun r => r.1.toNat = b.toNat) with
    | none => simp [hf] at h
    | some r =>
      simp [hf] at h
      subst h
      exact htmlTable_nonempty r (List.mem_of_find?_eq_some hf)
  · cases h

theorem htmlPiecesAux_nonempty (pending s : Bytes) : ∀ p ∈ htmlPiecesAux pending s, p ≠ [] := by
  induction s generalizing pending with
  | nil =>
    simp only [htmlPiecesAux]
    by_cases h : pending = [] <;> simp [h]
  | cons b rest ih =>
    simp only [htmlPiecesAux]
    cases hq : htmlQuote b with
    | none => exact ih _
    | some q =>
      intro p hp
      simp only [List.mem_append, List.mem_cons] at hp
      rcases hp with hp | rfl | hp
      · by_cases h : pending = []
        · simp [h] at hp
        · simp [h] at hp; subst hp; exact h
      · exact htmlQuote_nonempty hq
      · exact ih _ p hp

theorem htmlEscape_of_not_needs (s : Bytes) (h : needsHtmlEscaping s = false) : htmlEscape s = s := by
  induction s with
  | nil => rfl
  | cons b rest ih =>
    simp only [needsHtmlEscaping, List.any_cons, Bool.or_eq_false_iff] at h
    have hb : htmlQuote b = none := by
      cases hq : htmlQuote b with
      | none => rfl
      | some q => simp [hq] at h
    rw [htmlEscape_cons, hb]
    simp only [Option.getD_none, List.singleton_append, List.cons.injEq, true_and]
    exact ih (by simpa [needsHtmlEscaping] using h.2)

/-! ## a run of plain writes into a `String` -/

theorem run_writes_string (cs : List Chunk) (b : Bytes) (ws : List Wrap) :
    run (cs.map Op.write) (⟨⟨b, []⟩, ws⟩ : St Bytes) = (⟨⟨b ++ flat cs, []⟩, ws⟩, .ok (.ok ())) := by
  induction cs generalizing b with
  | nil => simp [run]
  | cons c cs ih =>
    cases c <;>
      simp [run, step, Out.write, put, FmtWrite.writeStr, FmtWrite.writeChar, ih, Chunk.bytes, List.append_assoc]

theorem renderString_strs (ps : List Bytes) :
    renderString (ps.map strOp) = ⟨ps.flatten, .ok (.ok ())⟩ := by
  have h := run_writes_string (ps.map Chunk.str) [] []
  simp only [List.map_map] at h
  have hm : (ps.map (Op.write ∘ Chunk.str)) = ps.map strOp := rfl
  rw [hm] at h
  simp only [renderString, St.init, h]
  simp [flat, Chunk.bytes, Function.comp_def]

/-! ## `Interrupted` is invisible -/

def Beh.isInterrupt : Beh → Bool
  | .err e => e.kind == .interrupted
  | _ => false

/-- the script without its `Interrupted` answers -/
def dropInterrupts (script : List Beh) : List Beh := script.filter fun b => !b.isInterrupt

theorem writeAll_dropInterrupts (script : List Beh) (buf : Bytes) :
    (writeAll (dropInterrupts script) buf).rest = dropInterrupts (writeAll script buf).rest ∧
    (writeAll (dropInterrupts script) buf).err = (writeAll script buf).err ∧
    delivered (writeAll (dropInterrupts script) buf).calls = delivered (writeAll script buf).calls := by
  induction script generalizing buf with
  | nil =>
    have : dropInterrupts [] = [] := rfl
    rw [this]
    unfold writeAll
    by_cases hb : buf = [] <;> simp [hb, dropInterrupts]
  | cons beh rest ih =>
    by_cases hb : buf = []
    · subst hb
      have h1 : ∀ sc : List Beh, writeAll sc [] = ⟨sc, [], none⟩ := by
        intro sc; cases sc <;> simp [writeAll]
      simp [h1]
    · cases beh with
      | err e =>
        by_cases hk : e.kind = .interrupted
        · have hdrop : dropInterrupts (Beh.err e :: rest) = dropInterrupts rest := by
            simp [dropInterrupts, Beh.isInterrupt, hk]
          have hstep : writeAll (Beh.err e :: rest) buf =
              ⟨(writeAll rest buf).rest, ⟨buf, .err e⟩ :: (writeAll rest buf).calls, (writeAll rest buf).err⟩ := by
            rw [writeAll]; simp [hb, Beh.apply, hk]
          rw [hdrop, hstep]
          obtain ⟨a, b, c⟩ := ih buf
          exact ⟨a, b, by simpa [Call.accepted] using c⟩
        · have hdrop : dropInterrupts (Beh.err e :: rest) = Beh.err e :: dropInterrupts rest := by
            simp [dropInterrupts, Beh.isInterrupt, hk]
          rw [hdrop]
          rw [writeAll, writeAll]
          simp [hb, Beh.apply, hk]
      | all =>
        have hdrop : dropInterrupts (Beh.all :: rest) = Beh.all :: dropInterrupts rest := by
          simp [dropInterrupts, Beh.isInterrupt]
        rw [hdrop, writeAll, writeAll]
        simp only [hb, if_false, Beh.apply]
        cases hl : buf.length with
        | zero => simp
        | succ n =>
          obtain ⟨a, b, c⟩ := ih (buf.drop (n + 1))
          exact ⟨a, b, by simp [c]⟩
      | accept k =>
        have hdrop : dropInterrupts (Beh.accept k :: rest) = Beh.accept k :: dropInterrupts rest := by
          simp [dropInterrupts, Beh.isInterrupt]
        rw [hdrop, writeAll, writeAll]
        simp only [hb, if_false, Beh.apply]
        cases hl : min k buf.length with
        | zero => simp
        | succ n =>
          obtain ⟨a, b, c⟩ := ih (buf.drop (n + 1))
          exact ⟨a, b, by simp [c]⟩
      | half =>
        have hdrop : dropInterrupts (Beh.half :: rest) = Beh.half :: dropInterrupts rest := by
          simp [dropInterrupts, Beh.isInterrupt]
        rw [hdrop, writeAll, writeAll]
        simp only [hb, if_false, Beh.apply]
        cases hl : (buf.length + 1) / 2 with
        | zero => simp
        | succ n =>
          obtain ⟨a, b, c⟩ := ih (buf.drop (n + 1))
          exact ⟨a, b, by simp [c]⟩

/-- feeding chunks: the wrapper over the interrupt-free script ends in the same state up to the
    logged `Interrupted` calls -/
theorem feed_dropInterrupts (cs : List Chunk) (w w' : WriteWrapper)
    (hs : w'.script = dropInterrupts w.script) (he : w'.err = w.err)
    (hd : delivered w'.calls = delivered w.calls) :
    (feed w' cs).2 = (feed w cs).2 ∧ (feed w' cs).1.err = (feed w cs).1.err ∧
    delivered (feed w' cs).1.calls = delivered (feed w cs).1.calls := by
  induction cs generalizing w w' with
  | nil => simp [feed, he, hd]
  | cons c cs ih =>
    cases hwe : w.err with
    | some e =>
      have hwe' : w'.err = some e := by rw [he, hwe]
      simp only [feed, put_wrapper, writeBytes_of_some hwe, writeBytes_of_some hwe']
      exact ⟨trivial, by rw [hwe, hwe'], hd⟩
    | none =>
      have hwe' : w'.err = none := by rw [he, hwe]
      obtain ⟨a, b, d⟩ := writeAll_dropInterrupts w.script c.bytes
      simp only [feed, put_wrapper, writeBytes_of_none hwe, writeBytes_of_none hwe',
        WriteWrapper.writeBytesOk, hs]
      rw [b]
      cases hx : (writeAll w.script c.bytes).err with
      | none =>
        simp only []
        exact ih _ _ (by simpa using a) (by simp [hwe, hwe']) (by simp [hd, d])
      | some e => simp [hd, d]

end MJ.Output
