import MJ.Proofs.LexerTok
/-! Well-formed delimiter sets and the scanning lemmas for the fixed tag vocabulary: start marker
search (`findLL`), tag interiors (`scanTag`), comments (`findSub`), raw blocks (`skipBasicTag`,
`findEndraw`). -/
namespace MJ.Lexer

structure Good (d : Delims) : Prop where
  starts : ∀ mp ∈ startPats d, startOk mp.2 = true
  lastNl : ∀ mp ∈ startPats d, mp.1.isLine = true → endNotNl mp.2 = true
  nodup : ((startPats d).map (·.2)).Nodup
  ve : headOk d.ve = true
  be : headOk d.be = true
  ce : d.ce ≠ []
  lve : lastOk d.ve = true
  lbe : lastOk d.be = true
  lce : lastOk d.ce = true

theorem nodup_of_nodupB (l : List (List Char)) (h : nodupB l = true) : l.Nodup := by
  induction l with
  | nil => exact List.nodup_nil
  | cons p r ih =>
    simp only [nodupB, Bool.and_eq_true, Bool.not_eq_true'] at h
    refine List.nodup_cons.2 ⟨?_, ih h.2⟩
    intro hm
    have := List.contains_iff_mem.2 hm
    rw [this] at h
    exact absurd h.1 (by simp)

theorem good_of_goodDelims {d : Delims} (h : goodDelims d = true) : Good d := by
  simp only [goodDelims, Bool.and_eq_true, List.all_eq_true] at h
  obtain ⟨⟨⟨⟨⟨⟨⟨h1, h2⟩, h3⟩, h4⟩, h5⟩, h6⟩, h7⟩, h8⟩ := h
  refine ⟨fun mp hmp => (h1 mp hmp).1, fun mp hmp hl => ?_, nodup_of_nodupB _ h2, h3, h4, ?_, h6, h7, h8⟩
  · have := (h1 mp hmp).2
    simpa [hl] using this
  intro h0; rw [h0] at h5; simp at h5

theorem good_default : Good defaultDelims := good_of_goodDelims (by decide)

theorem Good.vs {d : Delims} (g : Good d) : startOk d.vs = true := g.starts (.var, d.vs) (by simp [startPats])
theorem Good.bs {d : Delims} (g : Good d) : startOk d.bs = true := g.starts (.block, d.bs) (by simp [startPats])
theorem Good.cs {d : Delims} (g : Good d) : startOk d.cs = true := g.starts (.comment, d.cs) (by simp [startPats])

/-! ### comments -/

theorem findSub_here (p x : List Char) (hp : p ≠ []) : findSub p (p ++ x) = some 0 := by
  cases p with
  | nil => exact absurd rfl hp
  | cons a p =>
    have := startsWith_append_self (a :: p) x
    simp only [List.cons_append] at this ⊢
    simp [findSub, this]

/-- the first occurrence of the comment end is behind a body that does not contain it -/
theorem findSub_body (e : List Char) (he : e ≠ []) (b x : List Char) (h : noPatIn e b (e ++ x) = true) :
    findSub e (b ++ (e ++ x)) = some b.length := by
  induction b with
  | nil => simpa using findSub_here e x he
  | cons a b ih =>
    simp only [noPatIn, Bool.and_eq_true, Bool.not_eq_true'] at h
    have h1 : startsWith e (a :: (b ++ (e ++ x))) = false := h.1
    simp only [List.cons_append, findSub, h1, Bool.false_eq_true, if_false, ih h.2]
    rfl

/-! ### raw blocks -/

theorem ws_space : isAsciiWs ' ' = true := by decide
theorem ws_minus : isAsciiWs '-' = false := by decide
theorem ws_plus : isAsciiWs '+' = false := by decide

theorem dropWhile_asciiWs_mark_end {e : List Char} (he : headOk e = true) (m : Mark) (x : List Char) :
    (m.src ++ (e ++ x)).dropWhile isAsciiWs = m.src ++ (e ++ x) := by
  obtain ⟨h, t, rfl, h1⟩ := headOk_cons he
  cases m <;> simp only [Mark.src, List.nil_append, List.cons_append, List.dropWhile_cons, h1, ws_minus, ws_plus] <;> rfl

/-- the marker / end delimiter part of `skip_basic_tag`: a marker is taken only in front of the end
    delimiter, and an unmarked end delimiter is not read as a marked one (`closeOk`) -/
theorem takeMarker_mark_end (e : List Char) (m : Mark) (x : List Char) (hc : closeOk e m x = true) :
    takeMarker e (m.src ++ (e ++ x)) = (m.ws, e ++ x) := by
  cases m with
  | minus => simp [takeMarker, Mark.src, Mark.ws, startsWith_append_self]
  | plus => simp [takeMarker, Mark.src, Mark.ws, startsWith_append_self]
  | none =>
    simp only [closeOk, bne_self_eq_false, Bool.false_or] at hc
    simp only [Mark.src, Mark.ws, List.nil_append]
    cases hex : e ++ x with
    | nil => rfl
    | cons c rest =>
      rw [hex] at hc
      simp only [Bool.not_eq_true', isMarkChar, Bool.and_eq_false_iff, Bool.or_eq_false_iff,
        decide_eq_false_iff_not] at hc
      unfold takeMarker
      rcases hc with ⟨h1, h2⟩ | h
      · simp [h1, h2]
      · simp [h]

theorem dropWhile_asciiWs_pad (tight : Bool) (y : List Char) :
    (pad tight ++ y).dropWhile isAsciiWs = y.dropWhile isAsciiWs := by
  cases tight <;> simp [pad, List.dropWhile_cons, ws_space]

/-- `skip_basic_tag` once the optional marker in front has been dealt with: blanks, the name,
    blanks, marker, end delimiter -/
theorem skipBasicTag_core {e : List Char} (he : headOk e = true) (s name : List Char) (b tight : Bool)
    (m : Mark) (x : List Char) (hc : closeOk e m x = true)
    (hp2 : (stripMarkerIf b s).dropWhile isAsciiWs = name ++ (pad tight ++ (m.src ++ (e ++ x)))) :
    skipBasicTag s name e b = some (s.length - x.length, m.ws) := by
  unfold skipBasicTag
  simp only [hp2, startsWith_append_self, if_true, List.drop_left]
  simp only [dropWhile_asciiWs_pad, dropWhile_asciiWs_mark_end he, takeMarker_mark_end e m x hc,
    startsWith_append_self]
  simp

theorem skipBasicTag_raw {e : List Char} (he : headOk e = true) (tight : Bool) (m : Mark) (x : List Char)
    (hc : closeOk e m x = true) :
    skipBasicTag (rawBody tight ++ (m.src ++ (e ++ x))) rawName e false =
      some ((rawBody tight).length + m.src.length + e.length, m.ws) := by
  rw [skipBasicTag_core he _ rawName false tight m x hc
    (by cases tight <;> simp [stripMarkerIf, rawBody, pad, rawName, List.dropWhile_cons, isAsciiWs])]
  simp; omega

theorem skipBasicTag_endraw {e : List Char} (he : headOk e = true) (tight : Bool) (l2 m : Mark) (x : List Char)
    (hc : closeOk e m x = true) :
    skipBasicTag (l2.src ++ (endrawBody tight ++ (m.src ++ (e ++ x)))) endrawName e true =
      some (l2.src.length + (endrawBody tight).length + m.src.length + e.length, m.ws) := by
  rw [skipBasicTag_core he _ endrawName true tight m x hc
    (by cases l2 <;> cases tight <;>
      simp [stripMarkerIf, Mark.src, endrawBody, pad, endrawName, List.dropWhile_cons, isAsciiWs])]
  simp; omega

theorem startOk_cons {s : List Char} (h : startOk s = true) : ∃ c r, s = c :: r ∧ isWs c = false := by
  cases s with
  | nil => simp [startOk] at h
  | cons c r => exact ⟨c, r, rfl, by simpa [startOk] using h⟩

theorem map_succ_some {α : Type} (a : Nat) (b : α) :
    (some (a, b)).map (fun (x : Nat × α) => (x.1 + 1, x.2)) = some (a + 1, b) := rfl

/-- the closing tag of a raw block is found right after content that is free of block starts -/
theorem findEndraw_content {d : Delims} (g : Good d) (c : List Char) (tight : Bool) (l2 m : Mark) (x : List Char)
    (hc : closeOk d.be m x = true)
    (hfree : noBsIn d c (d.bs ++ (l2.src ++ (endrawBody tight ++ (m.src ++ (d.be ++ x))))) = true) :
    findEndraw d 0 (c ++ (d.bs ++ (l2.src ++ (endrawBody tight ++ (m.src ++ (d.be ++ x)))))) =
      some (c.length, d.bs.length + (l2.src.length + (endrawBody tight).length + m.src.length + d.be.length),
        l2.ws, m.ws) := by
  induction c with
  | nil =>
    obtain ⟨b0, bs', hbs, _⟩ := startOk_cons g.bs
    have hsw : startsWith d.bs (d.bs ++ (l2.src ++ (endrawBody tight ++ (m.src ++ (d.be ++ x))))) = true :=
      startsWith_append_self _ _
    simp only [List.nil_append, List.length_nil]
    generalize hF : d.bs ++ (l2.src ++ (endrawBody tight ++ (m.src ++ (d.be ++ x)))) = F at hsw
    have hF2 : F = b0 :: (bs' ++ (l2.src ++ (endrawBody tight ++ (m.src ++ (d.be ++ x))))) := by
      rw [← hF, hbs]; rfl
    have hdrop : F.drop d.bs.length = l2.src ++ (endrawBody tight ++ (m.src ++ (d.be ++ x))) := by
      rw [← hF, List.drop_left]
    rw [hF2] at hsw hdrop ⊢
    unfold findEndraw
    simp only [hsw, if_true, hdrop, skipBasicTag_endraw g.be tight l2 m x hc]
    cases l2 <;> cases tight <;> simp [Mark.src, Mark.ws, endrawBody, pad, endrawName, wsOfChar]
  | cons a c ih =>
    simp only [noBsIn, Bool.and_eq_true, Bool.not_eq_true'] at hfree
    simp only [List.cons_append, List.length_cons]
    have h1 : startsWith d.bs (a :: (c ++ (d.bs ++ (l2.src ++ (endrawBody tight ++ (m.src ++ (d.be ++ x))))))) = false :=
      hfree.1
    unfold findEndraw
    simp only [h1, Bool.false_eq_true, if_false, ih hfree.2]
    rfl

end MJ.Lexer
