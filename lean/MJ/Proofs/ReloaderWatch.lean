import MJ.Model.Reloader
namespace MJ.Reloader

/-! ## the fs watcher's lifetime -/

/-- paths that were registered are being watched, unless the watcher was thrown away by a reload
    that started while neither `persistent_watch` nor fast reload was on (and nobody re-registered) -/
structure WatchInv (σ : State) : Prop where
  alive : σ.registered = true → σ.watching = true ∨ σ.lastDrop = some (false, false)
  reg : σ.watching = true → σ.registered = true
  /-- the acquire that dropped the watcher saw fast reload off, so it goes on to run the creator -/
  hold : ∀ c, σ.cur = some c →
    (c.droppedW = true → c.fastSeen = false) ∧
    ((c.pc = .locked ∨ (∃ b, c.pc = .checked b) ∨ c.pc = .toClear ∨ c.pc = .cleared) → c.droppedW = false)
  nocad : σ.clearsAfterDrop = 0

theorem watchInv_init (ths : List Thread) : WatchInv (init ths) := by
  constructor <;> simp [init]

theorem watchInv_stepActive {σ σ' : State} {c : Active} (h : WatchInv σ) (hc : σ.cur = some c)
    (hs : stepActive σ c = some σ') : WatchInv σ' := by
  obtain ⟨h1, h2, h3, h4⟩ := h
  have h3c := h3 c hc
  unfold stepActive at hs
  repeat' split at hs
  all_goals first
    | (cases hs; done)
    | (cases hs
       constructor <;> simp_all [dropWatcher] <;> grind)

theorem watchInv_step {σ σ' : State} {i : Nat} (h : WatchInv σ) (hs : step σ i = some σ') :
    WatchInv σ' := by
  unfold step at hs
  split at hs
  · split at hs
    · rename_i hc0
      split at hs <;> cases hs <;> constructor <;> simp_all [h.alive, h.reg, h.nocad] <;>
        first | exact h.alive | exact h.reg | exact h.nocad | skip
    · cases hs
  · split at hs
    · split at hs
      · rename_i c hc htid
        exact watchInv_stepActive h hc hs
      · cases hs
    · cases hs
  all_goals first
    | (cases hs; done)
    | (cases hs; exact ⟨h.alive, h.reg, h.hold, h.nocad⟩)
    | (cases hs
       constructor <;> simp <;>
         first | exact h.alive | exact h.reg | exact h.nocad | simpa using h.hold)

theorem watchInv_of_reachable {σ : State} (h : Reachable σ) : WatchInv σ := by
  induction h with
  | init ths _ => exact watchInv_init ths
  | step i _ hs ih => exact watchInv_step ih hs

end MJ.Reloader
