import MJ.Proofs.LexerStep
/-! The declarative rules remove nothing but the whitespace they name (`Props/C10.lean`:
`removed_left_is_named`, `removed_right_is_named`, `text_is_partitioned`). -/
namespace MJ.Lexer

/-- a text is its removed prefix, what is printed, and its removed suffix -/
theorem cut_partition (l r : Nat) (t : List Char) (h : l + r ≤ t.length) :
    t = t.take l ++ (cut l r t ++ t.drop (t.length - r)) := by
  unfold cut
  have h1 : t.length - l - r = (t.drop l).length - r := by simp
  have h2 : (t.drop l).drop ((t.drop l).length - r) = t.drop (t.length - r) := by
    rw [List.drop_drop]; congr 1; simp; omega
  rw [h1, ← h2, List.take_append_drop, List.take_append_drop]

/-- when the two cuts meet nothing is printed -/
theorem cut_nil_of_overlap (l r : Nat) (t : List Char) (h : t.length ≤ l + r) : cut l r t = [] := by
  unfold cut
  have : t.length - l - r = 0 := by omega
  rw [this]; simp

theorem nlLen_take_isNl (t : List Char) : ∀ c ∈ t.take (nlLen t), isNl c = true := by
  intro c hc
  cases t with
  | nil => simp at hc
  | cons a r =>
    by_cases ha : a = '\r'
    · subst ha
      cases r with
      | nil =>
        simp [nlLen] at hc
        subst hc; decide
      | cons b r2 =>
        by_cases hb : b = '\n'
        · subst hb
          simp [nlLen] at hc
          rcases hc with rfl | rfl <;> decide
        · simp [nlLen, hb] at hc
          subst hc; decide
    · by_cases hn : a = '\n'
      · subst hn
        simp [nlLen] at hc
        subst hc; decide
      · simp [nlLen, ha, hn] at hc

theorem isWs_of_isNl {c : Char} (h : isNl c = true) : isWs c = true := by
  simp only [isNl, Bool.or_eq_true, decide_eq_true_eq] at h
  rcases h with rfl | rfl <;> decide

theorem isWs_of_isHws {c : Char} (h : isHws c = true) : isWs c = true := by
  simp only [isHws, Bool.and_eq_true] at h; exact h.1

/-- the last `sufCount p t` characters of `t` satisfy `p` -/
theorem sufCount_drop_sat (p : Char → Bool) (t : List Char) :
    ∀ c ∈ t.drop (t.length - sufCount p t), p c = true := by
  obtain ⟨b, u, h⟩ := sufSplit_exists p t
  rw [h.sufCount]
  have : t.drop (t.length - u.length) = u := by
    rw [h.eq]; simp
  rw [this]
  exact h.sat

/-- **What is removed at the start of a text is what the rules name**: all leading whitespace
    behind a `-`, one line break behind an unmarked block / comment / raw tag under `trim_blocks`,
    nothing behind `+` or a variable tag. -/
theorem leftCut_named (cfg : Cfg) (blockish : Bool) (m : Mark) (t : List Char) :
    (m = .minus → t.take (leftCut cfg blockish m t) = t.takeWhile isWs) ∧
    (m = .none → blockish = true → cfg.trim = true → t.take (leftCut cfg blockish m t) = t.take (nlLen t)) ∧
    (m = .plus ∨ (m = .none ∧ (blockish = false ∨ cfg.trim = false)) → leftCut cfg blockish m t = 0) ∧
    (∀ c ∈ t.take (leftCut cfg blockish m t), isWs c = true) := by
  refine ⟨?_, ?_, ?_, ?_⟩
  · rintro rfl; simp [leftCut, takeWhile_eq_take]
  · rintro rfl hb ht; simp [leftCut, hb, ht]
  · rintro (rfl | ⟨rfl, hb | ht⟩) <;> simp [leftCut, *]
  · intro c hc
    cases m with
    | minus =>
      simp only [leftCut, ← takeWhile_eq_take] at hc
      exact mem_takeWhile_sat hc
    | plus => simp [leftCut] at hc
    | none =>
      simp only [leftCut] at hc
      split at hc
      · exact isWs_of_isNl (nlLen_take_isNl t c hc)
      · simp at hc

/-- **What is removed at the end of a text is what the rules name**: all trailing whitespace in
    front of a `-`, the horizontal whitespace back to the start of the line in front of an
    unmarked block / comment / raw tag under `lstrip_blocks`, nothing in front of `+`. -/
theorem rightCut_named (cfg : Cfg) (first blockish : Bool) (m : Mark) (t : List Char) :
    (m = .minus → ∀ c ∈ t.drop (t.length - rightCut cfg first blockish m t), isWs c = true) ∧
    (m = .none → ∀ c ∈ t.drop (t.length - rightCut cfg first blockish m t), isHws c = true) ∧
    (m = .plus ∨ (m = .none ∧ (blockish = false ∨ cfg.lstrip = false ∨ atLineStart first t = false)) →
      rightCut cfg first blockish m t = 0) := by
  refine ⟨?_, ?_, ?_⟩
  · rintro rfl; simp only [rightCut]; exact sufCount_drop_sat isWs t
  · rintro rfl
    simp only [rightCut]
    split
    · exact sufCount_drop_sat isHws t
    · simp
  · rintro (rfl | ⟨rfl, hb | hl | ha⟩) <;> simp [rightCut, *]

/-! ### the whole source as a partition -/

/-- one span of the source of a template -/
inductive Part where
  /-- whitespace a rule removes (possibly empty) -/
  | removed (s : List Char)
  /-- text that is printed as it is -/
  | printed (s : List Char)
  /-- a tag: delimiters, markers and interior (for a raw block also its content) -/
  | tag (g : Tag)

def Part.src (d : Delims) : Part → List Char
  | .removed s => s
  | .printed s => s
  | .tag g => g.src d

/-- what a part contributes to the output -/
def Part.out (cfg : Cfg) (vm bm : List Char) : Part → List Char
  | .removed _ => []
  | .printed s => s
  | .tag g => tagOut cfg vm bm g

/-- the spans of `t ++ unparseTail d tail` (the first `l` characters of `t` are removed by the tag on
    its left): for every text its removed prefix, its printed part and its removed suffix, and the tags -/
def specParts (cfg : Cfg) : Bool → Nat → List Char → List (Tag × List Char) → List Part
  | _, l, t, [] => [.removed (t.take l), .printed (t.drop l)]
  | first, l, t, (g, t') :: rest =>
    [.removed (t.take l), .printed (cut l (rightCutG cfg first g t) t),
      .removed (t.drop (max l (t.length - rightCutG cfg first g t))), .tag g] ++
      specParts cfg false (leftCutG cfg g t') t' rest

theorem take_cut_drop (l r : Nat) (t : List Char) :
    t.take l ++ (cut l r t ++ t.drop (max l (t.length - r))) = t := by
  by_cases h : l + r ≤ t.length
  · have : max l (t.length - r) = t.length - r := by omega
    rw [this]; exact (cut_partition l r t h).symm
  · have h' : t.length ≤ l + r := by omega
    have : max l (t.length - r) = l := by omega
    rw [this, cut_nil_of_overlap l r t h']; simp

/-- **every character of the source belongs to exactly one span**: the spans in order are the source -/
theorem specParts_src (cfg : Cfg) (d : Delims) :
    ∀ (tail : List (Tag × List Char)) (first : Bool) (l : Nat) (t : List Char),
      (specParts cfg first l t tail).flatMap (Part.src d) = t ++ unparseTail d tail
  | [], first, l, t => by simp [specParts, Part.src, unparseTail]
  | (g, t') :: rest, first, l, t => by
    simp only [specParts, List.flatMap_append, List.flatMap_cons, List.flatMap_nil, Part.src, List.append_nil,
      specParts_src cfg d rest false _ t', unparseTail]
    have := take_cut_drop l (rightCutG cfg first g t) t
    simp only [List.append_assoc] at this ⊢
    rw [← List.append_assoc (List.take l t), ← List.append_assoc (List.take l t ++ _)]
    simp only [List.append_assoc]
    rw [← List.append_assoc (cut _ _ _), ← List.append_assoc (List.take l t), this]

/-- … and the output of the rules is what the printed spans and the tags contribute, in order -/
theorem specParts_out (cfg : Cfg) (vm bm : List Char) :
    ∀ (tail : List (Tag × List Char)) (first : Bool) (l : Nat) (t : List Char),
      (specParts cfg first l t tail).flatMap (Part.out cfg vm bm) = specTail cfg vm bm first l t tail
  | [], first, l, t => by simp [specParts, Part.out, specTail]
  | (g, t') :: rest, first, l, t => by
    simp [specParts, Part.out, specTail, specParts_out cfg vm bm rest false _ t']

/-- the removed spans hold nothing but whitespace (for ordinary tags; a line statement also takes
    the line break that ends it, which is whitespace too) -/
theorem specParts_removed_ws (cfg : Cfg) :
    ∀ (tail : List (Tag × List Char)) (first : Bool) (l : Nat) (t : List Char),
      (∀ c ∈ t.take l, isWs c = true) →
      ∀ s, Part.removed s ∈ specParts cfg first l t tail → ∀ c ∈ s, isWs c = true
  | [], first, l, t => by
    intro hl s hs c hc
    simp only [specParts, List.mem_cons, Part.removed.injEq, reduceCtorEq, List.not_mem_nil, or_false] at hs
    subst hs; exact hl c hc
  | (g, t') :: rest, first, l, t => by
    intro hl s hs c hc
    simp only [specParts, List.cons_append, List.nil_append, List.mem_cons, Part.removed.injEq, reduceCtorEq,
      false_or] at hs
    rcases hs with rfl | rfl | hs
    · exact hl c hc
    · -- the suffix the tag on the right removes
      have hsub : c ∈ t.drop (t.length - rightCutG cfg first g t) := by
        have hle : t.length - rightCutG cfg first g t ≤ max l (t.length - rightCutG cfg first g t) := by omega
        obtain ⟨k, hk⟩ := Nat.exists_eq_add_of_le hle
        rw [hk, ← List.drop_drop] at hc
        exact List.mem_of_mem_drop hc
      unfold rightCutG at hsub
      have hn := rightCut_named (cfgFor cfg g) first g.blockish g.l t
      revert hsub hn
      generalize g.l = m
      intro hsub hn
      cases m with
      | minus => exact hn.1 rfl c hsub
      | none => exact isWs_of_isHws (hn.2.1 rfl c hsub)
      | plus =>
        rw [hn.2.2 (Or.inl rfl)] at hsub
        simp at hsub
    · refine specParts_removed_ws cfg rest false _ t' ?_ s hs c hc
      intro c hc
      unfold leftCutG at hc
      split at hc
      · -- a line statement: blanks up to the line break and the line break
        unfold lineCut at hc
        have key : t'.take ((t'.takeWhile isHws).length + nlLen (t'.dropWhile isHws)) =
            t'.takeWhile isHws ++ (t'.dropWhile isHws).take (nlLen (t'.dropWhile isHws)) := by
          conv => lhs; arg 2; rw [← List.takeWhile_append_dropWhile (p := isHws) (l := t')]
          exact List.take_length_add_append _
        rw [key, List.mem_append] at hc
        rcases hc with hc | hc
        · exact isWs_of_isHws (mem_takeWhile_sat hc)
        · exact isWs_of_isNl (nlLen_take_isNl _ c hc)
      · exact (leftCut_named (cfgFor cfg g) g.blockish g.r t').2.2.2 c hc

end MJ.Lexer
