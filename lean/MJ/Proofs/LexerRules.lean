import MJ.Proofs.LexerStep
/-! The declarative rules remove nothing but the whitespace they name (`Props/C10.lean`:
`removed_left_is_named`, `removed_right_is_named`, `text_is_partitioned`). -/
namespace MJ.Lexer

/-- a text is its removed prefix, what is printed, and its removed suffix -/
theorem cut_partition (l r : Nat) (t : List Char) (h : l + r ≤ t.length) :
    t = t.take l ++ (cut l r t ++ t.drop (t.length - r)) := by
  unfold cut
  have h1 : t.length - l - r = (t.drop l).length - r := by simp
  have h2 : (t.drop l).drop ((t.drop l).length - r) = t.drop (t.length - r) := by
    rw [List.drop_drop]; congr 1; simp; omega
  rw [h1, ← h2, List.take_append_drop, List.take_append_drop]

/-- when the two cuts meet nothing is printed -/
theorem cut_nil_of_overlap (l r : Nat) (t : List Char) (h : t.length ≤ l + r) : cut l r t = [] := by
  unfold cut
  have : t.length - l - r = 0 := by omega
  rw [this]; simp

theorem nlLen_take_isNl (t : List Char) : ∀ c ∈ t.take (nlLen t), isNl c = true := by
  intro c hc
  cases t with
  | nil => simp at hc
  | cons a r =>
    by_cases ha : a = '\r'
    · subst ha
      cases r with
      | nil =>
        simp [nlLen] at hc
        subst hc; decide
      | cons b r2 =>
        by_cases hb : b = '\n'
        · subst hb
          simp [nlLen] at hc
          rcases hc with rfl | rfl <;> decide
        · simp [nlLen, hb] at hc
          subst hc; decide
    · by_cases hn : a = '\n'
      · subst hn
        simp [nlLen] at hc
        subst hc; decide
      · simp [nlLen, ha, hn] at hc

theorem isWs_of_isNl {c : Char} (h : isNl c = true) : isWs c = true := by
  simp only [isNl, Bool.or_eq_true, decide_eq_true_eq] at h
  rcases h with rfl | rfl <;> decide

theorem isWs_of_isHws {c : Char} (h : isHws c = true) : isWs c = true := by
  simp only [isHws, Bool.and_eq_true] at h; exact h.1

/-- the last `sufCount p t` characters of `t` satisfy `p` -/
theorem sufCount_drop_sat (p : Char → Bool) (t : List Char) :
    ∀ c ∈ t.drop (t.length - sufCount p t), p c = true := by
  obtain ⟨b, u, h⟩ := sufSplit_exists p t
  rw [h.sufCount]
  have : t.drop (t.length - u.length) = u := by
    rw [h.eq]; simp
  rw [this]
  exact h.sat

/-- **What is removed at the start of a text is what the rules name**: all leading whitespace
    behind a `-`, one line break behind an unmarked block / comment / raw tag under `trim_blocks`,
    nothing behind `+` or a variable tag. -/
theorem leftCut_named (cfg : Cfg) (blockish : Bool) (m : Mark) (t : List Char) :
    (m = .minus → t.take (leftCut cfg blockish m t) = t.takeWhile isWs) ∧
    (m = .none → blockish = true → cfg.trim = true → t.take (leftCut cfg blockish m t) = t.take (nlLen t)) ∧
    (m = .plus ∨ (m = .none ∧ (blockish = false ∨ cfg.trim = false)) → leftCut cfg blockish m t = 0) ∧
    (∀ c ∈ t.take (leftCut cfg blockish m t), isWs c = true) := by
  refine ⟨?_, ?_, ?_, ?_⟩
  · rintro rfl; simp [leftCut, takeWhile_eq_take]
  · rintro rfl hb ht; simp [leftCut, hb, ht]
  · rintro (rfl | ⟨rfl, hb | ht⟩) <;> simp [leftCut, *]
  · intro c hc
    cases m with
    | minus =>
      simp only [leftCut, ← takeWhile_eq_take] at hc
      exact mem_takeWhile_sat hc
    | plus => simp [leftCut] at hc
    | none =>
      simp only [leftCut] at hc
      split at hc
      · exact isWs_of_isNl (nlLen_take_isNl t c hc)
      · simp at hc

/-- **What is removed at the end of a text is what the rules name**: all trailing whitespace in
    front of a `-`, the horizontal whitespace back to the start of the line in front of an
    unmarked block / comment / raw tag under `lstrip_blocks`, nothing in front of `+`. -/
theorem rightCut_named (cfg : Cfg) (first blockish : Bool) (m : Mark) (t : List Char) :
    (m = .minus → ∀ c ∈ t.drop (t.length - rightCut cfg first blockish m t), isWs c = true) ∧
    (m = .none → ∀ c ∈ t.drop (t.length - rightCut cfg first blockish m t), isHws c = true) ∧
    (m = .plus ∨ (m = .none ∧ (blockish = false ∨ cfg.lstrip = false ∨ atLineStart first t = false)) →
      rightCut cfg first blockish m t = 0) := by
  refine ⟨?_, ?_, ?_⟩
  · rintro rfl; simp only [rightCut]; exact sufCount_drop_sat isWs t
  · rintro rfl
    simp only [rightCut]
    split
    · exact sufCount_drop_sat isHws t
    · simp
  · rintro (rfl | ⟨rfl, hb | hl | ha⟩) <;> simp [rightCut, *]

end MJ.Lexer
