import MJ.Model.SerdeDispatch
/-!
# The dispatch of deserialize.rs on its source value is a function of the value's kind (C16)

`tableMatchesSpec` / `kindsMatch` are decided on the tables regenerated from the source
(`MJ.Gen.serdeDeDispatch`, `MJ.Gen.valueKindOfRepr`); the quantified statements follow.
-/
namespace MJ.SerdeDispatch

theorem table_matches_spec : tableMatchesSpec = true := by decide +kernel

theorem kinds_match : kindsMatch = true := by decide +kernel

theorem repr_mem_all (r : Repr) : r ∈ Repr.all := by cases r <;> decide

theorem src_mem_all (s : Src) : s ∈ Src.all := by
  cases s with
  | absent => exact List.mem_cons_self
  | val r => exact List.mem_cons_of_mem _ (List.mem_map.mpr ⟨r, repr_mem_all r, rfl⟩)

/-- every function of the owned deserializer that looks at its source resolves, on every
representation, to what `spec` says for the representation's kind -/
theorem value_fn_resolves (fn : String) (h : fn ∈ valueFns) (r : Repr) :
    resolve (armsOf fn) (.val r) = spec fn (some r.skind) := by
  have t := table_matches_spec
  simp only [tableMatchesSpec, Bool.and_eq_true, List.all_eq_true] at t
  have := t.1.2 fn h r (repr_mem_all r)
  exact eq_of_beq this

/-- so does every variant access, on every payload including the absent one -/
theorem variant_fn_resolves (fn : String) (h : fn ∈ variantFns) (s : Src) :
    resolve (armsOf fn) s = spec fn s.skind := by
  have t := table_matches_spec
  simp only [tableMatchesSpec, Bool.and_eq_true, List.all_eq_true] at t
  have := t.2 fn h s (src_mem_all s)
  exact eq_of_beq this

/-- two representations of one kind are dispatched alike by every function of deserialize.rs that
matches on the source value -/
theorem dispatch_by_kind (fn : String) (h : fn ∈ valueFns ++ variantFns) (r1 r2 : Repr)
    (hk : r1.skind = r2.skind) : resolve (armsOf fn) (.val r1) = resolve (armsOf fn) (.val r2) := by
  rcases List.mem_append.mp h with h | h
  · rw [value_fn_resolves fn h, value_fn_resolves fn h, hk]
  · rw [variant_fn_resolves fn h, variant_fn_resolves fn h]
    simp only [Src.skind, hk]

/-- `Value::kind()` knows every representation -/
theorem kind_total (r : Repr) : (kindName r).isSome = true := by
  have t := kinds_match
  simp only [kindsMatch, Bool.and_eq_true, List.all_eq_true] at t
  exact t.1.1.1 r (repr_mem_all r)

end MJ.SerdeDispatch
