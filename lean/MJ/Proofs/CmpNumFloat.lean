import MJ.Proofs.CmpNum
import MJ.Proofs.CmpF64Cast
/-!
# Mixed integer / float comparisons are exact (`cmp_f64_i128`, `cmp_f64_u128`, `coerce` + `as_f64`)
-/
namespace MJ.CmpNum
open MJ MJ.Val MJ.Cmp MJ.F64

theorem key_natAbs (b : Nat) : (key b).natAbs = scaled b := by
  unfold key; split <;> simp

theorem mag_eq_of_key_eq {a b : Nat} (h : key a = key b) : mag a = mag b := by
  have : scaled a = scaled b := by rw [← key_natAbs, ← key_natAbs, h]
  exact scaledOfMag_inj this

theorem nan_fin_of_key_eq {a b : Nat} (h : key a = key b) :
    isNaN a = isNaN b ∧ isFinite a = isFinite b := by
  unfold isNaN isFinite; rw [mag_eq_of_key_eq h]; exact ⟨rfl, rfl⟩

theorem key_zero : key 0 = 0 := by decide

theorem nan_zero : isNaN 0 = false := by decide

theorem compare_lt_of {a b : Int} (h : a < b) : compare a b = .lt := Int.compare_eq_lt.mpr h
theorem compare_gt_of {a b : Int} (h : b < a) : compare a b = .gt := Int.compare_eq_gt.mpr h

/-- `cmp_f64_i128` compares exactly -/
theorem cmpF64I128_eq (l : Nat) (r : Int) (hr : i128Min ≤ r ∧ r ≤ i128Max) :
    cmpF64I128 l r = compare (key l) (r * (scale : Int)) := by
  have hlog : r.natAbs.log2 < 1000 := by
    apply log2_small; simp only [i128Min, i128Max] at hr; omega
  obtain ⟨n1, f1, k1⟩ := ofInt_spec r hlog
  obtain ⟨_, _, kmax⟩ := ofInt_spec i128Max (by decide)
  obtain ⟨_, _, kmin⟩ := ofInt_spec i128Min (by decide)
  have rmax : rndI i128Max = i128Max + 1 := by decide
  have rmin : rndI i128Min = i128Min := by decide
  unfold cmpF64I128
  rw [cmpF64_eq, k1]
  cases hc : compare (key l) (rndI r * (scale : Int))
  · -- lt
    simp only
    have h1 := Int.compare_eq_lt.mp hc
    symm; apply compare_lt_of
    apply Int.not_le.mp; intro h2
    have := rndI_above r l h2; omega
  · -- eq
    have he := Int.compare_eq_eq.mp hc
    obtain ⟨e1, e2⟩ := nan_fin_of_key_eq (he.trans k1.symm)
    show (if isFinite l = true then
        if fge l (ofInt i128Max) = true then Ordering.gt
        else (compare (castInt i128Min i128Max l) r).then (cmpWithTrunc l)
      else Ordering.eq) = compare (key l) (r * (scale : Int))
    rw [e2, f1, if_pos rfl]
    have hge : fge l (ofInt i128Max) = decide (i128Max + 1 ≤ rndI r) := by
      unfold fge
      rw [e1, n1]
      have : isNaN (ofInt i128Max) = false := (ofInt_spec i128Max (by decide)).1
      rw [this, kmax, rmax, he]
      simp only [Bool.not_false, Bool.true_and]
      exact decide_eq_decide.mpr mul_scale_le
    rw [hge]
    by_cases hbig : i128Max + 1 ≤ rndI r
    · simp only [hbig, decide_true, if_true]
      symm; apply compare_gt_of
      rw [he, mul_scale_lt]; omega
    · simp only [hbig, decide_false, Bool.false_eq_true, if_false]
      have hlow : i128Min ≤ rndI r := by
        have := rndI_below r (ofInt i128Min) (by rw [kmin, rmin, mul_scale_le]; exact hr.1)
        rw [kmin, rmin, mul_scale_le] at this; exact this
      rw [castInt_of_int_valued i128Min i128Max l (rndI r) (by rw [e1]; exact n1) (by rw [e2]; exact f1) he]
      rw [if_neg (by omega), if_neg (by omega)]
      unfold cmpWithTrunc
      rw [truncInt_of_int_valued l (rndI r) he, he]
      have : compare (rndI r * (scale : Int)) (rndI r * (scale : Int)) = .eq := Int.compare_eq_eq.mpr rfl
      rw [this, compare_mul_scale]
      cases compare (rndI r) r <;> rfl
  · -- gt
    simp only
    have h1 := Int.compare_eq_gt.mp hc
    symm; apply compare_gt_of
    apply Int.not_le.mp; intro h2
    have := rndI_below r l h2; omega

/-- `cmp_f64_u128` compares exactly -/
theorem cmpF64U128_eq (l : Nat) (r : Nat) (hr : (r : Int) ≤ u128Max) :
    cmpF64U128 l r = compare (key l) ((r : Int) * (scale : Int)) := by
  have hlog : (r : Int).natAbs.log2 < 1000 := by
    apply log2_small; simp only [u128Max] at hr; omega
  obtain ⟨n1, f1, k1⟩ := ofInt_spec r hlog
  obtain ⟨_, _, kmax⟩ := ofInt_spec u128Max (by decide)
  have rmax : rndI u128Max = u128Max + 1 := by decide
  have rnn : 0 ≤ rndI r := by unfold rndI; rw [if_neg (by omega)]; omega
  unfold cmpF64U128
  rw [cmpF64_eq, k1]
  cases hc : compare (key l) (rndI r * (scale : Int))
  · simp only
    have h1 := Int.compare_eq_lt.mp hc
    symm; apply compare_lt_of
    apply Int.not_le.mp; intro h2
    have := rndI_above r l h2; omega
  · have he := Int.compare_eq_eq.mp hc
    obtain ⟨e1, e2⟩ := nan_fin_of_key_eq (he.trans k1.symm)
    show (if isFinite l = true then
        if flt l 0 = true then Ordering.lt
        else if fge l (ofInt u128Max) = true then Ordering.gt
        else compare (castInt 0 u128Max l) (r : Int)
      else Ordering.eq) = compare (key l) ((r : Int) * (scale : Int))
    rw [e2, f1, if_pos rfl]
    have hlt0 : flt l 0 = false := by
      unfold flt
      rw [e1, n1, nan_zero, key_zero, he]
      simp only [Bool.not_false, Bool.true_and, decide_eq_false_iff_not, Int.not_lt]
      exact Int.mul_nonneg rnn (Int.le_of_lt int_scale_pos)
    have hge : fge l (ofInt u128Max) = decide (u128Max + 1 ≤ rndI r) := by
      unfold fge
      rw [e1, n1]
      have : isNaN (ofInt u128Max) = false := (ofInt_spec u128Max (by decide)).1
      rw [this, kmax, rmax, he]
      simp only [Bool.not_false, Bool.true_and]
      exact decide_eq_decide.mpr mul_scale_le
    rw [hlt0, hge]
    simp only [Bool.false_eq_true, if_false]
    by_cases hbig : u128Max + 1 ≤ rndI r
    · simp only [hbig, decide_true, if_true]
      symm; apply compare_gt_of
      rw [he, mul_scale_lt]; omega
    · simp only [hbig, decide_false, Bool.false_eq_true, if_false]
      rw [castInt_of_int_valued 0 u128Max l (rndI r) (by rw [e1]; exact n1) (by rw [e2]; exact f1) he]
      rw [if_neg (by omega), if_neg (by omega), he, compare_mul_scale]
  · simp only
    have h1 := Int.compare_eq_gt.mp hc
    symm; apply compare_gt_of
    apply Int.not_le.mp; intro h2
    have := rndI_below r l h2; omega

/-- the four integer types: range, and what `x as f64` needs -/
structure IntTy (lo hi : Int) : Prop where
  hiLog : hi.natAbs.log2 < 1000
  loR : rndI lo = lo
  hiR : hi < rndI hi
  lo128 : (-170141183460469231731687303715884105728 : Int) ≤ lo
  hi128 : hi ≤ 340282366920938463463374607431768211455

theorem ty_u64 : IntTy 0 u64Max := ⟨by decide, by decide, by decide, by decide, by decide⟩
theorem ty_i64 : IntTy i64Min i64Max := ⟨by decide, by decide, by decide, by decide, by decide⟩
theorem ty_u128 : IntTy 0 u128Max := ⟨by decide, by decide, by decide, by decide, by decide⟩
theorem ty_i128 : IntTy i128Min i128Max := ⟨by decide, by decide, by decide, by decide, by decide⟩

theorem IntTy.xlog {lo hi : Int} (t : IntTy lo hi) {x : Int} (h : lo ≤ x ∧ x ≤ hi) : x.natAbs.log2 < 1000 := by
  apply log2_small
  have := t.lo128; have := t.hi128
  omega

/-- a float against an integer through `coerce` (`as_f64(int, lossy = false)`), or through the
    fallback when the integer is not exactly representable -/
theorem cmp_float_int (a : Nat) (x lo hi : Int) (t : IntTy lo hi) (hx : lo ≤ x ∧ x ≤ hi)
    (fallback : Ordering) (hfb : fallback = compare (F64.key a) (x * (scale : Int))) :
    (match (match checkedF64 x lo hi false with
            | some y => some (Co.f a y)
            | Option.none => Option.none) with
      | some (.f p q) => cmpF64 p q
      | some (.i p q) => compare p q
      | Option.none => fallback) = compare (F64.key a) (x * (scale : Int)) := by
  cases hc : checkedF64 x lo hi false with
  | none => exact hfb
  | some y =>
    obtain ⟨_, hk⟩ := checked_exact x lo hi (t.xlog hx) t.hiLog t.loR y hc
    show cmpF64 a y = _
    rw [cmpF64_eq, hk]

theorem cmp_int_float (b : Nat) (x lo hi : Int) (t : IntTy lo hi) (hx : lo ≤ x ∧ x ≤ hi)
    (fallback : Ordering) (hfb : fallback = compare (x * (scale : Int)) (F64.key b)) :
    (match (match checkedF64 x lo hi false with
            | some y => some (Co.f y b)
            | Option.none => Option.none) with
      | some (.f p q) => cmpF64 p q
      | some (.i p q) => compare p q
      | Option.none => fallback) = compare (x * (scale : Int)) (F64.key b) := by
  cases hc : checkedF64 x lo hi false with
  | none => exact hfb
  | some y =>
    obtain ⟨_, hk⟩ := checked_exact x lo hi (t.xlog hx) t.hiLog t.loR y hc
    show cmpF64 y b = _
    rw [cmpF64_eq, hk]

theorem swap_compare (a b : Int) : (compare a b).swap = compare b a := Int.compare_swap a b

/-- numbers of all five representations are ordered by their exact values -/
theorem numSpec_wf : CmpKey.NumSpec N.WF := by
  intro x y hx hy
  by_cases fx : x.isFloat = false
  · by_cases fy : y.isFloat = false
    · exact numSpec_int x y fx fy
    · -- integer against float
      cases y <;> simp only [N.isFloat, reduceCtorEq, not_true_eq_false, not_false_eq_true] at fy
      rename_i b
      cases x <;> simp only [N.isFloat, reduceCtorEq] at fx <;>
        simp only [N.WF] at hx <;>
        simp only [cmpN, coerceN, N.asF64, CmpKey.numKey, N.int, cmpUncoercible, number]
      · rename_i n
        exact cmp_int_float b n 0 u64Max ty_u64 ⟨by omega, hx⟩ _
          (by rw [cmpF64U128_eq b n (by simp only [u64Max, u128Max] at *; omega), swap_compare])
      · rename_i n
        exact cmp_int_float b n i64Min i64Max ty_i64 hx _
          (by rw [cmpF64I128_eq b n (by simp only [i64Min, i64Max, i128Min, i128Max] at *; omega), swap_compare])
      · rename_i n
        exact cmp_int_float b n 0 u128Max ty_u128 ⟨by omega, hx⟩ _
          (by rw [cmpF64U128_eq b n hx, swap_compare])
      · rename_i n
        exact cmp_int_float b n i128Min i128Max ty_i128 hx _
          (by rw [cmpF64I128_eq b n hx, swap_compare])
  · cases x <;> simp only [N.isFloat, reduceCtorEq, not_true_eq_false, not_false_eq_true] at fx
    rename_i a
    cases y <;> simp only [N.WF] at hy <;>
      simp only [cmpN, coerceN, N.asF64, CmpKey.numKey, N.int, cmpUncoercible, number]
    · rename_i n
      exact cmp_float_int a n 0 u64Max ty_u64 ⟨by omega, hy⟩ _
        (by rw [cmpF64U128_eq a n (by simp only [u64Max, u128Max] at *; omega)])
    · rename_i n
      exact cmp_float_int a n i64Min i64Max ty_i64 hy _
        (by rw [cmpF64I128_eq a n (by simp only [i64Min, i64Max, i128Min, i128Max] at *; omega)])
    · rename_i n
      exact cmp_float_int a n 0 u128Max ty_u128 ⟨by omega, hy⟩ _
        (by rw [cmpF64U128_eq a n hy])
    · rename_i n
      exact cmp_float_int a n i128Min i128Max ty_i128 hy _
        (by rw [cmpF64I128_eq a n hy])
    · rename_i b
      exact cmpF64_eq a b

end MJ.CmpNum
