import MJ.Model.Reloader
/-!
# The inductive invariant of the reloader protocol (`Inv`)

`Inv σ` holds in every reachable state (`inv_of_reachable`); the property theorems of C20 are read
off it in `MJ/Props/C20.lean`.
-/
namespace MJ.Reloader

/-- the served environment (if any) was built or cleared after clock `s` -/
def EnvFresh (σ : State) (s : Nat) : Prop := ∀ e, σ.env = some e → s < e.freshAt

/-- a flag set at clock `s` is still pending (flag up), or is being served by the rebuild in
    progress, or has been served by the environment in the cache -/
def Served (σ : State) (s : Nat) : Prop :=
  σ.flag = true ∨
  match σ.cur with
  | none => EnvFresh σ s
  | some c =>
    match c.pc with
    | .locked | .checked false | .holding | .created | .cleared => EnvFresh σ s
    | .checked true | .reset | .toCreate | .toClear | .failed => True
    | .creating _ | .innerSet _ _ => s < c.buildStart
    | .remarked => False

def TimeOk (σ : State) : Prop :=
  match σ.cur with
  | none => True
  | some c =>
    c.lockedAt < σ.now ∧
    match c.pc with
    | .locked => True
    | .creating _ | .innerSet _ _ =>
      c.lockedAt < c.checkedAt ∧ c.checkedAt < c.buildStart ∧ c.buildStart < σ.now
    | _ => c.lockedAt < c.checkedAt ∧ c.checkedAt < σ.now

/-- what the holder is about to hand out serves every set that preceded its check -/
def HandOk (σ : State) : Prop :=
  match σ.cur with
  | none => True
  | some c =>
    match c.pc with
    | .checked false | .holding | .created | .cleared =>
      ∀ s ∈ σ.sets, s < c.checkedAt → EnvFresh σ s
    | _ => True

def BuiltOk (σ : State) : Prop :=
  match σ.cur with
  | none => True
  | some c =>
    match c.pc with
    | .created =>
      c.built = true ∧ ∃ e, σ.env = some e ∧ e.builtAt = c.buildStart ∧ e.freshAt = c.buildStart
        ∧ c.checkedAt < c.buildStart
    | .holding =>
      c.built = true → ∃ e, σ.env = some e ∧ e.builtAt = c.buildStart ∧ e.freshAt = c.buildStart
        ∧ c.checkedAt < c.buildStart
    | _ => c.built = false

/-- the unwraps of `acquire_env` / `EnvironmentGuard::deref` find an environment -/
def EnvSome (σ : State) : Prop :=
  match σ.cur with
  | none => True
  | some c =>
    match c.pc with
    | .checked false | .created | .cleared | .toClear | .holding => σ.env ≠ none
    | _ => True

def InnerOk (σ : State) : Prop :=
  match σ.cur with
  | some c => match c.pc with
    | .innerSet s _ => s ∈ σ.sets
    | _ => True
  | none => True

def AcqRecOk (σ : State) (a : AcqRec) : Prop :=
  a.lockedAt < a.checkedAt ∧ a.checkedAt < σ.now ∧
  (∀ s ∈ σ.sets, s < a.checkedAt → s < a.env.freshAt) ∧
  (∀ b, a.built = some b → a.env.builtAt = b ∧ a.env.freshAt = b ∧ a.checkedAt < b)

def HoldLink (σ : State) : Prop :=
  match σ.cur with
  | some c => match c.pc with
    | .holding => ∃ a ∈ σ.acqLog, a.tid = c.tid ∧ a.lockedAt = c.lockedAt ∧ a.checkedAt = c.checkedAt
                    ∧ σ.env = some a.env
    | _ => True
  | none => True

/-- 1 while a reload decided by the check has not yet reached the creator call / the clear -/
def pendingRebuild (σ : State) : Nat :=
  match σ.cur with
  | some c => match c.pc with
    | .checked true | .reset | .toCreate | .toClear => 1
    | _ => 0
  | none => 0

/-- 1 while a creator call decided on an empty cache has not yet ended -/
def pendingFirst (σ : State) : Nat :=
  match σ.cur with
  | some c => match c.pc with
    | .checked true | .reset | .toCreate | .creating _ | .innerSet _ _ => 1
    | _ => 0
  | none => 0

/-- 1 while the flag is up and that has not been observed by the current check -/
def flagUnseen (σ : State) : Nat :=
  if σ.flag then
    match σ.cur with
    | some c => match c.pc with
      | .checked true => if c.sawFlag then 0 else 1
      | _ => 1
    | none => 1
  else 0

def failPending (σ : State) : Nat :=
  match σ.cur with
  | some c => match c.pc with
    | .failed => 1
    | _ => 0
  | none => 0

structure Inv (σ : State) : Prop where
  setsLt : ∀ s ∈ σ.sets, s < σ.now
  served : σ.poisoned = false → ∀ s ∈ σ.sets, Served σ s
  time : TimeOk σ
  hand : HandOk σ
  built : BuiltOk σ
  envSome : EnvSome σ
  inner : InnerOk σ
  thr : ∀ s, Thread.reqSet s ∈ σ.threads → s ∈ σ.sets
  reqLog : ∀ r ∈ σ.reqLog, r.setAt ∈ σ.sets ∧ r.setAt < r.retAt ∧ r.retAt < σ.now
  acqLog : ∀ a ∈ σ.acqLog, AcqRecOk σ a
  hold : HoldLink σ
  cntRebuild : σ.creates + σ.clears + pendingRebuild σ = σ.noneObs + σ.flagObs + σ.cbObs
  cntNone : (σ.env = none → σ.noneObs = σ.failed + σ.panicked + pendingFirst σ) ∧
            (σ.env ≠ none → σ.noneObs ≤ σ.failed + σ.panicked + 1)
  cntFlag : σ.flagObs + flagUnseen σ + failPending σ ≤ σ.risings + σ.failed
  risLe : σ.risings ≤ σ.sets.length
  norec : σ.recoverPoison = false
  pois : ∀ p, σ.panicAt = some p →
    σ.poisoned = true ∧ σ.cur = none ∧ p < σ.now ∧ ∀ a ∈ σ.acqLog, a.checkedAt < p
  pois2 : σ.poisoned = true → σ.panicAt ≠ none

theorem inv_init (ths : List Thread) (h : ∀ t ∈ ths, t.initial = true) : Inv (init ths) := by
  constructor <;> simp [init, Served, EnvFresh, TimeOk, HandOk, BuiltOk, EnvSome, InnerOk, HoldLink,
    pendingRebuild, pendingFirst, flagUnseen, failPending]
  intro s hs
  have := h _ hs
  simp [Thread.initial] at this

/-! ## frame lemmas: which fields each conjunct depends on -/

theorem mem_set_reqSet {l : List Thread} {i : Nat} {t : Thread} {s : Nat}
    (h : Thread.reqSet s ∈ l.set i t) : Thread.reqSet s ∈ l ∨ Thread.reqSet s = t :=
  List.mem_or_eq_of_mem_set h

theorem TimeOk_frame {σ σ' : State} (h : TimeOk σ) (hc : σ'.cur = σ.cur) (hn : σ.now ≤ σ'.now) :
    TimeOk σ' := by
  unfold TimeOk at *
  rw [hc]
  split <;> simp_all
  split <;> simp_all <;> omega

theorem HandOk_frame {σ σ' : State} (h : HandOk σ) (ht : TimeOk σ) (hc : σ'.cur = σ.cur)
    (he : σ'.env = σ.env) (hs : ∀ s ∈ σ'.sets, s ∈ σ.sets ∨ s = σ.now) : HandOk σ' := by
  unfold HandOk TimeOk EnvFresh at *
  rw [hc, he]
  split <;> simp_all
  split <;> simp_all <;> intro s hs' <;> rcases hs s hs' with h' | h' <;> grind

theorem BuiltOk_frame {σ σ' : State} (h : BuiltOk σ) (hc : σ'.cur = σ.cur) (he : σ'.env = σ.env) :
    BuiltOk σ' := by
  unfold BuiltOk at *; rw [hc, he]; exact h

theorem EnvSome_frame {σ σ' : State} (h : EnvSome σ) (hc : σ'.cur = σ.cur) (he : σ'.env = σ.env) :
    EnvSome σ' := by
  unfold EnvSome at *; rw [hc, he]; exact h

theorem InnerOk_frame {σ σ' : State} (h : InnerOk σ) (hc : σ'.cur = σ.cur)
    (hs : ∀ s ∈ σ.sets, s ∈ σ'.sets) : InnerOk σ' := by
  unfold InnerOk at *; rw [hc]
  split <;> simp_all
  split <;> simp_all

theorem HoldLink_frame {σ σ' : State} (h : HoldLink σ) (hc : σ'.cur = σ.cur) (he : σ'.env = σ.env)
    (hl : ∀ a ∈ σ.acqLog, a ∈ σ'.acqLog) : HoldLink σ' := by
  unfold HoldLink at *; rw [hc, he]
  split <;> simp_all
  split <;> simp_all
  obtain ⟨a, ha, h'⟩ := h
  exact ⟨a, hl a ha, h'⟩

theorem AcqRecOk_frame {σ σ' : State} {a : AcqRec} (h : AcqRecOk σ a) (hn : σ.now ≤ σ'.now)
    (hs : ∀ s ∈ σ'.sets, s ∈ σ.sets ∨ s = σ.now) : AcqRecOk σ' a := by
  unfold AcqRecOk at *
  refine ⟨h.1, by omega, ?_, h.2.2.2⟩
  intro s hs' hlt
  rcases hs s hs' with h' | h'
  · exact h.2.2.1 s h' hlt
  · omega

theorem Served_frame {σ σ' : State} {s : Nat} (h : Served σ s) (hc : σ'.cur = σ.cur)
    (he : σ'.env = σ.env) (hf : σ.flag = true → σ'.flag = true) : Served σ' s := by
  unfold Served EnvFresh at *
  rw [hc, he]
  rcases h with h | h
  · exact Or.inl (hf h)
  · exact Or.inr h

theorem flagUnseen_le_one (σ : State) : flagUnseen σ ≤ 1 := by
  unfold flagUnseen; repeat' split
  all_goals omega

theorem flagUnseen_frame {σ σ' : State} (hc : σ'.cur = σ.cur) (hf : σ'.flag = σ.flag) :
    flagUnseen σ' = flagUnseen σ := by
  unfold flagUnseen; rw [hc, hf]

theorem cntFlag_set {σ σ' : State}
    (h : σ.flagObs + flagUnseen σ + failPending σ ≤ σ.risings + σ.failed) (hc : σ'.cur = σ.cur)
    (hobs : σ'.flagObs = σ.flagObs) (hfail : σ'.failed = σ.failed) (hflag : σ'.flag = true)
    (hris : σ'.risings = if σ.flag then σ.risings else σ.risings + 1) :
    σ'.flagObs + flagUnseen σ' + failPending σ' ≤ σ'.risings + σ'.failed := by
  have h1 := flagUnseen_le_one σ'
  have h2 : failPending σ' = failPending σ := by unfold failPending; rw [hc]
  cases hf : σ.flag with
  | false => rw [hf] at hris; simp at hris; omega
  | true =>
    rw [hf] at hris; simp at hris
    have : flagUnseen σ' = flagUnseen σ := flagUnseen_frame hc (by rw [hflag, hf])
    omega

theorem inv_reqIdle {σ : State} {i : Nat} (h : Inv σ) :
    Inv { σ with now := σ.now + 1, flag := true, sets := σ.now :: σ.sets,
                 risings := if σ.flag then σ.risings else σ.risings + 1,
                 threads := σ.threads.set i (.reqSet σ.now) } := by
  constructor
  · intro s hs; simp at hs; rcases hs with rfl | hs
    · simp
    · have := h.setsLt s hs; simp; omega
  · intro _ s _; left; rfl
  · exact TimeOk_frame h.time rfl (by simp)
  · exact HandOk_frame h.hand h.time rfl rfl (by intro s hs; simp at hs; grind)
  · exact BuiltOk_frame h.built rfl rfl
  · exact EnvSome_frame h.envSome rfl rfl
  · exact InnerOk_frame h.inner rfl (by intro s hs; simp; grind)
  · intro s hs; rcases mem_set_reqSet hs with h' | h'
    · simp; right; exact h.thr s h'
    · cases h'; simp
  · intro r hr; have := h.reqLog r hr; simp; refine ⟨Or.inr this.1, this.2.1, by omega⟩
  · intro a ha; exact AcqRecOk_frame (h.acqLog a ha) (by simp) (by intro s hs; simp at hs; grind)
  · exact HoldLink_frame h.hold rfl rfl (fun a ha => ha)
  · exact h.cntRebuild
  · exact h.cntNone
  · exact cntFlag_set h.cntFlag rfl rfl rfl rfl rfl
  · have := h.risLe; simp only [List.length_cons]; split <;> omega
  · exact h.norec
  · intro p hp
    obtain ⟨a1, a2, a3, a4⟩ := h.pois p hp
    exact ⟨a1, a2, by simp; omega, a4⟩
  · exact h.pois2

theorem inv_tick {σ σ' : State} (h : Inv σ) (hnow : σ'.now = σ.now + 1) (hflag : σ'.flag = σ.flag)
    (henv : σ'.env = σ.env) (hcur : σ'.cur = σ.cur) (hsets : σ'.sets = σ.sets)
    (hacq : σ'.acqLog = σ.acqLog) (h1 : σ'.creates = σ.creates) (h2 : σ'.clears = σ.clears)
    (h3 : σ'.failed = σ.failed) (h4 : σ'.noneObs = σ.noneObs) (h5 : σ'.flagObs = σ.flagObs)
    (h6 : σ'.cbObs = σ.cbObs) (h7 : σ'.panicked = σ.panicked) (h8 : σ'.poisoned = σ.poisoned)
    (h9 : σ'.recoverPoison = σ.recoverPoison) (h10 : σ'.panicAt = σ.panicAt)
    (h11 : σ'.risings = σ.risings)
    (hthr : ∀ s, Thread.reqSet s ∈ σ'.threads → s ∈ σ'.sets)
    (hreq : ∀ r ∈ σ'.reqLog, r.setAt ∈ σ'.sets ∧ r.setAt < r.retAt ∧ r.retAt < σ'.now) : Inv σ' := by
  constructor
  · intro s hs; rw [hsets] at hs; have := h.setsLt s hs; omega
  · intro hp s hs; rw [hsets] at hs; rw [h8] at hp
    exact Served_frame (h.served hp s hs) hcur henv (by rw [hflag]; exact id)
  · exact TimeOk_frame h.time hcur (by omega)
  · exact HandOk_frame h.hand h.time hcur henv (by rw [hsets]; intro s hs; exact Or.inl hs)
  · exact BuiltOk_frame h.built hcur henv
  · exact EnvSome_frame h.envSome hcur henv
  · exact InnerOk_frame h.inner hcur (by rw [hsets]; exact fun s hs => hs)
  · exact hthr
  · exact hreq
  · intro a ha; rw [hacq] at ha
    exact AcqRecOk_frame (h.acqLog a ha) (by omega) (by rw [hsets]; intro s hs; exact Or.inl hs)
  · exact HoldLink_frame h.hold hcur henv (by rw [hacq]; exact fun a ha => ha)
  · have := h.cntRebuild; unfold pendingRebuild at *; rw [hcur, h1, h2, h4, h5, h6]; exact this
  · have := h.cntNone; unfold pendingFirst at *; rw [hcur, henv, h3, h4, h7]; exact this
  · have := h.cntFlag; rw [flagUnseen_frame hcur hflag]; unfold failPending at *
    rw [hcur, h5, h11, h3]; exact this
  · rw [h11, hsets]; exact h.risLe
  · rw [h9]; exact h.norec
  · intro p hp; rw [h10] at hp
    obtain ⟨a1, a2, a3, a4⟩ := h.pois p hp
    refine ⟨by rw [h8]; exact a1, by rw [hcur]; exact a2, by omega, by rw [hacq]; exact a4⟩
  · rw [h8, h10]; exact h.pois2

theorem inv_reqRet {σ : State} {i s : Nat} (h : Inv σ) (hm : Thread.reqSet s ∈ σ.threads) :
    Inv { σ with now := σ.now + 1, reqLog := ⟨s, σ.now, i⟩ :: σ.reqLog, onCalls := σ.onCalls + 1,
                 threads := σ.threads.set i .reqDone } := by
  refine inv_tick h rfl rfl rfl rfl rfl rfl rfl rfl rfl rfl rfl rfl rfl rfl rfl rfl rfl ?_ ?_
  · intro s' hs'; rcases mem_set_reqSet hs' with h' | h'
    · exact h.thr s' h'
    · cases h'
  · intro r hr; simp at hr; rcases hr with rfl | hr
    · have := h.thr s hm; have := h.setsLt s this; simp; refine ⟨by assumption, by omega⟩
    · have := h.reqLog r hr; simp; refine ⟨this.1, this.2.1, by omega⟩

theorem inv_fast {σ : State} {i : Nat} {b : Bool} (h : Inv σ) :
    Inv { σ with now := σ.now + 1, fast := b, threads := σ.threads.set i .fastDone } := by
  refine inv_tick h rfl rfl rfl rfl rfl rfl rfl rfl rfl rfl rfl rfl rfl rfl rfl rfl rfl ?_ ?_
  · intro s' hs'; rcases mem_set_reqSet hs' with h' | h'
    · exact h.thr s' h'
    · cases h'
  · intro r hr; have := h.reqLog r hr; simp; refine ⟨this.1, this.2.1, by omega⟩

theorem inv_cb {σ : State} {i : Nat} {b : Bool} (h : Inv σ) :
    Inv { σ with now := σ.now + 1, cbConst := some b, threads := σ.threads.set i .cbDone } := by
  refine inv_tick h rfl rfl rfl rfl rfl rfl rfl rfl rfl rfl rfl rfl rfl rfl rfl rfl rfl ?_ ?_
  · intro s' hs'; rcases mem_set_reqSet hs' with h' | h'
    · exact h.thr s' h'
    · cases h'
  · intro r hr; have := h.reqLog r hr; simp; refine ⟨this.1, this.2.1, by omega⟩

set_option maxHeartbeats 1000000 in
theorem inv_watch {σ : State} {i : Nat} (h : Inv σ) :
    Inv { σ with now := σ.now + 1, watching := true, registered := true, lastDrop := none,
                 threads := σ.threads.set i .watchDone } := by
  refine inv_tick h rfl rfl rfl rfl rfl rfl rfl rfl rfl rfl rfl rfl rfl rfl rfl rfl rfl ?_ ?_
  · intro s' hs'; rcases mem_set_reqSet hs' with h' | h'
    · exact h.thr s' h'
    · cases h'
  · intro r hr; have := h.reqLog r hr; simp; refine ⟨this.1, this.2.1, by omega⟩

theorem inv_persist {σ : State} {i : Nat} {b : Bool} (h : Inv σ) :
    Inv { σ with now := σ.now + 1, persistent := b, threads := σ.threads.set i .persistDone } := by
  refine inv_tick h rfl rfl rfl rfl rfl rfl rfl rfl rfl rfl rfl rfl rfl rfl rfl rfl rfl ?_ ?_
  · intro s' hs'; rcases mem_set_reqSet hs' with h' | h'
    · exact h.thr s' h'
    · cases h'
  · intro r hr; have := h.reqLog r hr; simp; refine ⟨this.1, this.2.1, by omega⟩

theorem inv_lockPanic {σ : State} {i : Nat} (h : Inv σ) :
    Inv { σ with now := σ.now + 1, lockPanics := σ.lockPanics + 1, panicTids := i :: σ.panicTids,
                 threads := σ.threads.set i .acqDone } := by
  refine inv_tick h rfl rfl rfl rfl rfl rfl rfl rfl rfl rfl rfl rfl rfl rfl rfl rfl rfl ?_ ?_
  · intro s' hs'; rcases mem_set_reqSet hs' with h' | h'
    · exact h.thr s' h'
    · cases h'
  · intro r hr; have := h.reqLog r hr; simp; refine ⟨this.1, this.2.1, by omega⟩

set_option maxHeartbeats 1000000 in
theorem inv_lock {σ : State} {i : Nat} {cfg : AcqCfg} (h : Inv σ) (hc : σ.cur = none)
    (hp : σ.poisoned = false) :
    Inv { σ with now := σ.now + 1,
                 cur := some { tid := i, cfg := cfg, pc := .locked, lockedAt := σ.now },
                 threads := σ.threads.set i .acqActive } := by
  obtain ⟨h1, h2, h3, h4, h5, h6, h7, h8, h9, h10, h11, h12, h13, h14, h14b, h15, h16, h17⟩ := h
  constructor <;>
    simp_all [Served, EnvFresh, TimeOk, HandOk, BuiltOk, EnvSome, InnerOk, HoldLink, AcqRecOk,
      pendingRebuild, pendingFirst, flagUnseen, failPending] <;>
    (try (intro s hs; have := mem_set_reqSet hs)) <;> grind


/-! ## the steps of the mutex holder: one lemma per program counter (the lemmas are independent and
    are elaborated in parallel; the case analysis of `stepActive` is done once, in `inv_stepActive`) -/

theorem cur_not_poisoned {σ : State} {c : Active} (h : Inv σ) (hc : σ.cur = some c) :
    σ.poisoned = false ∧ σ.panicAt = none := by
  have hpan : σ.panicAt = none := by
    cases hpa : σ.panicAt with
    | none => rfl
    | some p => have := (h.pois p hpa).2.1; rw [hc] at this; cases this
  refine ⟨?_, hpan⟩
  cases hq : σ.poisoned with
  | false => rfl
  | true => exact absurd hpan (h.pois2 hq)

set_option hygiene false in
/-- closes `Inv σ'` for the branches of `stepActive` that remain in `hs` once the program counter is known -/
macro "inv_pc_tac" : tactic => `(tactic| (
  have hpz := (cur_not_poisoned h hc).1
  have hpan := (cur_not_poisoned h hc).2
  obtain ⟨h1, h2, h3, h4, h5, h6, h7, h8, h9, h10, h11, h12, h13, h14, h14b, h15, h16, h17⟩ := h
  unfold stepActive at hs
  simp only [hpc] at hs
  repeat' split at hs
  all_goals first
    | (cases hs; done)
    | (cases hs
       constructor <;>
        simp_all [Served, EnvFresh, TimeOk, HandOk, BuiltOk, EnvSome, InnerOk, HoldLink, AcqRecOk,
          pendingRebuild, pendingFirst, flagUnseen, failPending] <;> grind)))

section
variable {σ σ' : State} {c : Active}

/-- case analysis over the program counter, shared by all invariants -/
theorem stepActive_cases (P : Prop)
    (hlocked : c.pc = .locked → P) (hT : c.pc = .checked true → P) (hF : c.pc = .checked false → P)
    (hreset : c.pc = .reset → P) (htoCreate : c.pc = .toCreate → P) (htoClear : c.pc = .toClear → P)
    (hnil : c.pc = .creating [] → P) (hreq : ∀ rest, c.pc = .creating (.req :: rest) → P)
    (hfast : ∀ b rest, c.pc = .creating (.setFast b :: rest) → P)
    (hwatch : ∀ rest, c.pc = .creating (.watch :: rest) → P)
    (hpers : ∀ b rest, c.pc = .creating (.persist b :: rest) → P)
    (hinner : ∀ s rest, c.pc = .innerSet s rest → P) (hcreated : c.pc = .created → P)
    (hcleared : c.pc = .cleared → P) (hfailed : c.pc = .failed → P) (hremarked : c.pc = .remarked → P)
    (hholding : c.pc = .holding → P) : P := by
  cases hpc : c.pc with
  | locked => exact hlocked hpc
  | checked b => cases b with
    | true => exact hT hpc
    | false => exact hF hpc
  | reset => exact hreset hpc
  | toCreate => exact htoCreate hpc
  | toClear => exact htoClear hpc
  | creating ops =>
    match ops, hpc with
    | [], hpc => exact hnil hpc
    | .req :: rest, hpc => exact hreq rest hpc
    | .setFast b :: rest, hpc => exact hfast b rest hpc
    | .watch :: rest, hpc => exact hwatch rest hpc
    | .persist b :: rest, hpc => exact hpers b rest hpc
  | innerSet s rest => exact hinner s rest hpc
  | created => exact hcreated hpc
  | cleared => exact hcleared hpc
  | failed => exact hfailed hpc
  | remarked => exact hremarked hpc
  | holding => exact hholding hpc

end

end MJ.Reloader
