import MJ.Model.SerdeMethods
/-! The regenerated method lists and arms of the serde impls equal what the model transcribes (C16). -/
namespace MJ.SerdeMethods
open MJ.Serde MJ.Gen

abbrev disp (m : String) : Dispatch :=
  dispatchOf valueDeserializerExplicit valueDeserializerForwarded serdeDeserializerTrait m

theorem all_serde_methods_modelled :
    (serdeSerializerTrait.map (·.1) = serModel.map (·.1)) ∧
    (valueSerializerMethods = serModel.map (·.1)) ∧
    (valueCompoundSerializers = compoundModel) ∧
    (serdeDeserializerTrait.map (fun p => (p.1, disp p.1)) = deModel) ∧
    (refValueDeserializerExplicit = valueDeserializerExplicit ∧ refValueDeserializerDelegates = true) ∧
    (valueSerdeImplOtherFns = []) := by
  refine ⟨by decide, by decide, by decide, by decide, ⟨by decide, rfl⟩, by decide⟩

theorem disp_table :
    disp "deserialize_bool" = .forwardAny ∧ disp "deserialize_u8" = .forwardAny ∧ disp "deserialize_u16" = .forwardAny ∧
    disp "deserialize_u32" = .forwardAny ∧ disp "deserialize_u64" = .forwardAny ∧ disp "deserialize_i8" = .forwardAny ∧
    disp "deserialize_i16" = .forwardAny ∧ disp "deserialize_i32" = .forwardAny ∧ disp "deserialize_i64" = .forwardAny ∧
    disp "deserialize_f32" = .forwardAny ∧ disp "deserialize_f64" = .forwardAny ∧ disp "deserialize_char" = .forwardAny ∧
    disp "deserialize_string" = .forwardAny ∧ disp "deserialize_byte_buf" = .forwardAny ∧ disp "deserialize_unit" = .forwardAny ∧
    disp "deserialize_option" = .explicit ∧ disp "deserialize_seq" = .forwardAny ∧ disp "deserialize_map" = .forwardAny ∧
    disp "deserialize_tuple" = .forwardAny ∧ disp "deserialize_unit_struct" = .explicit ∧
    disp "deserialize_newtype_struct" = .explicit ∧ disp "deserialize_tuple_struct" = .forwardAny ∧
    disp "deserialize_struct" = .forwardAny ∧ disp "deserialize_enum" = .explicit ∧ disp "deserialize_any" = .explicit := by
  decide

/-- the method a type of shape `s` calls is answered by an arm of its own exactly for options, unit
structs, newtype structs, enums (and `Value` itself); every other hint is ignored, so that `de` may
decide by the value alone -/
theorem shape_dispatch (s : Shape) :
    disp (methodOfShape s) = (if ownArm s then .explicit else .forwardAny) := by
  obtain ⟨h1, h2, h3, h4, h5, h6, h7, h8, h9, h10, h11, h12, h13, h14, h15, h16, h17, h18, h19, h20, h21, h22, h23, h24, h25⟩ :=
    disp_table
  cases s with
  | int u lo hi =>
    cases u <;> simp only [methodOfShape, ownArm] <;> (repeat' split) <;> simp [*]
  | _ => simp [methodOfShape, ownArm, *]

theorem serde_arms_as_modelled :
    valueSerializerPrimArms = primArmsModel ∧ valueDeserializeAnyArms = anyArmsModel ∧
    valueDeserializeOptionAsModelled = true ∧
    valueDeserializeUnitStruct = "self.deserialize_unit(visitor)" ∧
    valueDeserializeNewtypeStruct = "visitor.visit_newtype_struct(self)" ∧
    valueSerializeExternalArms = externalArmsModel := by
  refine ⟨by decide, by decide, rfl, by decide, by decide, by decide⟩

end MJ.SerdeMethods
