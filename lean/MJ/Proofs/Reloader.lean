import MJ.Proofs.ReloaderPc1
import MJ.Proofs.ReloaderPc2
import MJ.Proofs.ReloaderPc3
import MJ.Proofs.ReloaderPc4
import MJ.Proofs.ReloaderPc5
import MJ.Proofs.ReloaderGen
import MJ.Proofs.ReloaderWatch
import MJ.Proofs.ReloaderOrd
/-!
# The invariants of the reloader protocol, assembled

`Inv` (MJ/Proofs/ReloaderInv.lean; holder steps in ReloaderPc1-5), `GenInv` (ReloaderGen), `WatchInv`
(ReloaderWatch) and `OrdInv` (ReloaderOrd) hold in every reachable state.
-/
namespace MJ.Reloader

section
variable {σ σ' : State} {c : Active}

theorem inv_stepActive (h : Inv σ) (hc : σ.cur = some c)
    (hs : stepActive σ c = some σ') : Inv σ' :=
  stepActive_cases (c := c) (Inv σ')
    (fun p => inv_pc_locked h hc p hs) (fun p => inv_pc_checkedT h hc p hs)
    (fun p => inv_pc_checkedF h hc p hs) (fun p => inv_pc_reset h hc p hs)
    (fun p => inv_pc_toCreate h hc p hs) (fun p => inv_pc_toClear h hc p hs)
    (fun p => inv_pc_creatingNil h hc p hs) (fun _ p => inv_pc_creatingReq h hc p hs)
    (fun _ _ p => inv_pc_creatingFast h hc p hs) (fun _ p => inv_pc_creatingWatch h hc p hs)
    (fun _ _ p => inv_pc_creatingPersist h hc p hs) (fun _ _ p => inv_pc_innerSet h hc p hs)
    (fun p => inv_pc_created h hc p hs) (fun p => inv_pc_cleared h hc p hs)
    (fun p => inv_pc_failed h hc p hs) (fun p => inv_pc_remarked h hc p hs)
    (fun p => inv_pc_holding h hc p hs)
end

theorem inv_step {σ σ' : State} {i : Nat} (h : Inv σ) (hs : step σ i = some σ') : Inv σ' := by
  unfold step at hs
  split at hs
  · split at hs
    · rename_i hc
      split at hs
      · cases hs; exact inv_lockPanic h
      · rename_i hp
        have hn := h.norec
        have hp' : σ.poisoned = false := by simpa [hn] using hp
        cases hs
        exact inv_lock h hc hp'
    · cases hs
  · split at hs
    · split at hs
      · rename_i c hc htid
        exact inv_stepActive h hc hs
      · cases hs
    · cases hs
  · cases hs; exact inv_reqIdle h
  · rename_i s hth
    cases hs; exact inv_reqRet h (List.mem_of_getElem? hth)
  · cases hs; exact inv_fast h
  · cases hs; exact inv_cb h
  · cases hs; exact inv_watch h
  · cases hs; exact inv_persist h
  · cases hs

theorem inv_of_reachable {σ : State} (h : Reachable σ) : Inv σ := by
  induction h with
  | init ths h => exact inv_init ths h
  | step i _ hs ih => exact inv_step ih hs


end MJ.Reloader
