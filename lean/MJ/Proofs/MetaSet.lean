import MJ.Model.MetaSet
import MJ.Proofs.MetaSim
/-! Macros called anywhere, the frames of `Context::load`, file sets (C18): the handler
`reenterM` is accounted for, every unit of a file is sound in any frames. -/
namespace MJ.Meta

/-! ### `Context::load` asks the context iff no frame resolves the name -/

theorem mem_names (f : RFrame) (x : String) :
    x ∈ f.names ↔ x ∈ f.locals ∨ (f.loopVar = true ∧ x = "loop") ∨ x ∈ f.closure.getD [] := by
  unfold RFrame.names
  cases hl : f.loopVar <;> simp

/-- frames without a context on top of the frame that carries it: the render context is
asked exactly once iff no frame has the name as a local, as its `loop` variable or in its
closure — whether or not the context (or a global) then has the key -/
theorem load_asks (has : String → Bool) (fs : List RFrame) (hfs : ∀ f ∈ fs, f.ctx = false)
    (x : String) :
    (load has (fs ++ [RFrame.root]) x).1 = if fs.any (fun f => f.names.contains x) then 0 else 1 := by
  induction fs with
  | nil =>
    simp only [List.nil_append, load, RFrame.root, List.any_nil]
    cases has x <;> simp
  | cons f fs ih =>
    have hf : f.ctx = false := hfs f (by simp)
    have ih' := ih (fun g hg => hfs g (List.mem_cons_of_mem _ hg))
    have hn := mem_names f x
    simp only [List.cons_append, load, List.any_cons, hf,
      Bool.and_eq_true, beq_iff_eq, Bool.or_eq_true, decide_eq_true_eq, List.elem_eq_mem] at ih' ⊢
    by_cases h1 : x ∈ f.locals
    · have hin : x ∈ f.names := hn.2 (Or.inl h1)
      simp [h1, hin]
    · by_cases h2 : f.loopVar = true ∧ x = "loop"
      · have hin : x ∈ f.names := hn.2 (Or.inr (Or.inl h2))
        rw [if_neg h1, if_pos h2]
        simp [hin]
      · by_cases h3 : x ∈ f.closure.getD []
        · have hin : x ∈ f.names := hn.2 (Or.inr (Or.inr h3))
          rw [if_neg h1, if_neg h2, if_pos h3]
          simp [hin]
        · have hnot : ¬ x ∈ f.names := by
            rw [hn]; rintro (h | h | h)
            · exact h1 h
            · exact h2 h
            · exact h3 h
          rw [if_neg h1, if_neg h2, if_neg h3]
          simp only [hnot, false_or, Bool.false_eq_true, if_false]
          simpa using ih'

/-- … in the vocabulary of `Meta.bound` -/
theorem asks_iff_unbound (has : String → Bool) (top : RFrame) (below : List RFrame)
    (h : ∀ f ∈ top :: below, f.ctx = false) (x : String) :
    (load has ((top :: below) ++ [RFrame.root]) x).1 =
      if bound top.names (below.map RFrame.names) x then 0 else 1 := by
  rw [load_asks has (top :: below) h x]
  simp [bound, List.any_cons, List.any_map]

/-! ### macro calls -/

/-- a macro call asks the context only for what the blocks it renders ask for -/
theorem callMacro_ok {K : Reenter} (hK : KOK K) {P Q : String → Prop} {bt : BT}
    (hbt : Ctx bt P Q) (m : MacroDecl) (kid : List Ch) (x : String)
    (hx : x ∈ callMacro K bt m kid) : Q x :=
  macro_body_reads hK m.args m.defaults m.body (sim_walkList m.body) hbt kid x hx

theorem serveM_ok (mt : List MacroDecl) {K : Reenter} (hK : KOK K) (P Q : String → Prop)
    (rc : RC) (G : List Ghost) (bt : BT) (top : Frame) (below : List Frame) (r : Ch)
    (hbt : Ctx bt P Q) (hrc : RcOK rc G top below P) :
    ∀ x ∈ serveM mt K rc bt top below r, P x ∧ (bound top below x = false ∨ Q x) := by
  intro x hx
  unfold serveM at hx
  split at hx
  · exact serve_ok hK P Q rc G bt top below r hbt hrc x hx
  · split at hx
    · have := callMacro_ok hK hbt _ _ x hx
      exact ⟨hbt.qp x this, Or.inr this⟩
    · cases hx

/-- requests — loop re-entries, `self.block()`, macro calls — are accounted for, however
deeply they nest -/
theorem kok_reenterM (mt : List MacroDecl) : ∀ d, KOK (reenterM mt d)
  | 0 => fun _ _ _ _ _ _ _ _ _ _ x hx => by simp [reenterM] at hx
  | d + 1 => fun P Q rc G bt top below reqs hbt hrc x hx => by
      simp only [reenterM, List.mem_flatMap] at hx
      obtain ⟨r, _, hx⟩ := hx
      exact serveM_ok mt (kok_reenterM mt d) P Q rc G bt top below r hbt hrc x hx

/-- templates whose macros and call blocks run where they are called -/
theorem template_sound_calls (t : List Stmt) (st0 : St) (h0 : st0.assigned = [[]])
    (cs : List Ch) (d : Nat) (x : String) (hx : x ∈ readsM t cs d) :
    (walkList st0 t).reported x :=
  template_sound_in (reenterM (macroDeclsL t) d) (kok_reenterM _ d) t st0 h0 [] [] cs x hx

/-! ### units of a file, entered with any frames -/

/-- a block body of the template entered with any frames -/
theorem block_sound_in (K : Reenter) (hK : KOK K) (t : List Stmt) (st0 : St)
    (b : List Stmt) (hb : b ∈ blockBodiesL t) (top : Frame) (below : List Frame)
    (cs : List Ch) (x : String)
    (hx : x ∈ (execList K [] (blockBodiesL t) top below cs b).reads) :
    (walkList st0 t).reported x := by
  have hinit : Inv top below St.init := by
    intro y hy; simp [St.init, St.isAssigned] at hy
  have hsim := sim_walkList b K hK (BlockFree t) (BlockFree t) [] [] (blockBodiesL t) St.init top
    below cs (ctx_blockFree t) (by simp [RcOK]) hinit
  have hflat : (walkList St.init b).nested = none := (step_walkList b _).nn rfl
  rcases hsim.reads x hx with h | ⟨body, hb', h⟩
  · rw [reported_none hflat] at h
    exact blocksL_reported t st0 b hb x h
  · exact blocksL_reported t st0 body hb' x h

/-- a macro call in a template: only what the template's blocks ask for -/
theorem macro_sound_in (K : Reenter) (hK : KOK K) (t : List Stmt) (st0 : St)
    (m : MacroDecl) (kid : List Ch) (x : String)
    (hx : x ∈ callMacro K (blockBodiesL t) m kid) : (walkList st0 t).reported x := by
  obtain ⟨body, hb, h⟩ := callMacro_ok hK (ctx_blockFree t) m kid x hx
  exact blocksL_reported t st0 body hb x h

/-- every activation of every unit of a file -/
theorem activation_sound (files : List (List Stmt)) (a : Activation) (t : List Stmt)
    (ht : files[a.file]? = some t) (st0 : St) (h0 : st0.assigned = [[]]) (x : String)
    (hx : x ∈ a.reads files) : (walkList st0 t).reported x := by
  unfold Activation.reads at hx
  rw [ht] at hx
  cases hu : a.unit with
  | top =>
    rw [hu] at hx
    exact template_sound_in _ (kok_reenterM _ a.d) t st0 h0 a.top a.below a.cs x hx
  | block k =>
    rw [hu] at hx
    simp only at hx
    split at hx
    · rename_i b hb
      exact block_sound_in _ (kok_reenterM _ a.d) t st0 b (List.mem_of_getElem? hb) _ _ a.cs x hx
    · cases hx
  | macro_ k =>
    rw [hu] at hx
    simp only at hx
    split at hx
    · exact macro_sound_in _ (kok_reenterM _ a.d) t st0 _ a.cs x hx
    · cases hx

end MJ.Meta
