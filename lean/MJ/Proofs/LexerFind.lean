import MJ.Proofs.LexerScan
/-! The start marker search on delimiter-free text: `findLL` stops exactly at the next tag, with
the tag's own delimiter; `find_start_marker_memchr` is `findLL` for the default delimiters. -/
namespace MJ.Lexer

theorem candidates_good {d : Delims} (g : Good d) (pre s : List Char) :
    candidates d pre s =
      (if startsWith d.vs s then [(Marker.var, d.vs.length)] else []) ++
      (if startsWith d.bs s then [(Marker.block, d.bs.length)] else []) ++
      (if startsWith d.cs s then [(Marker.comment, d.cs.length)] else []) := by
  simp [candidates, g.ls, g.lc]

theorem anyStart_good {d : Delims} (g : Good d) (s : List Char) :
    anyStart d s = (startsWith d.vs s || startsWith d.bs s || startsWith d.cs s) := by
  simp [anyStart, g.ls, g.lc]

theorem matchAt_none {d : Delims} (g : Good d) (pre s : List Char) (h : anyStart d s = false) :
    matchAt d pre s = none := by
  rw [anyStart_good g] at h
  simp only [Bool.or_eq_false_iff] at h
  simp [matchAt, candidates_good g, h.1.1, h.1.2, h.2, longest]

theorem longest_one (x : Marker × Nat) : longest [x] = some x := by simp [longest]

theorem longest_two (x y : Marker × Nat) : longest [x, y] = if y.2 > x.2 then some y else some x := by
  simp [longest]

theorem longest_three (x y z : Marker × Nat) :
    longest [x, y, z] =
      if (if z.2 > y.2 then z else y).2 > x.2 then some (if z.2 > y.2 then z else y) else some x := by
  have h : longest [y, z] = some (if z.2 > y.2 then z else y) := by
    rw [longest_two]; split <;> rfl
  show (match longest [y, z] with | none => some x | some w => if w.2 > x.2 then some w else some x) = _
  rw [h]

/-- the tag's own start delimiter and its marker -/
inductive Own (d : Delims) : List Char → Marker → Prop where
  | var : Own d d.vs .var
  | block : Own d d.bs .block
  | comment : Own d d.cs .comment

theorem matchAt_own {d : Delims} (g : Good d) (pre s own : List Char) (marker : Marker)
    (ho : Own d own marker) (hsw : startsWith own s = true) (hl : ownLongest d own s = true) :
    matchAt d pre s = some (marker, own.length) := by
  simp only [ownLongest, g.ls, g.lc, List.isEmpty_nil, Bool.true_or, Bool.and_true, Bool.and_eq_true,
    Bool.or_eq_true, Bool.not_eq_true', decide_eq_true_eq] at hl
  obtain ⟨⟨hv, hb⟩, hc⟩ := hl
  have lt_of {p : List Char} (hp : startsWith p s = true) (hne : p ≠ own) (hle : p.length ≤ own.length) :
      p.length < own.length := by
    rcases Nat.lt_or_ge p.length own.length with h | h
    · exact h
    · exact absurd (startsWith_eq_of_length_eq hp hsw (by omega)) hne
  unfold matchAt
  rw [candidates_good g]
  cases ho with
  | var =>
    rw [hsw]
    cases h1 : startsWith d.bs s <;> cases h2 : startsWith d.cs s
    · simp [longest_one]
    · have := lt_of h2 (Ne.symm g.vc) (hc.resolve_left (by simp [h2]))
      simp [longest_two]; omega
    · have := lt_of h1 (Ne.symm g.vb) (hb.resolve_left (by simp [h1]))
      simp [longest_two]; omega
    · have a1 := lt_of h1 (Ne.symm g.vb) (hb.resolve_left (by simp [h1]))
      have a2 := lt_of h2 (Ne.symm g.vc) (hc.resolve_left (by simp [h2]))
      simp only [if_true, List.cons_append, List.nil_append, longest_three]
      (repeat' split) <;> first | rfl | (simp_all <;> omega)
  | block =>
    rw [hsw]
    cases h1 : startsWith d.vs s <;> cases h2 : startsWith d.cs s
    · simp [longest_one]
    · have := lt_of h2 (Ne.symm g.bc) (hc.resolve_left (by simp [h2]))
      simp [longest_two]; omega
    · have := lt_of h1 g.vb (hv.resolve_left (by simp [h1]))
      simp [longest_two]; omega
    · have a1 := lt_of h1 g.vb (hv.resolve_left (by simp [h1]))
      have a2 := lt_of h2 (Ne.symm g.bc) (hc.resolve_left (by simp [h2]))
      simp only [if_true, List.cons_append, List.nil_append, longest_three]
      (repeat' split) <;> first | rfl | (simp_all <;> omega)
  | comment =>
    rw [hsw]
    cases h1 : startsWith d.vs s <;> cases h2 : startsWith d.bs s
    · simp [longest_one]
    · have := lt_of h2 g.bc (hb.resolve_left (by simp [h2]))
      simp [longest_two]; omega
    · have := lt_of h1 g.vc (hv.resolve_left (by simp [h1]))
      simp [longest_two]; omega
    · have a1 := lt_of h1 g.vc (hv.resolve_left (by simp [h1]))
      have a2 := lt_of h2 g.bc (hb.resolve_left (by simp [h2]))
      simp only [if_true, List.cons_append, List.nil_append, longest_three]
      (repeat' split) <;> first | rfl | (simp_all <;> omega)

theorem own_cons {d : Delims} (g : Good d) {own : List Char} {marker : Marker} (ho : Own d own marker) :
    ∃ c r, own = c :: r ∧ isWs c = false := by
  cases ho
  · exact startOk_cons g.vs
  · exact startOk_cons g.bs
  · exact startOk_cons g.cs

theorem shift_some (i : Nat) (m : Marker) (n : Nat) : shift (some (i, m, n)) = some (i + 1, m, n) := rfl

/-- on delimiter-free text followed by a tag the search stops at the tag, with the tag's own
    delimiter -/
theorem findLL_text_tag {d : Delims} (g : Good d) (own : List Char) (marker : Marker) (ho : Own d own marker)
    (t f : List Char) (pre : List Char) (hfree : noStartIn d t f = true)
    (hsw : startsWith own f = true) (hl : ownLongest d own f = true) :
    findLL d pre (t ++ f) = some (t.length, marker, own.length) := by
  induction t generalizing pre with
  | nil =>
    have hm := matchAt_own g pre f own marker ho hsw hl
    cases f with
    | nil =>
      obtain ⟨c, r, h, _⟩ := own_cons g ho
      rw [h] at hsw
      simp [startsWith] at hsw
    | cons c r => simp [findLL, hm]
  | cons a t ih =>
    simp only [noStartIn, Bool.and_eq_true, Bool.not_eq_true'] at hfree
    have hm := matchAt_none g pre (a :: (t ++ f)) hfree.1
    simp only [List.cons_append, findLL, hm, ih (a :: pre) hfree.2, shift_some, List.length_cons]

theorem findLL_none {d : Delims} (g : Good d) (t pre : List Char) (hfree : noStartIn d t [] = true) :
    findLL d pre t = none := by
  induction t generalizing pre with
  | nil => rfl
  | cons a t ih =>
    simp only [noStartIn, Bool.and_eq_true, Bool.not_eq_true', List.append_nil] at hfree
    simp [findLL, matchAt_none g pre (a :: t) hfree.1, ih (a :: pre) hfree.2, shift]

/-- a suffix of delimiter-free text is delimiter-free -/
theorem noStartIn_drop {d : Delims} (t f : List Char) (k : Nat) (h : noStartIn d t f = true) :
    noStartIn d (t.drop k) f = true := by
  induction k generalizing t with
  | zero => simpa using h
  | succ k ih =>
    cases t with
    | nil => simpa using h
    | cons a t =>
      simp only [noStartIn, Bool.and_eq_true] at h
      simpa using ih t h.2

/-! ### the memchr path -/

theorem matchAt_default (pre : List Char) (c : Char) (r : List Char) :
    matchAt defaultDelims pre (c :: r) =
      if c = '{' then
        match r with
        | [] => none
        | c2 :: _ =>
          if c2 = '{' then some (.var, 2) else if c2 = '%' then some (.block, 2)
          else if c2 = '#' then some (.comment, 2) else none
      else none := by
  by_cases hc : c = '{'
  · subst hc
    cases r with
    | nil => simp [matchAt, candidates, defaultDelims, startsWith, longest]
    | cons c2 r =>
      by_cases h1 : c2 = '{'
      · subst h1; simp [matchAt, candidates, defaultDelims, startsWith, longest]
      · by_cases h2 : c2 = '%'
        · subst h2; simp [matchAt, candidates, defaultDelims, startsWith, longest]
        · by_cases h3 : c2 = '#'
          · subst h3; simp [matchAt, candidates, defaultDelims, startsWith, longest]
          · have e1 : ¬ '{' = c2 := fun h => h1 h.symm
            have e2 : ¬ '%' = c2 := fun h => h2 h.symm
            have e3 : ¬ '#' = c2 := fun h => h3 h.symm
            simp [matchAt, candidates, defaultDelims, startsWith, longest, h1, h2, h3, e1, e2, e3]
  · have e : ¬ '{' = c := fun h => hc h.symm
    simp [matchAt, candidates, defaultDelims, startsWith, longest, hc, e]

/-- `find_start_marker_memchr` is the leftmost-longest search for the default delimiters -/
theorem findStartDefault_eq_findLL (pre s : List Char) :
    findStartDefault s = findLL defaultDelims pre s := by
  induction s generalizing pre with
  | nil => rfl
  | cons c r ih =>
    rw [findLL, matchAt_default, findStartDefault.eq_def]
    by_cases hc : c = '{'
    · simp only [hc, if_true]
      cases r with
      | nil => simp [findLL, shift]
      | cons c2 r2 =>
        simp only []
        by_cases h1 : c2 = '{'
        · simp [h1]
        · by_cases h2 : c2 = '%'
          · simp [h2]
          · by_cases h3 : c2 = '#'
            · simp [h3]
            · simp only [h1, h2, h3, if_false]
              rw [ih ('{' :: pre)]
    · simp only [hc, if_false]
      rw [ih (c :: pre)]

theorem findStart_default : findStart defaultDelims = findLL defaultDelims := by
  funext pre s
  simp [findStart, findStartDefault_eq_findLL pre s]

end MJ.Lexer
