import MJ.Proofs.LexerScan
/-! The start marker search on delimiter-free text: `findLL` stops exactly at the next tag, with
the tag's own delimiter; `find_start_marker_memchr` is `findLL` for the default delimiters. -/
namespace MJ.Lexer

/-! ### `longest` -/

theorem longest_none_iff (l : List (Marker × Nat)) : longest l = none ↔ l = [] := by
  cases l with
  | nil => simp [longest]
  | cons x xs =>
    simp only [longest]
    cases longest xs with
    | none => simp
    | some y => simp only []; split <;> simp

theorem longest_mem {l : List (Marker × Nat)} {x : Marker × Nat} (h : longest l = some x) :
    x ∈ l ∧ ∀ y ∈ l, y.2 ≤ x.2 := by
  induction l generalizing x with
  | nil => simp [longest] at h
  | cons a l ih =>
    simp only [longest] at h
    cases hl : longest l with
    | none =>
      rw [hl] at h
      have : l = [] := (longest_none_iff l).1 hl
      subst this
      cases h
      simp
    | some y =>
      rw [hl] at h
      obtain ⟨hy, hmax⟩ := ih hl
      simp only [] at h
      split at h
      · cases h
        refine ⟨by simp [hy], ?_⟩
        intro z hz
        rcases List.mem_cons.1 hz with rfl | hz
        · omega
        · exact hmax z hz
      · cases h
        refine ⟨by simp, ?_⟩
        intro z hz
        rcases List.mem_cons.1 hz with rfl | hz
        · exact Nat.le_refl _
        · have := hmax z hz; omega

/-! ### the spec-side pattern list -/

/-- a start delimiter counts at this position -/
def patOk (pre s : List Char) (mp : Marker × List Char) : Bool :=
  startsWith mp.2 s && (mp.1 != .lineStmt || lineStartP pre)

theorem mem_candidates {d : Delims} {pre s : List Char} {m : Marker} {n : Nat} :
    (m, n) ∈ candidates d pre s ↔ ∃ p, (m, p) ∈ startPats d ∧ patOk pre s (m, p) = true ∧ n = p.length := by
  unfold candidates startPats patOk
  constructor
  · intro h
    simp only [List.mem_append] at h
    rcases h with (((h | h) | h) | h) | h
    · split at h <;> simp at h; exact ⟨d.vs, by simp [h.1], by simp_all, h.2⟩
    · split at h <;> simp at h; exact ⟨d.bs, by simp [h.1], by simp_all, h.2⟩
    · split at h <;> simp at h; exact ⟨d.cs, by simp [h.1], by simp_all, h.2⟩
    · split at h <;> simp at h
      rename_i hc
      simp only [Bool.and_eq_true, Bool.not_eq_true', List.isEmpty_eq_false_iff] at hc
      refine ⟨d.ls, ?_, by simp [h.1, hc.1.2, hc.2], h.2⟩
      have : d.ls.isEmpty = false := by simpa using hc.1.1
      simp [h.1, this]
    · split at h <;> simp at h
      rename_i hc
      simp only [Bool.and_eq_true, Bool.not_eq_true', List.isEmpty_eq_false_iff] at hc
      refine ⟨d.lc, ?_, by simp [h.1, hc.2], h.2⟩
      have : d.lc.isEmpty = false := by simpa using hc.1
      simp [h.1, this]
  · rintro ⟨p, hp, hok, rfl⟩
    simp only [List.mem_append, List.mem_cons, Prod.mk.injEq, List.not_mem_nil, or_false] at hp
    simp only [Bool.and_eq_true, Bool.or_eq_true, bne_iff_ne, ne_eq] at hok
    simp only [List.mem_append]
    rcases hp with ((⟨rfl, rfl⟩ | ⟨rfl, rfl⟩ | ⟨rfl, rfl⟩) | hp) | hp
    · left; left; left; left; simp [hok.1]
    · left; left; left; right; simp [hok.1]
    · left; left; right; simp [hok.1]
    · left; right
      split at hp <;> simp at hp
      rename_i he
      obtain ⟨rfl, rfl⟩ := hp
      have hl : lineStartP pre = true := by simpa using hok.2
      simp [he, hok.1, hl]
    · right
      split at hp <;> simp at hp
      rename_i he
      obtain ⟨rfl, rfl⟩ := hp
      simp [he, hok.1]


/-! ### `matchAt` on delimiter-free text and at a tag -/

theorem matchAt_none {d : Delims} (pre s : List Char) (h : anyStart d s = false) :
    matchAt d pre s = none := by
  unfold matchAt
  rw [longest_none_iff]
  apply List.eq_nil_iff_forall_not_mem.2
  rintro ⟨m, n⟩ hmem
  obtain ⟨p, hp, hok, _⟩ := mem_candidates.1 hmem
  simp only [anyStart, List.any_eq_false] at h
  have := h (m, p) hp
  simp only [patOk, Bool.and_eq_true] at hok
  simp [hok.1] at this

theorem longest_unique {l : List (Marker × Nat)} {x : Marker × Nat} (hx : x ∈ l)
    (hmax : ∀ y ∈ l, y = x ∨ y.2 < x.2) : longest l = some x := by
  induction l with
  | nil => simp at hx
  | cons a l ih =>
    simp only [longest]
    cases hl : longest l with
    | none =>
      have : l = [] := (longest_none_iff l).1 hl
      subst this
      simp only [List.mem_singleton] at hx
      simp [hx]
    | some y =>
      obtain ⟨hy, _⟩ := longest_mem hl
      simp only []
      rcases List.mem_cons.1 hx with rfl | hx'
      · rcases hmax y (by simp [hy]) with rfl | hlt
        · simp
        · rw [if_neg (by omega)]
      · have := ih hx' (fun z hz => hmax z (by simp [hz]))
        rw [hl] at this
        cases this
        rcases hmax a (by simp) with rfl | hlt
        · simp
        · rw [if_pos (by omega)]

theorem snd_inj_of_nodup {l : List (Marker × List Char)} (h : (l.map (·.2)).Nodup) {m m' : Marker} {p : List Char}
    (h1 : (m, p) ∈ l) (h2 : (m', p) ∈ l) : m = m' := by
  induction l with
  | nil => simp at h1
  | cons a l ih =>
    simp only [List.map_cons, List.nodup_cons, List.mem_map, not_exists, not_and] at h
    rcases List.mem_cons.1 h1 with rfl | h1'
    · rcases List.mem_cons.1 h2 with h2' | h2'
      · cases h2'; rfl
      · exact absurd rfl (h.1 (m', p) h2')
    · rcases List.mem_cons.1 h2 with rfl | h2'
      · exact absurd rfl (h.1 (m, p) h1')
      · exact ih h.2 h1' h2'

/-- at a tag start the tag's own delimiter wins -/
theorem matchAt_own {d : Delims} (g : Good d) (pre s own : List Char) (marker : Marker)
    (ho : (marker, own) ∈ startPats d) (hok : patOk pre s (marker, own) = true)
    (hl : ownLongest d own s = true) :
    matchAt d pre s = some (marker, own.length) := by
  unfold matchAt
  apply longest_unique (mem_candidates.2 ⟨own, ho, hok, rfl⟩)
  rintro ⟨m', n'⟩ hmem
  obtain ⟨p', hp', hok', rfl⟩ := mem_candidates.1 hmem
  simp only [ownLongest, List.all_eq_true] at hl
  have := hl (m', p') hp'
  simp only [patOk, Bool.and_eq_true] at hok'
  simp only [hok'.1, Bool.not_true, Bool.false_or, Bool.or_eq_true, beq_iff_eq, decide_eq_true_eq] at this
  rcases this with rfl | hlt
  · left
    rw [snd_inj_of_nodup g.nodup hp' ho]
  · right; exact hlt

theorem own_cons {d : Delims} (g : Good d) {own : List Char} {marker : Marker} (ho : (marker, own) ∈ startPats d) :
    ∃ c r, own = c :: r ∧ isWs c = false :=
  startOk_cons (g.starts (marker, own) ho)

theorem shift_some (i : Nat) (m : Marker) (n : Nat) : shift (some (i, m, n)) = some (i + 1, m, n) := rfl

/-- on delimiter-free text followed by a tag the search stops at the tag, with the tag's own
    delimiter -/
theorem findLL_text_tag {d : Delims} (g : Good d) (own : List Char) (marker : Marker)
    (ho : (marker, own) ∈ startPats d) (t f : List Char) (pre : List Char) (hfree : noStartIn d t f = true)
    (hsw : startsWith own f = true) (hl : ownLongest d own f = true)
    (hline : marker ≠ .lineStmt ∨ lineStartP (t.reverse ++ pre) = true) :
    findLL d pre (t ++ f) = some (t.length, marker, own.length) := by
  induction t generalizing pre with
  | nil =>
    have hok : patOk pre f (marker, own) = true := by
      simp only [patOk, hsw, Bool.true_and, Bool.or_eq_true, bne_iff_ne, ne_eq]
      simpa using hline
    have hm := matchAt_own g pre f own marker ho hok hl
    cases f with
    | nil =>
      obtain ⟨c, r, h, _⟩ := own_cons g ho
      rw [h] at hsw
      simp [startsWith] at hsw
    | cons c r => simp [findLL, hm]
  | cons a t ih =>
    simp only [noStartIn, Bool.and_eq_true, Bool.not_eq_true'] at hfree
    have hm := matchAt_none pre (a :: (t ++ f)) hfree.1
    have hline' : marker ≠ .lineStmt ∨ lineStartP (t.reverse ++ (a :: pre)) = true := by
      simpa [List.append_assoc] using hline
    simp only [List.cons_append, findLL, hm, ih (a :: pre) hfree.2 hline', shift_some, List.length_cons]

theorem findLL_none {d : Delims} (t pre : List Char) (hfree : noStartIn d t [] = true) :
    findLL d pre t = none := by
  induction t generalizing pre with
  | nil => rfl
  | cons a t ih =>
    simp only [noStartIn, Bool.and_eq_true, Bool.not_eq_true', List.append_nil] at hfree
    simp [findLL, matchAt_none pre (a :: t) hfree.1, ih (a :: pre) hfree.2, shift]

/-- a suffix of delimiter-free text is delimiter-free -/
theorem noStartIn_drop {d : Delims} (t f : List Char) (k : Nat) (h : noStartIn d t f = true) :
    noStartIn d (t.drop k) f = true := by
  induction k generalizing t with
  | zero => simpa using h
  | succ k ih =>
    cases t with
    | nil => simpa using h
    | cons a t =>
      simp only [noStartIn, Bool.and_eq_true] at h
      simpa using ih t h.2

/-! ### the memchr path -/

theorem matchAt_default (pre : List Char) (c : Char) (r : List Char) :
    matchAt defaultDelims pre (c :: r) =
      if c = '{' then
        match r with
        | [] => none
        | c2 :: _ =>
          if c2 = '{' then some (.var, 2) else if c2 = '%' then some (.block, 2)
          else if c2 = '#' then some (.comment, 2) else none
      else none := by
  by_cases hc : c = '{'
  · subst hc
    cases r with
    | nil => simp [matchAt, candidates, defaultDelims, startsWith, longest]
    | cons c2 r =>
      by_cases h1 : c2 = '{'
      · subst h1; simp [matchAt, candidates, defaultDelims, startsWith, longest]
      · by_cases h2 : c2 = '%'
        · subst h2; simp [matchAt, candidates, defaultDelims, startsWith, longest]
        · by_cases h3 : c2 = '#'
          · subst h3; simp [matchAt, candidates, defaultDelims, startsWith, longest]
          · have e1 : ¬ '{' = c2 := fun h => h1 h.symm
            have e2 : ¬ '%' = c2 := fun h => h2 h.symm
            have e3 : ¬ '#' = c2 := fun h => h3 h.symm
            simp [matchAt, candidates, defaultDelims, startsWith, longest, h1, h2, h3, e1, e2, e3]
  · have e : ¬ '{' = c := fun h => hc h.symm
    simp [matchAt, candidates, defaultDelims, startsWith, longest, hc, e]

/-- `find_start_marker_memchr` is the leftmost-longest search for the default delimiters -/
theorem findStartDefault_eq_findLL (pre s : List Char) :
    findStartDefault s = findLL defaultDelims pre s := by
  induction s generalizing pre with
  | nil => rfl
  | cons c r ih =>
    rw [findLL, matchAt_default, findStartDefault.eq_def]
    by_cases hc : c = '{'
    · simp only [hc, if_true]
      cases r with
      | nil => simp [findLL, shift]
      | cons c2 r2 =>
        simp only []
        by_cases h1 : c2 = '{'
        · simp [h1]
        · by_cases h2 : c2 = '%'
          · simp [h2]
          · by_cases h3 : c2 = '#'
            · simp [h3]
            · simp only [h1, h2, h3, if_false]
              rw [ih ('{' :: pre)]
    · simp only [hc, if_false]
      rw [ih (c :: pre)]

theorem findStart_default : findStart defaultDelims = findLL defaultDelims := by
  funext pre s
  simp [findStart, findStartDefault_eq_findLL pre s]

end MJ.Lexer
