import MJ.Proofs.CollSort
/-!
# unique and groupby
-/
namespace MJ.Coll
open Std

variable {α κ : Type} (cmp : κ → κ → Ordering) (key : α → κ)

/-! ## unique -/

def hit (seen : List κ) (k : κ) : Bool := seen.any (fun s => cmp s k == .eq)

theorem uniqueLoop_sublist (xs : List α) (seen : List κ) : (uniqueLoop cmp key xs seen).Sublist xs := by
  induction xs generalizing seen with
  | nil => simp [uniqueLoop]
  | cons x xs ih =>
    unfold uniqueLoop
    split
    · exact (ih seen).cons x
    · exact (ih _).cons_cons x

/-- nothing kept hits `seen`, and kept items have pairwise non-`Equal` keys (earlier vs later) -/
theorem uniqueLoop_nodup (xs : List α) (seen : List κ) :
    (∀ y ∈ uniqueLoop cmp key xs seen, ∀ s ∈ seen, cmp s (key y) ≠ .eq) ∧
    (uniqueLoop cmp key xs seen).Pairwise (fun a b => cmp (key a) (key b) ≠ .eq) := by
  induction xs generalizing seen with
  | nil => simp [uniqueLoop]
  | cons x xs ih =>
    unfold uniqueLoop
    split
    · exact ih seen
    · rename_i hx
      obtain ⟨h1, h2⟩ := ih (key x :: seen)
      refine ⟨?_, ?_⟩
      · intro y hy s hs
        rcases List.mem_cons.mp hy with rfl | hy
        · intro he
          apply hx
          exact List.any_eq_true.mpr ⟨s, hs, by simp [he]⟩
        · exact h1 y hy s (List.mem_cons_of_mem _ hs)
      · rw [List.pairwise_cons]
        exact ⟨fun y hy => h1 y hy (key x) List.mem_cons_self, h2⟩

/-- every input item is represented: by `seen` or by a kept item with an `Equal` key -/
theorem uniqueLoop_covers [ReflCmp cmp] (xs : List α) (seen : List κ) :
    ∀ x ∈ xs, (∃ s ∈ seen, cmp s (key x) = .eq) ∨
      (∃ y ∈ uniqueLoop cmp key xs seen, cmp (key y) (key x) = .eq) := by
  induction xs generalizing seen with
  | nil => simp
  | cons z zs ih =>
    intro x hx
    unfold uniqueLoop
    split
    · rename_i hz
      rcases List.mem_cons.mp hx with rfl | hx
      · left
        obtain ⟨s, hs, he⟩ := List.any_eq_true.mp hz
        exact ⟨s, hs, by simpa using he⟩
      · exact ih seen x hx
    · rcases List.mem_cons.mp hx with rfl | hx
      · right; exact ⟨x, List.mem_cons_self, ReflCmp.compare_self⟩
      · rcases ih (key z :: seen) x hx with ⟨s, hs, he⟩ | ⟨y, hy, he⟩
        · rcases List.mem_cons.mp hs with rfl | hs
          · right; exact ⟨z, List.mem_cons_self, he⟩
          · left; exact ⟨s, hs, he⟩
        · right; exact ⟨y, List.mem_cons_of_mem _ hy, he⟩

/-- an item whose key is not `Equal` to any earlier key (nor to `seen`) is kept -/
theorem uniqueLoop_keeps_first (pre post : List α) (x : α) (seen : List κ)
    (h1 : ∀ s ∈ seen, cmp s (key x) ≠ .eq) (h2 : ∀ p ∈ pre, cmp (key p) (key x) ≠ .eq) :
    x ∈ uniqueLoop cmp key (pre ++ x :: post) seen := by
  induction pre generalizing seen with
  | nil =>
    simp only [List.nil_append]
    unfold uniqueLoop
    have : seen.any (fun s => cmp s (key x) == .eq) = false := by
      apply Bool.eq_false_iff.mpr
      intro h
      obtain ⟨s, hs, he⟩ := List.any_eq_true.mp h
      exact h1 s hs (by simpa using he)
    simp [this]
  | cons p pre ih =>
    simp only [List.cons_append]
    unfold uniqueLoop
    split
    · exact ih seen h1 (fun q hq => h2 q (List.mem_cons_of_mem _ hq))
    · apply List.mem_cons_of_mem
      apply ih
      · intro s hs
        rcases List.mem_cons.mp hs with rfl | hs
        · exact h2 p List.mem_cons_self
        · exact h1 s hs
      · exact fun q hq => h2 q (List.mem_cons_of_mem _ hq)

/-! ## groupby -/

theorem groupLoop_flatten (ys : List α) (g : Option κ) (lst : List α) (hg : g = none → lst = []) :
    (groupLoop cmp key ys g lst).flatMap (·.2) = lst ++ ys := by
  induction ys generalizing g lst with
  | nil =>
    cases g with
    | none => simp [groupLoop, hg rfl]
    | some g =>
      unfold groupLoop
      cases lst <;> simp
  | cons x xs ih =>
    cases g with
    | none =>
      unfold groupLoop
      rw [ih _ _ (by simp)]
      simp
    | some lg =>
      unfold groupLoop
      simp only
      split
      · rw [List.flatMap_cons, ih _ _ (by simp)]; simp
      · rw [ih _ _ (by simp)]; simp

variable [TransCmp cmp]

/-- loop invariant: no grouper yet means nothing collected; otherwise the group under construction
    is non-empty and all its members have a key `Equal` to the current grouper -/
def GInv (g : Option κ) (lst : List α) : Prop :=
  (g = none → lst = []) ∧ (∀ lg, g = some lg → lst ≠ [] ∧ ∀ y ∈ lst, cmp lg (key y) = .eq)

/-- every group is non-empty and all its members have a key `Equal` to the grouper -/
theorem groupLoop_members (ys : List α) (g : Option κ) (lst : List α) (hinv : GInv cmp key g lst) :
    ∀ p ∈ groupLoop cmp key ys g lst, p.2 ≠ [] ∧ ∀ y ∈ p.2, cmp p.1 (key y) = .eq := by
  induction ys generalizing g lst with
  | nil =>
    intro p hp
    cases g with
    | none => simp [groupLoop] at hp
    | some lg =>
      unfold groupLoop at hp
      obtain ⟨hne, hall⟩ := hinv.2 lg rfl
      cases lst with
      | nil => exact absurd rfl hne
      | cons a l =>
        simp at hp
        subst hp
        exact ⟨by simp, hall⟩
  | cons x xs ih =>
    intro p hp
    cases g with
    | none =>
      unfold groupLoop at hp
      have hl : lst = [] := hinv.1 rfl
      subst hl
      apply ih (some (key x)) _ _ p hp
      refine ⟨by simp, ?_⟩
      intro lg hlg
      cases hlg
      refine ⟨by simp, ?_⟩
      intro y hy
      simp only [List.nil_append, List.mem_singleton] at hy
      subst hy
      exact ReflCmp.compare_self
    | some lg =>
      obtain ⟨hne, hall⟩ := hinv.2 lg rfl
      unfold groupLoop at hp
      simp only at hp
      split at hp
      · rcases List.mem_cons.mp hp with rfl | hp
        · exact ⟨hne, hall⟩
        · apply ih (some (key x)) [x] _ p hp
          refine ⟨by simp, ?_⟩
          intro lg' hlg'
          cases hlg'
          refine ⟨by simp, ?_⟩
          intro y hy
          simp only [List.mem_singleton] at hy
          subst hy
          exact ReflCmp.compare_self
      · rename_i he
        have he' : cmp lg (key x) = .eq := by
          cases hc : cmp lg (key x) <;> simp_all
        apply ih (some (key x)) _ _ p hp
        refine ⟨by simp, ?_⟩
        intro lg' hlg'
        cases hlg'
        refine ⟨by simp, ?_⟩
        intro y hy
        simp only [List.mem_append, List.mem_singleton] at hy
        rcases hy with hy | rfl
        · exact TransCmp.eq_trans (OrientedCmp.eq_symm he') (hall y hy)
        · exact ReflCmp.compare_self

/-- over a list sorted by key, the groupers are strictly increasing: a key class is exactly one group -/
theorem groupLoop_keys_increasing (ys : List α) (g : Option κ) (lst : List α)
    (hs : ys.Pairwise (fun a b => cmp (key a) (key b) ≠ .gt))
    (hg : ∀ lg, g = some lg → ∀ y ∈ ys, cmp lg (key y) ≠ .gt) :
    (∀ lg, g = some lg → ∀ p ∈ groupLoop cmp key ys g lst, cmp lg p.1 ≠ .gt) ∧
    (groupLoop cmp key ys g lst).Pairwise (fun p q => cmp p.1 q.1 = .lt) := by
  induction ys generalizing g lst with
  | nil =>
    cases g with
    | none => simp [groupLoop]
    | some lg =>
      unfold groupLoop
      cases lst with
      | nil => simp
      | cons a l =>
        simp only [List.isEmpty_cons, Bool.false_eq_true, if_false, List.mem_singleton,
          List.pairwise_cons, List.not_mem_nil, false_imp_iff, implies_true, List.Pairwise.nil, and_true]
        intro lg' h p hp
        cases h; subst hp
        simp [ReflCmp.compare_self (cmp := cmp)]
  | cons x xs ih =>
    rw [List.pairwise_cons] at hs
    obtain ⟨hx, hs'⟩ := hs
    have hnext : ∀ lg', some (key x) = some lg' → ∀ y ∈ xs, cmp lg' (key y) ≠ .gt := by
      intro lg' h y hy; cases h; exact hx y hy
    cases g with
    | none =>
      unfold groupLoop
      obtain ⟨_, h2⟩ := ih (some (key x)) (lst ++ [x]) hs' hnext
      exact ⟨by simp, h2⟩
    | some lg =>
      have hlx : cmp lg (key x) ≠ .gt := hg lg rfl x List.mem_cons_self
      unfold groupLoop
      simp only
      split
      · rename_i hne
        have hlt : cmp lg (key x) = .lt := by
          cases hc : cmp lg (key x) <;> simp_all
        obtain ⟨h1, h2⟩ := ih (some (key x)) [x] hs' hnext
        refine ⟨?_, ?_⟩
        · intro lg' h p hp
          cases h
          rcases List.mem_cons.mp hp with rfl | hp
          · simp [ReflCmp.compare_self (cmp := cmp)]
          · have := h1 (key x) rfl p hp
            have := TransCmp.lt_of_lt_of_isLE hlt (Ordering.ne_gt_iff_isLE.mp this)
            simp [this]
        · rw [List.pairwise_cons]
          refine ⟨?_, h2⟩
          intro p hp
          exact TransCmp.lt_of_lt_of_isLE hlt (Ordering.ne_gt_iff_isLE.mp (h1 (key x) rfl p hp))
      · obtain ⟨h1, h2⟩ := ih (some (key x)) (lst ++ [x]) hs' hnext
        refine ⟨?_, h2⟩
        intro lg' h p hp
        cases h
        have := h1 (key x) rfl p hp
        exact Ordering.ne_gt_iff_isLE.mpr
          (TransCmp.isLE_trans (Ordering.ne_gt_iff_isLE.mp hlx) (Ordering.ne_gt_iff_isLE.mp this))

end MJ.Coll
