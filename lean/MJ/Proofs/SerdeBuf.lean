import MJ.Model.SerdeValue
import MJ.Proofs.SerdeRT
/-! The buffered read path (serde's `Content`, used by untagged / internally tagged enums and
`flatten`): the deserializer model does not see the difference between a value and its normal form,
so the round trip also holds when serde first copies the value into its buffer (C16). -/
namespace MJ.Serde

theorem normVList_length : ∀ (xs : List V), (normVList xs).length = xs.length
  | [] => rfl
  | _ :: xs => by simp [normVList, normVList_length xs]

theorem deByte_normV (x : V) : deByte (normV x) = deByte x := by cases x <;> rfl

theorem mapMR_normVList {β : Type} (f : V → R β) (hf : ∀ x, f (normV x) = f x) :
    ∀ (xs : List V), mapMR f (normVList xs) = mapMR f xs
  | [] => rfl
  | x :: xs => by simp only [normVList, mapMR, hf x, mapMR_normVList f hf xs]

theorem mapMR_normVPairs {α β : Type} (f : V → R α) (g : V → R β) (hf : ∀ x, f (normV x) = f x) (hg : ∀ x, g (normV x) = g x) :
    ∀ (kvs : List (V × V)), mapMR (fun p => pairR (f p.1) (g p.2)) (normVPairs kvs) = mapMR (fun p => pairR (f p.1) (g p.2)) kvs
  | [] => rfl
  | (k, v) :: rest => by simp only [normVPairs, mapMR, hf k, hg v, mapMR_normVPairs f g hf hg rest]

theorem allStrKeys_normV : ∀ (kvs : List (V × V)), allStrKeys (normVPairs kvs) = allStrKeys kvs
  | [] => rfl
  | (k, v) :: rest => by
    cases k <;> simp [normVPairs, normV, allStrKeys, allStrKeys_normV rest]

theorem lookupStr_normV (n : Str) : ∀ (kvs : List (V × V)), lookupStr n (normVPairs kvs) = (lookupStr n kvs).map normV
  | [] => rfl
  | (k, v) :: rest => by
    cases k <;> simp only [normVPairs, normV, lookupStr, lookupStr_normV n rest]
    split <;> simp

theorem fieldOfKey_normV (names : List Str) (k : V) : fieldOfKey names (normV k) = fieldOfKey names k := by
  cases k <;> rfl

def normSlots (slots : List (Option Nat × V)) : List (Option Nat × V) := slots.map fun p => (p.1, normV p.2)

theorem resolveKeys_normV (names : List Str) : ∀ (kvs : List (V × V)),
    resolveKeys names (normVPairs kvs) = mapOk normSlots (resolveKeys names kvs)
  | [] => rfl
  | (k, v) :: rest => by
    simp only [normVPairs, resolveKeys, fieldOfKey_normV, resolveKeys_normV names rest]
    cases fieldOfKey names k with
    | error e => rfl
    | ok i =>
      cases resolveKeys names rest with
      | error e => rfl
      | ok l => rfl

theorem dupSlots_normSlots : ∀ (slots : List (Option Nat × V)), dupSlots (normSlots slots) = dupSlots slots
  | [] => rfl
  | (some i, v) :: rest => by
    simp only [normSlots, List.map_cons, dupSlots]
    have := dupSlots_normSlots rest
    simp only [normSlots] at this
    rw [this]
    simp [List.any_map, Function.comp_def]
  | (none, v) :: rest => by
    simp only [normSlots, List.map_cons, dupSlots]
    exact dupSlots_normSlots rest

theorem findSlot_normSlots (i : Nat) : ∀ (slots : List (Option Nat × V)),
    findSlot i (normSlots slots) = (findSlot i slots).map normV
  | [] => rfl
  | (j, v) :: rest => by
    simp only [normSlots, List.map_cons, findSlot]
    split
    · rfl
    · exact findSlot_normSlots i rest

mutual
theorem ignoreV_normV : ∀ (v : V), ignoreV (normV v) = ignoreV v
  | .undefined => rfl
  | .none => rfl
  | .bool _ => rfl
  | .int _ _ => rfl
  | .f64 _ => rfl
  | .str _ _ => rfl
  | .bytes _ => rfl
  | .obj _ => rfl
  | .invalid => rfl
  | .seq _ xs => by simp only [normV, ignoreV, ignoreList_normV xs]
  | .map kvs => by simp only [normV, ignoreV, ignorePairs_normV kvs]
theorem ignoreList_normV : ∀ (xs : List V), ignoreList (normVList xs) = ignoreList xs
  | [] => rfl
  | x :: xs => by simp only [normVList, ignoreList, ignoreV_normV x, ignoreList_normV xs]
theorem ignorePairs_normV : ∀ (kvs : List (V × V)), ignorePairs (normVPairs kvs) = ignorePairs kvs
  | [] => rfl
  | (k, v) :: rest => by
    simp only [normVPairs, ignorePairs, ignoreV_normV k, ignoreV_normV v, ignorePairs_normV rest]
end

theorem ignoredOK_normV (names : List Str) : ∀ (kvs : List (V × V)), ignoredOK names (normVPairs kvs) = ignoredOK names kvs
  | [] => rfl
  | (k, v) :: rest => by
    cases k <;> simp only [normVPairs, normV, ignoredOK, ignoredOK_normV names rest, ignoreV_normV v]

theorem ignoredSlots_normSlots : ∀ (slots : List (Option Nat × V)), ignoredSlots (normSlots slots) = ignoredSlots slots
  | [] => rfl
  | (some i, v) :: rest => by
    simp only [normSlots, List.map_cons, ignoredSlots]
    exact ignoredSlots_normSlots rest
  | (none, v) :: rest => by
    have := ignoredSlots_normSlots rest
    simp only [normSlots] at this
    simp only [normSlots, List.map_cons, ignoredSlots, ignoreV_normV v, this]

mutual
theorem de_normV : ∀ (s : Shape) (v : V), de s (normV v) = de s v
  | .bool, v => by cases v <;> rfl
  | .int _ _ _, v => by cases v <;> rfl
  | .f32, v => by cases v <;> rfl
  | .f64, v => by cases v <;> rfl
  | .char, v => by
    cases v <;> try rfl
    rename_i s safe
    cases s with
    | nil => rfl
    | cons c cs => cases cs <;> rfl
  | .str, v => by cases v <;> rfl
  | .unit, v => by cases v <;> rfl
  | .ustruct, v => by cases v <;> rfl
  | .value, v => by cases v <;> rfl
  | .bytes, v => by
    cases v <;> try rfl
    rename_i t xs
    simp only [normV, de, mapMR_normVList deByte deByte_normV xs]
  | .opt s, v => by
    cases v <;> try rfl
    all_goals simp only [normV, de]
    all_goals first
      | rfl
      | (have := de_normV s (V.str ‹_› ‹_›); simp only [normV] at this; rw [this])
      | (have := de_normV s (V.seq ‹_› ‹_›); simp only [normV] at this; rw [this])
      | (have := de_normV s (V.map ‹_›); simp only [normV] at this; rw [this])
  | .nstruct s, v => by
    simp only [de]
    exact de_normV s v
  | .seq s, v => by
    cases v <;> try rfl
    rename_i t xs
    simp only [normV, de, mapMR_normVList (de s) (de_normV s) xs]
  | .map k w, v => by
    cases v <;> try rfl
    rename_i kvs
    simp only [normV, de, mapMR_normVPairs (de k) (de w) (de_normV k) (de_normV w) kvs]
  | .tup ss, v => by
    cases v <;> try rfl
    rename_i t xs
    simp only [normV, de, deList_normV ss xs]
  | .tstruct ss, v => by
    cases v <;> try rfl
    rename_i t xs
    simp only [normV, de, deList_normV ss xs]
  | .struct names ss, v => by
    cases v <;> try rfl
    · rename_i t xs
      simp only [normV, de, deList_normV ss xs]
    · rename_i kvs
      simp only [normV, de, allStrKeys_normV, deFields_normV ss names kvs, resolveKeys_normV, ignoredOK_normV]
      split
      · rfl
      · cases hr : resolveKeys names kvs with
        | error e => rfl
        | ok slots =>
          simp only [mapOk_ok, dupSlots_normSlots, deSlots_normV ss names 0 slots, ignoredSlots_normSlots]
  | .enum names vs, v => by
    cases v <;> try rfl
    rename_i kvs
    match kvs with
    | [] => rfl
    | [(k, p)] =>
      have hv := fun i o => deVariant_normV vs i o (some p)
      simp only [Option.map_some] at hv
      cases k with
      | str n sf =>
        simp only [normV, normVPairs, de]
        split <;> first | rfl | exact hv _ _
      | bytes b =>
        simp only [normV, normVPairs, de]
        split <;> first | rfl | exact hv _ _
      | int u i =>
        cases u
        · simp only [normV, normVPairs, de]
        · simp only [normV, normVPairs, de]
          split <;> first | rfl | exact hv _ _
      | _ => simp only [normV, normVPairs, de]
    | (k1, p1) :: (k2, p2) :: rest =>
      cases k1 with
      | int u i => cases u <;> simp only [normV, normVPairs, de]
      | _ => simp only [normV, normVPairs, de]
theorem deList_normV : ∀ (ss : List Shape) (xs : List V), deList ss (normVList xs) = deList ss xs
  | [], xs => by cases xs <;> simp [deList]
  | s :: ss, [] => rfl
  | s :: ss, x :: xs => by simp only [normVList, deList, de_normV s x, deList_normV ss xs]
theorem deFields_normV : ∀ (ss : List Shape) (names : List Str) (kvs : List (V × V)),
    deFields names ss (normVPairs kvs) = deFields names ss kvs
  | [], names, kvs => by cases names <;> simp [deFields]
  | s :: ss, [], kvs => by simp [deFields]
  | s :: ss, n :: ns, kvs => by
    simp only [deFields, lookupStr_normV]
    cases lookupStr n kvs with
    | none => simp only [Option.map_none, deFields_normV ss ns kvs]
    | some x => simp only [Option.map_some, de_normV s x, deFields_normV ss ns kvs]
theorem deSlots_normV : ∀ (ss : List Shape) (names : List Str) (j : Nat) (slots : List (Option Nat × V)),
    deSlots names ss j (normSlots slots) = deSlots names ss j slots
  | [], names, j, slots => by cases names <;> simp [deSlots]
  | s :: ss, [], j, slots => by simp [deSlots]
  | s :: ss, n :: ns, j, slots => by
    simp only [deSlots, findSlot_normSlots]
    cases findSlot j slots with
    | none => simp only [Option.map_none, deSlots_normV ss ns (j + 1) slots]
    | some x => simp only [Option.map_some, de_normV s x, deSlots_normV ss ns (j + 1) slots]
theorem deVariant_normV : ∀ (vs : List VShape) (i orig : Nat) (p : Option V),
    deVariant vs i orig (p.map normV) = deVariant vs i orig p
  | [], i, orig, p => by simp [deVariant]
  | w :: ws, 0, orig, p => by simp only [deVariant, deV_normV w p]
  | w :: ws, i + 1, orig, p => by simp only [deVariant, deVariant_normV ws i orig p]
theorem deV_normV : ∀ (w : VShape) (p : Option V), deV w (p.map normV) = deV w p
  | .unit, p => by
    cases p with
    | none => rfl
    | some x => cases x <;> rfl
  | .newtype s, p => by
    cases p with
    | none => rfl
    | some x => simp only [Option.map_some, deV, de_normV s x]
  | .tuple ss, p => by
    cases p with
    | none => rfl
    | some x =>
      cases x <;> try rfl
      rename_i t xs
      simp only [Option.map_some, normV, deV, normVList_length, deList_normV ss xs]
  | .struct names ss, p => by
    cases p with
    | none => rfl
    | some x =>
      cases x <;> try rfl
      rename_i kvs
      simp only [Option.map_some, normV, deV, allStrKeys_normV, deFields_normV ss names kvs, resolveKeys_normV, ignoredOK_normV]
      split
      · rfl
      · cases hr : resolveKeys names kvs with
        | error e => rfl
        | ok slots =>
          simp only [mapOk_ok, dupSlots_normSlots, deSlots_normV ss names 0 slots, ignoredSlots_normSlots]
end

/-- the round trip through serde's buffer: what an untagged / internally tagged enum or a flattened
field reads from the copy serde made of the value is the original datum -/
theorem buffered_rt (s : Shape) (d : D) (h : wf s d = true) : de s (normV (ser s d)) = .ok d := by
  rw [de_normV, rt s d h]

end MJ.Serde
