import MJ.Model.FuelMachine
import MJ.Proofs.Fuel
/-! Refinement lemmas: machine runs ⟶ call-tree runs ⟶ trace runs (C13). -/
namespace MJ.Fuel
open Tracker

/-- running over the call tree is running over its flattened trace -/
theorem runTree_eq_runFrom (t : Tracker) (e : Evs) : runTree t e = runFrom t (flatten e) := by
  induction e generalizing t with
  | nil => rfl
  | instr n r ih =>
    simp only [runTree, flatten, runFrom]
    cases h : t.track (costOf n) with
    | outOfFuel t' => rfl
    | ok t' => simp only [ih t']
  | call n sub r ihs ihr =>
    simp only [runTree, flatten, runFrom]
    cases h : t.track (costOf n) with
    | outOfFuel t' => rfl
    | ok t' =>
      simp only [ihs t', runFrom_append]
      cases hs : (runFrom t' (flatten sub)).status with
      | outOfFuel => simp [hs]
      | done => simp [ihr]

/-- the flat machine: the limited run is determined by the unlimited run and the trace-level model -/
theorem Machine.runFuel_of_run {S E : Type} (m : Machine S E) (n : Nat) (t : Tracker) (s : S) (u : URun S E)
    (h : m.run n s = some u) :
    m.runFuel n t s = some
      { trace := (runFrom t u.trace).executed,
        states := u.states.take (runFrom t u.trace).executed.length,
        result := limitedResult (runFrom t u.trace).status u.result,
        tracker := (runFrom t u.trace).tracker } := by
  induction n generalizing t s u with
  | zero => simp [Machine.run] at h
  | succ n ih =>
    simp only [Machine.run] at h
    simp only [Machine.runFuel]
    cases hf : m.fetch s with
    | none =>
      simp only [hf] at h
      cases h
      simp [runFrom, limitedResult]
    | some i =>
      simp only [hf] at h
      cases he : m.exec s with
      | error e =>
        simp only [he] at h
        cases h
        cases ht : t.track (costOf i) with
        | outOfFuel t' => simp [runFrom, ht, limitedResult]
        | ok t' => simp [runFrom, ht, limitedResult]
      | ok s' =>
        simp only [he] at h
        cases hr : m.run n s' with
        | none => simp [hr] at h
        | some r =>
          simp only [hr] at h
          cases h
          cases ht : t.track (costOf i) with
          | outOfFuel t' => simp [runFrom, ht, limitedResult]
          | ok t' =>
            simp [runFrom, ht, ih t' s' r hr]

/-- the machine with nested activations: the limited run is determined by the call tree of the
    unlimited run and the tree-level model -/
theorem NMachine.runFuel_of_run {S E : Type} (m : NMachine S E) (n : Nat) (t : Tracker) (s : S) (u : NURun S E)
    (h : m.run n s = some u) :
    m.runFuel n t s = some
      { executed := (runTree t u.tree).executed,
        result := limitedResult (runTree t u.tree).status u.result,
        tracker := (runTree t u.tree).tracker } := by
  induction n generalizing t s u with
  | zero => simp [NMachine.run] at h
  | succ n ih =>
    simp only [NMachine.run] at h
    simp only [NMachine.runFuel]
    cases hf : m.fetch s with
    | none =>
      simp only [hf] at h
      cases h
      simp [runTree, limitedResult]
    | some i =>
      simp only [hf] at h
      cases he : m.exec s with
      | step x =>
        cases x with
        | error e =>
          simp only [he] at h
          cases h
          cases ht : t.track (costOf i) with
          | outOfFuel t' => simp [runTree, ht, limitedResult]
          | ok t' => simp [runTree, ht, limitedResult]
        | ok s' =>
          simp only [he] at h
          cases hr : m.run n s' with
          | none => simp [hr] at h
          | some r =>
            simp only [hr] at h
            cases h
            cases ht : t.track (costOf i) with
            | outOfFuel t' => simp [runTree, ht, limitedResult]
            | ok t' =>
              simp [runTree, ht, ih t' s' r hr]
      | call entry resume =>
        simp only [he] at h
        cases hsub : m.run n entry with
        | none => simp [hsub] at h
        | some sub =>
          simp only [hsub] at h
          cases ht : t.track (costOf i) with
          | outOfFuel t' =>
            cases hres : sub.result with
            | error e =>
              simp only [hres] at h
              cases h
              simp [runTree, ht, limitedResult]
            | ok s2 =>
              simp only [hres] at h
              cases hr : m.run n (resume s2) with
              | none => simp [hr] at h
              | some r =>
                simp only [hr] at h
                cases h
                simp [runTree, ht, limitedResult]
          | ok t' =>
            cases hres : sub.result with
            | error e =>
              simp only [hres] at h
              cases h
              cases hst : (runTree t' sub.tree).status with
              | outOfFuel => simp [runTree, ht, hst, limitedResult, ih t' entry sub hsub]
              | done => simp [runTree, ht, hst, limitedResult, ih t' entry sub hsub, hres]
            | ok s2 =>
              simp only [hres] at h
              cases hr : m.run n (resume s2) with
              | none => simp [hr] at h
              | some r =>
                simp only [hr] at h
                cases h
                cases hst : (runTree t' sub.tree).status with
                | outOfFuel => simp [runTree, ht, hst, limitedResult, ih t' entry sub hsub]
                | done =>
                  simp [runTree, ht, hst, limitedResult, ih t' entry sub hsub, hres,
                    ih (runTree t' sub.tree).tracker (resume s2) r hr]

/-! ## stickiness -/

theorem track_fail_remaining (t t' : Tracker) (c : Nat) (h : t.track c = .outOfFuel t') :
    t'.remaining = 0 ∧ t'.initial = t.initial := by
  by_cases hc : c = 0
  · subst hc; rw [track_zero] at h; cases h
  · by_cases hr : c < t.remaining
    · rw [track_pos_ok t c hc hr] at h; cases h
    · rw [track_pos_fail t c hc (by omega)] at h; cases h; simp

theorem track_empty (t : Tracker) (c : Nat) (hc : c ≠ 0) (h : t.remaining = 0) :
    t.track c = .outOfFuel t := by
  rw [track_pos_fail t c hc (by omega)]
  cases t; simp at h; simp [h]

/-- with an empty tank only free instructions run -/
theorem runFrom_empty (t : Tracker) (trace : List String) (h : t.remaining = 0) (h0 : total trace ≠ 0) :
    (runFrom t trace).status = .outOfFuel ∧ (runFrom t trace).tracker = t ∧
    total (runFrom t trace).executed = 0 := by
  induction trace with
  | nil => simp [total] at h0
  | cons i rest ih =>
    simp only [total] at h0
    by_cases hc : costOf i = 0
    · have := ih (by omega)
      simp [runFrom, hc, track_zero, this, total]
    · simp [runFrom, track_empty t _ hc h, total]

/-- a run that ended out of fuel leaves an empty tank -/
theorem runFrom_oof_remaining (t : Tracker) (trace : List String) (h : (runFrom t trace).status = .outOfFuel) :
    (runFrom t trace).tracker.remaining = 0 := by
  induction trace generalizing t with
  | nil => simp [runFrom] at h
  | cons i rest ih =>
    simp only [runFrom] at h ⊢
    cases ht : t.track (costOf i) with
    | outOfFuel t' => simpa using (track_fail_remaining t t' _ ht).1
    | ok t' =>
      simp only [ht] at h
      simpa using ih t' h

end MJ.Fuel

namespace MJ.Fuel

theorem Machine.run_states_length {S E : Type} (m : Machine S E) (n : Nat) (s : S) (u : URun S E)
    (h : m.run n s = some u) : u.states.length = u.trace.length := by
  induction n generalizing s u with
  | zero => simp [Machine.run] at h
  | succ n ih =>
    simp only [Machine.run] at h
    cases hf : m.fetch s with
    | none => simp only [hf] at h; cases h; rfl
    | some i =>
      simp only [hf] at h
      cases he : m.exec s with
      | error e => simp only [he] at h; cases h; rfl
      | ok s' =>
        simp only [he] at h
        cases hr : m.run n s' with
        | none => simp [hr] at h
        | some r =>
          simp only [hr] at h
          cases h
          simp [ih s' r hr]

end MJ.Fuel
