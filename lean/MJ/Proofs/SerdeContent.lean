import MJ.Model.SerdeContent
/-! The copy serde's `Content` buffer makes of a value is the value's normal form `normV` (C16). -/
namespace MJ.SerdeDispatch
open MJ.Serde

mutual
theorem ofContent_toContent : ∀ (v : V) (c : Content), toContent v = some c → ofContent c = normV v
  | .undefined, c, h => by simp [toContent, skindOfV, anySpec, leafContent] at h; subst h; rfl
  | .none, c, h => by simp [toContent, skindOfV, anySpec, leafContent] at h; subst h; rfl
  | .bool b, c, h => by simp [toContent, skindOfV, anySpec, leafContent] at h; subst h; rfl
  | .int u i, c, h => by
    simp only [toContent, skindOfV] at h
    by_cases hf : fits64 i = true
    · rw [if_pos hf] at h
      cases u <;> simp [anySpec, leafContent] at h <;> subst h <;> rfl
    · rw [if_neg hf] at h
      by_cases hneg : i < 0
      · rw [if_pos hneg] at h; simp [anySpec, leafContent] at h
      · rw [if_neg hneg] at h; cases u <;> simp [anySpec, leafContent] at h
  | .f64 b, c, h => by simp [toContent, skindOfV, anySpec, leafContent] at h; subst h; rfl
  | .str s safe, c, h => by simp [toContent, skindOfV, anySpec, leafContent] at h; subst h; rfl
  | .bytes b, c, h => by simp [toContent, skindOfV, anySpec, leafContent] at h; subst h; rfl
  | .obj i, c, h => by simp [toContent, skindOfV, anySpec, leafContent] at h
  | .invalid, c, h => by simp [toContent, skindOfV, anySpec, leafContent] at h
  | .seq t xs, c, h => by
    simp only [toContent, Option.map_eq_some_iff] at h
    obtain ⟨cs, hcs, rfl⟩ := h
    simp only [ofContent, normV, ofContentList_toContentList xs cs hcs]
  | .map kvs, c, h => by
    simp only [toContent, Option.map_eq_some_iff] at h
    obtain ⟨cs, hcs, rfl⟩ := h
    simp only [ofContent, normV, ofContentPairs_toContentPairs kvs cs hcs]
theorem ofContentList_toContentList : ∀ (xs : List V) (cs : List Content), toContentList xs = some cs → ofContentList cs = normVList xs
  | [], cs, h => by simp [toContentList] at h; subst h; rfl
  | x :: xs, cs, h => by
    simp only [toContentList] at h
    split at h
    · rename_i c cs' hc hcs
      simp at h; subst h
      simp only [ofContentList, normVList, ofContent_toContent x c hc, ofContentList_toContentList xs cs' hcs]
    · simp at h
theorem ofContentPairs_toContentPairs : ∀ (kvs : List (V × V)) (cs : List (Content × Content)), toContentPairs kvs = some cs → ofContentPairs cs = normVPairs kvs
  | [], cs, h => by simp [toContentPairs] at h; subst h; rfl
  | (k, x) :: rest, cs, h => by
    simp only [toContentPairs] at h
    split at h
    · rename_i a b cs' ha hb hcs
      simp at h; subst h
      simp only [ofContentPairs, normVPairs, ofContent_toContent k a ha, ofContent_toContent x b hb,
        ofContentPairs_toContentPairs rest cs' hcs]
    · simp at h
end

end MJ.SerdeDispatch
