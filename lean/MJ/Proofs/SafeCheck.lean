import MJ.Model.SafeCheck
import MJ.Proofs.SafeFrag
/-! Soundness of the decision procedure `progOkB` for the syntactic fragment `ProgOk`. -/
namespace MJ.Safe

theorem filterOkB_sound {name : String} {ps : List Nat} (h : filterOkB name ps = true) : FilterOk name ps := by
  intro m g ok hl
  simp only [filterOkB, List.all_cons, List.all_nil, Bool.and_true, Bool.and_eq_true] at h
  cases m with
  | html => have := h.1; rw [hl] at this; exact this
  | none => have := h.2.1; rw [hl] at this; exact this
  | json => have := h.2.2; rw [hl] at this; exact this

theorem allowsB_sound {m : Mode} {k : Bool} (h : allowsB m k = true) : allows m k := by
  simp only [allowsB, Bool.or_eq_true, Bool.and_eq_true, beq_iff_eq] at h
  rcases h with h | ⟨h, hk⟩
  · exact Or.inl h
  · exact Or.inr ⟨h, hk⟩

theorem autoModeB_eq (a : AutoArg) : autoModeB a = autoMode a := by
  cases a <;> rfl

mutual
theorem okE_sound {m : Mode} : ∀ (e : Expr), okE m e = true → OkE m e
  | .var n, _ => .var n
  | .lit s, _ => .lit s
  | .int n, _ => .int n
  | .bool b, _ => .bool b
  | .none, _ => .none
  | .cat a b, h => by
    simp only [okE, Bool.and_eq_true] at h
    exact .cat (okE_sound a h.1) (okE_sound b h.2)
  | .add a b, h => by
    simp only [okE, Bool.and_eq_true] at h
    exact .add (okE_sound a h.1) (okE_sound b h.2)
  | .mul a n, h => by
    simp only [okE] at h
    exact .mul n (okE_sound a h)
  | .filt name ps args, h => by
    simp only [okE, Bool.and_eq_true] at h
    exact .filt (filterOkB_sound h.1) (okEs_sound args h.2)
  | .meth name ps args, h => by
    simp only [okE, Bool.and_eq_true, List.all_eq_true] at h
    exact .meth (fun k hk => filterOkB_sound (h.1 k hk)) (okEs_sound args h.2)
  | .index a k, h => by
    simp only [okE] at h
    exact .index k (okE_sound a h)
  | .slice a x y, h => by
    simp only [okE] at h
    exact .slice x y (okE_sound a h)
  | .attr a key, h => by
    simp only [okE] at h
    exact .attr key (okE_sound a h)
  | .list xs, h => by
    simp only [okE] at h
    exact .list (okEs_sound xs h)
  | .dict kvs, h => by
    simp only [okE] at h
    exact .dict (okKs_sound kvs h)
  | .call g args, h => by
    simp only [okE] at h
    exact .call g (okEs_sound args h)
  | .modCall a g args, h => by
    simp only [okE] at h
    exact .modCall a g (okEs_sound args h)
  | .modVar a x, _ => .modVar a x
  | .caller, _ => .caller
  | .super, h => by
    simp only [okE, beq_iff_eq] at h
    exact .super h
  | .loopRec e, h => by
    simp only [okE] at h
    exact .loopRec (okE_sound e h)
  | .loopIndex, _ => .loopIndex
  | .loopFirst, _ => .loopFirst
  | .not e, h => by
    simp only [okE] at h
    exact .not (okE_sound e h)
  | .cond c a b, h => by
    simp only [okE, Bool.and_eq_true] at h
    exact .cond (okE_sound c h.1.1) (okE_sound a h.1.2) (okE_sound b h.2)
theorem okEs_sound {m : Mode} : ∀ (es : List Expr), okEs m es = true → OkEs m es
  | [], _ => .nil
  | e :: es, h => by
    simp only [okEs, Bool.and_eq_true] at h
    exact .cons (okE_sound e h.1) (okEs_sound es h.2)
theorem okKs_sound {m : Mode} : ∀ (kvs : List (String × Expr)), okKs m kvs = true → OkKs m kvs
  | [], _ => .nil
  | (k, e) :: kvs, h => by
    simp only [okKs, Bool.and_eq_true] at h
    exact .cons (okE_sound e h.1) (okKs_sound kvs h.2)
end

mutual
theorem okS_sound {p : Prog} : ∀ (m : Mode) (k : Bool) (s : Stmt), okS p m k s = true → OkS p m k s
  | _, _, .text t, _ => .text t
  | m, k, .emit e, h => by
    simp only [okS, Bool.and_eq_true] at h
    exact .emit (allowsB_sound h.1) (okE_sound e h.2)
  | m, k, .set n e, h => by
    simp only [okS] at h
    exact .set n (okE_sound e h)
  | m, k, .setBlock n Option.none body, h => by
    simp only [okS] at h
    exact .setBlock n (okSs_sound _ _ body h)
  | m, k, .setBlock n (some (name, ps)) body, h => by
    simp only [okS, Bool.and_eq_true] at h
    exact .setBlockF n (filterOkB_sound h.1) (okSs_sound _ _ body h.2)
  | m, k, .filterBlock name ps body, h => by
    simp only [okS, Bool.and_eq_true] at h
    exact .filterBlock (allowsB_sound h.1.1) (filterOkB_sound h.1.2) (okSs_sound _ _ body h.2)
  | m, k, .forIn v it false body els, h => by
    simp only [okS, Bool.and_eq_true] at h
    exact .forIn v (okE_sound it h.1.1) (okSs_sound _ _ body h.1.2) (okSs_sound _ _ els h.2)
  | m, k, .forIn v it true body els, h => by
    simp only [okS, Bool.and_eq_true] at h
    exact .forRec v (okE_sound it h.1.1.1.1) (okSs_sound _ _ body h.1.1.1.2) (okSs_sound _ _ els h.1.1.2)
      (okSs_sound _ _ body h.1.2) (okSs_sound _ _ body h.2)
  | m, k, .ifE c a b, h => by
    simp only [okS, Bool.and_eq_true] at h
    exact .ifE (okE_sound c h.1.1) (okSs_sound _ _ a h.1.2) (okSs_sound _ _ b h.2)
  | m, k, .withE n e body, h => by
    simp only [okS, Bool.and_eq_true] at h
    exact .withE n (okE_sound e h.1) (okSs_sound _ _ body h.2)
  | m, k, .callBlock g args body, h => by
    simp only [okS, Bool.and_eq_true] at h
    exact .callBlock g (allowsB_sound h.1.1.1) (okEs_sound args h.1.1.2) (okSs_sound _ _ body h.1.2) (okSs_sound _ _ body h.2)
  | m, k, .incl name, h => by
    simp only [okS] at h
    exact .incl name (allowsB_sound h)
  | m, k, .block name body, h => by
    simp only [okS, Bool.and_eq_true, beq_iff_eq] at h
    exact .block name h.1 (okSs_sound _ _ body h.2)
  | m, k, .auto a body, h => by
    simp only [okS] at h
    split at h
    · rename_i m' hm
      rw [autoModeB_eq] at hm
      exact .auto hm (okSs_sound _ _ body h)
    · cases h
theorem okSs_sound {p : Prog} : ∀ (m : Mode) (k : Bool) (ss : List Stmt), okSs p m k ss = true → OkSs p m k ss
  | _, _, [], _ => .nil
  | m, k, s :: ss, h => by
    simp only [okSs, Bool.and_eq_true] at h
    exact .cons (okS_sound m k s h.1) (okSs_sound m k ss h.2)
end

theorem polyB_sound {p : Prog} {ss : List Stmt} (h : polyB p ss = true) : Poly p ss := by
  simp only [polyB, Bool.and_eq_true] at h
  exact ⟨okSs_sound _ _ ss h.1, okSs_sound _ _ ss h.2⟩

theorem tmplOkB_sound {p : Prog} {t : Tmpl} (h : tmplOkB p t = true) : TmplOk p t := by
  simp only [tmplOkB, Bool.and_eq_true, List.all_eq_true, bne_iff_ne, ne_eq] at h
  exact ⟨h.1.1.1, okSs_sound _ _ _ h.1.1.2, okSs_sound _ _ _ h.1.2, fun md hmd => polyB_sound (h.2 md hmd)⟩

/-- the decision procedure is sound: a program it accepts is in the fragment of the theorem -/
theorem progOkB_sound {p : Prog} (h : progOkB p = true) : ProgOk p := by
  simp only [progOkB, Bool.and_eq_true, List.all_eq_true, beq_iff_eq] at h
  refine ⟨fun t ht => tmplOkB_sound (h.1.1 t ht), h.1.2, fun t ht => ?_⟩
  have := h.2 t ht
  exact ⟨okSs_sound _ _ _ this.1, okSs_sound _ _ _ this.2⟩

end MJ.Safe
