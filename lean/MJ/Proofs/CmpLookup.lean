import MJ.Proofs.CmpEq
/-!
# The string-specialised lookup of a map agrees with the general lookup
-/
namespace MJ.CmpEq
open MJ MJ.Val MJ.Cmp MJ.CmpKey

/-- only the string with the same text compares `Equal` to a string -/
theorem cmpV_str_eq (s : List Nat) (k : V) : cmpV (.str s) k = .eq ↔ k = .str s := by
  constructor
  · intro h
    have hc := cmpV_eq_cls h
    cases k <;> simp only [cls, reduceCtorEq] at hc
    rename_i t
    rw [cmpV] at h
    simp only [rank_cls, cls, ne_eq, not_true_eq_false, if_false] at h
    rw [(cmpBytes_eq_iff s t).mp h]
  · intro h; subst h
    rw [cmpV]
    simp only [ne_eq, not_true_eq_false, if_false]
    exact (cmpBytes_eq_iff s s).mpr rfl

/-- only the string with the same text is `==` to a string -/
theorem eqV_str (m : Mode) (s : List Nat) (k : V) : eqV m (.str s) k = true ↔ k = .str s := by
  cases k <;> simp [eqV]
  exact eq_comm

theorem scanStr_eq_getB (s : List Nat) : ∀ ps : List (V × V), scanStr s ps = getB (.str s) ps
  | [] => rfl
  | (k', v') :: ps => by
    rw [getB]
    by_cases h : cmpV (.str s) k' = .eq
    · rw [if_pos h]
      have := (cmpV_str_eq s k').mp h
      subst this
      simp [scanStr]
    · rw [if_neg h, ← scanStr_eq_getB s ps]
      have hne : k' ≠ .str s := fun e => h ((cmpV_str_eq s k').mpr e)
      cases k' <;> simp only [scanStr]
      rename_i t
      rw [if_neg (fun e => hne (by rw [e]))]

theorem scanStr_eq_getI (single : Bool) (s : List Nat) : ∀ ps : List (V × V), scanStr s ps = getI single (.str s) ps
  | [] => rfl
  | (k', v') :: ps => by
    rw [getI]
    by_cases h : k' = .str s
    · subst h
      have : eqV .index (.str s) (.str s) = true := (eqV_str _ s _).mpr rfl
      simp [scanStr, this]
    · have he : eqV .index (.str s) k' = false := by
        cases hb : eqV .index (.str s) k'
        · rfl
        · exact absurd ((eqV_str _ s k').mp hb) h
      rw [he, Bool.and_false, if_neg (by decide), ← scanStr_eq_getI single s ps]
      cases k' <;> simp only [scanStr]
      rename_i t
      rw [if_neg (fun e => h (by rw [e]))]

/-- `get_value_by_str(s)` is `get_value(&Value::from(s))`, on both sides of the fast-path threshold
    and for both map implementations: attribute-style and subscript-style lookups cannot disagree -/
theorem getByStr_eq_getV (m : Mode) (ps : List (V × V)) (s : List Nat) :
    getByStr m ps s = getV m ps (.str s) := by
  unfold getByStr
  split
  · cases m
    · exact scanStr_eq_getB s ps
    · exact scanStr_eq_getI _ s ps
  · rfl

/-- a lookup answers "some key of the map is `==` the probe" (BTreeMap, keys within range, no NaN
    probe aside) — stated for string probes, where `==` is plain equality -/
theorem getB_str_isSome (s : List Nat) (ps : List (V × V)) :
    (getB (.str s) ps).isSome = true ↔ ∃ p ∈ ps, eqV .btree p.1 (.str s) = true := by
  induction ps with
  | nil => simp [getB]
  | cons q qs ih =>
    obtain ⟨k', v'⟩ := q
    rw [getB]
    by_cases h : cmpV (.str s) k' = .eq
    · rw [if_pos h]
      have := (cmpV_str_eq s k').mp h
      subst this
      simp only [Option.isSome_some, List.mem_cons, true_iff]
      exact ⟨(.str s, v'), Or.inl rfl, (eqV_str _ s _).mpr rfl⟩
    · rw [if_neg h, ih]
      have hne : k' ≠ .str s := fun e => h ((cmpV_str_eq s k').mpr e)
      constructor
      · intro ⟨p, hp, he⟩; exact ⟨p, List.mem_cons_of_mem _ hp, he⟩
      · intro ⟨p, hp, he⟩
        rcases List.mem_cons.mp hp with rfl | hp
        · exfalso
          apply hne
          cases k' <;> simp [eqV] at he
          rw [he]
        · exact ⟨p, hp, he⟩

end MJ.CmpEq
