import MJ.Proofs.ReloaderInv
/-!
# The ORDER invariant: every reload decision is taken under the `cached_env` lock

`lockedAt < checkedAt` for the holder and for every handed-out guard, and the intervals
`[lockedAt, checkedAt]` of different acquires are disjoint and ordered: nobody else locks (let alone
checks) between an acquire's lock and its decision.
-/
namespace MJ.Reloader

structure OrdInv (σ : State) : Prop where
  /-- the holder locked before `now`; once past `.locked` its decision was taken after its lock -/
  cur : ∀ c, σ.cur = some c → c.lockedAt < σ.now ∧
    (c.pc ≠ .locked → c.lockedAt < c.checkedAt ∧ c.checkedAt < σ.now)
  /-- every logged guard: lock, then check, then now -/
  lt : ∀ a ∈ σ.acqLog, a.lockedAt < a.checkedAt ∧ a.checkedAt < σ.now
  /-- every logged guard's decision precedes the holder's lock — except the holder's own record -/
  own : ∀ c, σ.cur = some c → ∀ a ∈ σ.acqLog,
    (c.pc = .holding ∧ a.lockedAt = c.lockedAt ∧ a.checkedAt = c.checkedAt) ∨ a.checkedAt < c.lockedAt
  /-- the holder has at most its own record, and only once it holds the guard -/
  pair : ∀ a ∈ σ.acqLog, ∀ b ∈ σ.acqLog, a.lockedAt < b.lockedAt → a.checkedAt < b.lockedAt

theorem ordInv_init (ths : List Thread) : OrdInv (init ths) := by
  constructor <;> simp [init]

set_option hygiene false in
macro "ord_pc_tac" : tactic => `(tactic| (
  obtain ⟨h1, h2, h3, h4⟩ := h
  have h1c := h1 c hc
  have h3c := h3 c hc
  unfold stepActive at hs
  simp only [hpc] at hs
  repeat' split at hs
  all_goals first
    | (cases hs; done)
    | (cases hs
       constructor <;> simp_all <;> grind)))

section
variable {σ σ' : State} {c : Active}

theorem ordInv_stepActive (h : OrdInv σ) (hc : σ.cur = some c)
    (hs : stepActive σ c = some σ') : OrdInv σ' := by
  refine stepActive_cases (c := c) (OrdInv σ') ?_ ?_ ?_ ?_ ?_ ?_ ?_ ?_ ?_ ?_ ?_ ?_ ?_ ?_ ?_ ?_ ?_
  all_goals (intros; rename_i hpc; ord_pc_tac)
end

theorem ordInv_step {σ σ' : State} {i : Nat} (h : OrdInv σ) (hs : step σ i = some σ') :
    OrdInv σ' := by
  obtain ⟨h1, h2, h3, h4⟩ := h
  unfold step at hs
  split at hs
  · split at hs
    · rename_i hc
      split at hs <;> cases hs <;> constructor <;> simp_all <;> grind
    · cases hs
  · split at hs
    · split at hs
      · rename_i c hc htid
        exact ordInv_stepActive ⟨h1, h2, h3, h4⟩ hc hs
      · cases hs
    · cases hs
  all_goals first
    | (cases hs; done)
    | (cases hs
       constructor <;> simp_all <;> grind)

theorem ordInv_of_reachable {σ : State} (h : Reachable σ) : OrdInv σ := by
  induction h with
  | init ths _ => exact ordInv_init ths
  | step i _ hs ih => exact ordInv_step ih hs

end MJ.Reloader
