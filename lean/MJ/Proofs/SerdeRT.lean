import MJ.Proofs.SerdeLemmas
import MJ.Proofs.Float
/-! The serde round trip `de s (ser s d) = ok d` by induction on the shape (C16). -/
namespace MJ.Serde

/-- a value is neither `none` nor `undefined` (what `deserialize_option` tests) -/
def NotNone (v : V) : Prop := v ≠ .none ∧ v ≠ .undefined

theorem serV_notNone (n : Str) (v : VShape) (p : D) : NotNone (serV n v p) ∨ serV n v p = .invalid := by
  cases v <;> cases p <;> simp [serV, NotNone]

theorem serVariant_notNone (names : List Str) (vs : List VShape) (i : Nat) (p : D) :
    NotNone (serVariant names vs i p) := by
  induction names generalizing vs i with
  | nil => simp [serVariant, NotNone]
  | cons m ms ih =>
    cases vs with
    | nil => simp [serVariant, NotNone]
    | cons w ws =>
      cases i with
      | zero =>
        simp only [serVariant]
        rcases serV_notNone m w p with h | h
        · exact h
        · rw [h]; simp [NotNone]
      | succ j => simp only [serVariant]; exact ih ws j

theorem ser_notNone (s : Shape) (d : D) (hs : mayBeNone s = false) (hw : wf s d = true) :
    NotNone (ser s d) := by
  fun_induction mayBeNone s generalizing d with
  | case1 => simp at hs
  | case2 => simp at hs
  | case3 => simp at hs
  | case4 => simp at hs
  | case5 s ih =>
    simp only [wf] at hw
    simp only [ser]
    exact ih d hs hw
  | case6 s h1 h2 h3 h4 h5 =>
    cases s <;> try (first | exact absurd rfl h1 | exact absurd rfl h2 | exact absurd rfl h4 | exact (h3 _ rfl).elim | exact (h5 _ rfl).elim)
    all_goals (cases d <;> simp [wf] at hw <;> try (simp [ser, NotNone]))
    all_goals first
      | exact serVariant_notNone _ _ _ _
      | skip

theorem de_opt_notNone (s : Shape) (v : V) (h : NotNone v) : de (.opt s) v = mapOk D.some (de s v) := by
  cases v <;> simp [NotNone] at h <;> simp [de]

/-- what the round trip of a variant payload amounts to -/
def VariantRT (n : Str) (v : VShape) (p : D) : Prop :=
  (v = .unit ∧ p = .unit ∧ serV n v p = .str n false) ∨
  (∃ x, serV n v p = .map [(.str n false, x)] ∧ deV v (some x) = .ok p)

mutual
theorem rt : ∀ (s : Shape) (d : D), wf s d = true → de s (ser s d) = .ok d
  | .bool, d, h => by cases d <;> simp [wf] at h; simp [ser, de]
  | .int u lo hi, d, h => by cases d <;> simp [wf] at h; simp [ser, de, h]
  | .f32, d, h => by
    cases d <;> simp [wf] at h
    simp [ser, de, narrow_widen _ h.1 h.2]
  | .f64, d, h => by cases d <;> simp [wf] at h; simp [ser, de]
  | .char, d, h => by cases d <;> simp [wf] at h; simp [ser, de]
  | .str, d, h => by cases d <;> simp [wf] at h; simp [ser, de]
  | .bytes, d, h => by cases d <;> simp [wf] at h; simp [ser, de]
  | .unit, d, h => by cases d <;> simp [wf] at h; simp [ser, de]
  | .ustruct, d, h => by cases d <;> simp [wf] at h; simp [ser, de]
  | .value, d, h => by cases d <;> simp [wf] at h
  | .opt s, d, h => by
    cases d <;> simp [wf] at h
    · simp [ser, de]
    · rename_i d
      have ih := rt s d h.2
      have nn := ser_notNone s d h.1 h.2
      simp only [ser]
      rw [de_opt_notNone _ _ nn, ih]
      rfl
  | .nstruct s, d, h => by
    simp only [wf] at h
    simp only [ser, de]
    exact rt s d h
  | .seq s, d, h => by
    cases d <;> simp [wf] at h
    rename_i ds
    simp only [ser, de]
    rw [mapMR_map_ok (de s) (ser s) ds (fun b hb => rt s b (h b hb))]
    rfl
  | .map k w, d, h => by
    cases d <;> simp [wf] at h
    rename_i kvs
    obtain ⟨hall, hdist⟩ := h
    simp only [ser]
    have hkeys : (kvs.map fun p => (ser k p.1, ser w p.2)).map Prod.fst = kvs.map fun p => ser k p.1 := by
      simp [List.map_map, Function.comp_def]
    rw [buildMap_distinct _ (by rw [hkeys]; exact hdist)]
    simp only [de]
    rw [mapMR_map_ok (fun p => pairR (de k p.1) (de w p.2)) (fun p => (ser k p.1, ser w p.2)) kvs
      (fun b hb => by
        have hb' := hall b.1 b.2 hb
        simp [rt k b.1 hb'.1, rt w b.2 hb'.2])]
    rfl
  | .tup ss, d, h => by
    cases d <;> simp [wf] at h
    rename_i ds
    simp [ser, de, rtList ss ds h]
  | .tstruct ss, d, h => by
    cases d <;> simp [wf] at h
    rename_i ds
    simp [ser, de, rtList ss ds h]
  | .struct names ss, d, h => by
    cases d <;> simp [wf] at h
    rename_i ds
    have := rtFields ss names ds [] h.1.1 h.1.2 h.2 (by simp [lookupStr])
    simp only [List.nil_append] at this
    simp [ser, de, allStrKeys_zipKeys, this, ignoredOK_zipKeys names names _ (fun n hn => hn)]
  | .enum names vs, d, h => by
    cases d <;> simp [wf] at h
    rename_i i p
    obtain ⟨⟨hnd, hlen⟩, hwv⟩ := h
    obtain ⟨v, hv, hwfv⟩ := wfVariant_getElem? vs i p hwv
    have hi : i < names.length := by
      rw [hlen]
      exact (List.getElem?_eq_some_iff.mp hv).1
    have hn : names[i]? = some names[i] := List.getElem?_eq_getElem hi
    have hfind := findName_of_getElem? names i names[i] hnd hn
    simp only [ser]
    rw [serVariant_of_getElem? names vs i p names[i] v hn hv]
    rcases rtVs vs i v hv names[i] p hwfv with ⟨hvu, hpu, hser⟩ | ⟨x, hser, hde⟩
    · rw [hser]
      simp only [de, hfind]
      rw [deVariant_of_getElem? vs i i none v hv, hvu, hpu]
      simp [deV]
    · rw [hser]
      simp only [de, hfind]
      rw [deVariant_of_getElem? vs i i (some x) v hv, hde]
      rfl
theorem rtList : ∀ (ss : List Shape) (ds : List D), wfList ss ds = true → deList ss (serList ss ds) = .ok ds
  | [], ds, h => by cases ds <;> simp [wfList] at h; simp [deList]
  | s :: ss, ds, h => by
    cases ds with
    | nil => simp [wfList] at h
    | cons d ds =>
      simp [wfList] at h
      simp [serList, deList, rt s d h.1, rtList ss ds h.2]
theorem rtFields : ∀ (ss : List Shape) (names : List Str) (ds : List D) (pre : List (V × V)),
    nodupStr names = true → names.length = ss.length → wfList ss ds = true →
    (∀ n ∈ names, lookupStr n pre = none) →
    deFields names ss (pre ++ zipKeys names (serList ss ds)) = .ok ds
  | [], names, ds, pre, _, hlen, h, _ => by
    cases ds <;> simp [wfList] at h
    cases names <;> simp at hlen
    simp [deFields]
  | s :: ss, names, ds, pre, hnd, hlen, h, hpre => by
    cases ds with
    | nil => simp [wfList] at h
    | cons d ds =>
      cases names with
      | nil => simp at hlen
      | cons n ns =>
        simp [wfList] at h
        simp only [nodupStr, Bool.and_eq_true, Bool.not_eq_true'] at hnd
        simp only [List.length_cons, Nat.add_right_cancel_iff] at hlen
        simp only [serList, zipKeys, deFields]
        have hl : lookupStr n (pre ++ (V.str n false, ser s d) :: zipKeys ns (serList ss ds)) = some (ser s d) := by
          rw [lookupStr_append_none n pre _ (hpre n (by simp))]
          simp [lookupStr]
        rw [hl]
        have htail := rtFields ss ns ds (pre ++ [(V.str n false, ser s d)]) hnd.2 hlen h.2
          (fun m hm => by
            apply lookupStr_snoc_ne
            · exact hpre m (by simp [hm])
            · intro heq
              subst heq
              have := hnd.1
              simp [hm] at this)
        simp only [List.append_assoc, List.singleton_append] at htail
        simp [rt s d h.1, htail]
theorem rtVs : ∀ (vs : List VShape) (i : Nat) (v : VShape), vs[i]? = some v →
    ∀ (n : Str) (p : D), wfV v p = true → VariantRT n v p
  | [], i, v, h => by simp at h
  | w :: ws, 0, v, h => by
    simp at h
    subst h
    exact rtV w
  | w :: ws, i+1, v, h => rtVs ws i v (by simpa using h)
theorem rtV : ∀ (v : VShape) (n : Str) (p : D), wfV v p = true → VariantRT n v p
  | .unit, n, p, h => by
    cases p <;> simp [wfV] at h
    exact Or.inl ⟨rfl, rfl, by simp [serV]⟩
  | .newtype s, n, p, h => by
    simp only [wfV] at h
    exact Or.inr ⟨ser s p, by simp [serV], by simp [deV, rt s p h]⟩
  | .tuple ss, n, p, h => by
    cases p <;> simp [wfV] at h
    rename_i ds
    exact Or.inr ⟨.seq false (serList ss ds), by simp [serV], by simp [deV, rtList ss ds h, serList_length ss ds h]⟩
  | .struct names ss, n, p, h => by
    cases p <;> simp [wfV] at h
    rename_i ds
    have := rtFields ss names ds [] h.1.1 h.1.2 h.2 (by simp [lookupStr])
    simp only [List.nil_append] at this
    exact Or.inr ⟨.map (zipKeys names (serList ss ds)), by simp [serV], by simp [deV, allStrKeys_zipKeys, this, ignoredOK_zipKeys names names _ (fun n hn => hn)]⟩
end

end MJ.Serde
