import MJ.Model.DepthAmb
import MJ.Proofs.Depth
/-! Helper lemmas for the session-4 theorems of C11 (`MJ/Model/DepthAmb.lean`). -/
namespace MJ.Depth
open MJ.Gen

/-! ## cost expressions -/

theorem evalTerm_closed (amb amb' : Amb) (d : Nat) (t : Term) (h : termClosed t = true) :
    evalTerm amb d t = evalTerm amb' d t := by
  unfold termClosed at h
  unfold evalTerm
  by_cases h1 : t.1 = "const" ∨ t.1 = "frame"
  · simp [h1]
  · by_cases h2 : t.1 = "caller-depth"
    · simp [h2]
    · exfalso
      simp only [Bool.or_eq_true, decide_eq_true_eq] at h
      rcases h with (h | h) | h
      · exact h1 (Or.inl h)
      · exact h1 (Or.inr h)
      · exact h2 h

theorem evalTerms_closed (amb amb' : Amb) (d : Nat) :
    ∀ ts : List Term, (∀ t ∈ ts, termClosed t = true) → evalTerms amb d ts = evalTerms amb' d ts := by
  intro ts
  induction ts with
  | nil => intro _; rfl
  | cons t ts ih =>
    intro h
    simp only [evalTerms]
    rw [evalTerm_closed amb amb' d t (h t (by simp)), ih (fun x hx => h x (by simp [hx]))]

/-- every term of the table is closed → so is every term `termsOf` selects -/
theorem termsOf_closed (hall : ∀ r ∈ costSites, ∀ t ∈ r.2.2.2.2.1, termClosed t = true)
    (fn op : String) : ∀ t ∈ termsOf fn op, termClosed t = true := by
  intro t ht
  unfold termsOf at ht
  rw [List.mem_flatMap] at ht
  obtain ⟨r, hr, htr⟩ := ht
  exact hall r (List.mem_filter.1 hr).1 t htr

/-- if every term of the regenerated table is closed, the re-entry computed from the table is the
    same in every ambient state — whatever the constants are -/
theorem enterA_indep_of_closed (hall : ∀ r ∈ costSites, ∀ t ∈ r.2.2.2.2.1, termClosed t = true)
    (amb amb' : Amb) (s : St) (k : Kind) : enterA amb s k = enterA amb' s k := by
  have h1 : framesOf amb s k = framesOf amb' s k :=
    evalTerms_closed amb amb' s.cur.depth _ (termsOf_closed hall (fnOf k) "push_frame")
  have h2 : incrOf amb s k = incrOf amb' s k :=
    evalTerms_closed amb amb' s.cur.depth _ (termsOf_closed hall (fnOf k) "incr_depth")
  unfold enterA
  rw [h1, h2]

theorem costSites_closed : ∀ r ∈ costSites, ∀ t ∈ r.2.2.2.2.1, termClosed t = true := by decide

theorem termsOf_macro_push : termsOf "eval_macro" "push_frame" = [("frame", "1", 1)] := by decide
theorem termsOf_macro_incr : termsOf "eval_macro" "incr_depth" =
    [("caller-depth", "state.ctx.depth()", 0), ("const", "MACRO_RECURSION_COST", macroRecursionCost)] := by decide
theorem termsOf_include_push : termsOf "perform_include" "push_frame" = [] := by decide
theorem termsOf_include_incr : termsOf "perform_include" "incr_depth" =
    [("const", "INCLUDE_RECURSION_COST", includeRecursionCost)] := by decide
theorem termsOf_include_decr : termsOf "perform_include" "decr_depth" =
    [("const", "INCLUDE_RECURSION_COST", includeRecursionCost)] := by decide
theorem termsOf_block_push : termsOf "call_block" "push_frame" = [("frame", "1", 1)] := by decide
theorem termsOf_block_incr : termsOf "call_block" "incr_depth" = [] := by decide
theorem termsOf_super_push : termsOf "perform_super" "push_frame" = [("frame", "1", 1)] := by decide
theorem termsOf_super_incr : termsOf "perform_super" "incr_depth" = [] := by decide

theorem pushFrames_one (L : Nat) (c : Ctx) : pushFrames L 1 c = c.pushFrame L := by
  show (match c.pushFrame L with | none => none | some c' => pushFrames L 0 c') = _
  cases c.pushFrame L <;> rfl

theorem evalTerms_frame (amb : Amb) (d : Nat) : evalTerms amb d [("frame", "1", 1)] = 1 := by
  simp [evalTerms, evalTerm]

theorem evalTerms_macro (amb : Amb) (d : Nat) :
    evalTerms amb d [("caller-depth", "state.ctx.depth()", 0), ("const", "MACRO_RECURSION_COST", macroRecursionCost)] =
      d + macroRecursionCost := by
  simp [evalTerms, evalTerm]

theorem evalTerms_include (amb : Amb) (d : Nat) :
    evalTerms amb d [("const", "INCLUDE_RECURSION_COST", includeRecursionCost)] = includeRecursionCost := by
  simp [evalTerms, evalTerm]

/-- the re-entry computed from the regenerated cost expressions is the model's `enter` -/
theorem enterA_eq_enter (amb : Amb) (s : St) (k : Kind) : enterA amb s k = enter s k := by
  have hmac : ∀ k', fnOf k' = "eval_macro" → startCtx s k' = ⟨0, 1⟩ → (∀ f, baseFor s f k' = 1 + f) →
      enterA amb s k' = enterMacro s k' := by
    intro k' hfn hst hb
    have hf : framesOf amb s k' = 1 := by
      simp only [framesOf, hfn, termsOf_macro_push, evalTerms_frame]
    have hi : incrOf amb s k' = s.cur.depth + macroRecursionCost := by
      simp only [incrOf, hfn, termsOf_macro_incr, evalTerms_macro]
    have he : (termsOf (fnOf k') "incr_depth").isEmpty = false := by
      rw [hfn, termsOf_macro_incr]; rfl
    unfold enterA enterMacro
    rw [hf, hi, he, pushFrames_one, hst, hb]
    dsimp only
    cases h1 : Ctx.pushFrame s.limit ⟨0, 1⟩ with
    | none => simp
    | some c1 =>
      simp only [Bool.false_eq_true, if_false]
      cases h2 : Ctx.incrDepth s.limit c1 (s.cur.depth + macroRecursionCost) <;> rfl
  cases k with
  | macroCall => exact hmac _ rfl rfl (fun _ => rfl)
  | callerCall => exact hmac _ rfl rfl (fun _ => rfl)
  | includeTpl =>
    have hf : framesOf amb s .includeTpl = 0 := by
      simp only [framesOf, fnOf, termsOf_include_push, evalTerms]
    have hi : incrOf amb s .includeTpl = includeRecursionCost := by
      simp only [incrOf, fnOf, termsOf_include_incr, evalTerms_include]
    have he : (termsOf (fnOf .includeTpl) "incr_depth").isEmpty = false := by
      simp only [fnOf]; rw [termsOf_include_incr]; rfl
    unfold enterA
    rw [hf, hi, he]
    simp only [pushFrames, startCtx, baseFor, enter]
    cases h1 : Ctx.incrDepth s.limit s.cur includeRecursionCost <;> simp
  | blockCall =>
    have hf : framesOf amb s .blockCall = 1 := by
      simp only [framesOf, fnOf, termsOf_block_push, evalTerms_frame]
    have he : (termsOf (fnOf .blockCall) "incr_depth").isEmpty = true := by
      simp only [fnOf]; rw [termsOf_block_incr]; rfl
    unfold enterA
    rw [hf, he, pushFrames_one]
    simp only [startCtx, baseFor, enter]
    cases h1 : Ctx.pushFrame s.limit s.cur <;> simp
  | superCall =>
    have hf : framesOf amb s .superCall = 1 := by
      simp only [framesOf, fnOf, termsOf_super_push, evalTerms_frame]
    have he : (termsOf (fnOf .superCall) "incr_depth").isEmpty = true := by
      simp only [fnOf]; rw [termsOf_super_incr]; rfl
    unfold enterA
    rw [hf, he, pushFrames_one]
    simp only [startCtx, baseFor, enter]
    cases h1 : Ctx.pushFrame s.limit s.cur <;> simp

/-! ## the empty state (`Template::new_state`) -/

/-- `chainOK` for a run that starts without a root frame and without a root activation -/
def chainOK0 (bound : Nat) : Ctx → List Act → Prop
  | cur, [] => cur.outer = 0
  | cur, a :: rest =>
    chainOK0 bound a.old rest ∧ a.old.depth ≤ bound ∧ a.base ≤ cur.frames ∧
      kindOK a.kind cur a.old a.base

def Inv0 (s : St) : Prop := chainOK0 s.limit s.cur s.acts ∧ s.cur.depth ≤ s.limit

theorem inv0_initEmpty (L : Nat) : Inv0 (initEmpty L) := ⟨rfl, Nat.zero_le _⟩

theorem chainOK0_frames {b : Nat} {cur : Ctx} {acts : List Act} {f : Nat}
    (h : chainOK0 b cur acts) (hf : acts ≠ [] → baseOf acts ≤ f) :
    chainOK0 b { cur with frames := f } acts := by
  cases acts with
  | nil => exact h
  | cons a rest =>
    obtain ⟨h1, h2, _, h4⟩ := h
    refine ⟨h1, h2, hf (by simp), ?_⟩
    unfold kindOK at h4 ⊢
    cases hk : a.kind <;> simp only [hk] at h4 ⊢ <;> exact h4

theorem leave_restores0 {s : St} {a : Act} {rest : List Act} (hi : Inv0 s)
    (ha : s.acts = a :: rest) : leave s = .ok { s with cur := a.old, acts := rest } := by
  obtain ⟨hc, _⟩ := hi
  rw [ha] at hc
  obtain ⟨_, _, hb, hk⟩ := hc
  unfold leave
  rw [ha]
  simp only
  obtain ⟨kind, old, base⟩ := a
  obtain ⟨limit, cur, acts⟩ := s
  obtain ⟨co, cf⟩ := cur
  obtain ⟨oo, ofr⟩ := old
  simp only at hb hk ha ⊢
  cases kind <;> simp only [kindOK, Ctx.depth] at hk <;> obtain ⟨h1, h2⟩ := hk <;> subst h1 h2
  · rfl
  · rfl
  · have h3 : ¬ cf < base := by omega
    simp [restoreStackDepth, h3]
  · have h3 : ¬ cf < ofr := by omega
    simp [restoreStackDepth, h3]
  · have h3 : ¬ cf < ofr + 1 := by omega
    simp [restoreStackDepth, h3]

theorem inv0_step {s s' : St} {e : Ev} (hi : Inv0 s) (h : step s e = .ok s') :
    Inv0 s' ∧ s'.limit = s.limit := by
  obtain ⟨hc, hd⟩ := hi
  cases e with
  | enter k =>
    simp only [step] at h
    obtain ⟨hl, _, hle, b, hacts, hb, hk⟩ := enter_ok h
    refine ⟨⟨?_, ?_⟩, hl⟩
    · rw [hacts, hl]
      exact ⟨hc, hd, hb, hk⟩
    · rw [hl]; exact hle
  | leave =>
    simp only [step] at h
    cases hacts : s.acts with
    | nil => simp [leave, hacts] at h
    | cons a rest =>
      rw [leave_restores0 ⟨hc, hd⟩ hacts] at h
      injection h with h
      subst h
      rw [hacts] at hc
      exact ⟨⟨hc.1, hc.2.1⟩, rfl⟩
  | push =>
    simp only [step] at h
    split at h
    · cases h
    · rename_i c hp
      injection h with h
      subst h
      obtain ⟨rfl, hle⟩ := pushFrame_some hp
      refine ⟨⟨?_, hle⟩, rfl⟩
      apply chainOK0_frames hc
      intro hne
      cases hacts : s.acts with
      | nil => exact absurd hacts hne
      | cons a rest =>
        rw [hacts] at hc
        have := hc.2.2.1
        simp only [baseOf]
        omega
  | pop =>
    simp only [step] at h
    split at h
    · rename_i hb
      injection h with h
      subst h
      refine ⟨⟨?_, ?_⟩, rfl⟩
      · apply chainOK0_frames hc
        intro _
        unfold base at hb
        omega
      · simp only [Ctx.depth] at hd ⊢; omega
    · cases h
  | missingInclude =>
    simp only [step] at h
    injection h with h
    subst h
    exact ⟨⟨hc, hd⟩, rfl⟩

/-- without a root frame the whole depth is the sum of the edge costs (and the frames inside the
    activations): `wsum ≤ depth` -/
theorem wsum_le_depth0 {b : Nat} : ∀ {acts : List Act} {cur : Ctx},
    chainOK0 b cur acts → wsum acts ≤ cur.depth := by
  intro acts
  induction acts with
  | nil => intro cur _; simp [wsum]
  | cons a rest ih =>
    intro cur h
    obtain ⟨h1, _, hb, hk⟩ := h
    have := ih h1
    simp only [wsum, Ctx.depth] at this ⊢
    cases hkind : a.kind <;> simp only [kindOK, hkind, Ctx.depth] at hk <;> simp only [cost] <;> omega

theorem step_ne_panic0 {s : St} (hi : Inv0 s) (e : Ev) : step s e ≠ .panic := by
  cases e with
  | enter k =>
    simp only [step]
    rcases enter_ok_or_error s k with ⟨s', h⟩ | h <;> rw [h] <;> simp
  | leave =>
    simp only [step]
    cases hacts : s.acts with
    | nil => simp [leave, hacts]
    | cons a rest => rw [leave_restores0 hi hacts]; simp
  | push => simp only [step]; split <;> simp
  | pop => simp only [step]; split <;> simp
  | missingInclude => simp [step]

/-- a run from a state with `Inv0`: ends in a state with `Inv0` and the same limit, never panics -/
theorem run_inv0 : ∀ (evs : List Ev) {s : St}, Inv0 s →
    run s evs ≠ .panic ∧ ∀ s', run s evs = .ok s' → Inv0 s' ∧ s'.limit = s.limit := by
  intro evs
  induction evs with
  | nil =>
    intro s hi
    refine ⟨by simp [run], ?_⟩
    intro s' h
    simp only [run] at h
    injection h with h
    subst h
    exact ⟨hi, rfl⟩
  | cons e es ih =>
    intro s hi
    simp only [run]
    cases hs : step s e with
    | ok s1 =>
      obtain ⟨hi1, hl1⟩ := inv0_step hi hs
      obtain ⟨hp, hok⟩ := ih hi1
      refine ⟨hp, ?_⟩
      intro s' h
      obtain ⟨h1, h2⟩ := hok s' h
      exact ⟨h1, h2.trans hl1⟩
    | recursionError => exact ⟨by simp, by intro s' h; cases h⟩
    | panic => exact absurd hs (step_ne_panic0 hi e)
    | stuck => exact ⟨by simp, by intro s' h; cases h⟩

theorem length_le_wsum : ∀ acts : List Act, acts.length ≤ wsum acts := by
  intro acts
  induction acts with
  | nil => simp [wsum]
  | cons a rest ih =>
    have : 1 ≤ cost a.kind := by
      cases a.kind <;> simp only [cost] <;> first | omega | decide
    simp only [wsum, List.length_cons]
    omega

/-! ## nested renders -/

/-- every render on the stack satisfies the invariant of a rooted render -/
def NestInv (n : Nest) : Prop := ∀ s ∈ n, Inv s

theorem nestInv_step {n n' : Nest} {e : EvN} (hi : NestInv n) (h : stepN n e = .ok n') :
    NestInv n' := by
  cases n with
  | nil => cases e <;> simp [stepN] at h
  | cons s rest =>
    cases e with
    | ev e =>
      simp only [stepN] at h
      cases hs : step s e with
      | ok s1 =>
        rw [hs] at h
        injection h with h
        subst h
        intro x hx
        simp only [List.mem_cons] at hx
        rcases hx with rfl | hx
        · exact (inv_step (hi s (by simp)) hs).1
        · exact hi x (by simp [hx])
      | recursionError => rw [hs] at h; cases h
      | panic => rw [hs] at h; cases h
      | stuck => rw [hs] at h; cases h
    | fresh l =>
      simp only [stepN] at h
      injection h with h
      subst h
      intro x hx
      simp only [List.mem_cons] at hx
      rcases hx with rfl | hx
      · exact inv_init l
      · exact hi x (by simpa using hx)
    | finish =>
      simp only [stepN] at h
      split at h
      · cases h
      · injection h with h
        subst h
        intro x hx
        exact hi x (by simp [hx])

theorem stepN_ne_panic {n : Nest} (hi : NestInv n) (e : EvN) : stepN n e ≠ .panic := by
  cases n with
  | nil => cases e <;> simp [stepN]
  | cons s rest =>
    cases e with
    | ev e =>
      simp only [stepN]
      cases hs : step s e with
      | ok s1 => simp
      | recursionError => simp
      | panic => exact absurd hs (step_ne_panic (hi s (by simp)) e)
      | stuck => simp
    | fresh l => simp [stepN]
    | finish => simp only [stepN]; split <;> simp

/-- the limits of the renders on the stack are bounded by `M` -/
def limitsLE (M : Nat) (n : Nest) : Prop := ∀ s ∈ n, s.limit ≤ M

/-- the fresh limits a trace introduces are bounded by `M` -/
def freshLE (M : Nat) : List EvN → Prop
  | [] => True
  | .fresh l :: es => l ≤ M ∧ freshLE M es
  | _ :: es => freshLE M es

theorem limitsLE_step {M : Nat} {n n' : Nest} {e : EvN} (hn : NestInv n) (hl : limitsLE M n)
    (he : freshLE M [e]) (h : stepN n e = .ok n') : limitsLE M n' := by
  cases n with
  | nil => cases e <;> simp [stepN] at h
  | cons s rest =>
    cases e with
    | ev e =>
      simp only [stepN] at h
      cases hs : step s e with
      | ok s1 =>
        rw [hs] at h
        injection h with h
        subst h
        intro x hx
        simp only [List.mem_cons] at hx
        rcases hx with rfl | hx
        · rw [(inv_step (hn s (by simp)) hs).2]; exact hl s (by simp)
        · exact hl x (by simp [hx])
      | recursionError => rw [hs] at h; cases h
      | panic => rw [hs] at h; cases h
      | stuck => rw [hs] at h; cases h
    | fresh l =>
      simp only [stepN] at h
      injection h with h
      subst h
      intro x hx
      simp only [List.mem_cons] at hx
      rcases hx with rfl | hx
      · exact he.1
      · exact hl x (by simpa using hx)
    | finish =>
      simp only [stepN] at h
      split at h
      · cases h
      · injection h with h
        subst h
        intro x hx
        exact hl x (by simp [hx])

theorem freshLE_cons {M : Nat} {e : EvN} {es : List EvN} (h : freshLE M (e :: es)) :
    freshLE M [e] ∧ freshLE M es := by
  cases e <;> simp_all [freshLE]

theorem runN_inv {M : Nat} : ∀ (evs : List EvN) {n : Nest}, NestInv n → limitsLE M n → freshLE M evs →
    runN n evs ≠ .panic ∧ ∀ n', runN n evs = .ok n' → NestInv n' ∧ limitsLE M n' := by
  intro evs
  induction evs with
  | nil =>
    intro n hi hl _
    refine ⟨by simp [runN], ?_⟩
    intro n' h
    simp only [runN] at h
    injection h with h
    subst h
    exact ⟨hi, hl⟩
  | cons e es ih =>
    intro n hi hl hf
    obtain ⟨hf1, hf2⟩ := freshLE_cons hf
    simp only [runN]
    cases hs : stepN n e with
    | ok n1 => exact ih (nestInv_step hi hs) (limitsLE_step hi hl hf1 hs) hf2
    | recursionError => exact ⟨by simp, by intro _ h; cases h⟩
    | panic => exact absurd hs (stepN_ne_panic hi e)
    | stuck => exact ⟨by simp, by intro _ h; cases h⟩

/-- the weighted nesting of every render on the stack is below its own limit, so the total is at
    most (number of renders) × (largest limit) -/
theorem wsumN_le {M : Nat} : ∀ n : Nest, NestInv n → limitsLE M n →
    wsumN n ≤ n.length * M ∧ nativeDepthN n ≤ n.length * max M 1 := by
  intro n
  induction n with
  | nil => intro _ _; simp [wsumN, nativeDepthN]
  | cons s rest ih =>
    intro hi hl
    obtain ⟨h1, h2⟩ := ih (fun x hx => hi x (by simp [hx])) (fun x hx => hl x (by simp [hx]))
    obtain ⟨hc, hd⟩ := hi s (by simp)
    have hw := wsum_lt_depth hc
    have hlim := hl s (by simp)
    have hlen := length_le_wsum s.acts
    simp only [wsumN, nativeDepthN, nativeDepth, List.length_cons, Nat.succ_mul]
    constructor <;> omega

theorem stackBytesN_le (bytes : Kind → Nat) (ρ : Nat) (hρ : ∀ k, bytes k ≤ ρ * cost k) :
    ∀ n : Nest, stackBytesN bytes n ≤ ρ * wsumN n := by
  have key : ∀ acts : List Act, stackBytes bytes acts ≤ ρ * wsum acts := by
    intro acts
    induction acts with
    | nil => simp [stackBytes]
    | cons a rest ih =>
      have := hρ a.kind
      simp only [stackBytes, wsum, Nat.mul_add]
      omega
  intro n
  induction n with
  | nil => simp [stackBytesN]
  | cons s rest ih =>
    have := key s.acts
    simp only [stackBytesN, wsumN, Nat.mul_add]
    omega

end MJ.Depth
