import MJ.Model.DepthHop
import MJ.Proofs.Depth
/-!
# Rust callbacks are transparent for the depth accounting (helper lemmas for C11)

`runH` on a mixed trace and `run` on its depth events agree (`runH_erase`); the callback frames on
the native stack are bounded by `H × (activations + 1)` when no activation nests more than `H`
callbacks (`totalHops_le`).
-/
namespace MJ.Depth

/-- one saved callback count per pending activation -/
def InvH (s : StH) : Prop := s.saved.length = s.st.acts.length

theorem invH_init (L : Nat) : InvH (initH L) := rfl

theorem enter_acts_length {s s' : St} {k : Kind} (h : step s (.enter k) = .ok s') :
    s'.acts.length = s.acts.length + 1 := by
  obtain ⟨_, _, _, b, hacts, _, _⟩ := enter_ok (show enter s k = .ok s' from h)
  simp [hacts]

theorem leave_acts_length {s s' : St} (h : step s .leave = .ok s') :
    s'.acts.length + 1 = s.acts.length := by
  simp only [step, leave] at h
  cases hacts : s.acts with
  | nil => rw [hacts] at h; cases h
  | cons a rest =>
    rw [hacts] at h
    simp only at h
    cases hk : a.kind <;> simp only [hk] at h
    · injection h with h; subst h; simp
    · injection h with h; subst h; simp
    · split at h
      · cases h
      · split at h
        · cases h
        · injection h with h; subst h; simp
    · split at h
      · cases h
      · injection h with h; subst h; simp
    · split at h
      · cases h
      · split at h
        · cases h
        · injection h with h; subst h; simp

theorem other_acts_eq {s s' : St} {e : Ev} (h : step s e = .ok s')
    (h1 : ∀ k, e ≠ .enter k) (h2 : e ≠ .leave) : s'.acts = s.acts := by
  cases e with
  | enter k => exact absurd rfl (h1 k)
  | leave => exact absurd rfl h2
  | push =>
    simp only [step] at h
    split at h
    · cases h
    · injection h with h; subst h; rfl
  | pop =>
    simp only [step] at h
    split at h
    · injection h with h; subst h; rfl
    · cases h
  | missingInclude =>
    simp only [step] at h
    injection h with h; subst h; rfl

/-- a depth event of a mixed trace has the outcome the accounting model gives it -/
theorem stepH_ev (s : StH) (hi : InvH s) (e : Ev) : (stepH s (.ev e)).toOut = step s.st e := by
  cases e with
  | enter k =>
    simp only [stepH]
    cases h : step s.st (.enter k) <;> rfl
  | leave =>
    simp only [stepH]
    cases hs : s.saved with
    | nil =>
      have : s.st.acts = [] := by
        have := hi; unfold InvH at this; rw [hs] at this
        exact List.length_eq_zero_iff.1 this.symm
      simp [OutH.toOut, step, leave, this]
    | cons h rest =>
      simp only
      cases h' : step s.st .leave <;> rfl
  | push =>
    simp only [stepH]
    cases h : step s.st .push <;> rfl
  | pop =>
    simp only [stepH]
    cases h : step s.st .pop <;> rfl
  | missingInclude =>
    simp only [stepH]
    cases h : step s.st .missingInclude <;> rfl

theorem stepH_inv {s s' : StH} {e : EvH} (hi : InvH s) (h : stepH s e = .ok s') : InvH s' := by
  unfold InvH at hi ⊢
  cases e with
  | hop => simp only [stepH] at h; injection h with h; subst h; exact hi
  | unhop =>
    simp only [stepH] at h
    split at h
    · cases h
    · injection h with h; subst h; exact hi
  | ev e =>
    cases e with
    | enter k =>
      simp only [stepH] at h
      cases hs : step s.st (.enter k) with
      | ok st' =>
        rw [hs] at h; injection h with h; subst h
        simp [enter_acts_length hs, hi]
      | recursionError => rw [hs] at h; cases h
      | panic => rw [hs] at h; cases h
      | stuck => rw [hs] at h; cases h
    | leave =>
      simp only [stepH] at h
      cases hsv : s.saved with
      | nil => rw [hsv] at h; cases h
      | cons x rest =>
        rw [hsv] at h
        simp only at h
        cases hs : step s.st .leave with
        | ok st' =>
          rw [hs] at h; injection h with h; subst h
          have := leave_acts_length hs
          rw [hsv] at hi
          simp only [List.length_cons] at hi
          simp only
          omega
        | recursionError => rw [hs] at h; cases h
        | panic => rw [hs] at h; cases h
        | stuck => rw [hs] at h; cases h
    | push =>
      simp only [stepH] at h
      cases hs : step s.st .push with
      | ok st' =>
        rw [hs] at h; injection h with h; subst h
        simp only
        rw [other_acts_eq hs (by intro k; simp) (by simp)]; exact hi
      | recursionError => rw [hs] at h; cases h
      | panic => rw [hs] at h; cases h
      | stuck => rw [hs] at h; cases h
    | pop =>
      simp only [stepH] at h
      cases hs : step s.st .pop with
      | ok st' =>
        rw [hs] at h; injection h with h; subst h
        simp only
        rw [other_acts_eq hs (by intro k; simp) (by simp)]; exact hi
      | recursionError => rw [hs] at h; cases h
      | panic => rw [hs] at h; cases h
      | stuck => rw [hs] at h; cases h
    | missingInclude =>
      simp only [stepH] at h
      cases hs : step s.st .missingInclude with
      | ok st' =>
        rw [hs] at h; injection h with h; subst h
        simp only
        rw [other_acts_eq hs (by intro k; simp) (by simp)]; exact hi
      | recursionError => rw [hs] at h; cases h
      | panic => rw [hs] at h; cases h
      | stuck => rw [hs] at h; cases h

/-- a callback entering or returning leaves the accounting state untouched -/
theorem stepH_hop_st {s s' : StH} {e : EvH} (he : e = .hop ∨ e = .unhop)
    (h : stepH s e = .ok s') : s'.st = s.st ∧ s'.saved = s.saved := by
  rcases he with rfl | rfl
  · simp only [stepH] at h; injection h with h; subst h; exact ⟨rfl, rfl⟩
  · simp only [stepH] at h
    split at h
    · cases h
    · injection h with h; subst h; exact ⟨rfl, rfl⟩

/-- **transparency**: unless a callback "returns" that was never entered (not a well-formed
    trace), a mixed trace ends exactly as its depth events end in the accounting model — same
    state, same error, no panic that the model does not have -/
theorem runH_erase : ∀ (evs : List EvH) (s : StH), InvH s →
    runH s evs = .stuck ∨ (runH s evs).toOut = run s.st (erase evs) := by
  intro evs
  induction evs with
  | nil => intro s _; right; rfl
  | cons e es ih =>
    intro s hi
    simp only [runH]
    cases hs : stepH s e with
    | ok s' =>
      simp only
      have hi' := stepH_inv hi hs
      cases e with
      | hop =>
        obtain ⟨h1, _⟩ := stepH_hop_st (Or.inl rfl) hs
        simp only [erase]; rw [← h1]; exact ih s' hi'
      | unhop =>
        obtain ⟨h1, _⟩ := stepH_hop_st (Or.inr rfl) hs
        simp only [erase]; rw [← h1]; exact ih s' hi'
      | ev e' =>
        have h1 := stepH_ev s hi e'
        rw [hs] at h1
        simp only [OutH.toOut] at h1
        simp only [erase, run, ← h1]
        exact ih s' hi'
    | recursionError =>
      right
      cases e with
      | hop => simp [stepH] at hs
      | unhop => simp only [stepH] at hs; split at hs <;> cases hs
      | ev e' =>
        have h1 := stepH_ev s hi e'
        rw [hs] at h1
        simp only [OutH.toOut] at h1
        simp only [erase, run, ← h1, OutH.toOut]
    | panic =>
      right
      cases e with
      | hop => simp [stepH] at hs
      | unhop => simp only [stepH] at hs; split at hs <;> cases hs
      | ev e' =>
        have h1 := stepH_ev s hi e'
        rw [hs] at h1
        simp only [OutH.toOut] at h1
        simp only [erase, run, ← h1, OutH.toOut]
    | stuck => left; rfl

theorem runH_ok_erase {evs : List EvH} {s s' : StH} (hi : InvH s) (h : runH s evs = .ok s') :
    run s.st (erase evs) = .ok s'.st ∧ InvH s' := by
  constructor
  · rcases runH_erase evs s hi with h1 | h1
    · rw [h] at h1; cases h1
    · rw [h] at h1; exact h1.symm
  · induction evs generalizing s with
    | nil => simp only [runH] at h; injection h with h; subst h; exact hi
    | cons e es ih =>
      simp only [runH] at h
      cases hs : stepH s e with
      | ok s1 => rw [hs] at h; exact ih (stepH_inv hi hs) h
      | recursionError => rw [hs] at h; cases h
      | panic => rw [hs] at h; cases h
      | stuck => rw [hs] at h; cases h

/-! ## how many callback frames can be on the native stack -/

/-- no activation holds more than `H` callback frames -/
def HopInv (H : Nat) (s : StH) : Prop := s.cur ≤ H ∧ ∀ h ∈ s.saved, h ≤ H

/-- along the trace no callback is entered while `H` callbacks of the current activation are
    pending (a property of the program: how deep its Rust callbacks nest before template code
    runs again) -/
def hopsWithin (H : Nat) : StH → List EvH → Prop
  | _, [] => True
  | s, e :: es =>
    (e = .hop → s.cur < H) ∧
    match stepH s e with
    | .ok s' => hopsWithin H s' es
    | _ => True

/-- executable form of `hopsWithin` -/
def hopsWithinB (H : Nat) : StH → List EvH → Bool
  | _, [] => true
  | s, e :: es =>
    (e != .hop || decide (s.cur < H)) &&
    match stepH s e with
    | .ok s' => hopsWithinB H s' es
    | _ => true

theorem hopsWithinB_iff (H : Nat) : ∀ (evs : List EvH) (s : StH),
    hopsWithinB H s evs = true ↔ hopsWithin H s evs := by
  intro evs
  induction evs with
  | nil => intro s; simp [hopsWithinB, hopsWithin]
  | cons e es ih =>
    intro s
    simp only [hopsWithinB, hopsWithin, Bool.and_eq_true, Bool.or_eq_true, bne_iff_ne, ne_eq,
      decide_eq_true_eq]
    have h1 : (¬ e = .hop ∨ s.cur < H) ↔ (e = .hop → s.cur < H) := by
      constructor
      · intro h he; rcases h with h | h
        · exact absurd he h
        · exact h
      · intro h
        by_cases he : e = .hop
        · exact Or.inr (h he)
        · exact Or.inl he
    cases hs : stepH s e with
    | ok s' => simp only [h1, ih s']
    | recursionError => simp only [h1]
    | panic => simp only [h1]
    | stuck => simp only [h1]

theorem sumNat_le (H : Nat) : ∀ l : List Nat, (∀ h ∈ l, h ≤ H) → sumNat l ≤ H * l.length := by
  intro l
  induction l with
  | nil => intro _; simp [sumNat]
  | cons x xs ih =>
    intro hl
    have h1 := hl x (by simp)
    have h2 := ih (fun h hh => hl h (by simp [hh]))
    simp only [sumNat, List.length_cons, Nat.mul_succ]
    omega

theorem totalHops_le {H : Nat} {s : StH} (h : HopInv H s) :
    totalHops s ≤ H * (s.saved.length + 1) := by
  have := sumNat_le H s.saved h.2
  have h1 := h.1
  simp only [totalHops, Nat.mul_succ]
  omega

/-- the saved callback frames alone: at most `H` below each pending activation -/
theorem savedHops_le {H : Nat} {s : StH} (h : HopInv H s) :
    totalHops s ≤ H * s.saved.length + H := by
  have := sumNat_le H s.saved h.2
  have h1 := h.1
  simp only [totalHops]
  omega

theorem stackBytes_withHops (hopBytes H : Nat) (bytes : Kind → Nat) : ∀ acts : List Act,
    stackBytes (withHops hopBytes H bytes) acts = stackBytes bytes acts + hopBytes * H * acts.length := by
  intro acts
  induction acts with
  | nil => simp [stackBytes]
  | cons a rest ih =>
    simp only [stackBytes, ih, withHops, List.length_cons, Nat.mul_succ]
    omega

theorem hopInv_init (H L : Nat) : HopInv H (initH L) :=
  ⟨Nat.zero_le _, by intro h hh; cases hh⟩

theorem stepH_hopInv {H : Nat} {s s' : StH} {e : EvH} (hi : HopInv H s)
    (hb : e = .hop → s.cur < H) (h : stepH s e = .ok s') : HopInv H s' := by
  obtain ⟨h1, h2⟩ := hi
  cases e with
  | hop =>
    simp only [stepH] at h; injection h with h; subst h
    exact ⟨by have := hb rfl; simp only; omega, h2⟩
  | unhop =>
    simp only [stepH] at h
    split at h
    · cases h
    · injection h with h; subst h; exact ⟨by simp only; omega, h2⟩
  | ev e =>
    cases e with
    | enter k =>
      simp only [stepH] at h
      cases hs : step s.st (.enter k) with
      | ok st' =>
        rw [hs] at h; injection h with h; subst h
        refine ⟨Nat.zero_le _, ?_⟩
        intro x hx
        simp only [List.mem_cons] at hx
        rcases hx with rfl | hx
        · exact h1
        · exact h2 x hx
      | recursionError => rw [hs] at h; cases h
      | panic => rw [hs] at h; cases h
      | stuck => rw [hs] at h; cases h
    | leave =>
      simp only [stepH] at h
      cases hsv : s.saved with
      | nil => rw [hsv] at h; cases h
      | cons x rest =>
        rw [hsv] at h
        simp only at h
        cases hs : step s.st .leave with
        | ok st' =>
          rw [hs] at h; injection h with h; subst h
          rw [hsv] at h2
          exact ⟨h2 x (by simp), fun y hy => h2 y (by simp [hy])⟩
        | recursionError => rw [hs] at h; cases h
        | panic => rw [hs] at h; cases h
        | stuck => rw [hs] at h; cases h
    | push =>
      simp only [stepH] at h
      cases hs : step s.st .push with
      | ok st' => rw [hs] at h; injection h with h; subst h; exact ⟨h1, h2⟩
      | recursionError => rw [hs] at h; cases h
      | panic => rw [hs] at h; cases h
      | stuck => rw [hs] at h; cases h
    | pop =>
      simp only [stepH] at h
      cases hs : step s.st .pop with
      | ok st' => rw [hs] at h; injection h with h; subst h; exact ⟨h1, h2⟩
      | recursionError => rw [hs] at h; cases h
      | panic => rw [hs] at h; cases h
      | stuck => rw [hs] at h; cases h
    | missingInclude =>
      simp only [stepH] at h
      cases hs : step s.st .missingInclude with
      | ok st' => rw [hs] at h; injection h with h; subst h; exact ⟨h1, h2⟩
      | recursionError => rw [hs] at h; cases h
      | panic => rw [hs] at h; cases h
      | stuck => rw [hs] at h; cases h

theorem runH_hopInv {H : Nat} : ∀ {evs : List EvH} {s s' : StH}, HopInv H s →
    hopsWithin H s evs → runH s evs = .ok s' → HopInv H s' := by
  intro evs
  induction evs with
  | nil => intro s s' hi _ h; simp only [runH] at h; injection h with h; subst h; exact hi
  | cons e es ih =>
    intro s s' hi hw h
    simp only [runH] at h
    obtain ⟨hb, hw'⟩ := hw
    cases hs : stepH s e with
    | ok s1 =>
      rw [hs] at h hw'
      exact ih (stepH_hopInv hi hb hs) hw' h
    | recursionError => rw [hs] at h; cases h
    | panic => rw [hs] at h; cases h
    | stuck => rw [hs] at h; cases h

/-! ## the decidable stack budget -/

theorem le_maxOver (f : Kind → Nat) : ∀ (l : List Kind) (k : Kind), k ∈ l → f k ≤ maxOver f l := by
  intro l
  induction l with
  | nil => intro k hk; cases hk
  | cons x xs ih =>
    intro k hk
    simp only [maxOver]
    rcases List.mem_cons.1 hk with rfl | h
    · exact Nat.le_max_left _ _
    · exact Nat.le_trans (ih k h) (Nat.le_max_right _ _)

theorem bytes_le_perUnit (bytes : Kind → Nat) (k : Kind) : bytes k ≤ perUnit bytes k * cost k := by
  have hc : 1 ≤ cost k := by cases k <;> simp only [cost] <;> first | omega | decide
  unfold perUnit
  have h1 := Nat.div_add_mod (bytes k + cost k - 1) (cost k)
  have h2 := Nat.mod_lt (bytes k + cost k - 1) (show 0 < cost k by omega)
  rw [Nat.mul_comm] at h1
  generalize (bytes k + cost k - 1) / cost k * cost k = q at h1 ⊢
  omega

theorem bytes_le_rho (bytes : Kind → Nat) (P : Kind → Bool) (k : Kind) (hk : P k = true) :
    bytes k ≤ rho bytes P * cost k := by
  have hmem : k ∈ allKinds.filter P := by
    rw [List.mem_filter]
    exact ⟨by cases k <;> simp [allKinds], hk⟩
  have h1 := le_maxOver (perUnit bytes) _ k hmem
  have h2 := bytes_le_perUnit bytes k
  have h3 : perUnit bytes k * cost k ≤ rho bytes P * cost k := Nat.mul_le_mul_right _ h1
  exact Nat.le_trans h2 h3


end MJ.Depth
