import MJ.Props.C20
#print axioms MJ.C20.C20_holds
#print axioms MJ.C20.no_lost_request
#print axioms MJ.C20.request_before_check
#print axioms MJ.C20.guard_excludes_replace
#print axioms MJ.C20.acquirers_blocked
#print axioms MJ.C20.no_spurious_create
#print axioms MJ.C20.creates_le
#print axioms MJ.C20.flag_kept_during_build
#print axioms MJ.C20.unserved_request_is_pending
#print axioms MJ.C20.request_during_build_kept
#print axioms MJ.C20.holder_never_stuck
#print axioms MJ.C20.failure_rearms
