import MJ.Props.C18
#print axioms MJ.C18.reads_subset_undeclared
#print axioms MJ.C18.abort_reads_prefix
#print axioms MJ.C18.reads_root_of_nested
#print axioms MJ.C18.nested_reported_are_paths
#print axioms MJ.C18.macro_body_asks_nothing
#print axioms MJ.C18.expression_code_binds_nothing
#print axioms MJ.C18.builtins_do_not_read_context
#print axioms MJ.C18.analysis_no_panic
#print axioms MJ.C18.reads_subset_undeclared_calls
#print axioms MJ.C18.macro_call_site_independent
#print axioms MJ.C18.context_asked_iff_no_frame_resolves
#print axioms MJ.C18.closure_and_lookup_order_as_modelled
#print axioms MJ.C18.multi_file_sound
#print axioms MJ.C18.analysis_arms_as_modelled
#print axioms MJ.C18.walkers_interpret_arms
