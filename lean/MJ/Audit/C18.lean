import MJ.Props.C18
#print axioms MJ.C18.reads_subset_undeclared
#print axioms MJ.C18.abort_reads_prefix
#print axioms MJ.C18.reads_root_of_nested
#print axioms MJ.C18.nested_reported_are_paths
#print axioms MJ.C18.macro_body_asks_nothing
#print axioms MJ.C18.expression_code_binds_nothing
#print axioms MJ.C18.builtins_do_not_read_context
#print axioms MJ.C18.analysis_no_panic
