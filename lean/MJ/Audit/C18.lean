import MJ.Props.C18
#print axioms MJ.C18.reads_subset_undeclared_or_selfref
#print axioms MJ.C18.reads_subset_undeclared
#print axioms MJ.C18.reads_subset_undeclared_partial
#print axioms MJ.C18.reads_root_of_nested_or_selfref
#print axioms MJ.C18.reads_root_of_nested
#print axioms MJ.C18.C18_counterexample
#print axioms MJ.C18.analysis_no_panic
