import MJ.Props.C19
#print axioms MJ.C19.C19_holds
#print axioms MJ.C19.delivered_is_prefix
#print axioms MJ.C19.nothing_after_error
#print axioms MJ.C19.error_is_write_failure_with_source
#print axioms MJ.C19.clean_sink_same_as_plain
#print axioms MJ.C19.success_delivers_all
#print axioms MJ.C19.benign_sink_same_as_plain
#print axioms MJ.C19.capture_write_local
#print axioms MJ.C19.captures_do_not_touch_sink
#print axioms MJ.C19.no_panic
#print axioms MJ.C19.structured_render_is_op_sequence
#print axioms MJ.C19.C19_structured
#print axioms MJ.C19.null_output_same_as_string
