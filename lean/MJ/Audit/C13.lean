import MJ.Props.C13
#print axioms MJ.C13.threshold_exact
#print axioms MJ.C13.levels_sum
#print axioms MJ.C13.levels_add_up
#print axioms MJ.C13.deterministic
#print axioms MJ.C13.nested_shares_tracker
#print axioms MJ.C13.legacy_defect
