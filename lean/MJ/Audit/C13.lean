import MJ.Props.C13
#print axioms MJ.C13.threshold_exact
#print axioms MJ.C13.levels_sum
#print axioms MJ.C13.levels_add_up
#print axioms MJ.C13.deterministic
#print axioms MJ.C13.nested_shares_tracker
#print axioms MJ.C13.fuel_does_not_steer
#print axioms MJ.C13.machine_threshold_exact
#print axioms MJ.C13.call_tree_flattens
#print axioms MJ.C13.nested_threshold_exact
#print axioms MJ.C13.out_of_fuel_is_sticky
#print axioms MJ.C13.zero_budget_refuses
#print axioms MJ.C13.uses_as_modelled
#print axioms MJ.C13.track_before_dispatch
#print axioms MJ.C13.legacy_defect
