import MJ.Props.C17
#print axioms MJ.C17.safe_join_confined
#print axioms MJ.C17.push_never_replaces
#print axioms MJ.C17.safe_join_segments
#print axioms MJ.C17.escape_rejected
#print axioms MJ.C17.safe_join_some_iff
#print axioms MJ.C17.normalize_stays_below
#print axioms MJ.C17.walk_stays_below
#print axioms MJ.C17.get_template_passes_name
