import MJ.Props.C17
#print axioms MJ.C17.safe_join_confined
#print axioms MJ.C17.push_never_replaces
#print axioms MJ.C17.safe_join_segments
#print axioms MJ.C17.escape_rejected
#print axioms MJ.C17.safe_join_some_iff
#print axioms MJ.C17.normalize_stays_below
#print axioms MJ.C17.walk_stays_below
#print axioms MJ.C17.get_template_passes_name
#print axioms MJ.C17.loader_base_is_configured
#print axioms MJ.C17.loader_reads_confined
#print axioms MJ.C17.loader_found_confined
#print axioms MJ.C17.loader_absent_base_missing
#print axioms MJ.C17.loader_history_confined
#print axioms MJ.C17.loader_model_matches_source
#print axioms MJ.C17.safe_join_rules_from_source
#print axioms MJ.C17.entry_sites_covered
#print axioms MJ.C17.loader_history_confined_after_clear
