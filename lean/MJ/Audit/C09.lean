import MJ.Props.C09
#print axioms MJ.C09.slice_eq_python
#print axioms MJ.C09.indices_in_bounds
#print axioms MJ.C09.slice_getElem?
#print axioms MJ.C09.slice_only_error_is_zero_step
#print axioms MJ.C09.sliceUnsized_eq_slice
#print axioms MJ.C09.index_eq_python
#print axioms MJ.C09.spec_pos
#print axioms MJ.C09.spec_neg
