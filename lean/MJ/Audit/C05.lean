import MJ.Props.C05
#print axioms MJ.C05.checkCert_sound
#print axioms MJ.C05.inferCert_checked
#print axioms MJ.C05.text_after_reaches_output
#print axioms MJ.C05.same_pc_same_target
#print axioms MJ.C05.bareBreak_rejected
#print axioms MJ.C05.bareBreak_gets_stuck
#print axioms MJ.C05.nested_restores
#print axioms MJ.C05.earlyReturn_is_not_a_restore
#print axioms MJ.C05.compile_has_cert
#print axioms MJ.C05.compiled_code_balanced
