import MJ.Props.C12
#print axioms MJ.C12.helpers_matrix
#print axioms MJ.C12.helper_mono
#print axioms MJ.C12.mono
#print axioms MJ.C12.step_mono
#print axioms MJ.C12.mono_vm
#print axioms MJ.C12.mono_vm_output
#print axioms MJ.C12.site_matrix
#print axioms MJ.C12.vm_sites_as_modelled
#print axioms MJ.C12.C12_holds
