import MJ.Props.C08
#print axioms MJ.C08.repr_covers
#print axioms MJ.C08.int_op_exact
#print axioms MJ.C08.neg_exact_partial
#print axioms MJ.C08.neg_counterexample
#print axioms MJ.C08.C08_counterexample
#print axioms MJ.C08.int_op_total_in_range
#print axioms MJ.C08.neg_total_in_range
#print axioms MJ.C08.width_independent
#print axioms MJ.C08.neg_width_independent
#print axioms MJ.C08.euclid
#print axioms MJ.C08.C08_holds_partial
#print axioms MJ.C08.float_rem_euclid_exact
#print axioms MJ.C08.float_div_euclid_exact
