import MJ.Props.C10
#print axioms MJ.C10.placeholder
