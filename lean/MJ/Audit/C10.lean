import MJ.Props.C10
#print axioms MJ.C10.lex_eq_spec
#print axioms MJ.C10.lex_eq_spec_of_leftmostLongest
#print axioms MJ.C10.memchr_is_leftmostLongest
#print axioms MJ.C10.findStart_eq_findLL
#print axioms MJ.C10.verbatim
#print axioms MJ.C10.lead_rule
#print axioms MJ.C10.tail_rule
#print axioms MJ.C10.round_rule
#print axioms MJ.C10.raw_rule
#print axioms MJ.C10.raw_verbatim
#print axioms MJ.C10.delim_invariance
#print axioms MJ.C10.delim_invariance_param
#print axioms MJ.C10.lookalike_is_text
