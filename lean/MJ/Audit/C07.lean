import MJ.Props.C07
#print axioms MJ.C07.reverse_involutive
