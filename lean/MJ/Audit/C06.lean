import MJ.Props.C06
#print axioms MJ.C06.blocks_refine_spec
#print axioms MJ.C06.block_renders_most_derived
#print axioms MJ.C06.super_goes_one_up
#print axioms MJ.C06.untouched_falls_through
#print axioms MJ.C06.child_text_discarded
#print axioms MJ.C06.extends_terminates
#print axioms MJ.C06.rendering_terminates
#print axioms MJ.C06.cycle_is_detected_error
#print axioms MJ.C06.include_cycle_errors
#print axioms MJ.C06.double_extends_error
#print axioms MJ.C06.missing_is_error_not_truncation
#print axioms MJ.C06.include_first_existing
#print axioms MJ.C06.import_exports_toplevel
#print axioms MJ.C06.import_of_extending_template
#print axioms MJ.C06.render_block_most_derived
#print axioms MJ.C06.render_block_on_fresh_state
#print axioms MJ.C06.include_ignore_missing_forgives_only_missing
