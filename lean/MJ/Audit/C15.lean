import MJ.Props.C15
#print axioms MJ.C15.C15_holds
#print axioms MJ.C15.store_refines_map
#print axioms MJ.C15.spec_refines_contents
#print axioms MJ.C15.results_depend_on_contents_only
#print axioms MJ.C15.history_independent
#print axioms MJ.C15.run_refines
#print axioms MJ.C15.failed_insert_noop
#print axioms MJ.C15.pinned_insert_was_not_a_noop
#print axioms MJ.C15.cached_source_sticky
#print axioms MJ.C15.registry_refines_map
#print axioms MJ.C15.world_wf
#print axioms MJ.C15.clone_isolated
#print axioms MJ.C15.clone_starts_equal
#print axioms MJ.C15.world_step_refines
#print axioms MJ.C15.foreign_macro_rejected
#print axioms MJ.C15.own_macro_accepted
#print axioms MJ.C15.per_thread_counter_collides
