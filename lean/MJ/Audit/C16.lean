import MJ.Props.C16
#print axioms MJ.C16.c16_full
#print axioms MJ.C16.de_ser_roundtrip
#print axioms MJ.C16.f32_roundtrip
#print axioms MJ.C16.value_embedding_identity
#print axioms MJ.C16.value_embedding_in_context
#print axioms MJ.C16.registry_remove_insert
#print axioms MJ.C16.registry_frame
#print axioms MJ.C16.registry_no_residue
#print axioms MJ.C16.tojson_alphabet
#print axioms MJ.C16.tojson_string_parses_back
#print axioms MJ.C16.autoescape_string_parses_back
#print axioms MJ.C16.tojson_parses_back
#print axioms MJ.C16.autoescape_parses_back
#print axioms MJ.Json.escape_table_high_plain
