import MJ.Props.C11
#print axioms MJ.C11.c11_accounting
#print axioms MJ.C11.cost_table
#print axioms MJ.C11.native_reentry_costs
#print axioms MJ.C11.macro_ctx_inherits_depth
#print axioms MJ.C11.leave_restores_context
#print axioms MJ.C11.weighted_nesting
#print axioms MJ.C11.native_depth_le_limit
#print axioms MJ.C11.reentry_fails_iff
#print axioms MJ.C11.error_is_final
#print axioms MJ.C11.run_never_panics
#print axioms MJ.C11.unbounded_recursion_errors
#print axioms MJ.C11.limit_clamped
#print axioms MJ.C11.reentry_sites_guarded
#print axioms MJ.C11.stack_le_weighted
#print axioms MJ.C11.reach_blocks
#print axioms MJ.C11.C11_counterexample
#print axioms MJ.C11.C11_partial
