import MJ.Props.C03
#print axioms MJ.C03.set_in_loop_invisible
#print axioms MJ.C03.for_frame
#print axioms MJ.C03.set_in_with_invisible
#print axioms MJ.C03.set_in_macro_invisible
#print axioms MJ.C03.set_in_call_block_invisible
#print axioms MJ.C03.set_toplevel_persists
#print axioms MJ.C03.if_no_scope
#print axioms MJ.C03.set_in_if_persists
#print axioms MJ.C03.loop_info
#print axioms MJ.C03.loop_index
#print axioms MJ.C03.loop_revindex
#print axioms MJ.C03.loop_first_last
#print axioms MJ.C03.loop_length
#print axioms MJ.C03.loop_prev_next
#print axioms MJ.C03.loop_unsized
#print axioms MJ.C03.iteration_scope
#print axioms MJ.C03.for_else_iff_empty
