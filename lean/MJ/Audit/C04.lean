import MJ.Props.C04
#print axioms MJ.C04.C04_holds
#print axioms MJ.C04.asConst_sound
#print axioms MJ.C04.fold_never_masks_error
#print axioms MJ.C04.fold_transparent
#print axioms MJ.C04.exec_compileTop
#print axioms MJ.C04.asConst_none_is_runtime
#print axioms MJ.C04.load_never_fails_on_const_error
#print axioms MJ.C04.hoist_transparent_rt
#print axioms MJ.C04.hoist_transparent
#print axioms MJ.C04.static_kwargs_eq_dynamic
#print axioms MJ.C04.old_and_fold_unsound
