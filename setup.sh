#!/bin/sh
# MANIFEST.setup_cmd: build the framework offline from files on disk only.
set -e
cd "$(dirname "$0")"
export CARGO_NET_OFFLINE=true
python3 lib/extract_tables.py /repo > /dev/null
(cd lean && lake build)
(cd lean && for f in MJ/Drive/C*.lean; do n=$(basename "$f" .lean | tr 'C' 'c'); lake build "drive_$n"; done)
(cd harness && cargo build --offline --bins)
echo setup done
