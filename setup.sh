#!/bin/sh
# MANIFEST.setup_cmd: build the framework offline from files on disk only.
# Builds the Lean targets and harness binaries of every claimed (READY) property.
set -e
cd "$(dirname "$0")"
export CARGO_NET_OFFLINE=true
python3 lib/extract_tables.py /repo > /dev/null
READY=$(python3 - <<'PY'
import sys, os, importlib, glob
sys.path.insert(0, "lib")
out = []
for f in sorted(glob.glob("lib/props/c[0-9]*.py")):
    pid = os.path.basename(f)[:-3]
    try:
        m = importlib.import_module("props." + pid)
        if getattr(m, "READY", False):
            out.append(pid)
    except Exception as e:
        print("skip", pid, e, file=sys.stderr)
print(" ".join(out))
PY
)
echo "claimed properties: $READY"
for p in $READY; do
  P=$(echo "$p" | tr 'c' 'C')
  (cd lean && lake build "MJ.Props.$P" "drive_$p") || echo "WARNING: lean targets of $P failed to build"
  for b in harness/src/bin/${p}.rs harness/src/bin/${p}_*.rs; do
    [ -f "$b" ] || continue
    n=$(basename "$b" .rs)
    (cd harness && cargo build --offline --bin "$n") || echo "WARNING: harness bin $n failed to build"
  done
done
echo setup done
