//! Shared helpers for the correspondence harness binaries (one binary per property).
use std::panic::{catch_unwind, AssertUnwindSafe};

/// SplitMix64: every random choice of a run derives from one state (VERIF_SEED).
#[derive(Clone)]
pub struct Rng(pub u64);
impl Rng {
    pub fn new(seed: u64) -> Rng {
        // the start state is a full mix of the seed: neighbouring seeds must not give the same
        // stream shifted by one draw (they did when the state was an affine function of the seed)
        let mut z = seed.wrapping_mul(0x9E3779B97F4A7C15).wrapping_add(0x1234_5678_9ABC_DEF1);
        z = (z ^ (z >> 30)).wrapping_mul(0xBF58476D1CE4E5B9);
        z = (z ^ (z >> 27)).wrapping_mul(0x94D049BB133111EB);
        Rng(z ^ (z >> 31))
    }
    pub fn next(&mut self) -> u64 {
        self.0 = self.0.wrapping_add(0x9E3779B97F4A7C15);
        let mut z = self.0;
        z = (z ^ (z >> 30)).wrapping_mul(0xBF58476D1CE4E5B9);
        z = (z ^ (z >> 27)).wrapping_mul(0x94D049BB133111EB);
        z ^ (z >> 31)
    }
    pub fn below(&mut self, n: u64) -> u64 {
        if n == 0 { 0 } else { self.next() % n }
    }
    pub fn pick<'a, T>(&mut self, xs: &'a [T]) -> &'a T {
        &xs[self.below(xs.len() as u64) as usize]
    }
    pub fn chance(&mut self, num: u64, den: u64) -> bool {
        self.below(den) < num
    }
}

pub fn seed_from_env() -> u64 {
    std::env::var("VERIF_SEED").ok().and_then(|s| s.parse().ok()).unwrap_or(1)
}

pub fn hex(bytes: &[u8]) -> String {
    let mut s = String::with_capacity(bytes.len() * 2);
    for b in bytes {
        s.push_str(&format!("{:02x}", b));
    }
    s
}

pub fn unhex(s: &str) -> Vec<u8> {
    (0..s.len() / 2).map(|i| u8::from_str_radix(&s[2 * i..2 * i + 2], 16).unwrap()).collect()
}

/// Silence the default panic message; panics are reported as results.
pub fn quiet_panics() {
    std::panic::set_hook(Box::new(|_| {}));
}

/// Run `f`, mapping a panic to `Err(message)`.
pub fn guarded<T>(f: impl FnOnce() -> T) -> Result<T, String> {
    catch_unwind(AssertUnwindSafe(f)).map_err(|e| {
        if let Some(s) = e.downcast_ref::<&str>() {
            s.to_string()
        } else if let Some(s) = e.downcast_ref::<String>() {
            s.clone()
        } else {
            "panic".to_string()
        }
    })
}

pub fn error_kind_name(e: &minijinja::Error) -> String {
    format!("{:?}", e.kind())
}
