//! C15 correspondence + oracle harness: an environment's behaviour depends on its contents, not
//! on its history.
//!
//! A *case* is a history: space separated op tokens over up to three live environments `e`
//! (env 0 = `Environment::new()`, further ones are created by `cn`):
//!
//!   ab:e:n:s   add_template        (borrowed name/source; n = name index, s = source index)
//!   ao:e:n:s   add_template_owned
//!   rm:e:n     remove_template          cl:e   clear_templates
//!   sl:e:l     set_loader(loader table l, 1..=5)
//!   af:e:k:v / rf:e:k    add/remove filter  (k = registry name index 0/1, v = 0|1|2|B(builtin))
//!   at:e:k:v / rt:e:k    add/remove test        ag:e:k:v / rg:e:k   add/remove global
//!   cn:e       clone env e (the clone becomes a new live environment)
//!   r:e:n:c[:log]  get_template(n).render(ctx c) on env e itself (mutates its memo cache);
//!                  `log` = the names the engine asked the loader for (filled in by the harness,
//!                  ignored on replay) — the Lean store model replays exactly these lookups
//!   jk:e:k     a failing compile / failing render that must leave no residue (junk alphabet)
//!   th:e:k     8 threads render concurrently from env e (runtime part, validated only)
//!
//! Output line:  `<annotated case>\t<impl trace>\t<oracle trace>\t<render outcomes of r ops>`; traces have one entry per
//! step separated by " / ".  The impl trace is what the Lean model predicts (op result, and per
//! live env: get result per name, `templates()` listing, registry contents).  The oracle trace is
//! `=` when the property's predicates hold at that step, otherwise `FAIL<site>{detail}`:
//!   fresh      env differs from a freshly built environment with the same final contents
//!   failed-insert  an add that returned Err changed what the environment does
//!   sticky     a template that was present changed its source without remove/clear/re-add
//!   repeat     the same template+context gave two different results
//!   isolation  an operation on one environment changed a clone/the original
//!   threads    a concurrent render differs from the single threaded fresh-environment result
//!
//! usage: c15 gen <quick|thorough> [count] | c15 one <case tokens…> [--once] | c15 file <corpus file>
//!        c15 foreign <rounds> | c15 fone fx:<x>:<site>:<consumer>:<via>   (foreign-value stream, see below)
use minijinja::value::Value;
use minijinja::{context, Environment, Error, ErrorKind};
use mjh::*;
use std::collections::BTreeMap;
use std::io::Write;
use std::sync::atomic::{AtomicBool, Ordering};
use std::sync::Mutex;

const NAMES: [&str; 4] = ["a", "b", "c", "d"];
const RECURSION_LIMIT: usize = 24;

/// Source alphabet.  Every source renders its own identity; 0/1/2/6/14 expose registry state;
/// 3/4/5/7/12/13 chain template lookups; 8/9 do not compile; 10/11 fail at run time.
const SOURCES: [&str; 16] = [
    "0[{{ g }}|{{ 'x'|f }}|{{ 'y'|upper }}|{{ v }}|{{ [g, v]|tojson }}]",
    "1[{% if 3 is t %}T{% else %}F{% endif %}{% if 3 is odd %}O{% else %}E{% endif %}]",
    "2[{% for i in range(2) %}{{ i }}{% endfor %}|{{ g }}]",
    "3<{% include 'a' %}>",
    "4<{% include 'b' %}{% include 'c' %}>",
    "{% extends 'a' %}{% block x %}5{{ g }}{% endblock %}",
    "6[{% block x %}base{{ 'z'|f }}{% endblock %}]",
    "{% extends 'd' %}{% block x %}7{{ super() }}{% endblock %}",
    "8{% if %}",
    "9{% endblock %}{{ ",
    "10{{ v // 0 }}",
    "11{{ nofn() }}",
    "12<{% include 'd' ignore missing %}|{% include ['c', 'b'] %}>",
    "{% from 'b' import m %}13{{ m() }}",
    "{% macro m() %}M14{{ g }}{% endmacro %}14{{ 'w'|f }}",
    "15{% for x in [1, 2] %}{% set q %}{% include 'c' %}{% endset %}{{ q|length }}{% endfor %}",
];

#[derive(Clone, Copy, PartialEq)]
enum LR {
    Missing,
    Src(usize),
    Fail,
}
use LR::*;
/// Loader tables 1..=5 (index 0 = "no loader set").
const LOADERS: [[LR; 4]; 6] = [
    [Missing, Missing, Missing, Missing],
    [Src(0), Src(6), Src(3), Src(8)],
    [Src(1), Src(5), Fail, Src(2)],
    [Src(4), Src(14), Src(13), Missing],
    [Src(7), Src(10), Src(12), Src(6)],
    [Missing, Src(15), Src(9), Src(11)],
];

const FILTER_NAMES: [&str; 2] = ["f", "upper"];
const TEST_NAMES: [&str; 2] = ["t", "odd"];
const GLOBAL_NAMES: [&str; 2] = ["g", "range"];

static LOGGING: AtomicBool = AtomicBool::new(true);
static REAL_LOG: Mutex<Vec<usize>> = Mutex::new(Vec::new());
static FRESH_LOG: Mutex<Vec<usize>> = Mutex::new(Vec::new());
static JUNK_SEEN: Mutex<BTreeMap<usize, String>> = Mutex::new(BTreeMap::new());

fn loader_fn(table: usize, real: bool) -> impl Fn(&str) -> Result<Option<String>, Error> + Send + Sync + 'static {
    move |name: &str| {
        let idx = NAMES.iter().position(|n| *n == name);
        if LOGGING.load(Ordering::Relaxed) {
            let log = if real { &REAL_LOG } else { &FRESH_LOG };
            log.lock().unwrap().push(idx.unwrap_or(99));
        }
        match idx.map(|i| LOADERS[table][i]) {
            None | Some(Missing) => Ok(None),
            Some(Src(s)) => Ok(Some(SOURCES[s].to_string())),
            Some(Fail) => Result::Err(Error::new(ErrorKind::InvalidOperation, "loader failure")),
        }
    }
}

#[derive(Clone, Copy, PartialEq, Debug)]
enum Reg {
    Absent,
    Builtin,
    Custom(usize),
}

impl Reg {
    fn code(self) -> String {
        match self {
            Reg::Absent => "-".into(),
            Reg::Builtin => "B".into(),
            Reg::Custom(k) => k.to_string(),
        }
    }
}

/// The abstraction of one environment (the spec state): what a fresh environment is built from.
#[derive(Clone)]
struct Spec {
    contents: BTreeMap<usize, usize>, // name -> source (explicit templates and memoised ones)
    loader: usize,
    filters: [Reg; 2],
    tests: [Reg; 2],
    globals: [Reg; 2],
    pinned: BTreeMap<usize, usize>, // stickiness oracle: what the real env listed earlier
}

struct Live {
    env: Environment<'static>,
    spec: Spec,
    last_obs: Option<Obs>,
}

fn set_filter(env: &mut Environment<'static>, k: usize, v: Reg) {
    match v {
        Reg::Absent => env.remove_filter(FILTER_NAMES[k]),
        Reg::Builtin => env.add_filter(FILTER_NAMES[k], minijinja::filters::upper),
        Reg::Custom(id) => env.add_filter(FILTER_NAMES[k], move |s: String| format!("F{}({})", id, s)),
    }
}
fn set_test(env: &mut Environment<'static>, k: usize, v: Reg) {
    match v {
        Reg::Absent => env.remove_test(TEST_NAMES[k]),
        Reg::Builtin => env.add_test(TEST_NAMES[k], minijinja::tests::is_odd),
        Reg::Custom(id) => env.add_test(TEST_NAMES[k], move |x: i64| match id {
            0 => true,
            1 => false,
            _ => x % 2 == 0,
        }),
    }
}
fn set_global(env: &mut Environment<'static>, k: usize, v: Reg) {
    match v {
        Reg::Absent => env.remove_global(GLOBAL_NAMES[k]),
        Reg::Builtin => env.add_function(GLOBAL_NAMES[k], minijinja::functions::range),
        Reg::Custom(id) => env.add_global(GLOBAL_NAMES[k], format!("G{}", id)),
    }
}

fn new_env() -> Environment<'static> {
    let mut env = Environment::new();
    env.set_recursion_limit(RECURSION_LIMIT);
    env
}

fn initial_spec() -> Spec {
    Spec {
        contents: BTreeMap::new(),
        loader: 0,
        filters: [Reg::Absent, Reg::Builtin],
        tests: [Reg::Absent, Reg::Builtin],
        globals: [Reg::Absent, Reg::Builtin],
        pinned: BTreeMap::new(),
    }
}

/// A freshly built environment with the given contents.  The tier (borrowed/owned) of every
/// template and the order of construction are chosen pseudo-randomly: they must not matter.
fn build_fresh(spec: &Spec, rng: &mut Rng) -> Environment<'static> {
    let mut env = new_env();
    let loader_first = rng.chance(1, 2);
    if loader_first && spec.loader != 0 {
        env.set_loader(loader_fn(spec.loader, false));
    }
    let mut items: Vec<(usize, usize)> = spec.contents.iter().map(|(a, b)| (*a, *b)).collect();
    if rng.chance(1, 2) {
        items.reverse();
    }
    for (n, s) in items {
        let r = if rng.chance(1, 2) {
            env.add_template(NAMES[n], SOURCES[s])
        } else {
            env.add_template_owned(NAMES[n].to_string(), SOURCES[s].to_string())
        };
        if r.is_err() {
            // contents only ever hold sources that compiled; reported through the comparison
        }
    }
    for k in 0..2 {
        if spec.filters[k] != initial_spec().filters[k] {
            set_filter(&mut env, k, spec.filters[k]);
        }
        if spec.tests[k] != initial_spec().tests[k] {
            set_test(&mut env, k, spec.tests[k]);
        }
        if spec.globals[k] != initial_spec().globals[k] {
            set_global(&mut env, k, spec.globals[k]);
        }
    }
    if !loader_first && spec.loader != 0 {
        env.set_loader(loader_fn(spec.loader, false));
    }
    env
}

struct BadCtx;
impl serde::Serialize for BadCtx {
    fn serialize<S: serde::Serializer>(&self, s: S) -> Result<S::Ok, S::Error> {
        use serde::ser::SerializeMap;
        let mut m = s.serialize_map(None)?;
        // a nested engine value goes through the value-handle side channel first …
        m.serialize_entry("v", &Value::from(vec![1, 2, 3]))?;
        m.serialize_entry("w", &Value::from_safe_string("<w>".into()))?;
        // … then the serialisation fails half way
        Result::Err(serde::ser::Error::custom("ctx failure"))
    }
}

fn make_ctx(c: usize) -> Value {
    match c {
        0 => context! { v => 7 },
        1 => Value::from(minijinja::value::Serde(BadCtx)),
        _ => context! { v => Value::from(vec![Value::from(1), Value::from("<s>")]) },
    }
}

fn err_code(e: &Error) -> String {
    match e.kind() {
        ErrorKind::TemplateNotFound => "NF".into(),
        ErrorKind::SyntaxError => "SE".into(),
        k => format!("E:{:?}", k),
    }
}

fn src_code(src: &str) -> String {
    match SOURCES.iter().position(|s| *s == src) {
        Some(i) => format!("s{}", i),
        None => format!("s?{}", hex(src.as_bytes())),
    }
}

fn render_outcome(r: Result<String, Error>) -> String {
    match r {
        Ok(s) => format!("ok:{}", s),
        Result::Err(e) => format!("err:{:?}:{}", e.kind(), e.name().unwrap_or("-")),
    }
}

/// get_template(n).render(ctx) → (get result code, render outcome)
fn get_render(env: &Environment<'static>, n: usize, c: usize) -> (String, String) {
    let r = guarded(|| match env.get_template(NAMES[n]) {
        Ok(t) => (src_code(t.source()), render_outcome(t.render(make_ctx(c)))),
        Result::Err(e) => (err_code(&e), render_outcome(Result::Err(e))),
    });
    match r {
        Ok(x) => x,
        Result::Err(m) => ("panic".into(), format!("panic:{}", m)),
    }
}

fn listing(env: &Environment<'static>) -> String {
    let mut v: Vec<String> = env
        .templates()
        .map(|(name, t)| {
            let n = NAMES.iter().position(|x| *x == name).map(|i| i.to_string()).unwrap_or("?".into());
            format!("{}:{}", n, &src_code(t.source())[1..])
        })
        .collect();
    v.sort();
    v.join(",")
}

fn probe(env: &Environment<'static>, src: &str) -> Result<String, Error> {
    env.render_str(src, context! {})
}

fn registries(env: &Environment<'static>) -> String {
    let mut out = Vec::new();
    for name in FILTER_NAMES {
        let code = match probe(env, &format!("{{{{ 'x'|{} }}}}", name)) {
            Ok(s) if s == "X" => "B".to_string(),
            Ok(s) if s.starts_with('F') && s.ends_with("(x)") => s[1..s.len() - 3].to_string(),
            Ok(s) => format!("?{}", hex(s.as_bytes())),
            Result::Err(e) if e.kind() == ErrorKind::UnknownFilter => "-".into(),
            Result::Err(e) => format!("!{:?}", e.kind()),
        };
        out.push(code);
    }
    for name in TEST_NAMES {
        let code = match probe(env, &format!("{{{{ 3 is {} }}}}{{{{ 4 is {} }}}}", name, name)) {
            Ok(s) if s == "TrueFalse" => "B".to_string(),
            Ok(s) if s == "TrueTrue" => "0".to_string(),
            Ok(s) if s == "FalseFalse" => "1".to_string(),
            Ok(s) if s == "FalseTrue" => "2".to_string(),
            Ok(s) => format!("?{}", hex(s.as_bytes())),
            Result::Err(e) if e.kind() == ErrorKind::UnknownTest => "-".into(),
            Result::Err(e) => format!("!{:?}", e.kind()),
        };
        out.push(code);
    }
    for name in GLOBAL_NAMES {
        let v = env.globals().find(|(n, _)| *n == name).map(|(_, v)| v);
        let code = match v {
            None => "-".to_string(),
            Some(v) => match v.as_str() {
                Some(s) if s.starts_with('G') => s[1..].to_string(),
                _ => "B".to_string(),
            },
        };
        out.push(code);
    }
    out.join(",")
}

#[derive(Clone, PartialEq)]
struct Obs {
    gets: Vec<String>,
    renders: Vec<String>,
    listing: String,
    regs: String,
    repeat_fail: Option<String>,
}

impl Obs {
    fn model_part(&self) -> String {
        let g: Vec<String> = (0..4).map(|i| format!("{}={}", NAMES[i], self.gets[i])).collect();
        format!("{};L={};R={}", g.join(","), self.listing, self.regs)
    }
    fn diff(&self, other: &Obs) -> Option<String> {
        for i in 0..4 {
            if self.gets[i] != other.gets[i] || self.renders[i] != other.renders[i] {
                return Some(format!(
                    "{}: {} {} vs {} {}",
                    NAMES[i], self.gets[i], self.renders[i], other.gets[i], other.renders[i]
                ));
            }
        }
        if self.listing != other.listing {
            return Some(format!("templates() {} vs {}", self.listing, other.listing));
        }
        if self.regs != other.regs {
            return Some(format!("registries {} vs {}", self.regs, other.regs));
        }
        None
    }
}

/// Observe an environment without changing it: the listing is read first, lookups and renders go
/// to a clone (a lookup memoises loader results in the environment it is made on).
fn observe(env: &Environment<'static>, via_clone: bool) -> Obs {
    let was = LOGGING.swap(false, Ordering::Relaxed);
    let listing = listing(env);
    let cloned;
    let o: &Environment<'static> = if via_clone {
        cloned = env.clone();
        &cloned
    } else {
        env
    };
    let mut gets = Vec::new();
    let mut renders = Vec::new();
    let mut repeat_fail = None;
    for n in 0..4 {
        let (g, r) = get_render(o, n, 0);
        let (g2, r2) = get_render(o, n, 0);
        if (g.clone(), r.clone()) != (g2.clone(), r2.clone()) && repeat_fail.is_none() {
            repeat_fail = Some(format!("{}: {} {} then {} {}", NAMES[n], g, r, g2, r2));
        }
        gets.push(g);
        renders.push(r);
    }
    let regs = registries(o);
    LOGGING.store(was, Ordering::Relaxed);
    Obs { gets, renders, listing, regs, repeat_fail }
}

const JUNK: [&str; 6] = [
    "{% for x in y %}{% if a %}{{ x|f }}{% else %}",
    "{% set z %}{% for i in [1,2,3] %}{% if i > 1 %}{{ i }}{{ 1 // 0 }}{% endif %}{% endfor %}{% endset %}",
    "{% macro m(a) %}{% for i in [1] %}{% set q %}{{ m(i) }}{% endset %}{% endfor %}{% endmacro %}{{ m(1) }}",
    "{{ [1, 2]|tojson }}{% filter upper %}{{ nofn() }}{% endfilter %}",
    "{% block a %}{% block b %}{{ 1 +",
    "{{ v.x }}{{ v|tojson }}",
];

/// failing compiles / failing renders that must leave no residue anywhere
fn junk(env: &Environment<'static>, k: usize) -> String {
    let was = LOGGING.swap(false, Ordering::Relaxed);
    let r = guarded(|| match k {
        0 | 4 => match env.template_from_str(JUNK[k]) {
            Ok(_) => "ok".to_string(),
            Result::Err(e) => err_code(&e),
        },
        1 | 2 | 3 => match env.render_str(JUNK[k], context! { v => 1 }) {
            Ok(_) => "ok".to_string(),
            Result::Err(e) => err_code(&e),
        },
        5 => match env.render_str(JUNK[5], make_ctx(1)) {
            Ok(_) => "ok".to_string(),
            Result::Err(e) => err_code(&e),
        },
        6 => match env.compile_expression("a +* (") {
            Ok(_) => "ok".to_string(),
            Result::Err(e) => err_code(&e),
        },
        _ => {
            // a serialisation that fails half way, outside of any render
            let v = Value::from(minijinja::value::Serde(BadCtx));
            format!("{:?}", v.kind())
        }
    });
    LOGGING.store(was, Ordering::Relaxed);
    r.unwrap_or_else(|m| format!("panic:{}", m))
}

#[derive(Clone, Debug)]
enum Op {
    Add { owned: bool, e: usize, n: usize, s: usize },
    Rm { e: usize, n: usize },
    Cl { e: usize },
    Sl { e: usize, l: usize },
    RegAdd { kind: u8, e: usize, k: usize, v: Reg },
    RegRm { kind: u8, e: usize, k: usize },
    Clone { e: usize },
    Render { e: usize, n: usize, c: usize },
    Junk { e: usize, k: usize },
    Threads { e: usize, k: u64 },
}

fn reg_code(v: Reg) -> String {
    v.code()
}

fn op_token(op: &Op, log: Option<&[usize]>) -> String {
    match op {
        Op::Add { owned, e, n, s } => format!("{}:{}:{}:{}", if *owned { "ao" } else { "ab" }, e, n, s),
        Op::Rm { e, n } => format!("rm:{}:{}", e, n),
        Op::Cl { e } => format!("cl:{}", e),
        Op::Sl { e, l } => format!("sl:{}:{}", e, l),
        Op::RegAdd { kind, e, k, v } => format!("a{}:{}:{}:{}", *kind as char, e, k, reg_code(*v)),
        Op::RegRm { kind, e, k } => format!("r{}:{}:{}", *kind as char, e, k),
        Op::Clone { e } => format!("cn:{}", e),
        Op::Render { e, n, c } => {
            let l = log.unwrap_or(&[]);
            let ls = if l.is_empty() { "-".to_string() } else { l.iter().map(|x| x.to_string()).collect::<Vec<_>>().join(",") };
            format!("r:{}:{}:{}:{}", e, n, c, ls)
        }
        Op::Junk { e, k } => format!("jk:{}:{}", e, k),
        Op::Threads { e, k } => format!("th:{}:{}", e, k),
    }
}

fn parse_op(tok: &str) -> Option<Op> {
    let f: Vec<&str> = tok.split(':').collect();
    let num = |i: usize| -> Option<usize> { f.get(i)?.parse().ok() };
    let reg = |s: &str| -> Option<Reg> {
        match s {
            "B" => Some(Reg::Builtin),
            "-" => Some(Reg::Absent),
            x => x.parse().ok().map(Reg::Custom),
        }
    };
    Some(match f[0] {
        "ab" | "ao" => Op::Add { owned: f[0] == "ao", e: num(1)?, n: num(2)?, s: num(3)? },
        "rm" => Op::Rm { e: num(1)?, n: num(2)? },
        "cl" => Op::Cl { e: num(1)? },
        "sl" => Op::Sl { e: num(1)?, l: num(2)? },
        "af" | "at" | "ag" => Op::RegAdd { kind: f[0].as_bytes()[1], e: num(1)?, k: num(2)?, v: reg(f.get(3)?)? },
        "rf" | "rt" | "rg" => Op::RegRm { kind: f[0].as_bytes()[1], e: num(1)?, k: num(2)? },
        "cn" => Op::Clone { e: num(1)? },
        "r" => Op::Render { e: num(1)?, n: num(2)?, c: num(3)? },
        "jk" => Op::Junk { e: num(1)?, k: num(2)? },
        "th" => Op::Threads { e: num(1)?, k: f.get(2)?.parse().ok()? },
        _ => return None,
    })
}

fn gen_history(rng: &mut Rng, with_threads: bool) -> Vec<Op> {
    let len = 1 + rng.below(30) as usize;
    let mut live = 1usize;
    let mut ops = Vec::new();
    // three flavours: store-heavy, registry-heavy, mixed
    let flavour = rng.below(4);
    // a prelude that makes successful renders likely: a loader and the custom filter/test
    if rng.chance(2, 3) {
        ops.push(Op::Sl { e: 0, l: 1 + rng.below(5) as usize });
    }
    if rng.chance(2, 3) {
        ops.push(Op::RegAdd { kind: b'f', e: 0, k: 0, v: Reg::Custom(rng.below(2) as usize) });
    }
    if rng.chance(1, 2) {
        ops.push(Op::RegAdd { kind: b't', e: 0, k: 0, v: Reg::Custom(rng.below(3) as usize) });
    }
    ops.truncate(len);
    for _ in ops.len()..len {
        let e = rng.below(live as u64) as usize;
        let n = rng.below(4) as usize;
        let w = rng.below(100);
        let (t_add, t_rm, t_cl, t_sl, t_reg, t_cn, t_r) = match flavour {
            0 => (30, 40, 43, 55, 58, 61, 94),
            1 => (14, 20, 22, 28, 62, 66, 94),
            _ => (24, 32, 35, 45, 57, 61, 94),
        };
        let op = if w < t_add {
            let s = if rng.chance(1, 5) { *rng.pick(&[8usize, 9]) } else { rng.below(SOURCES.len() as u64) as usize };
            Op::Add { owned: rng.chance(1, 2), e, n, s }
        } else if w < t_rm {
            Op::Rm { e, n }
        } else if w < t_cl {
            Op::Cl { e }
        } else if w < t_sl {
            Op::Sl { e, l: 1 + rng.below(5) as usize }
        } else if w < t_reg {
            let kind = *rng.pick(&[b'f', b't', b'g']);
            let k = rng.below(2) as usize;
            if rng.chance(2, 5) {
                Op::RegRm { kind, e, k }
            } else {
                let v = if k == 1 && rng.chance(1, 3) {
                    Reg::Builtin
                } else {
                    Reg::Custom(rng.below(if kind == b't' { 3 } else { 2 }) as usize)
                };
                Op::RegAdd { kind, e, k, v }
            }
        } else if w < t_cn {
            if live < 3 {
                live += 1;
                Op::Clone { e }
            } else {
                Op::Rm { e, n }
            }
        } else if w < t_r {
            let c = if rng.chance(3, 4) { 0 } else { 1 + rng.below(2) as usize };
            Op::Render { e, n, c }
        } else {
            Op::Junk { e, k: rng.below(8) as usize }
        };
        ops.push(op);
    }
    if with_threads {
        let e = rng.below(live as u64) as usize;
        if ops.len() == 30 {
            ops.pop();
        }
        ops.push(Op::Threads { e: e.min(ops.iter().filter(|o| matches!(o, Op::Clone { .. })).count()), k: rng.below(1 << 20) });
    }
    ops
}

/// 8 threads render concurrently from the shared environment, interleaved with failing compiles
/// and failing renders on the same threads; every result must equal the single threaded result of
/// a fresh environment with the same contents.
fn contents_of(env: &Environment<'static>) -> BTreeMap<usize, usize> {
    let mut newc = BTreeMap::new();
    for (name, t) in env.templates() {
        if let (Some(ni), Some(si)) = (NAMES.iter().position(|x| *x == name), SOURCES.iter().position(|x| *x == t.source())) {
            newc.insert(ni, si);
        }
    }
    newc
}

/// Returns the first failure and the contents the environment must have afterwards (every name has
/// been requested at least once: the phase ends with a sweep over all names on the main thread).
fn threads_phase(live: &Live, k: u64, frng: &mut Rng) -> (Option<String>, BTreeMap<usize, usize>) {
    let was = LOGGING.swap(false, Ordering::Relaxed);
    let fresh = build_fresh(&live.spec, frng);
    let mut expected: Vec<Vec<(String, String)>> = Vec::new();
    for n in 0..4 {
        expected.push((0..3).map(|c| get_render(&fresh, n, c)).collect());
    }
    let env = &live.env;
    let expected = &expected;
    let fails: Vec<String> = std::thread::scope(|sc| {
        let hs: Vec<_> = (0..8u64)
            .map(|t| {
                std::thread::Builder::new()
                    .stack_size(16 << 20)
                    .spawn_scoped(sc, move || {
                        let mut rng = Rng::new(k.wrapping_mul(31).wrapping_add(t));
                        let mut fails = Vec::new();
                        for _ in 0..12 {
                            if rng.chance(1, 3) {
                                let _ = junk(env, rng.below(8) as usize);
                            }
                            let n = rng.below(4) as usize;
                            let c = rng.below(3) as usize;
                            let got = get_render(env, n, c);
                            if got != expected[n][c] {
                                fails.push(format!(
                                    "thread {} {} ctx{}: {} {} vs fresh {} {}",
                                    t, NAMES[n], c, got.0, got.1, expected[n][c].0, expected[n][c].1
                                ));
                            }
                        }
                        fails
                    })
                    .unwrap()
            })
            .collect();
        hs.into_iter().flat_map(|h| h.join().unwrap_or_else(|_| vec!["thread panicked".into()])).collect()
    });
    let mut fails = fails;
    for n in 0..4 {
        let got = get_render(env, n, 0);
        if got != expected[n][0] {
            fails.push(format!("after threads {}: {} {} vs fresh {} {}", NAMES[n], got.0, got.1, expected[n][0].0, expected[n][0].1));
        }
    }
    let newc = contents_of(&fresh);
    LOGGING.store(was, Ordering::Relaxed);
    (fails.into_iter().next(), newc)
}

fn run_history(ops: &[Op], hseed: u64) -> (String, String, String, String) {
    let mut envs: Vec<Live> = vec![Live { env: new_env(), spec: initial_spec(), last_obs: None }];
    let mut frng = Rng::new(hseed ^ 0x5151);
    let mut case_toks = Vec::new();
    let mut impl_steps = Vec::new();
    let mut oracle_steps = Vec::new();
    let mut notes: Vec<String> = Vec::new();
    envs[0].last_obs = Some(observe(&envs[0].env, true));

    for op in ops {
        let mut fails: Vec<String> = Vec::new();
        let mut log_used: Option<Vec<usize>> = None;
        let mut failed_insert_env: Option<usize> = None;
        let mut note = String::from("-");
        let target = match op {
            Op::Add { e, .. } | Op::Rm { e, .. } | Op::Cl { e } | Op::Sl { e, .. } | Op::RegAdd { e, .. }
            | Op::RegRm { e, .. } | Op::Clone { e } | Op::Render { e, .. } | Op::Junk { e, .. } | Op::Threads { e, .. } => *e,
        };
        if target >= envs.len() {
            case_toks.push(op_token(op, None));
            impl_steps.push("bad-env".to_string());
            oracle_steps.push("=".to_string());
            notes.push("-".to_string());
            continue;
        }
        let opres: String = match op {
            Op::Add { owned, e, n, s } => {
                let l = &mut envs[*e];
                let r = guarded(|| {
                    if *owned {
                        l.env.add_template_owned(NAMES[*n].to_string(), SOURCES[*s].to_string())
                    } else {
                        l.env.add_template(NAMES[*n], SOURCES[*s])
                    }
                });
                match r {
                    Ok(Ok(())) => {
                        l.spec.contents.insert(*n, *s);
                        l.spec.pinned.insert(*n, *s);
                        "ok".into()
                    }
                    Ok(Result::Err(err)) => {
                        failed_insert_env = Some(*e);
                        err_code(&err)
                    }
                    Result::Err(_) => "panic".into(),
                }
            }
            Op::Rm { e, n } => {
                let l = &mut envs[*e];
                l.env.remove_template(NAMES[*n]);
                l.spec.contents.remove(n);
                l.spec.pinned.remove(n);
                "ok".into()
            }
            Op::Cl { e } => {
                let l = &mut envs[*e];
                l.env.clear_templates();
                l.spec.contents.clear();
                l.spec.pinned.clear();
                "ok".into()
            }
            Op::Sl { e, l: table } => {
                let l = &mut envs[*e];
                l.env.set_loader(loader_fn(*table, true));
                l.spec.loader = *table;
                "ok".into()
            }
            Op::RegAdd { kind, e, k, v } => {
                let l = &mut envs[*e];
                match kind {
                    b'f' => {
                        set_filter(&mut l.env, *k, *v);
                        l.spec.filters[*k] = *v;
                    }
                    b't' => {
                        set_test(&mut l.env, *k, *v);
                        l.spec.tests[*k] = *v;
                    }
                    _ => {
                        set_global(&mut l.env, *k, *v);
                        l.spec.globals[*k] = *v;
                    }
                }
                "ok".into()
            }
            Op::RegRm { kind, e, k } => {
                let l = &mut envs[*e];
                match kind {
                    b'f' => {
                        set_filter(&mut l.env, *k, Reg::Absent);
                        l.spec.filters[*k] = Reg::Absent;
                    }
                    b't' => {
                        set_test(&mut l.env, *k, Reg::Absent);
                        l.spec.tests[*k] = Reg::Absent;
                    }
                    _ => {
                        set_global(&mut l.env, *k, Reg::Absent);
                        l.spec.globals[*k] = Reg::Absent;
                    }
                }
                "ok".into()
            }
            Op::Clone { e } => {
                if envs.len() >= 3 {
                    "full".into()
                } else {
                    let c = Live { env: envs[*e].env.clone(), spec: envs[*e].spec.clone(), last_obs: envs[*e].last_obs.clone() };
                    envs.push(c);
                    "ok".into()
                }
            }
            Op::Render { e, n, c } => {
                let l = &mut envs[*e];
                // the same render on a fresh environment with the pre-state contents decides what the
                // environment must contain afterwards (which lookups get memoised)
                let fresh = build_fresh(&l.spec, &mut frng);
                FRESH_LOG.lock().unwrap().clear();
                let want = get_render(&fresh, *n, *c);
                let want_log = std::mem::take(&mut *FRESH_LOG.lock().unwrap());
                REAL_LOG.lock().unwrap().clear();
                let got = get_render(&l.env, *n, *c);
                let got_log = std::mem::take(&mut *REAL_LOG.lock().unwrap());
                if got != want {
                    fails.push(format!("FAILfresh{{render {} ctx{}: {} {} vs fresh {} {}}}", NAMES[*n], c, got.0, got.1, want.0, want.1));
                } else if got_log != want_log {
                    fails.push(format!("FAILfresh{{render {}: loader consulted for {:?}, fresh environment {:?}}}", NAMES[*n], got_log, want_log));
                }
                // new contents = what the fresh environment holds now
                let newc = contents_of(&fresh);
                for (k, v) in &newc {
                    l.spec.pinned.entry(*k).or_insert(*v);
                }
                l.spec.contents = newc;
                log_used = Some(got_log);
                note = if got.1.starts_with("ok:") { "ok".to_string() } else { got.1.splitn(3, ':').take(2).collect::<Vec<_>>().join(":") };
                got.0
            }
            Op::Junk { e, k } => {
                // the outcome of a failing compile/render is itself history independent
                let res = junk(&envs[*e].env, *k);
                let mut seen = JUNK_SEEN.lock().unwrap();
                match seen.get(k) {
                    Some(first) if *first != res => {
                        fails.push(format!("FAILrepeat{{junk {} gave {} earlier and {} now}}", k, first, res));
                    }
                    Some(_) => {}
                    None => {
                        seen.insert(*k, res);
                    }
                }
                "jk".into()
            }
            Op::Threads { e, k } => {
                let (f, newc) = threads_phase(&envs[*e], *k, &mut frng);
                if let Some(f) = f {
                    fails.push(format!("FAILthreads{{{}}}", f));
                }
                let l = &mut envs[*e];
                for (k, v) in &newc {
                    l.spec.pinned.entry(*k).or_insert(*v);
                }
                l.spec.contents = newc;
                "ok".into()
            }
        };
        case_toks.push(op_token(op, log_used.as_deref()));

        // ---- observe every live environment after the step
        let mut impl_envs = Vec::new();
        for (i, l) in envs.iter_mut().enumerate() {
            let obs = observe(&l.env, true);
            if let Some(rf) = &obs.repeat_fail {
                fails.push(format!("FAILrepeat{{env{} {}}}", i, rf));
            }
            // (2) fresh environment with the same final contents
            let fresh = build_fresh(&l.spec, &mut frng);
            let fobs = observe(&fresh, false);
            if let Some(d) = obs.diff(&fobs) {
                fails.push(format!("FAILfresh{{env{} {}}}", i, d));
            }
            // failed insert is a no-op / isolation of the other environments
            if let Some(prev) = &l.last_obs {
                let must_be_same = failed_insert_env == Some(i) || (i != target && !matches!(op, Op::Clone { .. }));
                if must_be_same {
                    if let Some(d) = prev.diff(&obs) {
                        let site = if failed_insert_env == Some(i) { "failed-insert" } else { "isolation" };
                        fails.push(format!("FAIL{}{{env{} before/after {}}}", site, i, d));
                    }
                }
            }
            // stickiness: everything the environment held keeps its source
            for (n, s) in &l.spec.pinned {
                let want = format!("s{}", s);
                if obs.gets[*n] != want {
                    fails.push(format!("FAILsticky{{env{} {} had {} now {}}}", i, NAMES[*n], want, obs.gets[*n]));
                }
            }
            impl_envs.push(obs.model_part());
            l.last_obs = Some(obs);
        }
        impl_steps.push(format!("{}|{}", opres, impl_envs.join("|")));
        oracle_steps.push(if fails.is_empty() { "=".to_string() } else { fails.join("") });
        notes.push(note);
    }
    (case_toks.join(" "), impl_steps.join(" / "), oracle_steps.join(" / "), notes.join(" "))
}

// ======================================================================================
// "foreign value" stream: values that are bound to one render (macros, module objects,
// namespaces holding macros, `caller`, `loop`) are exported from a finished render and handed to
// OTHER renders as context variable or global.  What such a render does must not depend on the
// thread it runs on nor on what that thread rendered before: every variant of a case must give
// the identical result (Ok output, or the same error kind + detail).
//
//   case  fx:<x>:<site>:<consumer>:<via>
//     x        exporter template index (what is exported and how it is used)
//     site     where the exporting render ran: M = main thread, 0..3 = a new thread after that
//              many other renders
//     consumer same  = the exporter template itself (it declares the same macro before the use)
//              other = another template with a macro of its own
//              str   = the exporter's source compiled again with render_str
//              info  = a template that only inspects the value (never calls it)
//     via      ctx | glob  (context variable / Environment::add_global on a clone)
//   variants (in this order): main thread; new threads after k = 0,1,2,3 other renders (ok and
//   failing ones); the exporting thread itself (one more render after the export, `-` for site
//   M); 4 concurrent brand-new threads; 4 concurrent threads after k = site renders.
// ======================================================================================

struct Exporter {
    src: &'static str,
    export: &'static str,
    use_expr: &'static str,
}

const LIB_SRC: &str = "{% macro m(x) %}L{{ x }}{% endmacro %}";

const EXPORTERS: [Exporter; 9] = [
    Exporter { src: "{% macro m(x) %}[{{ x }}]{% endmacro %}{% if ext is defined %}{{ ext(1) }}{% else %}-{% endif %}", export: "m", use_expr: "ext(1)" },
    Exporter { src: "{% set y = 'Y' %}{% macro m(x) %}[{{ x }}{{ y }}]{% endmacro %}{% if ext is defined %}{{ ext(1) }}{% else %}-{% endif %}", export: "m", use_expr: "ext(1)" },
    Exporter { src: "{% macro m(x) %}<{{ x }}>{% endmacro %}{% set ns = namespace() %}{% set ns.f = m %}{% if ext is defined %}{{ ext.f(2) }}{% else %}-{% endif %}", export: "ns", use_expr: "ext.f(2)" },
    Exporter { src: "{% macro m(x) %}({{ x }}){% endmacro %}{% set exported = m %}{% if ext is defined %}{{ ext(3) }}{% else %}-{% endif %}", export: "exported", use_expr: "ext(3)" },
    Exporter { src: "{% import 'lib' as lib %}{% if ext is defined %}{{ ext.m(4) }}{% else %}-{% endif %}", export: "lib", use_expr: "ext.m(4)" },
    Exporter { src: "{% set ns = namespace() %}{% macro wrap() %}{% set ns.c = caller %}w{{ caller() }}{% endmacro %}{% call wrap() %}inner{% endcall %}{% if ext is defined %}{{ ext.c() }}{% else %}-{% endif %}", export: "ns", use_expr: "ext.c()" },
    Exporter { src: "{% set ns = namespace() %}{% for i in [7, 8] %}{% set ns.l = loop %}{% endfor %}{% if ext is defined %}{{ ext.l.index }}/{{ ext.l.length }}/{{ ext.l.cycle('p', 'q') }}{% else %}-{% endif %}", export: "ns", use_expr: "ext.l.index ~ '/' ~ ext.l.length" },
    Exporter { src: "{% from 'lib' import m %}{% if ext is defined %}{{ ext(5) }}{% else %}-{% endif %}", export: "m", use_expr: "ext(5)" },
    Exporter { src: "{% macro a(x) %}a{{ x }}{% endmacro %}{% macro m(x) %}{{ a(x) }}!{% endmacro %}{% if ext is defined %}{{ ext.name }}|{{ ext }}|{{ ext(1) }}{% else %}-{% endif %}", export: "m", use_expr: "ext.name ~ ext(1)" },
];

const FX_NAMES: [&str; 9] = ["x0", "x1", "x2", "x3", "x4", "x5", "x6", "x7", "x8"];
const FO_NAMES: [&str; 9] = ["o0", "o1", "o2", "o3", "o4", "o5", "o6", "o7", "o8"];
const INFO_SRC: &str = "{{ ext is defined }}/{{ ext is mapping }}/{{ ext is none }}/{{ ext.name is defined }}";

fn foreign_env() -> Environment<'static> {
    let mut env = new_env();
    env.add_template("lib", LIB_SRC).unwrap();
    env.add_template("info", INFO_SRC).unwrap();
    for (i, x) in EXPORTERS.iter().enumerate() {
        env.add_template(FX_NAMES[i], x.src).unwrap();
        env.add_template_owned(
            FO_NAMES[i].to_string(),
            format!("{{% macro m(x) %}}other{{{{ x }}}}{{% endmacro %}}{{{{ m(0) }}}}[{{{{ {} }}}}]", x.use_expr),
        )
        .unwrap();
    }
    env
}

fn fx_outcome(r: Result<String, Error>) -> String {
    match r {
        Ok(s) => format!("ok:{}", s),
        Result::Err(e) => format!("err:{:?}:{}", e.kind(), e.detail().unwrap_or("-")),
    }
}

/// the other renders a thread does before the interesting one: succeeding and failing ones
fn pre_renders(env: &Environment<'static>, k: usize) {
    for i in 0..k {
        match i % 3 {
            0 => {
                let _ = env.get_template("x0").and_then(|t| t.render(context! {}));
            }
            1 => {
                let _ = env.render_str("{% macro z() %}{% endmacro %}{{ 1 // 0 }}", context! {});
            }
            _ => {
                let _ = env.get_template("info").and_then(|t| t.render(context! { ext => 1 }));
            }
        }
    }
}

fn fx_export(env: &Environment<'static>, x: usize) -> Result<Value, String> {
    let t = env.get_template(FX_NAMES[x]).map_err(|e| fx_outcome(Result::Err(e)))?;
    let cap = t.render_captured(context! {}).map_err(|e| fx_outcome(Result::Err(e)))?;
    cap.state().lookup(EXPORTERS[x].export).ok_or_else(|| "no-export".to_string())
}

fn fx_consume(env: &Environment<'static>, x: usize, consumer: &str, via: &str, v: &Value) -> String {
    let r = guarded(|| {
        let globbed;
        let (env, ctx): (&Environment<'static>, Value) = if via == "glob" {
            let mut e2 = env.clone();
            e2.add_global("ext", v.clone());
            globbed = e2;
            (&globbed, context! {})
        } else {
            (env, context! { ext => v.clone() })
        };
        match consumer {
            "same" => env.get_template(FX_NAMES[x]).and_then(|t| t.render(ctx)),
            "other" => env.get_template(FO_NAMES[x]).and_then(|t| t.render(ctx)),
            "str" => env.render_str(EXPORTERS[x].src, ctx),
            _ => env.get_template("info").and_then(|t| t.render(ctx)),
        }
    });
    match r {
        Ok(r) => fx_outcome(r),
        Result::Err(m) => format!("panic:{}", m),
    }
}

fn spawn_join<T: Send>(f: impl FnOnce() -> T + Send) -> T {
    std::thread::scope(|sc| {
        std::thread::Builder::new().stack_size(8 << 20).spawn_scoped(sc, f).unwrap().join().unwrap()
    })
}

/// returns (variant results, oracle verdict)
fn run_foreign(env: &Environment<'static>, x: usize, site: &str, consumer: &str, via: &str) -> (Vec<String>, String) {
    let was = LOGGING.swap(false, Ordering::Relaxed);
    let mut variants: Vec<String> = Vec::new();
    // ---- export
    let (exported, same_thread) = if site == "M" {
        (fx_export(env, x), "-".to_string())
    } else {
        let j: usize = site.parse().unwrap_or(0);
        spawn_join(|| {
            pre_renders(env, j);
            let v = fx_export(env, x);
            let again = match &v {
                Ok(v) => fx_consume(env, x, consumer, via, v),
                Result::Err(_) => "-".to_string(),
            };
            (v, again)
        })
    };
    let v = match exported {
        Ok(v) => v,
        Result::Err(e) => {
            LOGGING.store(was, Ordering::Relaxed);
            return (vec![format!("export-failed:{}", e)], format!("FAILforeign{{export failed: {}}}", e));
        }
    };
    // ---- (a) main thread
    variants.push(fx_consume(env, x, consumer, via, &v));
    // ---- (b), (c) new threads after k other renders
    for k in 0..4usize {
        let v = &v;
        variants.push(spawn_join(move || {
            pre_renders(env, k);
            fx_consume(env, x, consumer, via, v)
        }));
    }
    // ---- the exporting thread itself, one render later
    variants.push(same_thread);
    // ---- (d) concurrently
    let kk: usize = site.parse().unwrap_or(0);
    for pre in [0usize, kk] {
        let v = &v;
        let rs: Vec<String> = std::thread::scope(|sc| {
            let hs: Vec<_> = (0..4)
                .map(|_| {
                    std::thread::Builder::new()
                        .stack_size(8 << 20)
                        .spawn_scoped(sc, move || {
                            pre_renders(env, pre);
                            fx_consume(env, x, consumer, via, v)
                        })
                        .unwrap()
                })
                .collect();
            hs.into_iter().map(|h| h.join().unwrap_or_else(|_| "thread-panicked".into())).collect()
        });
        variants.extend(rs);
    }
    LOGGING.store(was, Ordering::Relaxed);
    let reference = variants[0].clone();
    let labels = ["main", "new+0", "new+1", "new+2", "new+3", "exporter+1", "conc0.0", "conc0.1", "conc0.2", "conc0.3", "concK.0", "concK.1", "concK.2", "concK.3"];
    let mut verdict = "=".to_string();
    for (i, r) in variants.iter().enumerate() {
        if r != "-" && *r != reference {
            verdict = format!("FAILforeign{{variant {} gave {} but main thread gave {}}}", labels[i], r, reference);
            break;
        }
    }
    (variants, verdict)
}

fn foreign_cases() -> Vec<(usize, &'static str, &'static str, &'static str)> {
    let mut v = Vec::new();
    for x in 0..EXPORTERS.len() {
        for site in ["M", "0", "1", "2", "3"] {
            for consumer in ["same", "other", "str", "info"] {
                for via in ["ctx", "glob"] {
                    v.push((x, site, consumer, via));
                }
            }
        }
    }
    v
}

fn foreign_line(env: &Environment<'static>, x: usize, site: &str, consumer: &str, via: &str) -> String {
    let (variants, verdict) = run_foreign(env, x, site, consumer, via);
    format!("fx:{}:{}:{}:{}\t{}\t{}", x, site, consumer, via, variants.join(" / "), verdict)
}

fn main() {
    quiet_panics();
    let args: Vec<String> = std::env::args().collect();
    let out = std::io::stdout();
    let mut out = std::io::BufWriter::new(out.lock());
    match args.get(1).map(|s| s.as_str()) {
        Some("gen") => {
            let thorough = args.get(2).map(|s| s == "thorough").unwrap_or(false);
            let count = match args.get(3).and_then(|s| s.parse::<u64>().ok()) {
                Some(c) => c,
                None => if thorough { 100_000 } else { 10_000 },
            };
            let mut rng = Rng::new(seed_from_env());
            for h in 0..count {
                let ops = gen_history(&mut rng, h % 4 == 0);
                let hseed = rng.next();
                let (case, imp, orc, notes) = run_history(&ops, hseed);
                writeln!(out, "{}\t{}\t{}\t{}", case, imp, orc, notes).unwrap();
            }
        }
        Some("one") => {
            let toks: Vec<String> = args[2..].iter().flat_map(|s| s.split_whitespace().map(|x| x.to_string()).collect::<Vec<_>>()).collect();
            let ops: Vec<Op> = toks.iter().filter_map(|t| parse_op(t)).collect();
            for seed in 0..4u64 {
                let (case, imp, orc, notes) = run_history(&ops, seed);
                writeln!(out, "{}\t{}\t{}\t{}", case, imp, orc, notes).unwrap();
                if seed == 0 && args.iter().any(|a| a == "--once") {
                    break;
                }
            }
        }
        Some("foreign") => {
            // the whole (small) case space, `rounds` times (thread schedules differ between rounds)
            let rounds: usize = args.get(2).and_then(|s| s.parse().ok()).unwrap_or(1);
            let env = foreign_env();
            for _ in 0..rounds {
                for (x, site, consumer, via) in foreign_cases() {
                    writeln!(out, "{}", foreign_line(&env, x, site, consumer, via)).unwrap();
                }
            }
        }
        Some("fone") => {
            let f: Vec<&str> = args[2].split(':').collect();
            let env = foreign_env();
            let x: usize = f.get(1).and_then(|s| s.parse().ok()).unwrap_or(0).min(EXPORTERS.len() - 1);
            writeln!(out, "{}", foreign_line(&env, x, f.get(2).copied().unwrap_or("0"), f.get(3).copied().unwrap_or("same"), f.get(4).copied().unwrap_or("ctx"))).unwrap();
        }
        Some("file") => {
            // one history per line (corpus of minimised past failures)
            let text = std::fs::read_to_string(&args[2]).unwrap_or_default();
            for (i, line) in text.lines().enumerate() {
                let line = line.trim();
                if line.is_empty() || line.starts_with('#') {
                    continue;
                }
                let ops: Vec<Op> = line.split_whitespace().filter_map(parse_op).collect();
                let (case, imp, orc, notes) = run_history(&ops, i as u64);
                writeln!(out, "{}\t{}\t{}\t{}", case, imp, orc, notes).unwrap();
            }
        }
        _ => {
            eprintln!("usage: c15 gen <quick|thorough> [count] | c15 one <case tokens…>");
            std::process::exit(2);
        }
    }
}
