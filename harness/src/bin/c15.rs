//! C15 correspondence + oracle harness: an environment's behaviour depends on its contents, not
//! on its history.
//!
//! A *case* is a history: space separated op tokens over up to three live environments `e`
//! (env 0 = `Environment::new()`, further ones are created by `cn`):
//!
//!   ab:e:n:s   add_template        (borrowed name/source; n = name index, s = source index)
//!   ao:e:n:s   add_template_owned
//!   rm:e:n     remove_template          cl:e   clear_templates
//!   rx:e:p     remove_template("A" | " a"): removes nothing, names are never normalised
//!   sl:e:l     set_loader(loader table l, 1..=6; table 6 answers according to the global phase)
//!   fl:v       the outside world changes: loader table 6 now answers with phase v (0: fails / broken
//!              source / missing, 1: fine) — an impure loader
//!   af:e:k:v / rf:e:k    add/remove filter  (k = registry name index 0/1, v = 0|1|2|B(builtin))
//!   at:e:k:v / rt:e:k    add/remove test        ag:e:k:v / rg:e:k   add/remove global
//!   lt:e:f:v   load-time configuration field f := v  (0 trim_blocks, 1 lstrip_blocks,
//!              2 keep_trailing_newline, 3 set_syntax(0 default,1 `${ }` variables,2 `<% %>` blocks),
//!              4 set_auto_escape_callback(0 default,1 always html,2 never,3 only "a"/"c"))
//!   ru:e:f:v   run-time configuration field f := v  (0 set_undefined_behavior, 1 set_formatter,
//!              2 set_debug, 3 set_recursion_limit, 4 set_fuel, 5 set_path_join_callback,
//!              6 set_unknown_method_callback)
//!   cn:e       clone env e (the clone becomes a new live environment)
//!   r:e:n:c[:log]  get_template(n).render(ctx c) on env e itself (mutates its memo cache);
//!                  `log` = the names the engine asked the loader for (filled in by the harness,
//!                  ignored on replay) — the Lean store model replays exactly these lookups
//!   hd:e:n[:log]   get_template(n) on env e, keep the handle, mutate a CLONE of e (remove/replace n,
//!                  clear, other loader, other configuration), render the handle again: unchanged
//!   jk:e:k     a failing compile / failing render that must leave no residue (junk alphabet)
//!   pn:e:k     an operation that UNWINDS and is caught on this thread: a context whose Serialize impl panics
//!              (outermost, via render, nested), a panicking function/filter/test/object method/formatter/
//!              auto-escape callback/path-join callback/loader, at several points of a render; afterwards the
//!              reference environment is built and observed on a thread of its own
//!   th:e:k     8 threads render concurrently from env e (runtime part, validated only)
//!
//! Header lines (consumed by the model driver / the python side):
//!   #cmp <syntax> <source> <0|1>     does the source compile under that syntax (the `compiles`
//!                                    parameter of the model, measured on the real compiler)
//!   #tbl <name> <source> <ltcfg> <H> fingerprint of the real compilation of (name, source) under the
//!                                    load-time configuration ltcfg = 5 digits trim,lstrip,ktn,syntax,autoescape
//!
//! Output line:  `<annotated case>\t<impl trace>\t<oracle trace>\t<render outcomes of r ops>`; traces
//! have one entry per step separated by " / ".  The impl trace is what the Lean model predicts (op
//! result, and per live env: get result per name as `s<source>#<fingerprint of the compiled template>`,
//! `templates()` listing, registry contents, load-time/run-time configuration as observed through
//! getters and probes).  The oracle trace is `=` when the property's predicates hold at that step,
//! otherwise `FAIL<site>{detail}`:
//!   fresh      env differs from a freshly built environment with the same final configuration in
//!              which every template was loaded under the load-time configuration of its last load
//!   failed-insert  an add that returned Err changed what the environment does
//!   sticky     a template that was present changed without remove/clear/re-add
//!   repeat     the same template+context gave two different results
//!   isolation  an operation on one environment changed a clone/the original
//!   handle     a template handle changed while a clone of its environment was modified
//!   threads    a concurrent render differs from the single threaded fresh-environment result
//!   thread-state  after the step this thread is still marked as serialising for a value
//!
//! usage: c15 gen <quick|thorough> [count] | c15 one <case tokens…> [--once] | c15 file <corpus file>
//!        c15 foreign <rounds> | c15 fone fx:<x>:<site>:<consumer>:<via>   (foreign-value stream, see below)
use minijinja::value::Value;
use minijinja::{context, AutoEscape, Environment, Error, ErrorKind, UndefinedBehavior};
use mjh::*;
use std::borrow::Cow;
use std::collections::BTreeMap;
use std::io::Write;
use std::sync::atomic::{AtomicBool, AtomicUsize, Ordering};
use std::sync::{Mutex, OnceLock};

/// "./a" is a name of its own (names are never normalised); "A" and " a" are only ever looked up.
const NAMES: [&str; 5] = ["a", "b.html", "c", "d.json", "./a"];
const PROBE_NAMES: [&str; 2] = ["A", " a"];
const NN: usize = 5;

/// every source ends with a tail that is sensitive to each load-time setting: a block tag with
/// leading blanks (lstrip_blocks) followed by a newline (trim_blocks), a `{{ }}` expression (syntax)
/// that prints html metacharacters (auto-escape), and a trailing newline (keep_trailing_newline)
macro_rules! src {
    ($body:expr) => {
        concat!($body, "\n  {% if true %}\n  <{{ '<&>' }}>\n  {% endif %}\n")
    };
}

/// Source alphabet.  Every source renders its own identity; 0/1/2/6/14 expose registry state; 2 uses the
/// engine's interior-mutable values (namespace, loop.cycle/changed, a reversed iterator, kwargs);
/// 3/4/5/7/12/13/15 chain template lookups; 8/9 do not compile (8 does with `<% %>` blocks);
/// 10/11 fail at run time; 16 needs recursion depth and fuel; 17 calls an unknown method.
const SOURCES: [&str; 18] = [
    src!("0[{{ g }}|{{ 'x'|f }}|{{ 'y'|upper }}|{{ v }}|{{ [g, v]|tojson }}|{{ w }}{{ u }}]"),
    src!("1[{% if 3 is t %}T{% else %}F{% endif %}{% if 3 is odd %}O{% else %}E{% endif %}]"),
    src!("2[{% set ns = namespace(c=0) %}{% for i in range(3) %}{% set ns.c = ns.c + i %}{{ loop.cycle('a', 'b') }}{% if loop.changed(i // 2) %}!{% endif %}{{ i }}{% endfor %}{{ ns.c }}|{{ g }}|{{ range(3)|reverse|list }}|{{ dict(a=300).a }}]"),
    src!("3<{% include 'a' %}>"),
    src!("4<{% include 'b.html' %}{% include 'c' %}>"),
    src!("{% extends 'a' %}{% block x %}5{{ g }}{% endblock %}"),
    src!("6[{% block x %}base{{ 'z'|f }}{% endblock %}]"),
    src!("{% extends 'd.json' %}{% block x %}7{{ super() }}{% endblock %}"),
    src!("8{% if %}"),
    src!("9{% endblock %}{{ "),
    src!("10{{ v // 0 }}"),
    src!("11{{ nofn() }}"),
    src!("12<{% include 'd.json' ignore missing %}|{% include ['c', 'b.html'] %}>"),
    src!("{% from 'b.html' import m %}13{{ m() }}"),
    src!("{% macro m() %}M14{{ g }}{% endmacro %}14{{ 'w'|f }}"),
    src!("15{% for x in [1, 2] %}{% set q %}{% include 'c' %}{% endset %}{{ q|length }}{% endfor %}"),
    src!("16{% macro r(n) %}{% if n > 0 %}{{ r(n - 1) }}{% endif %}.{% endmacro %}{{ r(4) }}"),
    src!("17{{ 'x'.nomethod(1) }}|{{ undefined_thing }}"),
];
const NS: usize = 18;

#[derive(Clone, Copy, PartialEq)]
enum LR {
    Missing,
    Src(usize),
    Fail,
    Boom,
}
use LR::*;
/// Loader tables 1..=5 (index 0 = "no loader set"); table 6 = row 6 in phase 0, row 7 in phase 1.
const LOADERS: [[LR; NN]; 8] = [
    [Missing, Missing, Missing, Missing, Missing],
    [Src(0), Src(6), Src(3), Src(8), Src(2)],
    [Src(1), Src(5), Fail, Src(2), Missing],
    [Src(4), Src(14), Src(13), Missing, Src(16)],
    [Src(7), Src(10), Src(12), Src(6), Src(17)],
    [Boom, Src(15), Src(9), Src(11), Src(0)],
    [Fail, Src(9), Missing, Fail, Src(8)],
    [Src(2), Src(6), Src(16), Src(17), Src(1)],
];
static PHASE: AtomicUsize = AtomicUsize::new(0);

const FILTER_NAMES: [&str; 2] = ["f", "upper"];
const TEST_NAMES: [&str; 2] = ["t", "odd"];
const GLOBAL_NAMES: [&str; 2] = ["g", "range"];

static LOGGING: AtomicBool = AtomicBool::new(true);
static REAL_LOG: Mutex<Vec<usize>> = Mutex::new(Vec::new());
static FRESH_LOG: Mutex<Vec<usize>> = Mutex::new(Vec::new());
static JUNK_SEEN: Mutex<BTreeMap<(usize, String), String>> = Mutex::new(BTreeMap::new());

fn loader_fn(table: usize, real: bool) -> impl Fn(&str) -> Result<Option<String>, Error> + Send + Sync + 'static {
    move |name: &str| {
        let idx = NAMES.iter().position(|n| *n == name);
        if LOGGING.load(Ordering::Relaxed) {
            let log = if real { &REAL_LOG } else { &FRESH_LOG };
            log.lock().unwrap().push(idx.unwrap_or(99));
        }
        let row = if table == 6 { 6 + PHASE.load(Ordering::SeqCst).min(1) } else { table };
        match idx.map(|i| LOADERS[row][i]) {
            None | Some(Missing) => Ok(None),
            Some(Src(s)) => Ok(Some(SOURCES[s].to_string())),
            Some(Fail) => Result::Err(Error::new(ErrorKind::InvalidOperation, "loader failure")),
            Some(Boom) => panic!("loader panics"),
        }
    }
}

#[derive(Clone, Copy, PartialEq, Debug)]
enum Reg {
    Absent,
    Builtin,
    Custom(usize),
}

impl Reg {
    fn code(self) -> String {
        match self {
            Reg::Absent => "-".into(),
            Reg::Builtin => "B".into(),
            Reg::Custom(k) => k.to_string(),
        }
    }
}

// ---------------------------------------------------------------------------- configuration

/// load-time configuration: trim, lstrip, keep_trailing_newline, syntax, auto-escape callback
type Lt = [u8; 5];
/// run-time configuration: undefined, formatter, debug, recursion limit, fuel, path join, unknown method
type Rt = [u8; 7];
const LT_DEFAULT: Lt = [0, 0, 0, 0, 0];
const RT_DEFAULT: Rt = [0, 0, 1, 0, 0, 0, 0];
const LT_RANGE: [u8; 5] = [2, 2, 2, 3, 4];
const RT_RANGE: [u8; 7] = [4, 2, 2, 3, 3, 2, 2];
const RECURSION_LIMITS: [usize; 3] = [24, 8, 60];
const FUELS: [Option<u64>; 3] = [None, Some(30), Some(5000)];

fn lt_code(lt: &Lt) -> String {
    lt.iter().map(|d| d.to_string()).collect()
}
fn rt_code(rt: &Rt) -> String {
    rt.iter().map(|d| d.to_string()).collect()
}

fn syntax_of(v: u8) -> minijinja::syntax::SyntaxConfig {
    use minijinja::syntax::SyntaxConfig;
    match v {
        0 => SyntaxConfig::default(),
        1 => SyntaxConfig::builder().variable_delimiters("${", "}").build().unwrap(),
        _ => SyntaxConfig::builder().block_delimiters("<%", "%>").build().unwrap(),
    }
}

fn auto_escape_of(v: u8, name: &str) -> AutoEscape {
    match v {
        0 => minijinja::default_auto_escape_callback(name),
        1 => AutoEscape::Html,
        2 => AutoEscape::None,
        _ => {
            if name == "a" || name == "c" {
                AutoEscape::Html
            } else {
                AutoEscape::None
            }
        }
    }
}

fn apply_lt_field(env: &mut Environment<'static>, f: usize, v: u8) {
    match f {
        0 => env.set_trim_blocks(v == 1),
        1 => env.set_lstrip_blocks(v == 1),
        2 => env.set_keep_trailing_newline(v == 1),
        3 => env.set_syntax(syntax_of(v)),
        _ => match v {
            0 => env.set_auto_escape_callback(minijinja::default_auto_escape_callback),
            v => env.set_auto_escape_callback(move |name| auto_escape_of(v, name)),
        },
    }
}

/// move the environment's load-time configuration from `cur` to `want`, touching only the setters
/// of fields that differ (a setter that is never called must equal its default)
fn apply_lt(env: &mut Environment<'static>, cur: &mut Lt, want: &Lt) {
    for f in 0..5 {
        if cur[f] != want[f] {
            apply_lt_field(env, f, want[f]);
            cur[f] = want[f];
        }
    }
}

fn swap_join<'s>(name: &'s str, _parent: &'s str) -> Cow<'s, str> {
    match name {
        "a" => Cow::Borrowed("c"),
        "c" => Cow::Borrowed("a"),
        "probe-x" => Cow::Borrowed("probe-y"),
        other => Cow::Borrowed(other),
    }
}
fn identity_join<'s>(name: &'s str, _parent: &'s str) -> Cow<'s, str> {
    Cow::Borrowed(name)
}

fn apply_rt_field(env: &mut Environment<'static>, f: usize, v: u8) {
    match f {
        0 => env.set_undefined_behavior(match v {
            0 => UndefinedBehavior::Lenient,
            1 => UndefinedBehavior::Strict,
            2 => UndefinedBehavior::Chainable,
            _ => UndefinedBehavior::SemiStrict,
        }),
        1 => match v {
            0 => env.set_formatter(minijinja::escape_formatter),
            _ => env.set_formatter(|out, state, value| {
                out.write_str("\u{ab}")?;
                minijinja::escape_formatter(out, state, value)?;
                out.write_str("\u{bb}")?;
                Ok(())
            }),
        },
        2 => env.set_debug(v == 1),
        3 => env.set_recursion_limit(RECURSION_LIMITS[v as usize % 3]),
        4 => env.set_fuel(FUELS[v as usize % 3]),
        5 => match v {
            0 => env.set_path_join_callback(identity_join),
            _ => env.set_path_join_callback(swap_join),
        },
        _ => match v {
            0 => env.set_unknown_method_callback(|_state, _value, _method, _args| Result::Err(Error::from(ErrorKind::UnknownMethod))),
            _ => env.set_unknown_method_callback(|_state, _value, method, _args| Ok(Value::from(format!("M({})", method)))),
        },
    }
}

fn apply_rt(env: &mut Environment<'static>, cur: &mut Rt, want: &Rt) {
    for f in 0..7 {
        if cur[f] != want[f] {
            apply_rt_field(env, f, want[f]);
            cur[f] = want[f];
        }
    }
}

/// a template that evaluates one expression, written in the given syntax
fn expr_tpl(syn: u8, expr: &str) -> String {
    if syn == 1 {
        format!("${{ {} }}", expr)
    } else {
        format!("{{{{ {} }}}}", expr)
    }
}
fn include_tpl(syn: u8, name: &str) -> String {
    if syn == 2 {
        format!("<% extends '{}' %>", name)
    } else {
        format!("{{% extends '{}' %}}", name)
    }
}

/// fingerprint of a compiled template: its instruction streams (root and blocks: every instruction
/// with its operands, its line and its span — what error locations are made from), the initial
/// auto-escape decision, the buffer size hint and the syntax it carries — everything load-time
/// configuration is baked into, and everything a dirty code generator buffer could leave behind
fn fingerprint(t: &minijinja::Template<'_, '_>) -> String {
    use minijinja::machinery::Instructions;
    use std::hash::{Hash, Hasher};
    let ct = minijinja::machinery::get_compiled_template(t);
    let mut h = std::collections::hash_map::DefaultHasher::new();
    let dump = |ins: &Instructions<'_>, h: &mut std::collections::hash_map::DefaultHasher| {
        let mut i = 0;
        while let Some(instr) = ins.get(i) {
            serde_json::to_string(instr).unwrap_or_else(|_| "?".into()).hash(h);
            ins.get_line(i).hash(h);
            match ins.get_span(i) {
                Some(sp) => (1u8, sp.start_line, sp.start_col, sp.start_offset, sp.end_line, sp.end_col, sp.end_offset).hash(h),
                None => 0u8.hash(h),
            }
            i += 1;
        }
        i.hash(h);
        ins.name().hash(h);
    };
    dump(&ct.instructions, &mut h);
    for (name, ins) in ct.blocks.iter() {
        name.hash(&mut h);
        dump(ins, &mut h);
    }
    format!("{:?}|{:?}|{}", ct.initial_auto_escape, ct.syntax_config, ct.buffer_size_hint).hash(&mut h);
    format!("{:010x}", h.finish() & 0xff_ffff_ffff)
}

/// The abstraction of one environment (the spec state): what a fresh environment is built from.
#[derive(Clone)]
struct Spec {
    /// name -> (source, load-time configuration at its last load); explicit and memoised templates
    contents: BTreeMap<usize, (usize, Lt)>,
    loader: usize,
    lt: Lt,
    rt: Rt,
    filters: [Reg; 2],
    tests: [Reg; 2],
    globals: [Reg; 2],
    /// stickiness oracle: what the real env itself showed earlier (source code + fingerprint)
    pinned: BTreeMap<usize, String>,
    /// the history started from `Environment::empty()`: no builtins, auto-escape callback "never"
    base_empty: bool,
}

struct Live {
    env: Environment<'static>,
    spec: Spec,
    last_obs: Option<Obs>,
}

fn set_filter(env: &mut Environment<'static>, k: usize, v: Reg) {
    match v {
        Reg::Absent => env.remove_filter(FILTER_NAMES[k]),
        Reg::Builtin => env.add_filter(FILTER_NAMES[k], minijinja::filters::upper),
        Reg::Custom(id) => env.add_filter(FILTER_NAMES[k], move |s: String| format!("F{}({})", id, s)),
    }
}
fn set_test(env: &mut Environment<'static>, k: usize, v: Reg) {
    match v {
        Reg::Absent => env.remove_test(TEST_NAMES[k]),
        Reg::Builtin => env.add_test(TEST_NAMES[k], minijinja::tests::is_odd),
        Reg::Custom(id) => env.add_test(TEST_NAMES[k], move |x: i64| match id {
            0 => true,
            1 => false,
            _ => x % 2 == 0,
        }),
    }
}
fn set_global(env: &mut Environment<'static>, k: usize, v: Reg) {
    match v {
        Reg::Absent => env.remove_global(GLOBAL_NAMES[k]),
        Reg::Builtin => env.add_function(GLOBAL_NAMES[k], minijinja::functions::range),
        Reg::Custom(id) => env.add_global(GLOBAL_NAMES[k], format!("G{}", id)),
    }
}

/// `add_template_owned` with each combination of borrowed/owned name and source: only when BOTH
/// are borrowed the template goes to the borrowed tier
fn add_owned(env: &mut Environment<'static>, n: usize, s: usize, mode: u8) -> Result<(), Error> {
    match mode {
        0 => env.add_template_owned(NAMES[n].to_string(), SOURCES[s].to_string()),
        1 => env.add_template_owned(NAMES[n], SOURCES[s].to_string()),
        2 => env.add_template_owned(NAMES[n].to_string(), SOURCES[s]),
        _ => env.add_template_owned(NAMES[n], SOURCES[s]),
    }
}

fn new_env() -> Environment<'static> {
    let mut env = Environment::new();
    env.set_recursion_limit(RECURSION_LIMITS[0]);
    env.set_debug(true);
    env
}

fn empty_env() -> Environment<'static> {
    let mut env = Environment::empty();
    env.set_recursion_limit(RECURSION_LIMITS[0]);
    env.set_debug(true);
    env
}

/// load-time configuration of `Environment::empty()`: the auto-escape callback never escapes
const LT_EMPTY: Lt = [0, 0, 0, 0, 2];

/// the names of all filters and tests of an environment, read off its `Debug` output (there is no
/// public iterator; globals have one)
fn registry_names(env: &Environment<'static>) -> (Vec<String>, Vec<String>) {
    let d = format!("{:?}", env);
    let section = |key: &str| -> Vec<String> {
        let Some(at) = d.find(key) else { return Vec::new() };
        let rest = &d[at + key.len()..];
        let Some(open) = rest.find(|c| c == '{' || c == '[') else { return Vec::new() };
        let close = rest[open..].find(|c| c == '}' || c == ']').map(|x| x + open).unwrap_or(rest.len());
        rest[open + 1..close].split(',').map(|x| x.trim().trim_matches('"').to_string()).filter(|x| !x.is_empty()).collect()
    };
    (section("filters: "), section("tests: "))
}

/// `Environment::new()` with everything taken out again that `Environment::empty()` does not have:
/// has to be the same environment as `Environment::empty()`
fn stripped_new_env() -> Environment<'static> {
    let mut env = new_env();
    let (filters, tests) = registry_names(&env);
    for f in &filters {
        env.remove_filter(f);
    }
    for t in &tests {
        env.remove_test(t);
    }
    let globals: Vec<String> = env.globals().map(|(k, _)| k.to_string()).collect();
    for g in &globals {
        env.remove_global(g);
    }
    // the names come from the `Debug` output, which is not an interface: when it no longer yields
    // them (a builtin is still there), fall back to `empty()` instead of raising a false alarm
    let stripped = matches!(env.render_str("{{ 1|upper }}{{ 1|tojson }}", ()), Result::Err(ref e) if e.kind() == ErrorKind::UnknownFilter)
        && matches!(env.render_str("{{ 1 is odd }}", ()), Result::Err(ref e) if e.kind() == ErrorKind::UnknownTest)
        && !filters.is_empty()
        && !tests.is_empty();
    if !stripped {
        STRIP_FALLBACKS.fetch_add(1, Ordering::Relaxed);
        return empty_env();
    }
    env
}
static STRIP_FALLBACKS: AtomicUsize = AtomicUsize::new(0);

fn initial_spec_for(base_empty: bool) -> Spec {
    let b = if base_empty { Reg::Absent } else { Reg::Builtin };
    Spec {
        contents: BTreeMap::new(),
        loader: 0,
        lt: if base_empty { LT_EMPTY } else { LT_DEFAULT },
        rt: RT_DEFAULT,
        filters: [Reg::Absent, b],
        tests: [Reg::Absent, b],
        globals: [Reg::Absent, b],
        pinned: BTreeMap::new(),
        base_empty,
    }
}

fn initial_spec() -> Spec {
    initial_spec_for(false)
}

/// A freshly built environment with the given value.  Every template is loaded under the load-time
/// configuration of its last load (the documented rule: a setting affects the templates loaded
/// after the change), then the final configuration is installed.  The tier (borrowed/owned) of
/// every template and the order of construction are chosen pseudo-randomly: they must not matter.
fn build_fresh(spec: &Spec, rng: &mut Rng) -> Environment<'static> {
    // an environment that started empty is rebuilt from `empty()`, or from `new()` with the
    // builtins removed again and the auto-escape callback replaced (cur_lt says what is installed)
    let (mut env, mut cur_lt) = if !spec.base_empty {
        (new_env(), LT_DEFAULT)
    } else if rng.chance(1, 2) {
        (empty_env(), LT_EMPTY)
    } else {
        (stripped_new_env(), LT_DEFAULT)
    };
    let base = initial_spec_for(spec.base_empty);
    let mut cur_rt = RT_DEFAULT;
    let rt_first = rng.chance(1, 2);
    if rt_first {
        apply_rt(&mut env, &mut cur_rt, &spec.rt);
    }
    let loader_first = rng.chance(1, 2);
    if loader_first && spec.loader != 0 {
        env.set_loader(loader_fn(spec.loader, false));
    }
    let mut items: Vec<(usize, (usize, Lt))> = spec.contents.iter().map(|(a, b)| (*a, *b)).collect();
    if rng.chance(1, 2) {
        items.reverse();
    }
    for (n, (s, lt)) in items {
        apply_lt(&mut env, &mut cur_lt, &lt);
        let _ = match rng.below(6) {
            0 | 1 | 2 => env.add_template(NAMES[n], SOURCES[s]),
            m => add_owned(&mut env, n, s, (m - 3) as u8),
        };
    }
    apply_lt(&mut env, &mut cur_lt, &spec.lt);
    for k in 0..2 {
        if spec.filters[k] != base.filters[k] {
            set_filter(&mut env, k, spec.filters[k]);
        }
        if spec.tests[k] != base.tests[k] {
            set_test(&mut env, k, spec.tests[k]);
        }
        if spec.globals[k] != base.globals[k] {
            set_global(&mut env, k, spec.globals[k]);
        }
    }
    if !loader_first && spec.loader != 0 {
        env.set_loader(loader_fn(spec.loader, false));
    }
    if !rt_first {
        apply_rt(&mut env, &mut cur_rt, &spec.rt);
    }
    env
}

struct BadCtx;
impl serde::Serialize for BadCtx {
    fn serialize<S: serde::Serializer>(&self, s: S) -> Result<S::Ok, S::Error> {
        use serde::ser::SerializeMap;
        let mut m = s.serialize_map(None)?;
        // a nested engine value goes through the value-handle side channel first …
        m.serialize_entry("v", &Value::from(vec![1, 2, 3]))?;
        m.serialize_entry("w", &Value::from_safe_string("<w>".into()))?;
        // … then the serialisation fails half way
        Result::Err(serde::ser::Error::custom("ctx failure"))
    }
}

/// a context that goes through serde and carries engine values: each of them is parked in the
/// thread's value-handle registry and taken back (the registry's single-entry fast path, or its
/// overflow map when the thread holds leaked handles)
struct EmbedCtx;
impl serde::Serialize for EmbedCtx {
    fn serialize<S: serde::Serializer>(&self, s: S) -> Result<S::Ok, S::Error> {
        use serde::ser::SerializeMap;
        let mut m = s.serialize_map(None)?;
        m.serialize_entry("v", &Value::from(vec![Value::from(255), Value::from(256), Value::from("<e>")]))?;
        m.serialize_entry("u", &Value::from_safe_string("<u>".into()))?;
        m.end()
    }
}

/// a `Serialize` impl that, while it is converted for the engine, hands engine values to a FOREIGN
/// serializer (logging, a cache key …): every such value is parked under a fresh handle which nobody
/// ever takes back — the thread's registry keeps `n` leaked entries from then on
struct LeakyCtx(usize);
impl serde::Serialize for LeakyCtx {
    fn serialize<S: serde::Serializer>(&self, s: S) -> Result<S::Ok, S::Error> {
        for i in 0..self.0 {
            let _ = serde_json::to_string(&Value::from(vec![Value::from(i as u64), Value::from("leaked")]));
        }
        s.serialize_u32(self.0 as u32)
    }
}

const NCTX: usize = 5;

fn make_ctx(c: usize) -> Value {
    match c {
        0 => context! { v => 7 },
        1 => Value::from(minijinja::value::Serde(BadCtx)),
        2 => context! { v => Value::from(vec![Value::from(1), Value::from("<s>")]) },
        // 255/256: the boundary of the small-integer format cache
        3 => context! { v => 256, w => 255 },
        _ => Value::from(minijinja::value::Serde(EmbedCtx)),
    }
}

fn err_code(e: &Error) -> String {
    match e.kind() {
        ErrorKind::TemplateNotFound => "NF".into(),
        ErrorKind::SyntaxError => "SE".into(),
        k => format!("E:{:?}", k),
    }
}

fn src_index(src: &str) -> Option<usize> {
    SOURCES.iter().position(|s| *s == src)
}

fn src_code(src: &str) -> String {
    match src_index(src) {
        Some(i) => format!("s{}", i),
        None => format!("s?{}", hex(src.as_bytes())),
    }
}

fn render_outcome(r: Result<String, Error>) -> String {
    match r {
        Ok(s) => format!("ok:{}", s.replace('\\', "\\\\").replace('\n', "\\n").replace('\t', "\\t").replace('\r', "\\r")),
        Result::Err(e) => {
            // with debug on the error carries the template source for `display_debug_info`
            let dbg = !e.display_debug_info().to_string().is_empty();
            // the location (line and byte range) comes from the spans the code generator attached
            let loc = format!("{}@{}", e.line().map(|l| l.to_string()).unwrap_or("-".into()), e.range().map(|r| format!("{}..{}", r.start, r.end)).unwrap_or("-".into()));
            format!("err:{:?}:{}:{}:{}", e.kind(), e.name().unwrap_or("-"), loc, if dbg { "dbg" } else { "nodbg" })
        }
    }
}

/// the ways to render a template handle: all of them must give what `render` gives
const NVIA: usize = 3;
fn render_via(t: &minijinja::Template<'_, '_>, ctx: Value, via: usize) -> Result<String, Error> {
    match via {
        0 => t.render(ctx),
        1 => t.render_captured(ctx).map(|c| c.output().to_string()),
        _ => {
            let mut buf: Vec<u8> = Vec::new();
            t.render_captured_to(ctx, &mut buf).map(|_| String::from_utf8_lossy(&buf).into_owned())
        }
    }
}

/// get_template(n).render(ctx) → (get result code incl. fingerprint, render outcome)
fn get_render_named(env: &Environment<'static>, name: &str, c: usize) -> (String, String) {
    get_render_named_via(env, name, c, 0)
}
fn get_render_named_via(env: &Environment<'static>, name: &str, c: usize, via: usize) -> (String, String) {
    // the lookup and the render are guarded separately: a render that unwinds (a panicking loader
    // reached through an include) does not hide what the lookup returned
    let t = match guarded(|| env.get_template(name)) {
        Ok(t) => t,
        Result::Err(m) => return ("panic".into(), format!("panic:{}", m)),
    };
    match t {
        Ok(t) => {
            let g = format!("{}#{}", src_code(t.source()), fingerprint(&t));
            let r = guarded(|| render_outcome(render_via(&t, make_ctx(c), via))).unwrap_or_else(|m| format!("panic:{}", m));
            (g, r)
        }
        Result::Err(e) => (err_code(&e), render_outcome(Result::Err(e))),
    }
}
fn get_render(env: &Environment<'static>, n: usize, c: usize) -> (String, String) {
    get_render_named(env, NAMES[n], c)
}

/// the ways to render a source given as a string under a name: no way touches the template store
/// (beyond what the template's own includes look up)
fn named_str_outcome(env: &Environment<'static>, n: usize, s: usize, k: usize) -> String {
    guarded(|| {
        render_outcome(match k {
            0 => env.render_named_str(NAMES[n], SOURCES[s], make_ctx(0)),
            1 => env.template_from_named_str(NAMES[n], SOURCES[s]).and_then(|t| t.render(make_ctx(0))),
            _ => env.template_from_named_str(NAMES[n], SOURCES[s]).and_then(|t| t.render_captured(make_ctx(0)).map(|c| c.output().to_string())),
        })
    })
    .unwrap_or_else(|m| format!("panic:{}", m))
}

/// `templates()` as an observation of its own: enumerating twice gives the same sequence; every name
/// comes once; `get_template` finds every listed name with the listed source, and asks no loader for it
/// (the compilations are compared through the fingerprints of both, against the model)
fn listing_check(env: &Environment<'static>) -> Option<String> {
    let first: Vec<(String, String)> = env.templates().map(|(n, t)| (n.to_string(), src_code(t.source()))).collect();
    let second: Vec<(String, String)> = env.templates().map(|(n, t)| (n.to_string(), src_code(t.source()))).collect();
    if first != second {
        return Some(format!("two enumerations differ: {:?} then {:?}", first.iter().map(|x| &x.0).collect::<Vec<_>>(), second.iter().map(|x| &x.0).collect::<Vec<_>>()));
    }
    let mut names: Vec<&String> = first.iter().map(|x| &x.0).collect();
    names.sort();
    if names.windows(2).any(|w| w[0] == w[1]) {
        return Some(format!("a name is listed twice: {:?}", names));
    }
    REAL_LOG.lock().unwrap().clear();
    FRESH_LOG.lock().unwrap().clear();
    let was = LOGGING.swap(true, Ordering::Relaxed);
    let mut bad = None;
    for (name, ptr) in &first {
        match guarded(|| env.get_template(name).map(|t| src_code(t.source()))) {
            Ok(Ok(p)) if p == *ptr => {}
            Ok(Ok(_)) => bad = Some(format!("{}: get_template returns another template than templates() lists", name)),
            Ok(Result::Err(e)) => bad = Some(format!("{}: listed but get_template fails with {}", name, err_code(&e))),
            Result::Err(_) => bad = Some(format!("{}: listed but get_template panics", name)),
        }
    }
    LOGGING.store(was, Ordering::Relaxed);
    let asked = REAL_LOG.lock().unwrap().len() + FRESH_LOG.lock().unwrap().len();
    REAL_LOG.lock().unwrap().clear();
    FRESH_LOG.lock().unwrap().clear();
    if bad.is_none() && asked != 0 {
        bad = Some("the loader was consulted for a listed template".to_string());
    }
    bad
}

fn listing(env: &Environment<'static>) -> String {
    let mut v: Vec<String> = env
        .templates()
        .map(|(name, t)| {
            let n = NAMES.iter().position(|x| *x == name).map(|i| i.to_string()).unwrap_or(format!("?{}", hex(name.as_bytes())));
            format!("{}:{}#{}", n, &src_code(t.source())[1..], fingerprint(&t))
        })
        .collect();
    v.sort();
    v.join(",")
}

fn strip_fmt(s: &str) -> &str {
    s.strip_prefix('\u{ab}').and_then(|x| x.strip_suffix('\u{bb}')).unwrap_or(s)
}

/// the load-time and run-time configuration as far as getters and probes show it
fn observed_config(env: &Environment<'static>) -> (Lt, Rt) {
    let syn = {
        let d = format!("{:?}", env.syntax());
        (0..3u8).find(|v| format!("{:?}", syntax_of(*v)) == d).unwrap_or(9)
    };
    let ae = {
        let sig = |name: &str| -> String {
            match env.template_from_named_str(name, "") {
                Ok(t) => format!("{:?}", minijinja::machinery::get_compiled_template(&t).initial_auto_escape),
                Result::Err(_) => "?".into(),
            }
        };
        let s = (sig("a"), sig("b.html"));
        (0..4u8).find(|v| (format!("{:?}", auto_escape_of(*v, "a")), format!("{:?}", auto_escape_of(*v, "b.html"))) == s).unwrap_or(9)
    };
    let lt: Lt = [env.trim_blocks() as u8, env.lstrip_blocks() as u8, env.keep_trailing_newline() as u8, syn, ae];
    let undefined = match env.undefined_behavior() {
        UndefinedBehavior::Lenient => 0,
        UndefinedBehavior::Strict => 1,
        UndefinedBehavior::Chainable => 2,
        UndefinedBehavior::SemiStrict => 3,
        _ => 9,
    };
    // probes run on a clone without fuel so that a tiny budget does not hide the other settings
    let mut p = env.clone();
    p.set_fuel(None);
    let formatter = match p.render_str(&expr_tpl(syn, "1"), context! {}) {
        Ok(s) if s == "1" => 0,
        Ok(s) if s == "\u{ab}1\u{bb}" => 1,
        _ => 9,
    };
    let recursion = RECURSION_LIMITS.iter().position(|x| *x == env.recursion_limit()).map(|x| x as u8).unwrap_or(9);
    let fuel = FUELS.iter().position(|x| *x == env.fuel()).map(|x| x as u8).unwrap_or(9);
    let path_join = match p.render_str(&include_tpl(syn, "probe-x"), context! {}) {
        Result::Err(e) if e.detail().map(|d| d.contains("probe-y")).unwrap_or(false) => 1,
        Result::Err(e) if e.detail().map(|d| d.contains("probe-x")).unwrap_or(false) => 0,
        _ => 9,
    };
    let unknown_method = match p.render_str(&expr_tpl(syn, "'x'.nomethod()"), context! {}) {
        Ok(s) if strip_fmt(&s) == "M(nomethod)" => 1,
        Result::Err(e) if e.kind() == ErrorKind::UnknownMethod => 0,
        _ => 9,
    };
    let rt: Rt = [undefined, formatter, env.debug() as u8, recursion, fuel, path_join, unknown_method];
    (lt, rt)
}

fn registries(env: &Environment<'static>, syn: u8) -> String {
    let mut p = env.clone();
    p.set_fuel(None);
    p.set_undefined_behavior(UndefinedBehavior::Lenient);
    let probe = |src: String| p.render_str(&src, context! {});
    let mut out = Vec::new();
    for name in FILTER_NAMES {
        let code = match probe(expr_tpl(syn, &format!("'x'|{}", name))) {
            Ok(s) if strip_fmt(&s) == "X" => "B".to_string(),
            Ok(s) if strip_fmt(&s).starts_with('F') && strip_fmt(&s).ends_with("(x)") => {
                let t = strip_fmt(&s);
                t[1..t.len() - 3].to_string()
            }
            Ok(s) => format!("?{}", hex(s.as_bytes())),
            Result::Err(e) if e.kind() == ErrorKind::UnknownFilter => "-".into(),
            Result::Err(e) => format!("!{:?}", e.kind()),
        };
        out.push(code);
    }
    for name in TEST_NAMES {
        let code = match probe(format!("{}{}", expr_tpl(syn, &format!("3 is {}", name)), expr_tpl(syn, &format!("4 is {}", name)))) {
            Ok(s) => match s.replace(['\u{ab}', '\u{bb}'], "").as_str() {
                "truefalse" | "TrueFalse" => "B".to_string(),
                "truetrue" | "TrueTrue" => "0".to_string(),
                "falsefalse" | "FalseFalse" => "1".to_string(),
                "falsetrue" | "FalseTrue" => "2".to_string(),
                other => format!("?{}", hex(other.as_bytes())),
            },
            Result::Err(e) if e.kind() == ErrorKind::UnknownTest => "-".into(),
            Result::Err(e) => format!("!{:?}", e.kind()),
        };
        out.push(code);
    }
    for name in GLOBAL_NAMES {
        let v = env.globals().find(|(n, _)| *n == name).map(|(_, v)| v);
        let code = match v {
            None => "-".to_string(),
            Some(v) => match v.as_str() {
                Some(s) if s.starts_with('G') => s[1..].to_string(),
                _ => "B".to_string(),
            },
        };
        out.push(code);
    }
    out.join(",")
}

#[derive(Clone, PartialEq)]
struct Obs {
    gets: Vec<String>,
    renders: Vec<String>,
    probes: Vec<String>,
    listing: String,
    regs: String,
    cfg: String,
    repeat_fail: Option<String>,
    listing_fail: Option<String>,
}

impl Obs {
    fn model_part(&self) -> String {
        let mut g: Vec<String> = (0..NN).map(|i| format!("{}={}", i, self.gets[i])).collect();
        for (i, p) in self.probes.iter().enumerate() {
            g.push(format!("{}={}", NN + i, p));
        }
        format!("{};L={};R={};C={}", g.join(","), self.listing, self.regs, self.cfg)
    }
    fn diff(&self, other: &Obs) -> Option<String> {
        for i in 0..NN {
            if self.gets[i] != other.gets[i] || self.renders[i] != other.renders[i] {
                return Some(format!(
                    "{}: {} {} vs {} {}",
                    NAMES[i], self.gets[i], self.renders[i], other.gets[i], other.renders[i]
                ));
            }
        }
        if self.probes != other.probes {
            return Some(format!("lookups of {:?}: {:?} vs {:?}", PROBE_NAMES, self.probes, other.probes));
        }
        if self.listing != other.listing {
            return Some(format!("templates() {} vs {}", self.listing, other.listing));
        }
        if self.regs != other.regs {
            return Some(format!("registries {} vs {}", self.regs, other.regs));
        }
        if self.cfg != other.cfg {
            return Some(format!("configuration {} vs {}", self.cfg, other.cfg));
        }
        None
    }
}

/// Observe an environment without changing it: the listing is read first, lookups and renders go
/// to a clone (a lookup memoises loader results in the environment it is made on).
fn observe(env: &Environment<'static>, via_clone: bool) -> Obs {
    let listing_fail = listing_check(env);
    let was = LOGGING.swap(false, Ordering::Relaxed);
    let listing = listing(env);
    let cloned;
    let o: &Environment<'static> = if via_clone {
        cloned = env.clone();
        &cloned
    } else {
        env
    };
    let mut gets = Vec::new();
    let mut renders = Vec::new();
    let mut repeat_fail = None;
    for n in 0..NN {
        // one lookup, one fingerprint, two renders (the same template + context twice); lookup and
        // renders are guarded separately
        let second = |o: &Environment<'static>| -> String {
            match guarded(|| o.get_template(NAMES[n])) {
                Ok(Ok(t2)) => src_code(t2.source()),
                Ok(Result::Err(e)) => err_code(&e),
                Result::Err(_) => "panic".into(),
            }
        };
        let (g, r1, r2, same) = match guarded(|| o.get_template(NAMES[n])) {
            Ok(Ok(t)) => {
                let g = format!("{}#{}", src_code(t.source()), fingerprint(&t));
                let r1 = guarded(|| render_outcome(t.render(make_ctx(0)))).unwrap_or_else(|m| format!("panic:{}", m));
                let r2 = guarded(|| render_outcome(t.render(make_ctx(0)))).unwrap_or_else(|m| format!("panic:{}", m));
                let same = g.starts_with(&format!("{}#", second(o)));
                (g, r1, r2, same)
            }
            Ok(Result::Err(e)) => {
                let g = err_code(&e);
                let same = g == second(o);
                let r1 = render_outcome(Result::Err(e));
                (g, r1.clone(), r1, same)
            }
            Result::Err(m) => {
                let same = second(o) == "panic";
                ("panic".to_string(), format!("panic:{}", m), format!("panic:{}", m), same)
            }
        };
        if (r1 != r2 || !same) && repeat_fail.is_none() {
            repeat_fail = Some(format!("{}: {} {} then {} (second lookup equal: {})", NAMES[n], g, r1, r2, same));
        }
        gets.push(g);
        renders.push(r1);
    }
    // names are never normalised: these are different names
    let probes: Vec<String> = PROBE_NAMES
        .iter()
        .map(|p| match o.get_template(p) {
            Ok(t) => format!("{}#{}", src_code(t.source()), fingerprint(&t)),
            Result::Err(e) => err_code(&e),
        })
        .collect();
    let (lt, rt) = observed_config(o);
    let regs = registries(o, lt[3]);
    LOGGING.store(was, Ordering::Relaxed);
    Obs { gets, renders, probes, listing, regs, cfg: format!("{}/{}", lt_code(&lt), rt_code(&rt)), repeat_fail, listing_fail }
}

const NJUNK: usize = 10;
const JUNK: [&str; 6] = [
    "{% for x in y %}{% if a %}{{ x|f }}{% else %}",
    "{% set z %}{% for i in [1,2,3] %}{% if i > 1 %}{{ i }}{{ 1 // 0 }}{% endif %}{% endfor %}{% endset %}",
    "{% macro m(a) %}{% for i in [1] %}{% set q %}{{ m(i) }}{% endset %}{% endfor %}{% endmacro %}{{ m(1) }}",
    "{{ [1, 2]|tojson }}{% filter upper %}{{ nofn() }}{% endfilter %}",
    "{% block a %}{% block b %}{{ 1 +",
    "{{ v.x }}{{ v|tojson }}",
];

/// failing compiles / failing renders that must leave no residue anywhere
fn junk(env: &Environment<'static>, k: usize) -> String {
    let was = LOGGING.swap(false, Ordering::Relaxed);
    let r = guarded(|| match k {
        0 | 4 => match env.template_from_str(JUNK[k]) {
            Ok(_) => "ok".to_string(),
            Result::Err(e) => err_code(&e),
        },
        1 | 2 | 3 => match env.render_str(JUNK[k], context! { v => 1 }) {
            Ok(_) => "ok".to_string(),
            Result::Err(e) => err_code(&e),
        },
        5 => match env.render_str(JUNK[5], make_ctx(1)) {
            Ok(_) => "ok".to_string(),
            Result::Err(e) => err_code(&e),
        },
        6 => match env.compile_expression("a +* (") {
            Ok(_) => "ok".to_string(),
            Result::Err(e) => err_code(&e),
        },
        7 => {
            // a serialisation that fails half way, outside of any render
            let v = Value::from(minijinja::value::Serde(BadCtx));
            format!("{:?}", v.kind())
        }
        _ => {
            // a conversion that leaks 1 / 2 value handles into this thread's registry
            let v = Value::from(minijinja::value::Serde(LeakyCtx(k - 7)));
            format!("{:?}", v.kind())
        }
    });
    LOGGING.store(was, Ordering::Relaxed);
    r.unwrap_or_else(|m| format!("panic:{}", m))
}


// ---------------------------------------------------------------------------- unwinding operations

/// a context whose `Serialize` impl panics half way (after an engine value went through the
/// value-handle side channel)
struct PanicCtx;
impl serde::Serialize for PanicCtx {
    fn serialize<S: serde::Serializer>(&self, s: S) -> Result<S::Ok, S::Error> {
        use serde::ser::SerializeMap;
        let mut m = s.serialize_map(None)?;
        m.serialize_entry("v", &Value::from(vec![1, 2, 3]))?;
        m.serialize_entry("w", &Value::from_safe_string("<w>".into()))?;
        panic!("Serialize impl panics");
    }
}

/// … and one that panics inside a NESTED conversion
struct NestedPanicCtx;
impl serde::Serialize for NestedPanicCtx {
    fn serialize<S: serde::Serializer>(&self, s: S) -> Result<S::Ok, S::Error> {
        use serde::ser::SerializeMap;
        let mut m = s.serialize_map(None)?;
        m.serialize_entry("a", &Value::from("x"))?;
        let inner = Value::from(minijinja::value::Serde(PanicCtx));
        m.serialize_entry("b", &inner)?;
        m.end()
    }
}

#[derive(Debug)]
struct Exploder;
impl minijinja::value::Object for Exploder {
    fn call_method(
        self: &std::sync::Arc<Self>,
        _state: &mut minijinja::State<'_, '_>,
        _method: &str,
        _args: &[Value],
    ) -> Result<Value, Error> {
        panic!("object method panics")
    }
}

const PANIC_OPS: usize = 14;

/// An operation that unwinds out of the engine and is caught ON THIS THREAD.  Panicking callbacks are
/// installed on a clone (with the default syntax and no fuel limit, so that the callback is reached);
/// panicking contexts are converted for the environment itself.  Returns "panic" when it unwound.
fn panic_op(env: &Environment<'static>, k: usize) -> String {
    let was = LOGGING.swap(false, Ordering::Relaxed);
    let boom = || -> Value { panic!("function panics") };
    let r = guarded(|| -> String {
        let mut c = env.clone();
        c.set_syntax(syntax_of(0));
        c.set_fuel(None);
        c.set_recursion_limit(60);
        let _ = c.add_template("zz-inc", "inc[{{ boom() }}]");
        // the operations below must reach their panic also in an environment without builtins
        c.add_filter("tojson", minijinja::filters::tojson);
        let done = |r: Result<String, Error>| match r {
            Ok(_) => "ok".to_string(),
            Result::Err(e) => format!("err:{:?}", e.kind()),
        };
        match k {
            // the context conversion itself panics: outermost, via render, nested
            0 => format!("{:?}", Value::from(minijinja::value::Serde(PanicCtx)).kind()),
            1 => done(env.render_str("x", Value::from(minijinja::value::Serde(PanicCtx)))),
            2 => format!("{:?}", Value::from(minijinja::value::Serde(NestedPanicCtx)).kind()),
            // a function panics: before any output / after output inside a macro inside a capture / in an include
            3 => {
                c.add_function("boom", boom);
                done(c.render_str("{{ boom() }}", context! {}))
            }
            4 => {
                c.add_function("boom", boom);
                done(c.render_str("out{% macro m() %}{% set q %}{{ boom() }}{% endset %}{{ q }}{% endmacro %}[{{ m() }}]", context! {}))
            }
            5 => {
                c.add_function("boom", boom);
                done(c.render_str("a{% for i in [1, 2] %}{% include 'zz-inc' %}{% endfor %}", context! {}))
            }
            // a filter panics mid-output, a test panics inside a loop
            6 => {
                c.add_filter("boomf", |_v: Value| -> Value { panic!("filter panics") });
                done(c.render_str("before{{ [1, 2]|tojson }}{{ 1|boomf }}after", context! {}))
            }
            7 => {
                c.add_test("boomt", |_v: Value| -> bool { panic!("test panics") });
                done(c.render_str("{% for i in [1, 2] %}{{ i }}{% if i is boomt %}x{% endif %}{% endfor %}", context! {}))
            }
            // an object method panics; the formatter panics
            8 => done(c.render_str("o{{ obj.explode(1) }}", context! { obj => Value::from_object(Exploder) })),
            9 => {
                c.set_formatter(|_out, _state, _value| panic!("formatter panics"));
                done(c.render_str("f{{ 1 }}", context! {}))
            }
            // the auto-escape callback panics while a template is compiled; the path-join callback
            // panics on an include; the loader panics on a lookup
            10 => {
                c.set_auto_escape_callback(|_name| panic!("auto-escape callback panics"));
                match c.template_from_named_str("p", "x") {
                    Ok(_) => "ok".to_string(),
                    Result::Err(e) => format!("err:{:?}", e.kind()),
                }
            }
            11 => {
                c.set_path_join_callback(|_name, _parent| panic!("path join callback panics"));
                done(c.render_str("j{% include 'zz-inc' %}", context! {}))
            }
            12 => {
                c.set_loader(|_name| panic!("loader panics"));
                match c.get_template("zz-unknown") {
                    Ok(_) => "ok".to_string(),
                    Result::Err(e) => format!("err:{:?}", e.kind()),
                }
            }
            // a conversion panics inside a filter, i.e. nested in a running render
            _ => {
                c.add_filter("convf", |_v: Value| -> Value { Value::from(minijinja::value::Serde(PanicCtx)) });
                done(c.render_str("c{{ [1]|tojson }}{{ 1|convf }}", context! { v => Value::from(minijinja::value::Serde(vec![1, 2])) }))
            }
        }
    });
    LOGGING.store(was, Ordering::Relaxed);
    match r {
        Ok(s) => format!("no-panic:{}", s),
        Result::Err(_) => "panic".to_string(),
    }
}

/// the thread-local state as far as the public API shows it: is this thread (believed to be) inside a
/// `Value::from(Serde(..))` conversion, and does a `Value` serialise to its data?
fn thread_probe() -> &'static str {
    let marked = minijinja::value::serializing_for_value();
    let data = serde_json::to_string(&Value::from(vec![1, 2])).map(|s| s == "[1,2]").unwrap_or(false);
    if marked || !data {
        "T1"
    } else {
        "T0"
    }
}

#[derive(Clone, Debug)]
enum Op {
    /// `mode` (owned only): which of name/source are handed over borrowed — 0 both owned, 1 name
    /// borrowed, 2 source borrowed, 3 both borrowed (= the borrowed arm, through add_template_owned)
    Add { owned: bool, mode: u8, e: usize, n: usize, s: usize },
    NamedStr { e: usize, n: usize, s: usize, k: usize },
    Empty,
    Rm { e: usize, n: usize },
    RmProbe { e: usize, p: usize },
    Cl { e: usize },
    Sl { e: usize, l: usize },
    Phase { v: usize },
    RegAdd { kind: u8, e: usize, k: usize, v: Reg },
    RegRm { kind: u8, e: usize, k: usize },
    SetLt { e: usize, f: usize, v: u8 },
    SetRt { e: usize, f: usize, v: u8 },
    Clone { e: usize },
    Render { e: usize, n: usize, c: usize },
    Handle { e: usize, n: usize },
    Junk { e: usize, k: usize },
    Panic { e: usize, k: usize },
    Threads { e: usize, k: u64 },
}

fn reg_code(v: Reg) -> String {
    v.code()
}

fn log_str(log: Option<&[usize]>) -> String {
    let l = log.unwrap_or(&[]);
    if l.is_empty() {
        "-".to_string()
    } else {
        l.iter().map(|x| x.to_string()).collect::<Vec<_>>().join(",")
    }
}

fn op_token(op: &Op, log: Option<&[usize]>) -> String {
    match op {
        Op::Add { owned, mode, e, n, s } if *owned && *mode != 0 => format!("ax:{}:{}:{}:{}", e, n, s, mode),
        Op::Add { owned, e, n, s, .. } => format!("{}:{}:{}:{}", if *owned { "ao" } else { "ab" }, e, n, s),
        Op::NamedStr { e, n, s, k } => format!("ns:{}:{}:{}:{}:{}", e, n, s, k, log_str(log)),
        Op::Empty => "em:0".to_string(),
        Op::Rm { e, n } => format!("rm:{}:{}", e, n),
        Op::RmProbe { e, p } => format!("rx:{}:{}", e, p),
        Op::Cl { e } => format!("cl:{}", e),
        Op::Sl { e, l } => format!("sl:{}:{}", e, l),
        Op::Phase { v } => format!("fl:{}", v),
        Op::RegAdd { kind, e, k, v } => format!("a{}:{}:{}:{}", *kind as char, e, k, reg_code(*v)),
        Op::RegRm { kind, e, k } => format!("r{}:{}:{}", *kind as char, e, k),
        Op::SetLt { e, f, v } => format!("lt:{}:{}:{}", e, f, v),
        Op::SetRt { e, f, v } => format!("ru:{}:{}:{}", e, f, v),
        Op::Clone { e } => format!("cn:{}", e),
        Op::Render { e, n, c } => format!("r:{}:{}:{}:{}", e, n, c, log_str(log)),
        Op::Handle { e, n } => format!("hd:{}:{}:{}", e, n, log_str(log)),
        Op::Junk { e, k } => format!("jk:{}:{}", e, k),
        Op::Panic { e, k } => format!("pn:{}:{}", e, k),
        Op::Threads { e, k } => format!("th:{}:{}", e, k),
    }
}

fn parse_op(tok: &str) -> Option<Op> {
    let f: Vec<&str> = tok.split(':').collect();
    let num = |i: usize| -> Option<usize> { f.get(i)?.parse().ok() };
    let reg = |s: &str| -> Option<Reg> {
        match s {
            "B" => Some(Reg::Builtin),
            "-" => Some(Reg::Absent),
            x => x.parse().ok().map(Reg::Custom),
        }
    };
    let name = |i: usize| -> Option<usize> { num(i).filter(|n| *n < NN) };
    Some(match f[0] {
        "ab" | "ao" => Op::Add { owned: f[0] == "ao", mode: 0, e: num(1)?, n: name(2)?, s: num(3).filter(|s| *s < NS)? },
        "ax" => Op::Add { owned: true, mode: num(4).filter(|m| (1..=3).contains(m))? as u8, e: num(1)?, n: name(2)?, s: num(3).filter(|s| *s < NS)? },
        "ns" => Op::NamedStr { e: num(1)?, n: name(2)?, s: num(3).filter(|s| *s < NS)?, k: num(4).filter(|k| *k < 3)? },
        "em" => Op::Empty,
        "rm" => Op::Rm { e: num(1)?, n: name(2)? },
        "rx" => Op::RmProbe { e: num(1)?, p: num(2).filter(|p| *p < 2)? },
        "cl" => Op::Cl { e: num(1)? },
        "sl" => Op::Sl { e: num(1)?, l: num(2).filter(|l| (1..=6).contains(l))? },
        "fl" => Op::Phase { v: num(1)?.min(1) },
        "af" | "at" | "ag" => Op::RegAdd { kind: f[0].as_bytes()[1], e: num(1)?, k: num(2).filter(|k| *k < 2)?, v: reg(f.get(3)?)? },
        "rf" | "rt" | "rg" => Op::RegRm { kind: f[0].as_bytes()[1], e: num(1)?, k: num(2).filter(|k| *k < 2)? },
        "lt" => {
            let fld = num(2).filter(|x| *x < 5)?;
            Op::SetLt { e: num(1)?, f: fld, v: num(3).filter(|v| (*v as u8) < LT_RANGE[fld])? as u8 }
        }
        "ru" => {
            let fld = num(2).filter(|x| *x < 7)?;
            Op::SetRt { e: num(1)?, f: fld, v: num(3).filter(|v| (*v as u8) < RT_RANGE[fld])? as u8 }
        }
        "cn" => Op::Clone { e: num(1)? },
        "r" => Op::Render { e: num(1)?, n: name(2)?, c: num(3)? },
        "hd" => Op::Handle { e: num(1)?, n: name(2)? },
        "jk" => Op::Junk { e: num(1)?, k: num(2)? },
        "pn" => Op::Panic { e: num(1)?, k: num(2).filter(|k| *k < PANIC_OPS)? },
        "th" => Op::Threads { e: num(1)?, k: f.get(2)?.parse().ok()? },
        _ => return None,
    })
}

/// what the generator remembers of an environment in order to aim: its loader and what it last
/// added under each name (re-adding the very same source, or what the loader would deliver, is the
/// interesting case for "a re-add is a load")
#[derive(Clone, Default)]
struct GenEnv {
    loader: usize,
    last: BTreeMap<usize, usize>,
}

fn gen_history(rng: &mut Rng, with_threads: bool) -> Vec<Op> {
    let len = 1 + rng.below(30) as usize;
    let mut gens: Vec<GenEnv> = vec![GenEnv::default()];
    let mut ops = Vec::new();
    // flavours: store-heavy, registry-heavy, configuration-heavy, mixed
    let flavour = rng.below(5);
    // one history in seven starts from `Environment::empty()` instead of `Environment::new()`
    if rng.chance(1, 7) {
        ops.push(Op::Empty);
    }
    // a prelude that makes successful renders likely: a loader and the custom filter/test
    if rng.chance(2, 3) {
        let l = 1 + rng.below(6) as usize;
        gens[0].loader = l;
        ops.push(Op::Sl { e: 0, l });
    }
    if rng.chance(2, 3) {
        ops.push(Op::RegAdd { kind: b'f', e: 0, k: 0, v: Reg::Custom(rng.below(2) as usize) });
    }
    if rng.chance(1, 2) {
        ops.push(Op::RegAdd { kind: b't', e: 0, k: 0, v: Reg::Custom(rng.below(3) as usize) });
    }
    ops.truncate(len);
    for _ in ops.len()..len {
        let live = gens.len();
        let e = rng.below(live as u64) as usize;
        let n = rng.below(NN as u64) as usize;
        let w = rng.below(100);
        //                 add  rm  cl  sl  reg  lt  rt  cn  render hd
        let t: [u64; 10] = match flavour {
            0 => [26, 34, 37, 46, 49, 56, 60, 63, 88, 93],
            1 => [12, 17, 19, 24, 54, 58, 62, 66, 88, 93],
            2 => [20, 24, 26, 31, 34, 56, 68, 72, 88, 93],
            _ => [20, 27, 30, 38, 48, 57, 63, 67, 88, 93],
        };
        let op = if w < t[0] {
            let g = &gens[e];
            let s = if rng.chance(1, 4) && g.last.contains_key(&n) {
                g.last[&n] // the very same source again
            } else if rng.chance(1, 6) && g.loader != 0 {
                match LOADERS[if g.loader == 6 { 7 } else { g.loader }][n] {
                    Src(s) => s, // what the loader delivers (possibly memoised already)
                    _ => rng.below(NS as u64) as usize,
                }
            } else if rng.chance(1, 6) {
                *rng.pick(&[8usize, 9])
            } else {
                rng.below(NS as u64) as usize
            };
            gens[e].last.insert(n, s);
            let owned = rng.chance(3, 5);
            Op::Add { owned, mode: if owned && rng.chance(1, 3) { 1 + rng.below(3) as u8 } else { 0 }, e, n, s }
        } else if w < t[1] {
            if rng.chance(1, 6) {
                Op::RmProbe { e, p: rng.below(2) as usize }
            } else {
                gens[e].last.remove(&n);
                Op::Rm { e, n }
            }
        } else if w < t[2] {
            gens[e].last.clear();
            Op::Cl { e }
        } else if w < t[3] {
            if rng.chance(1, 5) {
                Op::Phase { v: rng.below(2) as usize }
            } else {
                let l = 1 + rng.below(6) as usize;
                gens[e].loader = l;
                Op::Sl { e, l }
            }
        } else if w < t[4] {
            let kind = *rng.pick(&[b'f', b't', b'g']);
            let k = rng.below(2) as usize;
            if rng.chance(2, 5) {
                Op::RegRm { kind, e, k }
            } else {
                let v = if k == 1 && rng.chance(1, 3) {
                    Reg::Builtin
                } else {
                    Reg::Custom(rng.below(if kind == b't' { 3 } else { 2 }) as usize)
                };
                Op::RegAdd { kind, e, k, v }
            }
        } else if w < t[5] {
            let f = rng.below(5) as usize;
            Op::SetLt { e, f, v: rng.below(LT_RANGE[f] as u64) as u8 }
        } else if w < t[6] {
            let f = rng.below(7) as usize;
            Op::SetRt { e, f, v: rng.below(RT_RANGE[f] as u64) as u8 }
        } else if w < t[7] {
            if live < 3 {
                let g = gens[e].clone();
                gens.push(g);
                Op::Clone { e }
            } else {
                Op::Rm { e, n }
            }
        } else if w < t[8] {
            let c = if rng.chance(2, 3) { 0 } else { 1 + rng.below(NCTX as u64 - 1) as usize };
            Op::Render { e, n, c }
        } else if w < t[9] {
            if rng.chance(1, 2) {
                Op::Handle { e, n }
            } else {
                // what is rendered from a string is, half of the time, what is (or was last) stored
                // under that name, or what the loader would deliver
                let g = &gens[e];
                let s = if rng.chance(1, 3) && g.last.contains_key(&n) {
                    g.last[&n]
                } else if rng.chance(1, 3) && g.loader != 0 {
                    match LOADERS[if g.loader == 6 { 7 } else { g.loader }][n] {
                        Src(s) => s,
                        _ => rng.below(NS as u64) as usize,
                    }
                } else {
                    rng.below(NS as u64) as usize
                };
                Op::NamedStr { e, n, s, k: rng.below(3) as usize }
            }
        } else {
            if rng.chance(1, 2) {
                Op::Panic { e, k: rng.below(PANIC_OPS as u64) as usize }
            } else {
                Op::Junk { e, k: rng.below(NJUNK as u64) as usize }
            }
        };
        ops.push(op);
    }
    if with_threads {
        if ops.len() == 30 {
            if let Some(Op::Clone { .. }) = ops.pop() {
                gens.pop();
            }
        }
        let e = rng.below(gens.len() as u64) as usize;
        ops.push(Op::Threads { e, k: rng.below(1 << 20) });
    }
    ops
}

/// contents of a reference environment after lookups: entries it had keep their recorded load-time
/// configuration, entries memoised by the lookups were compiled under the current one
fn contents_after(env: &Environment<'static>, before: &BTreeMap<usize, (usize, Lt)>, lt: &Lt) -> BTreeMap<usize, (usize, Lt)> {
    let mut newc = BTreeMap::new();
    for (name, t) in env.templates() {
        if let (Some(ni), Some(si)) = (NAMES.iter().position(|x| *x == name), src_index(t.source())) {
            match before.get(&ni) {
                Some(old) if old.0 == si => {
                    newc.insert(ni, *old);
                }
                _ => {
                    newc.insert(ni, (si, *lt));
                }
            }
        }
    }
    newc
}

/// Returns the first failure and the contents the environment must have afterwards (every name has
/// been requested at least once: the phase ends with a sweep over all names on the main thread).
fn threads_phase(live: &Live, k: u64, frng: &mut Rng) -> (Option<String>, BTreeMap<usize, (usize, Lt)>) {
    let was = LOGGING.swap(false, Ordering::Relaxed);
    let fresh = build_fresh(&live.spec, frng);
    let mut expected: Vec<Vec<(String, String)>> = Vec::new();
    for n in 0..NN {
        expected.push((0..NCTX).map(|c| get_render(&fresh, n, c)).collect());
    }
    let env = &live.env;
    let expected = &expected;
    let fails: Vec<String> = std::thread::scope(|sc| {
        let hs: Vec<_> = (0..8u64)
            .map(|t| {
                std::thread::Builder::new()
                    .stack_size(16 << 20)
                    .spawn_scoped(sc, move || {
                        let mut rng = Rng::new(k.wrapping_mul(31).wrapping_add(t));
                        let mut fails = Vec::new();
                        for _ in 0..12 {
                            if rng.chance(1, 3) {
                                let _ = junk(env, rng.below(NJUNK as u64) as usize);
                            }
                            let n = rng.below(NN as u64) as usize;
                            let c = rng.below(NCTX as u64) as usize;
                            let got = get_render(env, n, c);
                            if got != expected[n][c] {
                                fails.push(format!(
                                    "thread {} {} ctx{}: {} {} vs fresh {} {}",
                                    t, NAMES[n], c, got.0, got.1, expected[n][c].0, expected[n][c].1
                                ));
                            }
                        }
                        fails
                    })
                    .unwrap()
            })
            .collect();
        hs.into_iter().flat_map(|h| h.join().unwrap_or_else(|_| vec!["thread panicked".into()])).collect()
    });
    let mut fails = fails;
    for n in 0..NN {
        let got = get_render(env, n, 0);
        if got != expected[n][0] {
            fails.push(format!("after threads {}: {} {} vs fresh {} {}", NAMES[n], got.0, got.1, expected[n][0].0, expected[n][0].1));
        }
    }
    let newc = contents_after(&fresh, &live.spec.contents, &live.spec.lt);
    LOGGING.store(was, Ordering::Relaxed);
    (fails.into_iter().next(), newc)
}

fn op_target(op: &Op) -> Option<usize> {
    match op {
        Op::Empty => Some(0),
        Op::Add { e, .. } | Op::NamedStr { e, .. } | Op::Rm { e, .. } | Op::RmProbe { e, .. } | Op::Cl { e } | Op::Sl { e, .. } | Op::RegAdd { e, .. } | Op::RegRm { e, .. }
        | Op::SetLt { e, .. } | Op::SetRt { e, .. } | Op::Clone { e } | Op::Render { e, .. } | Op::Handle { e, .. }
        | Op::Junk { e, .. } | Op::Panic { e, .. } | Op::Threads { e, .. } => Some(*e),
        Op::Phase { .. } => None,
    }
}

/// A history in which a call that is not expected to unwind unwinds anyway (an engine entry point that
/// consults a panicking loader although it has no business with the loader, say) is reported as a
/// failing input instead of taking the harness down.
fn run_history(ops: &[Op], hseed: u64) -> (String, String, String, String) {
    match guarded(|| run_history_inner(ops, hseed)) {
        Ok(r) => r,
        Result::Err(m) => {
            let case: Vec<String> = ops.iter().map(|o| op_token(o, None)).collect();
            (case.join(" "), "harness-panic".into(), format!("FAILunwound{{an engine call outside the guarded operations unwound: {}}}", m.replace(['{', '}', '\t', '\n'], " ")), "-".into())
        }
    }
}

fn run_history_inner(ops: &[Op], hseed: u64) -> (String, String, String, String) {
    LOGGING.store(true, Ordering::Relaxed);
    PHASE.store(0, Ordering::SeqCst);
    let mut envs: Vec<Live> = vec![Live { env: new_env(), spec: initial_spec(), last_obs: None }];
    let mut frng = Rng::new(hseed ^ 0x5151);
    let mut case_toks = Vec::new();
    let mut impl_steps = Vec::new();
    let mut oracle_steps = Vec::new();
    let mut notes: Vec<String> = Vec::new();
    // In every other history the reference environments are built and observed on brand-new threads
    // from the start (and in all histories after the first caught panic): whatever a failing compile,
    // render or serialisation leaves in the state of THIS thread then shows as a difference, instead
    // of influencing both sides alike.
    let mut fresh_on_new_thread = hseed & 1 == 1;
    envs[0].last_obs = Some(observe(&envs[0].env, true));

    for op in ops {
        let mut fails: Vec<String> = Vec::new();
        let mut log_used: Option<Vec<usize>> = None;
        let mut failed_insert_env: Option<usize> = None;
        let mut note = String::from("-");
        let target = op_target(op);
        if let Some(t) = target {
            if t >= envs.len() {
                case_toks.push(op_token(op, None));
                impl_steps.push(format!("bad-env~{}", thread_probe()));
                oracle_steps.push("=".to_string());
                notes.push("-".to_string());
                continue;
            }
        }
        let opres: String = match op {
            Op::Empty => {
                // only as the first operation: the history starts from `Environment::empty()`
                if case_toks.is_empty() {
                    envs[0] = Live { env: empty_env(), spec: initial_spec_for(true), last_obs: None };
                    "ok".into()
                } else {
                    "late".into()
                }
            }
            Op::NamedStr { e, n, s, k } => {
                // rendering a source given as a string under a name — whatever is stored under that
                // name, and whatever the loader knows about it — touches neither the store nor the
                // loader (apart from the lookups of the template's own includes)
                let l = &mut envs[*e];
                let (want, want_log, newc) = {
                    let (spec, fr, n, s) = (&l.spec, &mut frng, *n, *s);
                    on_thread(fresh_on_new_thread, move || {
                        // which lookups the SOURCE causes (its includes/extends/imports) is measured by
                        // rendering it under a name nobody knows: the name a source is rendered under is
                        // never itself looked up
                        let fresh = build_fresh(spec, fr);
                        FRESH_LOG.lock().unwrap().clear();
                        let _ = guarded(|| fresh.render_named_str("zz-nobody", SOURCES[s], make_ctx(0)).is_ok());
                        let want_log: Vec<usize> = std::mem::take(&mut *FRESH_LOG.lock().unwrap());
                        let was = LOGGING.swap(false, Ordering::Relaxed);
                        let newc = contents_after(&fresh, &spec.contents, &spec.lt);
                        let fresh2 = build_fresh(spec, fr);
                        let want = named_str_outcome(&fresh2, n, s, 0);
                        LOGGING.store(was, Ordering::Relaxed);
                        (want, want_log, newc)
                    })
                };
                REAL_LOG.lock().unwrap().clear();
                let got = named_str_outcome(&l.env, *n, *s, *k);
                let got_log = std::mem::take(&mut *REAL_LOG.lock().unwrap());
                if got != want {
                    fails.push(format!("FAILfresh{{named-str {} source {} via {}: {} vs fresh {}}}", NAMES[*n], s, k, got, want));
                } else if got_log != want_log {
                    fails.push(format!("FAILfresh{{named-str {}: loader consulted for {:?}, the source itself causes {:?}}}", NAMES[*n], got_log, want_log));
                }
                l.spec.contents = newc;
                // the model replays the lookups the source causes, not whatever the engine did
                log_used = Some(want_log);
                "ns".into()
            }
            Op::Add { owned, mode, e, n, s } => {
                let l = &mut envs[*e];
                let r = guarded(|| {
                    if *owned {
                        add_owned(&mut l.env, *n, *s, *mode)
                    } else {
                        l.env.add_template(NAMES[*n], SOURCES[*s])
                    }
                });
                match r {
                    Ok(Ok(())) => {
                        // a (re-)add is a load: the template is now compiled under the current configuration
                        l.spec.contents.insert(*n, (*s, l.spec.lt));
                        l.spec.pinned.remove(n);
                        "ok".into()
                    }
                    Ok(Result::Err(err)) => {
                        failed_insert_env = Some(*e);
                        err_code(&err)
                    }
                    Result::Err(_) => "panic".into(),
                }
            }
            Op::Rm { e, n } => {
                let l = &mut envs[*e];
                l.env.remove_template(NAMES[*n]);
                l.spec.contents.remove(n);
                l.spec.pinned.remove(n);
                "ok".into()
            }
            Op::RmProbe { e, p } => {
                // removing "A" or " a" removes nothing: names are never normalised
                envs[*e].env.remove_template(PROBE_NAMES[*p]);
                "ok".into()
            }
            Op::Cl { e } => {
                let l = &mut envs[*e];
                l.env.clear_templates();
                l.spec.contents.clear();
                l.spec.pinned.clear();
                "ok".into()
            }
            Op::Sl { e, l: table } => {
                let l = &mut envs[*e];
                l.env.set_loader(loader_fn(*table, true));
                l.spec.loader = *table;
                "ok".into()
            }
            Op::Phase { v } => {
                PHASE.store(*v, Ordering::SeqCst);
                "ok".into()
            }
            Op::RegAdd { kind, e, k, v } => {
                let l = &mut envs[*e];
                match kind {
                    b'f' => {
                        set_filter(&mut l.env, *k, *v);
                        l.spec.filters[*k] = *v;
                    }
                    b't' => {
                        set_test(&mut l.env, *k, *v);
                        l.spec.tests[*k] = *v;
                    }
                    _ => {
                        set_global(&mut l.env, *k, *v);
                        l.spec.globals[*k] = *v;
                    }
                }
                "ok".into()
            }
            Op::RegRm { kind, e, k } => {
                let l = &mut envs[*e];
                match kind {
                    b'f' => {
                        set_filter(&mut l.env, *k, Reg::Absent);
                        l.spec.filters[*k] = Reg::Absent;
                    }
                    b't' => {
                        set_test(&mut l.env, *k, Reg::Absent);
                        l.spec.tests[*k] = Reg::Absent;
                    }
                    _ => {
                        set_global(&mut l.env, *k, Reg::Absent);
                        l.spec.globals[*k] = Reg::Absent;
                    }
                }
                "ok".into()
            }
            Op::SetLt { e, f, v } => {
                let l = &mut envs[*e];
                apply_lt_field(&mut l.env, *f, *v);
                l.spec.lt[*f] = *v;
                "ok".into()
            }
            Op::SetRt { e, f, v } => {
                let l = &mut envs[*e];
                apply_rt_field(&mut l.env, *f, *v);
                l.spec.rt[*f] = *v;
                "ok".into()
            }
            Op::Clone { e } => {
                if envs.len() >= 3 {
                    "full".into()
                } else {
                    let c = Live { env: envs[*e].env.clone(), spec: envs[*e].spec.clone(), last_obs: envs[*e].last_obs.clone() };
                    envs.push(c);
                    "ok".into()
                }
            }
            Op::Render { e, n, c } => {
                let l = &mut envs[*e];
                // the same render on a fresh environment with the pre-state value decides what the
                // environment must contain afterwards (which lookups get memoised)
                let (want, want_log, newc) = {
                    let (spec, fr, n, c) = (&l.spec, &mut frng, *n, *c);
                    on_thread(fresh_on_new_thread, move || {
                        let fresh = build_fresh(spec, fr);
                        FRESH_LOG.lock().unwrap().clear();
                        let want = get_render(&fresh, n, c);
                        let want_log = std::mem::take(&mut *FRESH_LOG.lock().unwrap());
                        let was = LOGGING.swap(false, Ordering::Relaxed);
                        let newc = contents_after(&fresh, &spec.contents, &spec.lt);
                        LOGGING.store(was, Ordering::Relaxed);
                        (want, want_log, newc)
                    })
                };
                REAL_LOG.lock().unwrap().clear();
                // the environment under test renders through any of the entry points
                let via = frng.below(NVIA as u64) as usize;
                let got = get_render_named_via(&l.env, NAMES[*n], *c, via);
                let got_log = std::mem::take(&mut *REAL_LOG.lock().unwrap());
                if got != want {
                    fails.push(format!("FAILfresh{{render {} ctx{} via{}: {} {} vs fresh {} {}}}", NAMES[*n], c, via, got.0, got.1, want.0, want.1));
                } else if got_log != want_log {
                    fails.push(format!("FAILfresh{{render {}: loader consulted for {:?}, fresh environment {:?}}}", NAMES[*n], got_log, want_log));
                }
                l.spec.contents = newc;
                log_used = Some(got_log);
                note = if got.1.starts_with("ok:") { "ok".to_string() } else { got.1.splitn(3, ':').take(2).collect::<Vec<_>>().join(":") };
                got.0
            }
            Op::Handle { e, n } => {
                // a handle obtained from the environment stays what it is while a CLONE of the
                // environment is modified (the borrow checker forbids modifying the environment itself)
                let l = &mut envs[*e];
                let (want, want_log, newc) = {
                    let (spec, fr, n) = (&l.spec, &mut frng, *n);
                    on_thread(fresh_on_new_thread, move || {
                        let fresh = build_fresh(spec, fr);
                        FRESH_LOG.lock().unwrap().clear();
                        let want = get_render(&fresh, n, 0);
                        let want_log = std::mem::take(&mut *FRESH_LOG.lock().unwrap());
                        let was = LOGGING.swap(false, Ordering::Relaxed);
                        let newc = contents_after(&fresh, &spec.contents, &spec.lt);
                        LOGGING.store(was, Ordering::Relaxed);
                        (want, want_log, newc)
                    })
                };
                REAL_LOG.lock().unwrap().clear();
                let env_ref = &l.env;
                let want_ref = &want;
                let want_log_ref = &want_log;
                let n_ = *n;
                // a panicking loader unwinds out of the lookup: caught here like everywhere else
                let outcome = guarded(move || {
                    let mut fails: Vec<String> = Vec::new();
                    let handle = env_ref.get_template(NAMES[n_]);
                    let res = match &handle {
                        Ok(t) => format!("{}#{}", src_code(t.source()), fingerprint(t)),
                        Result::Err(e) => err_code(e),
                    };
                    let first = match &handle {
                        Ok(t) => guarded(|| render_outcome(t.render(make_ctx(0)))).unwrap_or_else(|m| format!("panic:{}", m)),
                        Result::Err(_) => String::new(),
                    };
                    let got_log = std::mem::take(&mut *REAL_LOG.lock().unwrap());
                    let was = LOGGING.swap(false, Ordering::Relaxed);
                    if let Ok(t) = &handle {
                        if (res.clone(), first.clone()) != *want_ref {
                            fails.push(format!("FAILfresh{{handle {}: {} {} vs fresh {} {}}}", NAMES[n_], res, first, want_ref.0, want_ref.1));
                        } else if got_log != *want_log_ref {
                            fails.push(format!("FAILfresh{{handle {}: loader consulted for {:?}, fresh environment {:?}}}", NAMES[n_], got_log, want_log_ref));
                        }
                        let before = (fingerprint(t), first.clone());
                        let mut c = env_ref.clone();
                        c.remove_template(NAMES[n_]);
                        let _ = c.add_template_owned(NAMES[n_].to_string(), SOURCES[(n_ + 3) % 8].to_string());
                        c.set_trim_blocks(!c.trim_blocks());
                        c.set_auto_escape_callback(|_| AutoEscape::Html);
                        let _ = c.add_template(NAMES[n_], SOURCES[(n_ + 1) % 8]);
                        let mid = (fingerprint(t), guarded(|| render_outcome(t.render(make_ctx(0)))).unwrap_or_else(|m| format!("panic:{}", m)));
                        c.clear_templates();
                        c.set_loader(loader_fn(3, false));
                        let _ = guarded(|| c.get_template(NAMES[n_]).map(|t| t.render(make_ctx(0)).is_ok()));
                        drop(c);
                        let after = (fingerprint(t), guarded(|| render_outcome(t.render(make_ctx(0)))).unwrap_or_else(|m| format!("panic:{}", m)));
                        if before != mid || before != after {
                            fails.push(format!("FAILhandle{{{}: {:?} then {:?} then {:?}}}", NAMES[n_], before, mid, after));
                        }
                    }
                    LOGGING.store(was, Ordering::Relaxed);
                    (res, fails, got_log)
                });
                let res = match outcome {
                    Ok((res, f, got_log)) => {
                        fails.extend(f);
                        log_used = Some(got_log);
                        res
                    }
                    Result::Err(_) => {
                        LOGGING.store(true, Ordering::Relaxed);
                        log_used = Some(std::mem::take(&mut *REAL_LOG.lock().unwrap()));
                        if want.0 != "panic" {
                            fails.push(format!("FAILfresh{{handle {}: lookup panicked, fresh environment {} {}}}", NAMES[*n], want.0, want.1));
                        }
                        "panic".to_string()
                    }
                };
                l.spec.contents = newc;
                res
            }
            Op::Junk { e, k } => {
                // the outcome of a failing compile/render is a function of the configuration only
                let res = junk(&envs[*e].env, *k);
                let sp = &envs[*e].spec;
                let key = (*k, format!("{:?}{:?}{:?}{:?}{:?}", sp.lt, sp.rt, sp.filters, sp.tests, sp.globals));
                let mut seen = JUNK_SEEN.lock().unwrap();
                match seen.get(&key) {
                    Some(first) if *first != res => {
                        fails.push(format!("FAILrepeat{{junk {} gave {} earlier and {} now}}", k, first, res));
                    }
                    Some(_) => {}
                    None => {
                        seen.insert(key, res);
                    }
                }
                "jk".into()
            }
            Op::Panic { e, k } => {
                // from here on the reference environment lives on a thread of its own
                fresh_on_new_thread = true;
                panic_op(&envs[*e].env, *k)
            }
            Op::Threads { e, k } => {
                let (f, newc) = threads_phase(&envs[*e], *k, &mut frng);
                if let Some(f) = f {
                    fails.push(format!("FAILthreads{{{}}}", f));
                }
                envs[*e].spec.contents = newc;
                "ok".into()
            }
        };
        case_toks.push(op_token(op, log_used.as_deref()));

        // ---- observe every live environment after the step
        let mut impl_envs = Vec::new();
        for (i, l) in envs.iter_mut().enumerate() {
            let obs = observe(&l.env, true);
            if let Some(rf) = &obs.repeat_fail {
                fails.push(format!("FAILrepeat{{env{} {}}}", i, rf));
            }
            if let Some(lf) = &obs.listing_fail {
                fails.push(format!("FAILlisting{{env{} {}}}", i, lf));
            }
            // (2) fresh environment with the same value
            let fobs = if fresh_on_new_thread {
                // a thread that has not seen any of the history (nor any caught panic)
                let spec = &l.spec;
                let fr = &mut frng;
                spawn_join(move || {
                    let fresh = build_fresh(spec, fr);
                    observe(&fresh, false)
                })
            } else {
                let fresh = build_fresh(&l.spec, &mut frng);
                observe(&fresh, false)
            };
            if let Some(d) = obs.diff(&fobs) {
                fails.push(format!("FAILfresh{{env{} {}}}", i, d));
            }
            // failed insert is a no-op / isolation of the other environments (a change of the outside
            // world — the loader phase — may change what unloaded names resolve to)
            if let Some(prev) = &l.last_obs {
                let must_be_same = failed_insert_env == Some(i)
                    || (target.is_some() && Some(i) != target && !matches!(op, Op::Clone { .. }));
                if must_be_same {
                    if let Some(d) = prev.diff(&obs) {
                        let site = if failed_insert_env == Some(i) { "failed-insert" } else { "isolation" };
                        fails.push(format!("FAIL{}{{env{} before/after {}}}", site, i, d));
                    }
                }
            }
            // stickiness: everything the environment itself listed keeps source and compilation until
            // it is removed, re-added or cleared
            for (n, want) in &l.spec.pinned {
                if &obs.gets[*n] != want {
                    fails.push(format!("FAILsticky{{env{} {} had {} now {}}}", i, NAMES[*n], want, obs.gets[*n]));
                }
            }
            for ent in obs.listing.split(',').filter(|x| !x.is_empty()) {
                if let Some((n, rest)) = ent.split_once(':') {
                    if let Ok(n) = n.parse::<usize>() {
                        l.spec.pinned.entry(n).or_insert(format!("s{}", rest));
                    }
                }
            }
            impl_envs.push(obs.model_part());
            l.last_obs = Some(obs);
        }
        let tp = thread_probe();
        if tp != "T0" {
            fails.push("FAILthread-state{after the step this thread is still marked as serialising for a value: a Value no longer serialises to its data}".to_string());
        }
        impl_steps.push(format!("{}~{}|{}", opres, tp, impl_envs.join("|")));
        oracle_steps.push(if fails.is_empty() { "=".to_string() } else { fails.join("") });
        notes.push(note);
    }
    (case_toks.join(" "), impl_steps.join(" / "), oracle_steps.join(" / "), notes.join(" "))
}

/// `#cmp` and `#tbl` header lines (see the module documentation); computed once per process
/// The fingerprints of the real compiler's output for every (name, source, load-time configuration).
/// The ORDER in which the 96 configurations are compiled is a permutation chosen by the environment
/// variable `C15_TABLE_ORDER` (0 / unset = canonical): a compiled template has to be a function of
/// (name, source, load-time configuration) whatever the process compiled before, so the check runs
/// its shards with different orders and compares the tables of all of them.
fn tables() -> &'static String {
    static T: OnceLock<String> = OnceLock::new();
    T.get_or_init(|| {
        let mut out = String::new();
        let mut cmp: BTreeMap<(u8, usize), bool> = BTreeMap::new();
        let mut cfgs: Vec<Lt> = Vec::new();
        for trim in 0..2u8 {
            for lstrip in 0..2u8 {
                for ktn in 0..2u8 {
                    for syn in 0..3u8 {
                        for ae in 0..4u8 {
                            cfgs.push([trim, lstrip, ktn, syn, ae]);
                        }
                    }
                }
            }
        }
        let order: u64 = std::env::var("C15_TABLE_ORDER").ok().and_then(|s| s.parse().ok()).unwrap_or(0);
        if order != 0 {
            let mut rng = Rng::new(order ^ 0x5151_c15c_15c1_5151);
            for i in (1..cfgs.len()).rev() {
                let j = rng.below(i as u64 + 1) as usize;
                cfgs.swap(i, j);
            }
        }
        let mut lines: Vec<String> = Vec::new();
        for lt in cfgs {
            let syn = lt[3];
            let mut env = new_env();
            let mut cur = LT_DEFAULT;
            apply_lt(&mut env, &mut cur, &lt);
            for (s, src) in SOURCES.iter().enumerate() {
                for (n, name) in NAMES.iter().enumerate() {
                    let ok = match env.template_from_named_str(name, src) {
                        Ok(t) => {
                            lines.push(format!("#tbl {} {} {} {}\n", n, s, lt_code(&lt), fingerprint(&t)));
                            true
                        }
                        Result::Err(_) => false,
                    };
                    match cmp.get(&(syn, s)) {
                        Some(prev) if *prev != ok => out.push_str(&format!("#cmp-inconsistent {} {}\n", syn, s)),
                        _ => {
                            cmp.insert((syn, s), ok);
                        }
                    }
                }
            }
        }
        lines.sort();
        for l in lines {
            out.push_str(&l);
        }
        for ((syn, s), ok) in cmp {
            out.push_str(&format!("#cmp {} {} {}\n", syn, s, ok as u8));
        }
        out
    })
}

// ======================================================================================
// "foreign value" stream: values that are bound to one render (macros, module objects,
// namespaces holding macros, `caller`, `loop`) are exported from a finished render and handed to
// OTHER renders as context variable or global.  What such a render does must not depend on the
// thread it runs on nor on what that thread rendered before: every variant of a case must give
// the identical result (Ok output, or the same error kind + detail).
//
//   case  fx:<x>:<site>:<consumer>:<via>
//     x        exporter template index (what is exported and how it is used)
//     site     where the exporting render ran: M = main thread, 0..3 = a new thread after that
//              many other renders
//     consumer same  = the exporter template itself (it declares the same macro before the use)
//              other = another template with a macro of its own
//              str   = the exporter's source compiled again with render_str
//              info  = a template that only inspects the value (never calls it)
//     via      ctx | glob  (context variable / Environment::add_global on a clone)
//   variants (in this order): main thread; new threads after k = 0,1,2,3 other renders (ok and
//   failing ones); the exporting thread itself (one more render after the export, `-` for site
//   M); 4 concurrent brand-new threads; 4 concurrent threads after k = site renders.
// ======================================================================================

struct Exporter {
    src: &'static str,
    export: &'static str,
    use_expr: &'static str,
}

const LIB_SRC: &str = "{% macro m(x) %}L{{ x }}{% endmacro %}";

const EXPORTERS: [Exporter; 9] = [
    Exporter { src: "{% macro m(x) %}[{{ x }}]{% endmacro %}{% if ext is defined %}{{ ext(1) }}{% else %}-{% endif %}", export: "m", use_expr: "ext(1)" },
    Exporter { src: "{% set y = 'Y' %}{% macro m(x) %}[{{ x }}{{ y }}]{% endmacro %}{% if ext is defined %}{{ ext(1) }}{% else %}-{% endif %}", export: "m", use_expr: "ext(1)" },
    Exporter { src: "{% macro m(x) %}<{{ x }}>{% endmacro %}{% set ns = namespace() %}{% set ns.f = m %}{% if ext is defined %}{{ ext.f(2) }}{% else %}-{% endif %}", export: "ns", use_expr: "ext.f(2)" },
    Exporter { src: "{% macro m(x) %}({{ x }}){% endmacro %}{% set exported = m %}{% if ext is defined %}{{ ext(3) }}{% else %}-{% endif %}", export: "exported", use_expr: "ext(3)" },
    Exporter { src: "{% import 'lib' as lib %}{% if ext is defined %}{{ ext.m(4) }}{% else %}-{% endif %}", export: "lib", use_expr: "ext.m(4)" },
    Exporter { src: "{% set ns = namespace() %}{% macro wrap() %}{% set ns.c = caller %}w{{ caller() }}{% endmacro %}{% call wrap() %}inner{% endcall %}{% if ext is defined %}{{ ext.c() }}{% else %}-{% endif %}", export: "ns", use_expr: "ext.c()" },
    Exporter { src: "{% set ns = namespace() %}{% for i in [7, 8] %}{% set ns.l = loop %}{% endfor %}{% if ext is defined %}{{ ext.l.index }}/{{ ext.l.length }}/{{ ext.l.cycle('p', 'q') }}{% else %}-{% endif %}", export: "ns", use_expr: "ext.l.index ~ '/' ~ ext.l.length" },
    Exporter { src: "{% from 'lib' import m %}{% if ext is defined %}{{ ext(5) }}{% else %}-{% endif %}", export: "m", use_expr: "ext(5)" },
    Exporter { src: "{% macro a(x) %}a{{ x }}{% endmacro %}{% macro m(x) %}{{ a(x) }}!{% endmacro %}{% if ext is defined %}{{ ext.name }}|{{ ext }}|{{ ext(1) }}{% else %}-{% endif %}", export: "m", use_expr: "ext.name ~ ext(1)" },
];

const FX_NAMES: [&str; 9] = ["x0", "x1", "x2", "x3", "x4", "x5", "x6", "x7", "x8"];
const FO_NAMES: [&str; 9] = ["o0", "o1", "o2", "o3", "o4", "o5", "o6", "o7", "o8"];
const INFO_SRC: &str = "{{ ext is defined }}/{{ ext is mapping }}/{{ ext is none }}/{{ ext.name is defined }}";

fn foreign_env() -> Environment<'static> {
    let mut env = new_env();
    env.add_template("lib", LIB_SRC).unwrap();
    env.add_template("info", INFO_SRC).unwrap();
    for (i, x) in EXPORTERS.iter().enumerate() {
        env.add_template(FX_NAMES[i], x.src).unwrap();
        env.add_template_owned(
            FO_NAMES[i].to_string(),
            format!("{{% macro m(x) %}}other{{{{ x }}}}{{% endmacro %}}{{{{ m(0) }}}}[{{{{ {} }}}}]", x.use_expr),
        )
        .unwrap();
    }
    env
}

fn fx_outcome(r: Result<String, Error>) -> String {
    match r {
        Ok(s) => format!("ok:{}", s),
        Result::Err(e) => format!("err:{:?}:{}", e.kind(), e.detail().unwrap_or("-")),
    }
}

/// the other renders a thread does before the interesting one: succeeding and failing ones
fn pre_renders(env: &Environment<'static>, k: usize) {
    for i in 0..k {
        match i % 3 {
            0 => {
                let _ = env.get_template("x0").and_then(|t| t.render(context! {}));
            }
            1 => {
                let _ = env.render_str("{% macro z() %}{% endmacro %}{{ 1 // 0 }}", context! {});
            }
            _ => {
                let _ = env.get_template("info").and_then(|t| t.render(context! { ext => 1 }));
            }
        }
    }
}

fn fx_export(env: &Environment<'static>, x: usize) -> Result<Value, String> {
    let t = env.get_template(FX_NAMES[x]).map_err(|e| fx_outcome(Result::Err(e)))?;
    let cap = t.render_captured(context! {}).map_err(|e| fx_outcome(Result::Err(e)))?;
    cap.state().lookup(EXPORTERS[x].export).ok_or_else(|| "no-export".to_string())
}

fn fx_consume(env: &Environment<'static>, x: usize, consumer: &str, via: &str, v: &Value) -> String {
    let r = guarded(|| {
        let globbed;
        let (env, ctx): (&Environment<'static>, Value) = if via == "glob" {
            let mut e2 = env.clone();
            e2.add_global("ext", v.clone());
            globbed = e2;
            (&globbed, context! {})
        } else {
            (env, context! { ext => v.clone() })
        };
        match consumer {
            "same" => env.get_template(FX_NAMES[x]).and_then(|t| t.render(ctx)),
            "other" => env.get_template(FO_NAMES[x]).and_then(|t| t.render(ctx)),
            "str" => env.render_str(EXPORTERS[x].src, ctx),
            _ => env.get_template("info").and_then(|t| t.render(ctx)),
        }
    });
    match r {
        Ok(r) => fx_outcome(r),
        Result::Err(m) => format!("panic:{}", m),
    }
}

fn on_thread<T: Send>(new_thread: bool, f: impl FnOnce() -> T + Send) -> T {
    if new_thread {
        spawn_join(f)
    } else {
        f()
    }
}

fn spawn_join<T: Send>(f: impl FnOnce() -> T + Send) -> T {
    std::thread::scope(|sc| {
        std::thread::Builder::new().stack_size(8 << 20).spawn_scoped(sc, f).unwrap().join().unwrap()
    })
}

/// returns (variant results, oracle verdict)
fn run_foreign(env: &Environment<'static>, x: usize, site: &str, consumer: &str, via: &str) -> (Vec<String>, String) {
    let was = LOGGING.swap(false, Ordering::Relaxed);
    let mut variants: Vec<String> = Vec::new();
    // ---- export
    let (exported, same_thread) = if site == "M" {
        (fx_export(env, x), "-".to_string())
    } else {
        let j: usize = site.parse().unwrap_or(0);
        spawn_join(|| {
            pre_renders(env, j);
            let v = fx_export(env, x);
            let again = match &v {
                Ok(v) => fx_consume(env, x, consumer, via, v),
                Result::Err(_) => "-".to_string(),
            };
            (v, again)
        })
    };
    let v = match exported {
        Ok(v) => v,
        Result::Err(e) => {
            LOGGING.store(was, Ordering::Relaxed);
            return (vec![format!("export-failed:{}", e)], format!("FAILforeign{{export failed: {}}}", e));
        }
    };
    // ---- (a) main thread
    variants.push(fx_consume(env, x, consumer, via, &v));
    // ---- (b), (c) new threads after k other renders
    for k in 0..4usize {
        let v = &v;
        variants.push(spawn_join(move || {
            pre_renders(env, k);
            fx_consume(env, x, consumer, via, v)
        }));
    }
    // ---- the exporting thread itself, one render later
    variants.push(same_thread);
    // ---- (d) concurrently
    let kk: usize = site.parse().unwrap_or(0);
    for pre in [0usize, kk] {
        let v = &v;
        let rs: Vec<String> = std::thread::scope(|sc| {
            let hs: Vec<_> = (0..4)
                .map(|_| {
                    std::thread::Builder::new()
                        .stack_size(8 << 20)
                        .spawn_scoped(sc, move || {
                            pre_renders(env, pre);
                            fx_consume(env, x, consumer, via, v)
                        })
                        .unwrap()
                })
                .collect();
            hs.into_iter().map(|h| h.join().unwrap_or_else(|_| "thread-panicked".into())).collect()
        });
        variants.extend(rs);
    }
    LOGGING.store(was, Ordering::Relaxed);
    let reference = variants[0].clone();
    let labels = ["main", "new+0", "new+1", "new+2", "new+3", "exporter+1", "conc0.0", "conc0.1", "conc0.2", "conc0.3", "concK.0", "concK.1", "concK.2", "concK.3"];
    let mut verdict = "=".to_string();
    for (i, r) in variants.iter().enumerate() {
        if r != "-" && *r != reference {
            verdict = format!("FAILforeign{{variant {} gave {} but main thread gave {}}}", labels[i], r, reference);
            break;
        }
    }
    (variants, verdict)
}

fn foreign_cases() -> Vec<(usize, &'static str, &'static str, &'static str)> {
    let mut v = Vec::new();
    for x in 0..EXPORTERS.len() {
        for site in ["M", "0", "1", "2", "3"] {
            for consumer in ["same", "other", "str", "info"] {
                for via in ["ctx", "glob"] {
                    v.push((x, site, consumer, via));
                }
            }
        }
    }
    v
}

fn foreign_line(env: &Environment<'static>, x: usize, site: &str, consumer: &str, via: &str) -> String {
    let (variants, verdict) = run_foreign(env, x, site, consumer, via);
    format!("fx:{}:{}:{}:{}\t{}\t{}", x, site, consumer, via, variants.join(" / "), verdict)
}

// ======================================================================================
// "gated loader" stream: deterministic schedules of the memoising tier at lock granularity
// (correspondence stream of `MJ/Model/MemoConc.lean`).
//
// The loader closure runs INSIDE `MemoMap::get_or_try_insert`, i.e. inside the critical section of
// the map's mutex.  Thread A looks up the loader-backed name `c0` and is held inside the loader;
// while it is held the other threads start their lookups — `s`: the same name, `d`: another
// loader-backed name, `b`: a name of the borrowed tier — and (case `w`) the outside world changes
// what the loader answers; then A is let go.  At lock granularity this is the schedule
//   A acquire, A look (miss); each other thread one step (`b`: answered from the borrowed tier
//   without the mutex; `s`/`d`: blocked); [world]; A create+insert, A release; the others in turn.
//   case  cc:<others>:<w|n>      others = 1..3 letters of {s, d, b}
// Reported: what every thread rendered, which of the others finished while A was still inside
// the loader, and how often the loader was asked for each name.
// ======================================================================================

struct Gate {
    entered: AtomicUsize,
    go: AtomicBool,
    phase: AtomicUsize,
    loads: Mutex<BTreeMap<String, usize>>,
}

fn cc_lookup(env: &Environment<'static>, name: &str) -> String {
    match env.get_template(name) {
        Ok(t) => match t.render(()) {
            Ok(s) => s,
            Result::Err(e) => err_code(&e),
        },
        Result::Err(e) => err_code(&e),
    }
}

fn wait_until(limit_ms: u64, mut f: impl FnMut() -> bool) -> bool {
    let t0 = std::time::Instant::now();
    while !f() {
        if t0.elapsed().as_millis() as u64 > limit_ms {
            return false;
        }
        std::thread::sleep(std::time::Duration::from_millis(1));
    }
    true
}

fn run_cc(others: &str, world: bool) -> String {
    let was = LOGGING.swap(false, Ordering::Relaxed);
    let gate = std::sync::Arc::new(Gate {
        entered: AtomicUsize::new(0),
        go: AtomicBool::new(false),
        phase: AtomicUsize::new(1),
        loads: Mutex::new(BTreeMap::new()),
    });
    let mut env = new_env();
    env.add_template("cb", "B9").unwrap();
    let g = gate.clone();
    env.set_loader(move |name: &str| {
        let call = {
            let mut loads = g.loads.lock().unwrap();
            let e = loads.entry(name.to_string()).or_insert(0);
            *e += 1;
            *e
        };
        if name == "c0" {
            g.entered.fetch_add(1, Ordering::SeqCst);
            wait_until(60_000, || g.go.load(Ordering::SeqCst));
        }
        let n = match name {
            "c0" => 0,
            "c1" => 1,
            _ => return Ok(None),
        };
        // an impure loader: a second request for the same name would be answered differently
        let again = if call > 1 { format!("#{}", call) } else { String::new() };
        Ok(Some(format!("P{}N{}{}", g.phase.load(Ordering::SeqCst), n, again)))
    });
    let env = &env;
    let k = others.chars().count();
    let done: Vec<std::sync::Arc<AtomicBool>> = (0..k).map(|_| std::sync::Arc::new(AtomicBool::new(false))).collect();
    let mut notes: Vec<&str> = Vec::new();
    let (a, rest, early) = std::thread::scope(|sc| {
        let ha = sc.spawn(|| cc_lookup(env, "c0"));
        if !wait_until(60_000, || gate.entered.load(Ordering::SeqCst) >= 1) {
            notes.push("first-thread-never-reached-the-loader");
        }
        let hs: Vec<_> = others
            .chars()
            .enumerate()
            .map(|(i, ch)| {
                let name = match ch {
                    's' => "c0",
                    'd' => "c1",
                    _ => "cb",
                };
                let d = done[i].clone();
                sc.spawn(move || {
                    let r = cc_lookup(env, name);
                    d.store(true, Ordering::SeqCst);
                    r
                })
            })
            .collect();
        // a lookup answered by the borrowed tier does not take the mutex: it has to finish while
        // the first thread is still inside the loader
        for (i, ch) in others.chars().enumerate() {
            if ch == 'b' && !wait_until(30_000, || done[i].load(Ordering::SeqCst)) {
                notes.push("borrowed-tier-lookup-blocked");
            }
        }
        std::thread::sleep(std::time::Duration::from_millis(5));
        let early: Vec<bool> = done.iter().map(|d| d.load(Ordering::SeqCst)).collect();
        if world {
            gate.phase.store(2, Ordering::SeqCst);
        }
        gate.go.store(true, Ordering::SeqCst);
        let a = ha.join().unwrap_or_else(|_| "panic".to_string());
        let rest: Vec<String> = hs.into_iter().map(|h| h.join().unwrap_or_else(|_| "panic".to_string())).collect();
        (a, rest, early)
    });
    LOGGING.store(was, Ordering::Relaxed);
    let loads = gate.loads.lock().unwrap().iter().map(|(n, c)| format!("{}:{}", n, c)).collect::<Vec<_>>().join(",");
    let mut all = vec![a];
    all.extend(rest);
    format!(
        "cc:{}:{}\t{}\tearly={}\tloads={}\t{}",
        others,
        if world { "w" } else { "n" },
        all.join(" / "),
        early.iter().map(|b| if *b { '1' } else { '0' }).collect::<String>(),
        loads,
        if notes.is_empty() { "=".to_string() } else { notes.join(",") }
    )
}

fn cc_cases() -> Vec<(String, bool)> {
    let mut v = Vec::new();
    let letters = ['s', 'd', 'b'];
    let mut words: Vec<String> = letters.iter().map(|c| c.to_string()).collect();
    let mut all = words.clone();
    for _ in 0..2 {
        let mut next = Vec::new();
        for w in &words {
            for c in letters {
                next.push(format!("{}{}", w, c));
            }
        }
        all.extend(next.iter().cloned());
        words = next;
    }
    for w in all {
        for world in [false, true] {
            v.push((w.clone(), world));
        }
    }
    v
}

fn main() {
    quiet_panics();
    let args: Vec<String> = std::env::args().collect();
    let out = std::io::stdout();
    let mut out = std::io::BufWriter::new(out.lock());
    match args.get(1).map(|s| s.as_str()) {
        Some("gen") => {
            let thorough = args.get(2).map(|s| s == "thorough").unwrap_or(false);
            let count = match args.get(3).and_then(|s| s.parse::<u64>().ok()) {
                Some(c) => c,
                None => if thorough { 100_000 } else { 10_000 },
            };
            let mut rng = Rng::new(seed_from_env());
            out.write_all(tables().as_bytes()).unwrap();
            out.flush().unwrap();
            drop(out);
            // Histories run on a worker thread.  When a history leaves the thread's state dirty (reported
            // by that history), the following ones continue on a new thread so that every failure is
            // reported where it is caused.
            let mut h = 0u64;
            while h < count {
                let rng_ref = &mut rng;
                h = std::thread::scope(|sc| {
                    std::thread::Builder::new()
                        .stack_size(64 << 20)
                        .spawn_scoped(sc, move || {
                            let so = std::io::stdout();
                            let mut out = std::io::BufWriter::new(so.lock());
                            let mut h = h;
                            while h < count {
                                let ops = gen_history(rng_ref, h % 4 == 0);
                                let hseed = rng_ref.next();
                                let (case, imp, orc, notes) = run_history(&ops, hseed);
                                writeln!(out, "{}\t{}\t{}\t{}", case, imp, orc, notes).unwrap();
                                h += 1;
                                if thread_probe() != "T0" {
                                    break;
                                }
                            }
                            out.flush().unwrap();
                            h
                        })
                        .unwrap()
                        .join()
                        .unwrap()
                });
            }
            println!("#strip-fallbacks {}", STRIP_FALLBACKS.load(Ordering::Relaxed));
            return;
        }
        Some("one") => {
            let toks: Vec<String> = args[2..].iter().flat_map(|s| s.split_whitespace().map(|x| x.to_string()).collect::<Vec<_>>()).collect();
            let ops: Vec<Op> = toks.iter().filter_map(|t| parse_op(t)).collect();
            out.write_all(tables().as_bytes()).unwrap();
            for seed in 0..4u64 {
                let (case, imp, orc, notes) = spawn_join(|| run_history(&ops, seed));
                writeln!(out, "{}\t{}\t{}\t{}", case, imp, orc, notes).unwrap();
                if seed == 0 && args.iter().any(|a| a == "--once") {
                    break;
                }
            }
        }
        Some("tblone") => {
            // `tblone <n> <s> <ltcode>`: the fingerprint of ONE compilation in a process that compiled
            // nothing else (replay of a compile-order failure)
            let n: usize = args.get(2).and_then(|s| s.parse().ok()).unwrap_or(0).min(NN - 1);
            let sidx: usize = args.get(3).and_then(|s| s.parse().ok()).unwrap_or(0).min(NS - 1);
            let code: Vec<u8> = args.get(4).map(|c| c.bytes().map(|b| b.saturating_sub(b'0')).collect()).unwrap_or_default();
            let mut lt = LT_DEFAULT;
            for (i, v) in code.iter().take(5).enumerate() {
                lt[i] = (*v).min(LT_RANGE[i] - 1);
            }
            let mut env = new_env();
            let mut cur = LT_DEFAULT;
            apply_lt(&mut env, &mut cur, &lt);
            match env.template_from_named_str(NAMES[n], SOURCES[sidx]) {
                Ok(t) => writeln!(out, "{}", fingerprint(&t)).unwrap(),
                Result::Err(e) => writeln!(out, "uncompilable:{}", err_code(&e)).unwrap(),
            }
        }
        Some("conc") => {
            // the whole (small) case space of gated-loader schedules, `rounds` times
            let rounds: usize = args.get(2).and_then(|s| s.parse().ok()).unwrap_or(1);
            for _ in 0..rounds {
                for (others, world) in cc_cases() {
                    writeln!(out, "{}", run_cc(&others, world)).unwrap();
                }
            }
        }
        Some("cone") => {
            let f: Vec<&str> = args[2].split(':').collect();
            let others: String = f.get(1).copied().unwrap_or("s").chars().filter(|c| "sdb".contains(*c)).take(6).collect();
            writeln!(out, "{}", run_cc(&others, f.get(2).copied() == Some("w"))).unwrap();
        }
        Some("foreign") => {
            // the whole (small) case space, `rounds` times (thread schedules differ between rounds)
            let rounds: usize = args.get(2).and_then(|s| s.parse().ok()).unwrap_or(1);
            let env = foreign_env();
            for _ in 0..rounds {
                for (x, site, consumer, via) in foreign_cases() {
                    writeln!(out, "{}", foreign_line(&env, x, site, consumer, via)).unwrap();
                }
            }
        }
        Some("fone") => {
            let f: Vec<&str> = args[2].split(':').collect();
            let env = foreign_env();
            let x: usize = f.get(1).and_then(|s| s.parse().ok()).unwrap_or(0).min(EXPORTERS.len() - 1);
            writeln!(out, "{}", foreign_line(&env, x, f.get(2).copied().unwrap_or("0"), f.get(3).copied().unwrap_or("same"), f.get(4).copied().unwrap_or("ctx"))).unwrap();
        }
        Some("file") => {
            // one history per line (corpus of minimised past failures)
            let text = std::fs::read_to_string(&args[2]).unwrap_or_default();
            out.write_all(tables().as_bytes()).unwrap();
            for (i, line) in text.lines().enumerate() {
                let line = line.trim();
                if line.is_empty() || line.starts_with('#') {
                    continue;
                }
                let ops: Vec<Op> = line.split_whitespace().filter_map(parse_op).collect();
                // every corpus history on a thread of its own
                let (case, imp, orc, notes) = spawn_join(|| run_history(&ops, i as u64));
                writeln!(out, "{}\t{}\t{}\t{}", case, imp, orc, notes).unwrap();
            }
        }
        _ => {
            eprintln!("usage: c15 gen <quick|thorough> [count] | c15 one <case tokens…>");
            std::process::exit(2);
        }
    }
}
