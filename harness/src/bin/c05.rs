//! C05 harness: scoped constructs restore scope, capture and escape state on every path.
//!
//! Two streams of evidence, both from the REAL compiler / engine:
//!
//! * static: every instruction stream (main stream and every block stream of a template) is
//!   dumped in a small token format for the verified Lean certificate checker (`drive_c05`):
//!
//!     D <TAB> case <TAB> stream <TAB> class <TAB> tok tok tok ...
//!
//!   one token per pc: `o` other, `pw` PushWith, `pf` PopFrame, `pl<flags>` PushLoop,
//!   `it<t>` Iterate, `dn` PushDidNotIterate, `plf` PopLoopFrame, `bc` BeginCapture,
//!   `ec` EndCapture, `pa` PushAutoEscape, `qa` PopAutoEscape, `j<t>` Jump, `jf<t>` JumpIfFalse,
//!   `jfp<t>` JumpIfFalseOrPop, `jtp<t>` JumpIfTrueOrPop, `fr` FastRecurse, `cf` CallFunction,
//!   `ret` Return, `bm<off>` BuildMacro.
//!
//! * dynamic: every enumerated shape is rendered on the real engine under several contexts and
//!   compared with an independent reference interpreter of the shape language (exact output:
//!   sentinel text with an auto-escape probe and a scope probe after every construct), and the
//!   `verif_hooks::balance` counters of every `eval_impl` activation are checked:
//!
//!     R <TAB> case <TAB> class <TAB> ctx <TAB> ok|skip:<why>|fail:<what>
//!
//! usage: c05 gen <quick|thorough>      — fixtures + exhaustive shape enumeration
//!        c05 one <shape>               — replay one shape (verbose)
//!        c05 src <file>                — dump + render one template file (no front matter)
use minijinja::machinery::{get_compiled_template, Instruction, Instructions};
use minijinja::value::Value;
use minijinja::verif_hooks::balance;
use minijinja::{Environment, UndefinedBehavior};
use mjh::*;
use std::collections::BTreeMap;
use std::fmt::Write as _;
use std::io::Write as _;

// ------------------------------------------------------------------------------------------
// static part: instruction stream dump

/// One token per instruction.  The match is exhaustive on purpose: a new instruction in the
/// enum breaks the build of the harness (= broken tie), it is never silently treated as `other`.
fn tok(i: &Instruction<'_>) -> String {
    use Instruction::*;
    match i {
        PushWith => "pw".into(),
        PopFrame => "pf".into(),
        PushLoop(flags) => format!("pl{}", flags),
        Iterate(t) => format!("it{}", t),
        PushDidNotIterate => "dn".into(),
        PopLoopFrame => "plf".into(),
        BeginCapture(_) => "bc".into(),
        EndCapture => "ec".into(),
        PushAutoEscape => "pa".into(),
        PopAutoEscape => "qa".into(),
        Jump(t) => format!("j{}", t),
        JumpIfFalse(t) => format!("jf{}", t),
        JumpIfFalseOrPop(t) => format!("jfp{}", t),
        JumpIfTrueOrPop(t) => format!("jtp{}", t),
        FastRecurse => "fr".into(),
        CallFunction(_, _) => "cf".into(),
        Return => "ret".into(),
        BuildMacro(_, off, _) => format!("bm{}", off),
        // no effect on frames / captures / auto-escape stack of the running activation
        // (nested evaluations run their own activation, checked separately)
        EmitRaw(_) | StoreLocal(_) | Lookup(_) | GetAttr(_) | SetAttr(_) | GetItem | Slice
        | LoadConst(_) | BuildMap(_) | BuildKwargs(_) | MergeKwargs(_) | BuildList(_)
        | BuildTuple(_) | UnpackList(_) | UnpackLists(_) | Add | Sub | Mul | Div | IntDiv | Rem
        | Pow | Neg | Eq | Ne | Gt | Gte | Lt | Lte | Not | StringConcat | In
        | CompareAndPreserve(_) | ApplyFilter(_, _, _) | PerformTest(_, _, _) | Emit
        | CallMethod(_, _) | CallObject(_) | DupTop | DiscardTop | FastSuper | Swap
        | CallBlock(_) | LoadBlocks | Include(_) | ExportLocals | IsUndefined | Enclose(_)
        | GetClosure => "o".into(),
    }
}

fn dump_stream(instrs: &Instructions<'_>) -> String {
    let mut s = String::new();
    let mut pc = 0u32;
    while let Some(i) = instrs.get(pc) {
        if pc > 0 {
            s.push(' ');
        }
        s.push_str(&tok(i));
        pc += 1;
    }
    s
}

fn dump_template(out: &mut impl std::io::Write, case: &str, class: &str, tmpl: &minijinja::Template<'_, '_>) {
    let c = get_compiled_template(tmpl);
    writeln!(out, "D\t{}\tmain\t{}\t{}", case, class, dump_stream(&c.instructions)).unwrap();
    for (name, b) in c.blocks.iter() {
        writeln!(out, "D\t{}\tblock:{}\t{}\t{}", case, name, class, dump_stream(b)).unwrap();
    }
}

// ------------------------------------------------------------------------------------------
// operand stack: instruction effects and the heights the engine really has
//
//     O <TAB> case <TAB> stream <TAB> class <TAB> tok tok … <TAB> pc:h pc:h …|pc:h …|…
//
// one token per pc for the machine of `MJ/Model/Ops.lean` (`e<a>_<b>` pops a pushes b, `dy` pops a
// run-time count, `ul<n>` UnpackLists, `c<n>` / `cd` CallFunction, the rest as in the `D` lines), and
// the distinct traces (program counter and operand-stack height in front of every instruction, hook
// `verif_hooks::opstack`) of the activations that ran on the stream.  `drive_c05` runs the model
// along every trace.

/// The match is exhaustive on purpose (a new instruction breaks the build).
fn op_tok(i: &Instruction<'_>) -> String {
    use Instruction::*;
    let e = |a: usize, b: usize| format!("e{}_{}", a, b);
    match i {
        EmitRaw(_) | FastSuper | CallBlock(_) | Enclose(_) => e(0, 0),
        StoreLocal(_) | Emit | DiscardTop | LoadBlocks | Include(_) => e(1, 0),
        Lookup(_) | LoadConst(_) | GetClosure => e(0, 1),
        GetAttr(_) | Neg | Not | IsUndefined => e(1, 1),
        ExportLocals => "xl".into(),
        SetAttr(_) => e(2, 0),
        GetItem | Add | Sub | Mul | Div | IntDiv | Rem | Pow | Eq | Ne | Gt | Gte | Lt | Lte | StringConcat | In => e(2, 1),
        Slice => e(4, 1),
        CompareAndPreserve(_) | Swap => e(2, 2),
        DupTop => e(1, 2),
        BuildMap(n) | BuildKwargs(n) => e(2 * n, 1),
        MergeKwargs(n) => e(*n, 1),
        BuildList(Some(n)) | BuildTuple(Some(n)) => e(*n, 1),
        BuildList(None) | BuildTuple(None) => "dy".into(),
        UnpackList(n) => e(1, *n),
        UnpackLists(n) => format!("ul{}", n),
        ApplyFilter(_, Some(n), _) | PerformTest(_, Some(n), _) => e(*n as usize, 1),
        CallMethod(_, Some(n)) | CallObject(Some(n)) => e(*n as usize, 1),
        ApplyFilter(_, None, _) | PerformTest(_, None, _) | CallMethod(_, None) | CallObject(None) => "dy".into(),
        CallFunction(_, Some(n)) => format!("c{}", n),
        CallFunction(_, None) => "cd".into(),
        PushWith => "pw".into(),
        PopFrame => "pf".into(),
        PushLoop(flags) => format!("pl{}", flags),
        Iterate(t) => format!("it{}", t),
        PushDidNotIterate => "dn".into(),
        PopLoopFrame => "plf".into(),
        BeginCapture(_) => "bc".into(),
        EndCapture => "ec".into(),
        PushAutoEscape => "pa".into(),
        PopAutoEscape => "qa".into(),
        Jump(t) => format!("j{}", t),
        JumpIfFalse(t) => format!("jf{}", t),
        JumpIfFalseOrPop(t) => format!("jfp{}", t),
        JumpIfTrueOrPop(t) => format!("jtp{}", t),
        FastRecurse => "fr".into(),
        Return => "ret".into(),
        BuildMacro(_, off, _) => format!("bm{}", off),
    }
}

fn op_stream(instrs: &Instructions<'_>) -> Vec<String> {
    let mut v = vec![];
    let mut pc = 0u32;
    while let Some(i) = instrs.get(pc) {
        v.push(op_tok(i));
        pc += 1;
    }
    v
}

/// a cheap fingerprint of an instruction, to tell which stream an activation runs on
fn op_print(i: &Instruction<'_>) -> u32 {
    let t = op_tok(i);
    let mut h: u32 = 2166136261;
    for b in t.bytes() {
        h = (h ^ b as u32).wrapping_mul(16777619);
    }
    h
}

thread_local! {
    /// (activation, pc, height, fingerprint) of every dispatched instruction while recording
    static OPS_EVENTS: std::cell::RefCell<Vec<(u64, u32, u32, u32)>> = const { std::cell::RefCell::new(Vec::new()) };
    static OPS_ON: std::cell::Cell<bool> = const { std::cell::Cell::new(false) };
}

fn ops_install_hook() {
    minijinja::verif_hooks::opstack::set_hook(Some(Box::new(|act, pc, height, instr| {
        if OPS_ON.with(|x| x.get()) {
            OPS_EVENTS.with(|e| {
                let mut e = e.borrow_mut();
                if e.len() < 4_000_000 {
                    e.push((act, pc, height as u32, op_print(instr)));
                }
            });
        }
    })));
}

fn ops_record(on: bool) {
    OPS_ON.with(|x| x.set(on));
    if on {
        OPS_EVENTS.with(|e| e.borrow_mut().clear());
    }
}

/// the traces collected for the streams of one template
struct OpsTraces {
    /// (stream name, tokens, fingerprints)
    streams: Vec<(String, Vec<String>, Vec<u32>)>,
    traces: Vec<std::collections::BTreeSet<Vec<(u32, u32)>>>,
    unmatched: usize,
    events: usize,
    /// the main stream has a `LoadBlocks` (`extends`): its activation goes on with the parent's
    /// instructions at pc 0, one trace is then not the run of one stream
    skip_main: bool,
}

impl OpsTraces {
    fn new(tmpl: &minijinja::Template<'_, '_>) -> OpsTraces {
        let c = get_compiled_template(tmpl);
        let mut streams = vec![];
        let prints = |ins: &Instructions<'_>| {
            let mut v = vec![];
            let mut pc = 0u32;
            while let Some(i) = ins.get(pc) {
                v.push(op_print(i));
                pc += 1;
            }
            v
        };
        streams.push(("main".to_string(), op_stream(&c.instructions), prints(&c.instructions)));
        for (name, b) in c.blocks.iter() {
            streams.push((format!("block:{}", name), op_stream(b), prints(b)));
        }
        let n = streams.len();
        let mut skip_main = false;
        let mut pc = 0u32;
        while let Some(i) = c.instructions.get(pc) {
            if matches!(i, Instruction::LoadBlocks) {
                skip_main = true;
            }
            pc += 1;
        }
        OpsTraces { streams, traces: vec![Default::default(); n], unmatched: 0, events: 0, skip_main }
    }

    /// takes the events recorded since `ops_record(true)`, one trace per activation, and files each
    /// under the stream whose instructions it ran
    fn absorb(&mut self) {
        let events: Vec<(u64, u32, u32, u32)> = OPS_EVENTS.with(|e| std::mem::take(&mut *e.borrow_mut()));
        let mut per_act: BTreeMap<u64, Vec<(u32, u32, u32)>> = BTreeMap::new();
        for (act, pc, h, fp) in events {
            per_act.entry(act).or_default().push((pc, h, fp));
        }
        for (_, tr) in per_act {
            let found = self.streams.iter().position(|(_, _, fps)| {
                tr.iter().all(|(pc, _, fp)| fps.get(*pc as usize) == Some(fp))
            });
            match found {
                Some(0) if self.skip_main => self.unmatched += 1,
                Some(i) => {
                    if self.events < 400_000 {
                        let t: Vec<(u32, u32)> = tr.iter().map(|(pc, h, _)| (*pc, *h)).collect();
                        let n = t.len();
                        if self.traces[i].insert(t) {
                            self.events += n;
                        }
                    }
                }
                None => self.unmatched += 1,
            }
        }
    }

    fn dump(&self, out: &mut impl std::io::Write, case: &str, class: &str) {
        for (i, (name, toks, _)) in self.streams.iter().enumerate() {
            if self.traces[i].is_empty() {
                continue;
            }
            let mut s = String::new();
            for (n, t) in self.traces[i].iter().enumerate() {
                if n > 0 {
                    s.push('|');
                }
                for (m, (pc, h)) in t.iter().enumerate() {
                    if m > 0 {
                        s.push(' ');
                    }
                    write!(s, "{}:{}", pc, h).unwrap();
                }
            }
            writeln!(out, "O\t{}\t{}\t{}\t{}\t{}", case, name, class, toks.join(" "), s).unwrap();
        }
    }
}

// ------------------------------------------------------------------------------------------
// the shape language

#[derive(Clone, Copy, PartialEq, Eq, Debug)]
enum Kind {
    For,   // for, child in body
    ForE,  // for/else, child in body
    ForEl, // for/else, child in else
    ForF,  // filtered for
    ForR,  // recursive for
    /// recursive for with an else block (child in the body); iterates `tre`, which is empty when `xs` is
    ForRE,
    With,
    Set,
    Filt,
    Ae1,
    Ae0,
    IfC,
    IfK,
    IfEl, // if/else, child in else
    Mac,
    Call,
    Blk,
    // a completed sibling construct in front of the child (same body)
    SeqW,
    SeqS,
    SeqA,
    SeqL,
    /// includes (a template with its own scopes and loop controls; one with another auto-escape mode)
    SeqI,
    /// from-import + macro call
    SeqM,
    /// macro whose failure is swallowed by the Rust function that called it (`try_call`)
    TMac,
    /// call block whose `caller()` is invoked through `try_call` inside the macro
    TCal,
    /// block rendered through `State::render_block` by a function that swallows the error
    TBlk,
    /// includes that find nothing and are forgiven (`ignore missing`): single name and list
    SeqN,
    /// include of a list whose first candidate does not exist
    SeqH,
    /// `import … as`
    SeqP,
    /// `if` whose condition has internal jumps (and / or / chained comparison), followed by an
    /// inline `a if c else b`
    IfA,
}
const KINDS: [(Kind, &str); 30] = [
    (Kind::For, "for"),
    (Kind::ForE, "fore"),
    (Kind::ForEl, "forEl"),
    (Kind::ForF, "forf"),
    (Kind::ForR, "forr"),
    (Kind::ForRE, "forre"),
    (Kind::With, "with"),
    (Kind::Set, "set"),
    (Kind::Filt, "filt"),
    (Kind::Ae1, "ae1"),
    (Kind::Ae0, "ae0"),
    (Kind::IfC, "ifc"),
    (Kind::IfK, "ifk"),
    (Kind::IfEl, "ifEl"),
    (Kind::Mac, "mac"),
    (Kind::Call, "call"),
    (Kind::Blk, "blk"),
    (Kind::SeqW, "seqW"),
    (Kind::SeqS, "seqS"),
    (Kind::SeqA, "seqA"),
    (Kind::SeqL, "seqL"),
    (Kind::SeqI, "seqI"),
    (Kind::SeqM, "seqM"),
    (Kind::TMac, "tmac"),
    (Kind::TCal, "tcal"),
    (Kind::TBlk, "tblk"),
    (Kind::SeqN, "seqN"),
    (Kind::SeqH, "seqH"),
    (Kind::SeqP, "seqP"),
    (Kind::IfA, "ifa"),
];

#[derive(Clone, Copy, PartialEq, Eq, Debug)]
enum Leaf {
    T,
    /// the body of the innermost construct is completely empty
    Empty,
    Brk,
    Cont,
    Rec,
    RecF,
    /// `loop(x)` inside an expression that has operands waiting on the stack: string concatenation
    RecP,
    /// … a call argument and a list literal under construction
    RecL,
    /// both forms in one loop: even recursion depths call from inside an expression with a waiting
    /// operand (captured), odd depths through the `{{ loop(x) }}` fast path
    RecM,
    /// the other way round: fast path at even depths, captured call at odd depths
    RecN,
    /// the body fails at run time here
    Fail,
    /// the body fails in the iteration where `x == k`
    FailK,
    /// an included template fails after opening scopes of its own
    FailInc,
    /// every builtin filter / test / function that is handed the `State` is applied here
    Bi,
}
const LEAVES: [(Leaf, &str); 14] = [
    (Leaf::Bi, "bi"),
    (Leaf::Fail, "fail"),
    (Leaf::FailK, "failk"),
    (Leaf::FailInc, "finc"),
    (Leaf::T, "T"),
    (Leaf::Empty, "empty"),
    (Leaf::Brk, "brk"),
    (Leaf::Cont, "cont"),
    (Leaf::Rec, "rec"),
    (Leaf::RecF, "recf"),
    (Leaf::RecP, "recp"),
    (Leaf::RecL, "recl"),
    (Leaf::RecM, "recm"),
    (Leaf::RecN, "recn"),
];

const SRC_CAPTURED_PENDING: &str = "{{ ('p' ~ loop(x) ~ 'q')|safe }}";

#[derive(Clone, Debug)]
struct Shape {
    kinds: Vec<Kind>,
    leaf: Leaf,
}

impl Shape {
    fn name(&self) -> String {
        let mut v: Vec<&str> = self.kinds.iter().map(|k| KINDS.iter().find(|x| x.0 == *k).unwrap().1).collect();
        v.push(LEAVES.iter().find(|x| x.0 == self.leaf).unwrap().1);
        v.join(">")
    }
    fn parse(s: &str) -> Option<Shape> {
        let parts: Vec<&str> = s.split('>').collect();
        let (last, init) = parts.split_last()?;
        let leaf = LEAVES.iter().find(|x| x.1 == *last)?.0;
        let mut kinds = vec![];
        for p in init {
            kinds.push(KINDS.iter().find(|x| x.1 == *p)?.0);
        }
        Some(Shape { kinds, leaf })
    }
    fn is_loop(k: Kind) -> bool {
        matches!(k, Kind::For | Kind::ForE | Kind::ForEl | Kind::ForF | Kind::ForR | Kind::ForRE)
    }
    fn is_rec_leaf(l: Leaf) -> bool {
        matches!(l, Leaf::Rec | Leaf::RecF | Leaf::RecP | Leaf::RecL | Leaf::RecM | Leaf::RecN)
    }
    fn is_boundary(k: Kind) -> bool {
        matches!(k, Kind::Mac | Kind::Call | Kind::Blk | Kind::TMac | Kind::TCal | Kind::TBlk)
    }
    fn is_try(k: Kind) -> bool {
        matches!(k, Kind::TMac | Kind::TCal | Kind::TBlk)
    }
    /// is the leaf admissible at the end of this chain of kinds?
    fn admissible(&self) -> bool {
        // blocks are not allowed inside macros / call blocks; a block name may appear once
        match self.leaf {
            Leaf::T | Leaf::Empty | Leaf::Bi => true,
            // a failure is only interesting when something swallows it and rendering goes on
            Leaf::Fail | Leaf::FailInc => self.kinds.iter().any(|k| Shape::is_try(*k)),
            Leaf::FailK => {
                self.kinds.iter().any(|k| Shape::is_try(*k))
                    && self.kinds.iter().any(|k| matches!(k, Kind::For | Kind::ForE | Kind::ForF))
            }
            Leaf::Brk | Leaf::Cont => {
                // lexically inside a `for` statement (body or else) with no macro/call/block between
                for k in self.kinds.iter().rev() {
                    if Shape::is_boundary(*k) {
                        return false;
                    }
                    if Shape::is_loop(*k) {
                        return true;
                    }
                }
                false
            }
            Leaf::Rec | Leaf::RecF | Leaf::RecP | Leaf::RecL | Leaf::RecM | Leaf::RecN => {
                // the innermost loop (whose *body* we are in) must be the recursive one and no
                // macro/call/block boundary may lie between
                for k in self.kinds.iter().rev() {
                    if Shape::is_boundary(*k) {
                        return false;
                    }
                    match k {
                        Kind::ForR | Kind::ForRE => return true,
                        Kind::For | Kind::ForE | Kind::ForF => return false,
                        // in the else branch of a loop that loop is already gone; look further out
                        Kind::ForEl => {}
                        _ => {}
                    }
                }
                false
            }
        }
    }
    /// a `break` / `continue` leaf at a position where no loop encloses it (the parser's `in_loop`
    /// discipline has to refuse the template)
    fn not_enclosed(&self) -> bool {
        // … and likewise `loop(x)` (statement and captured form) where the innermost loop is not a
        // recursive one of the same instruction stream: across a macro / call / block body, inside a
        // plain loop, outside any loop — the engine has to refuse the call (or stay balanced)
        matches!(self.leaf, Leaf::Brk | Leaf::Cont | Leaf::Rec | Leaf::RecF) && !self.admissible()
    }
    /// failure class used as the site of oracle failures
    fn class(&self) -> String {
        match self.leaf {
            Leaf::Brk | Leaf::Cont => {
                let mut scopes: Vec<&str> = vec![];
                let mut in_else = false;
                for k in self.kinds.iter().rev() {
                    match k {
                        Kind::With => scopes.push("with"),
                        Kind::Set | Kind::Filt => scopes.push("capture"),
                        Kind::Ae0 | Kind::Ae1 => scopes.push("autoescape"),
                        Kind::ForEl => {
                            in_else = true;
                            // keep looking for the loop that is actually left
                            continue;
                        }
                        Kind::For | Kind::ForE | Kind::ForF | Kind::ForR | Kind::ForRE => break,
                        _ => {}
                    }
                }
                scopes.sort();
                scopes.dedup();
                let what = if self.leaf == Leaf::Brk { "break" } else { "continue" };
                let mut s = if scopes.is_empty() {
                    format!("{}-plain", what)
                } else {
                    format!("{}-inside-{}", what, scopes.join("+"))
                };
                if in_else {
                    s.push_str("-in-else");
                }
                if !self.admissible() {
                    s.push_str("-not-enclosed");
                }
                s
            }
            Leaf::Rec if !self.admissible() => "recurse-not-enclosed".into(),
            Leaf::RecF if !self.admissible() => "recurse-captured-not-enclosed".into(),
            Leaf::Rec => "recurse".into(),
            Leaf::RecF => "recurse-captured".into(),
            Leaf::RecP => "recurse-in-expression-operand-waiting".into(),
            Leaf::RecL => "recurse-in-expression-call-and-list-waiting".into(),
            Leaf::RecM => "recurse-mixed-expression-outside".into(),
            Leaf::RecN => "recurse-mixed-fast-outside".into(),
            Leaf::T => "plain".into(),
            Leaf::Empty => "empty-body".into(),
            Leaf::Bi => "builtins-with-state".into(),
            Leaf::Fail | Leaf::FailK | Leaf::FailInc => {
                // the innermost construct that swallows the failure and what lies between
                let mut between: Vec<&str> = vec![];
                if self.leaf == Leaf::FailInc {
                    between.push("include");
                }
                let mut catcher = "none";
                for k in self.kinds.iter().rev() {
                    match k {
                        Kind::TMac => {
                            catcher = "macro";
                            break;
                        }
                        Kind::TCal => {
                            catcher = "caller";
                            break;
                        }
                        Kind::TBlk => {
                            catcher = "block";
                            break;
                        }
                        Kind::With => between.push("with"),
                        Kind::Set | Kind::Filt => between.push("capture"),
                        Kind::Ae0 | Kind::Ae1 => between.push("autoescape"),
                        Kind::For | Kind::ForE | Kind::ForF | Kind::ForR | Kind::ForRE => between.push("loop"),
                        Kind::Mac | Kind::Call => between.push("macro"),
                        Kind::Blk => between.push("block"),
                        Kind::SeqI => between.push("include"),
                        _ => {}
                    }
                }
                between.sort();
                between.dedup();
                if between.is_empty() {
                    format!("error-swallowed-{}", catcher)
                } else {
                    format!("error-swallowed-{}-inside-{}", catcher, between.join("+"))
                }
            }
        }
    }

    fn source(&self) -> String {
        let mut s = String::new();
        s.push_str("{% set g = 'G' %}");
        s.push_str(&piece_src(0, 'S'));
        self.src_at(0, &mut s);
        s.push_str(&piece_src(0, 'Z'));
        s
    }
    fn src_at(&self, i: usize, s: &mut String) {
        if i == self.kinds.len() {
            if self.leaf == Leaf::Bi {
                s.push_str(&bi_src());
            }
            if self.leaf == Leaf::RecM || self.leaf == Leaf::RecN {
                let captured_when = if self.leaf == Leaf::RecM { 0 } else { 1 };
                write!(
                    s,
                    "{{% if loop.depth0 % 2 == {captured_when} %}}{SRC_CAPTURED_PENDING}{{% else %}}{{{{ loop(x) }}}}{{% endif %}}"
                )
                .unwrap();
            }
            s.push_str(match self.leaf {
                Leaf::T | Leaf::Empty | Leaf::Bi | Leaf::RecM | Leaf::RecN => "",
                Leaf::Brk => "{% break %}",
                Leaf::Cont => "{% continue %}",
                Leaf::Rec => "{{ loop(x) }}",
                Leaf::RecF => "{{ loop(x)|fz }}",
                Leaf::RecP => SRC_CAPTURED_PENDING,
                Leaf::RecL => "{{ pj('p', ['l', loop(x)]) }}",
                Leaf::Fail => "{{ fail() }}",
                Leaf::FailInc => "{% include 'bad.html' %}",
                Leaf::FailK => "{{ failif(x == k) }}",
            });
            return;
        }
        let d = i + 1;
        // with the `empty` leaf the body that holds the child position has no content at all
        let bare = self.leaf == Leaf::Empty && i + 1 == self.kinds.len();
        let in_else = matches!(self.kinds[i], Kind::ForEl | Kind::IfEl);
        let opt = |on: bool, tag: char| if on { String::new() } else { piece_src(d, tag) };
        let a = opt(
            bare && !in_else
                && !matches!(
                    self.kinds[i],
                    Kind::SeqW | Kind::SeqS | Kind::SeqA | Kind::SeqL | Kind::SeqI | Kind::SeqM | Kind::SeqN | Kind::SeqH | Kind::SeqP
                ),
            'A',
        );
        let b = opt(bare && !in_else, 'B');
        let e = opt(bare && in_else, 'E');
        let f = opt(bare && in_else, 'F');
        // closure write-through probe around the construct under test: a macro that reads `cv` is
        // declared in front of it, `cv` is re-assigned behind it (in the same frame) and the macro
        // called: the frame's closure must still be attached on every way through the construct
        write!(s, "{{% set cv = 'o' %}}{{% macro cm{d}() %}}{{{{ cv }}}}{{% endmacro %}}").unwrap();
        let c = format!("{{% set cv = 'n{d}' %}}{{{{ cm{d}() }}}}{}", piece_src(d, 'C'));
        let mut child = String::new();
        self.src_at(i + 1, &mut child);
        match self.kinds[i] {
            Kind::For => write!(s, "{{% for x in xs %}}{a}{child}{b}{{% endfor %}}{c}"),
            Kind::ForE => write!(s, "{{% for x in xs %}}{a}{child}{b}{{% else %}}{e}{{% endfor %}}{c}"),
            Kind::ForEl => write!(s, "{{% for x in xs %}}{a}{{% else %}}{e}{child}{f}{{% endfor %}}{c}"),
            Kind::ForF => write!(s, "{{% for x in xs if x != 2 %}}{a}{child}{b}{{% endfor %}}{c}"),
            Kind::ForR => write!(s, "{{% for x in tree recursive %}}{a}{child}{b}{{% endfor %}}{c}"),
            Kind::ForRE => write!(s, "{{% for x in tre recursive %}}{a}{child}{b}{{% else %}}{e}{{% endfor %}}{c}"),
            Kind::With => write!(s, "{{% with w = 'w{d}' %}}{a}{child}{b}{{% endwith %}}{c}"),
            Kind::Set => write!(s, "{{% set v %}}{a}{child}{b}{{% endset %}}{{{{ v }}}}{c}"),
            Kind::Filt => write!(s, "{{% filter fz %}}{a}{child}{b}{{% endfilter %}}{c}"),
            Kind::Ae1 => write!(s, "{{% autoescape true %}}{a}{child}{b}{{% endautoescape %}}{c}"),
            Kind::Ae0 => write!(s, "{{% autoescape false %}}{a}{child}{b}{{% endautoescape %}}{c}"),
            Kind::IfC => write!(s, "{{% if c %}}{a}{child}{b}{{% endif %}}{c}"),
            Kind::IfK => write!(s, "{{% if x == k %}}{a}{child}{b}{{% endif %}}{c}"),
            Kind::IfA => write!(
                s,
                "{{% if c and x is defined or 3 < k < 9 %}}{a}{child}{b}{{% endif %}}{{{{ 'y' if c else 'n' }}}}{c}"
            ),
            Kind::IfEl => write!(s, "{{% if c %}}{a}{{% else %}}{e}{child}{f}{{% endif %}}{c}"),
            Kind::Mac => write!(s, "{{% macro m{d}() %}}{a}{child}{b}{{% endmacro %}}{{{{ m{d}() }}}}{c}"),
            Kind::Call => write!(
                s,
                "{{% macro q{d}() %}}(({{{{ caller() }}}})){{% endmacro %}}{{% call q{d}() %}}{a}{child}{b}{{% endcall %}}{c}"
            ),
            Kind::Blk => write!(s, "{{% block b{d} %}}{a}{child}{b}{{% endblock %}}{c}"),
            Kind::SeqW => write!(s, "{{% with w = 'w{d}' %}}{a}{{% endwith %}}{child}{c}"),
            Kind::SeqS => write!(s, "{{% set v %}}{a}{{% endset %}}{{{{ v }}}}{child}{c}"),
            Kind::SeqA => write!(s, "{{% autoescape true %}}{a}{{% endautoescape %}}{child}{c}"),
            Kind::SeqL => write!(s, "{{% for y in [1] %}}{a}{{% endfor %}}{child}{c}"),
            Kind::SeqI => write!(s, "{{% include 'inc.txt' %}}{{% include 'inc.html' %}}{child}{c}"),
            Kind::SeqM => write!(s, "{{% from 'lib.txt' import lm %}}{{{{ lm(1) }}}}{child}{c}"),
            Kind::SeqN => write!(
                s,
                "{{% include 'nope.txt' ignore missing %}}{{% include ['n1.txt', 'n2.txt'] ignore missing %}}{child}{c}"
            ),
            Kind::SeqH => write!(s, "{{% include ['nope.txt', 'inc.txt'] %}}{child}{c}"),
            Kind::SeqP => write!(s, "{{% import 'lib.txt' as lb %}}{{{{ lb.lm(1) }}}}{child}{c}"),
            Kind::TMac => write!(
                s,
                "{{% macro n{d}(ma, mb='q') %}}{a}{child}{b}{{% endmacro %}}{{{{ try_call(n{d}, 'a{d}') }}}}{c}"
            ),
            Kind::TCal => write!(
                s,
                "{{% macro r{d}() %}}(({{{{ try_call(caller) }}}})){{% endmacro %}}{{% call r{d}() %}}{a}{child}{b}{{% endcall %}}{c}"
            ),
            Kind::TBlk => write!(
                s,
                "{{% if false %}}{{% block t{d} %}}{a}{child}{b}{{% endblock %}}{{% endif %}}{{{{ try_block('t{d}') }}}}{c}"
            ),
        }
        .unwrap();
    }
}

/// sentinel: text, auto-escape probe, scope probes (`w`: innermost with-variable, `g`: variable
/// of the template's root frame, `ma`: argument of the innermost try-called macro), execution
/// state probe (template name and current block as the engine's `State` reports them)
fn piece_src(d: usize, tag: char) -> String {
    format!("[{d}{tag}]{{{{ h }}}}{{{{ w|default('-') }}}}{{{{ g }}}}{{{{ ma|default('') }}}}{{{{ probe() }}}}")
}

// ------------------------------------------------------------------------------------------
// reference interpreter of the shape language (independent of the engine)

#[derive(Clone, Debug, PartialEq)]
enum XVal {
    Undef,
    Int(i64),
    Tree(Vec<XVal>),
}

#[derive(Clone)]
struct Scope {
    /// auto-escape mode: 0 none, 1 html, 2 the custom mode of the `ae-custom` configuration
    ae: u8,
    /// the mode the running activation of the interpreter was entered with (what
    /// `{% autoescape true %}` falls back to): macros, call bodies and blocks start a new one
    act_base: u8,
    w: Option<usize>,
    x: XVal,
    /// argument of the innermost try-called macro that is lexically visible
    ma: Option<usize>,
    /// the current block as `State::current_block` reports it
    block: Option<String>,
    /// `loop.depth0` of the innermost live loop when that loop is recursive (a new loop started
    /// inside a recursive one continues its depth count, a recursion level is one deeper)
    loop_rec: Option<usize>,
}

#[derive(Clone, Copy, PartialEq, Eq, Debug)]
enum Flow {
    Normal,
    Break,
    Continue,
    /// a run-time error travelling up to whoever swallows it
    Fail,
}

#[derive(Clone, Debug)]
struct Params {
    xs: Vec<i64>,
    c: bool,
    k: i64,
    /// the engine runs the else branch of a loop that was left by `break` during its first
    /// iteration (a C03 matter); both behaviours are accepted by this oracle
    else_after_first_break: bool,
    /// the environment's auto-escape callback turns escaping on for every template
    base_ae: u8,
}

struct Spec<'a> {
    shape: &'a Shape,
    p: &'a Params,
    /// a `break`/`continue` reached a point where no loop encloses it
    stray: bool,
}

impl Spec<'_> {
    fn piece(&self, d: usize, tag: char, sc: &Scope, out: &mut String) {
        write!(out, "[{d}{tag}]").unwrap();
        out.push_str(esc_lt(sc.ae));
        match sc.w {
            Some(d) => write!(out, "w{d}").unwrap(),
            None => out.push('-'),
        }
        out.push('G');
        if let Some(d) = sc.ma {
            write!(out, "a{d}").unwrap();
        }
        write!(out, "shape.txt~{}~{}", sc.block.as_deref().unwrap_or("-"), ["N", "H", "C"][sc.ae as usize]).unwrap();
    }

    fn tree() -> Vec<XVal> {
        // [[[]], []]
        vec![XVal::Tree(vec![XVal::Tree(vec![])]), XVal::Tree(vec![])]
    }

    /// `tre`: [[[[]], []], []], or nothing at all when `xs` is empty
    fn tre(&self) -> Vec<XVal> {
        if self.p.xs.is_empty() {
            return vec![];
        }
        let e = || XVal::Tree(vec![]);
        vec![XVal::Tree(vec![XVal::Tree(vec![e()]), e()]), e()]
    }

    /// `A child B`
    fn body(&mut self, i: usize, ta: char, tb: char, sc: &Scope, out: &mut String) -> Flow {
        let d = i + 1;
        let bare = self.shape.leaf == Leaf::Empty && i + 1 == self.shape.kinds.len();
        if !bare {
            self.piece(d, ta, sc, out);
        }
        let f = self.node(i + 1, sc, out);
        if f != Flow::Normal {
            return f;
        }
        if !bare {
            self.piece(d, tb, sc, out);
        }
        Flow::Normal
    }

    /// runs the loop at chain position i over items (body = A child B); returns whether the
    /// engine's "did not iterate" flag would be set, both ways
    fn run_loop(&mut self, i: usize, items: &[XVal], sc: &Scope, out: &mut String) -> (bool, Flow) {
        let mut else_runs = items.is_empty();
        let recursive = matches!(self.shape.kinds[i], Kind::ForR | Kind::ForRE);
        for (n, item) in items.iter().enumerate() {
            let mut inner = sc.clone();
            inner.x = item.clone();
            inner.loop_rec = if recursive { Some(sc.loop_rec.map_or(0, |d| d + 1)) } else { None };
            let f = self.body(i, 'A', 'B', &inner, out);
            if f == Flow::Fail {
                return (false, Flow::Fail);
            }
            if f == Flow::Break {
                if n == 0 && self.p.else_after_first_break {
                    else_runs = true;
                }
                break;
            }
        }
        (else_runs, Flow::Normal)
    }

    fn node(&mut self, i: usize, sc: &Scope, out: &mut String) -> Flow {
        if i == self.shape.kinds.len() {
            if self.shape.leaf == Leaf::Bi {
                // `bz|e` escapes with the mode in effect, or the template's own one when escaping is off
                let target = if sc.ae != 0 { sc.ae } else { mode_on(self.p.base_ae) };
                out.push_str(esc_lt(target));
                write!(out, "[{}]", bi_rest_expected()).unwrap();
                // a capture taken here is marked safe exactly when escaping is on
                out.push_str(if sc.ae != 0 { "1" } else { "0" });
            }
            return match self.shape.leaf {
                Leaf::T | Leaf::Empty | Leaf::Bi => Flow::Normal,
                Leaf::Brk => Flow::Break,
                Leaf::Cont => Flow::Continue,
                Leaf::Fail | Leaf::FailInc => Flow::Fail,
                Leaf::FailK => {
                    if sc.x == XVal::Int(self.p.k) {
                        Flow::Fail
                    } else {
                        Flow::Normal
                    }
                }
                Leaf::Rec | Leaf::RecF | Leaf::RecP | Leaf::RecL | Leaf::RecM | Leaf::RecN => {
                    // position of the innermost recursive loop
                    let j = (0..self.shape.kinds.len())
                        .rev()
                        .find(|j| matches!(self.shape.kinds[*j], Kind::ForR | Kind::ForRE))
                        .unwrap();
                    let items = match &sc.x {
                        XVal::Tree(v) => v.clone(),
                        _ => vec![],
                    };
                    let depth0 = sc.loop_rec.unwrap_or(0);
                    // how the call is written at this recursion depth: (text in front, text behind)
                    // for the captured forms, nothing for the fast path
                    let wrap: Option<(&str, &str)> = match self.shape.leaf {
                        Leaf::RecF => Some(("(", ")")),
                        Leaf::RecP => Some(("p", "q")),
                        Leaf::RecL => Some(("pl", "")),
                        Leaf::RecM if depth0 % 2 == 0 => Some(("p", "q")),
                        Leaf::RecN if depth0 % 2 == 1 => Some(("p", "q")),
                        _ => None,
                    };
                    // the recursion runs in the scope of the call site; the else block of the loop
                    // belongs to the statement, not to the recursion levels
                    if let Some((pre, post)) = wrap {
                        let mut buf = String::new();
                        let (_, f) = self.run_loop(j, &items, sc, &mut buf);
                        if f == Flow::Fail {
                            return f;
                        }
                        write!(out, "{}{}{}", pre, buf, post).unwrap();
                    } else {
                        let (_, f) = self.run_loop(j, &items, sc, out);
                        if f == Flow::Fail {
                            return f;
                        }
                    }
                    Flow::Normal
                }
            };
        }
        let d = i + 1;
        let xs: Vec<XVal> = self.p.xs.iter().map(|v| XVal::Int(*v)).collect();
        match self.shape.kinds[i] {
            Kind::For => {
                let (_, f) = self.run_loop(i, &xs, sc, out);
                if f == Flow::Fail {
                    return f;
                }
            }
            Kind::ForF => {
                let items: Vec<XVal> = xs.into_iter().filter(|v| *v != XVal::Int(2)).collect();
                let (_, f) = self.run_loop(i, &items, sc, out);
                if f == Flow::Fail {
                    return f;
                }
            }
            Kind::ForR => {
                let (_, f) = self.run_loop(i, &Spec::tree(), sc, out);
                if f == Flow::Fail {
                    return f;
                }
            }
            Kind::ForRE => {
                let (else_runs, f) = self.run_loop(i, &self.tre(), sc, out);
                if f == Flow::Fail {
                    return f;
                }
                if else_runs {
                    self.piece(d, 'E', sc, out);
                }
            }
            Kind::ForE => {
                let (else_runs, f) = self.run_loop(i, &xs, sc, out);
                if f == Flow::Fail {
                    return f;
                }
                if else_runs {
                    self.piece(d, 'E', sc, out);
                }
            }
            Kind::ForEl => {
                for item in xs.iter() {
                    let mut inner = sc.clone();
                    inner.x = item.clone();
                    self.piece(d, 'A', &inner, out);
                }
                if xs.is_empty() {
                    let f = self.body(i, 'E', 'F', sc, out);
                    if f != Flow::Normal {
                        return f;
                    }
                }
            }
            Kind::With => {
                let mut inner = sc.clone();
                inner.w = Some(d);
                let f = self.body(i, 'A', 'B', &inner, out);
                if f != Flow::Normal {
                    return f;
                }
            }
            Kind::Set => {
                let mut buf = String::new();
                let f = self.body(i, 'A', 'B', sc, &mut buf);
                if f != Flow::Normal {
                    return f; // captured text is dropped with the scope
                }
                out.push_str(&buf);
            }
            Kind::Filt => {
                let mut buf = String::new();
                let f = self.body(i, 'A', 'B', sc, &mut buf);
                if f != Flow::Normal {
                    return f;
                }
                write!(out, "({})", buf).unwrap();
            }
            Kind::Ae1 | Kind::Ae0 => {
                let mut inner = sc.clone();
                inner.ae = if self.shape.kinds[i] == Kind::Ae1 { mode_on(sc.act_base) } else { 0 };
                let f = self.body(i, 'A', 'B', &inner, out);
                if f != Flow::Normal {
                    return f;
                }
            }
            Kind::IfA => {
                if self.p.c && sc.x != XVal::Undef {
                    let f = self.body(i, 'A', 'B', sc, out);
                    if f != Flow::Normal {
                        return f;
                    }
                }
                out.push_str(if self.p.c { "y" } else { "n" });
            }
            Kind::IfC | Kind::IfK => {
                let cond = if self.shape.kinds[i] == Kind::IfC { self.p.c } else { sc.x == XVal::Int(self.p.k) };
                if cond {
                    let f = self.body(i, 'A', 'B', sc, out);
                    if f != Flow::Normal {
                        return f;
                    }
                }
            }
            Kind::IfEl => {
                if self.p.c {
                    self.piece(d, 'A', sc, out);
                } else {
                    let f = self.body(i, 'E', 'F', sc, out);
                    if f != Flow::Normal {
                        return f;
                    }
                }
            }
            Kind::Mac | Kind::Blk => {
                let mut inner = sc.clone();
                inner.act_base = sc.ae;
                if self.shape.kinds[i] == Kind::Mac {
                    inner.loop_rec = None; // a macro runs in a context of its own
                }
                inner.block = if self.shape.kinds[i] == Kind::Blk { Some(format!("b{d}")) } else { None };
                // a macro writes into its own buffer, which is dropped when it fails
                let mut buf = String::new();
                let f = self.body(i, 'A', 'B', &inner, &mut buf);
                if f == Flow::Fail {
                    return f;
                }
                out.push_str(&buf);
                if f != Flow::Normal {
                    self.stray = true;
                }
            }
            Kind::TMac | Kind::TBlk => {
                let mut inner = sc.clone();
                inner.act_base = sc.ae;
                if self.shape.kinds[i] == Kind::TMac {
                    inner.ma = Some(d);
                    inner.block = None;
                    inner.loop_rec = None;
                } else {
                    inner.block = Some(format!("t{d}"));
                }
                let mut buf = String::new();
                let f = self.body(i, 'A', 'B', &inner, &mut buf);
                match f {
                    Flow::Fail => out.push_str("!E"),
                    Flow::Normal => out.push_str(&buf),
                    _ => self.stray = true,
                }
            }
            Kind::TCal => {
                let mut inner = sc.clone();
                inner.act_base = sc.ae;
                inner.block = None;
                inner.loop_rec = None;
                let mut buf = String::new();
                let f = self.body(i, 'A', 'B', &inner, &mut buf);
                out.push_str("((");
                match f {
                    Flow::Fail => out.push_str("!E"),
                    Flow::Normal => out.push_str(&buf),
                    _ => self.stray = true,
                }
                out.push_str("))");
            }
            Kind::SeqW | Kind::SeqS | Kind::SeqA | Kind::SeqL => {
                let mut inner = sc.clone();
                match self.shape.kinds[i] {
                    Kind::SeqW => inner.w = Some(d),
                    Kind::SeqA => inner.ae = mode_on(sc.act_base),
                    _ => {}
                }
                self.piece(d, 'A', &inner, out);
                let f = self.node(i + 1, sc, out);
                if f != Flow::Normal {
                    return f;
                }
            }
            Kind::SeqI | Kind::SeqM | Kind::SeqN | Kind::SeqH | Kind::SeqP => {
                // the included templates have their own auto-escape mode (by file name)
                let txt: String = match self.shape.kinds[i] {
                    // inc.txt runs in the environment's mode for it, inc.html with escaping on
                    Kind::SeqI => format!("i1{}{}", esc_lt(self.p.base_ae), esc_lt(mode_on(self.p.base_ae))),
                    Kind::SeqH => format!("i1{}", esc_lt(self.p.base_ae)),
                    Kind::SeqN => String::new(),
                    _ => "m".to_string(),
                };
                out.push_str(&txt);
                let f = self.node(i + 1, sc, out);
                if f != Flow::Normal {
                    return f;
                }
            }
            Kind::Call => {
                let mut inner = sc.clone();
                inner.act_base = sc.ae;
                inner.block = None;
                inner.loop_rec = None;
                let mut buf = String::new();
                let f = self.body(i, 'A', 'B', &inner, &mut buf);
                if f == Flow::Fail {
                    return f;
                }
                write!(out, "(({}))", buf).unwrap();
                if f != Flow::Normal {
                    self.stray = true;
                }
            }
        }
        // the macro declared in front of the construct sees the assignment made behind it
        write!(out, "n{d}").unwrap();
        self.piece(d, 'C', sc, out);
        Flow::Normal
    }

    fn run(shape: &Shape, p: &Params) -> Option<String> {
        let mut sp = Spec { shape, p, stray: false };
        let sc = Scope { ae: p.base_ae, act_base: p.base_ae, w: None, x: XVal::Undef, ma: None, block: None, loop_rec: None };
        let mut out = String::new();
        sp.piece(0, 'S', &sc, &mut out);
        let f = sp.node(0, &sc, &mut out);
        if f == Flow::Fail && !sp.stray {
            return Some("!RENDER-ERROR".to_string()); // nothing swallowed the failure
        }
        if f != Flow::Normal || sp.stray {
            return None; // break/continue with no enclosing loop: no reference behaviour
        }
        sp.piece(0, 'Z', &sc, &mut out);
        Some(out)
    }
}

// ------------------------------------------------------------------------------------------
// dynamic part

thread_local! {
    static LAST_PANIC: std::cell::RefCell<String> = const { std::cell::RefCell::new(String::new()) };
}

fn last_panic_location() -> String {
    LAST_PANIC.with(|x| x.borrow().clone())
}

/// environment configurations the shapes are rendered under
#[derive(Clone, Copy, PartialEq, Eq, Debug)]
enum Cfg {
    Default,
    /// `UndefinedBehavior::Chainable`
    Chainable,
    /// a custom formatter (the `Emit` path through `Environment::format`)
    Formatter,
    /// auto-escape callback: HTML for every template
    AeHtml,
    /// auto-escape callback: a custom mode for every template, with a formatter implementing it
    AeCustom,
    /// `<% %>`, `<< >>`, `<# #>` delimiters
    CustomSyntax,
    DebugOff,
    /// every template (the shape included) comes from a loader
    Loader,
    NoFuel,
}
const CFGS: [(Cfg, &str); 9] = [
    (Cfg::Default, "default"),
    (Cfg::Chainable, "chainable"),
    (Cfg::Formatter, "formatter"),
    (Cfg::AeHtml, "ae-html"),
    (Cfg::AeCustom, "ae-custom"),
    (Cfg::CustomSyntax, "custom-syntax"),
    (Cfg::DebugOff, "debug-off"),
    (Cfg::Loader, "loader"),
    (Cfg::NoFuel, "no-fuel"),
];

const HELPERS: [(&str, &str); 6] = [
    (
        "inc.txt",
        "{% with q = 1 %}{% for z in [1, 2] %}{% if z == 2 %}{% break %}{% endif %}i{{ z }}{% endfor %}{% endwith %}{{ h }}",
    ),
    // the included child and the imported module EXTEND, lexically inside a capturing block (set-block /
    // filter block): the block's EndCapture pops the discard entry of LoadBlocks, the block's own capture
    // is on top at the end of the child's stream — the parent's text (and everything the includer /
    // importer writes afterwards) has to arrive all the same
    ("inc.html", "{% set ev %}e{% extends 'incp.html' %}f{% endset %}g"),
    ("incp.html", "{{ h }}"),
    ("libp.txt", "{% set lp = 1 %}"),
    (
        "bad.html",
        "{% with y = 1 %}{% autoescape false %}{% set c %}x{% for i in [1] %}{{ fail() }}{% endfor %}{% endset %}{% endautoescape %}{% endwith %}",
    ),
    (
        "lib.txt",
        "{% if true %}{% filter upper %}e{% extends 'libp.txt' %}f{% endfilter %}{% endif %}{% macro lm(a) %}{% set t %}m{% endset %}{{ t }}{% endmacro %}",
    ),
];

/// the template sources in the delimiters of the configuration
fn syn(cfg: Cfg, src: &str) -> String {
    if cfg == Cfg::CustomSyntax {
        src.replace("{%", "<%").replace("%}", "%>").replace("{{", "<<").replace("}}", ">>")
    } else {
        src.to_string()
    }
}

fn shape_env() -> Environment<'static> {
    shape_env_cfg(Cfg::Default, None)
}

fn shape_env_cfg(cfg: Cfg, shape_src: Option<&str>) -> Environment<'static> {
    let mut env = Environment::new();
    if cfg != Cfg::NoFuel {
        env.set_fuel(Some(200_000));
    }
    match cfg {
        Cfg::Chainable => env.set_undefined_behavior(UndefinedBehavior::Chainable),
        Cfg::Formatter => env.set_formatter(|out, state, value| minijinja::escape_formatter(out, state, value)),
        Cfg::AeHtml => env.set_auto_escape_callback(|_| minijinja::AutoEscape::Html),
        Cfg::AeCustom => {
            env.set_auto_escape_callback(|_| minijinja::AutoEscape::Custom("x"));
            env.set_formatter(|out, state, value| {
                if value.is_safe() && value.kind() == minijinja::value::ValueKind::String {
                    return out.write_str(value.as_str().unwrap_or_default()).map_err(minijinja::Error::from);
                }
                match state.auto_escape() {
                    minijinja::AutoEscape::Custom("x") => {
                        let escaped = value.to_string().replace('<', "%3C");
                        out.write_str(&escaped).map_err(minijinja::Error::from)
                    }
                    _ => minijinja::escape_formatter(out, state, value),
                }
            });
        }
        Cfg::CustomSyntax => {
            let syntax = minijinja::syntax::SyntaxConfig::builder()
                .block_delimiters("<%", "%>")
                .variable_delimiters("<<", ">>")
                .comment_delimiters("<#", "#>")
                .build()
                .unwrap();
            env.set_syntax(syntax);
        }
        Cfg::DebugOff => env.set_debug(false),
        _ => {}
    }
    env.add_filter("fz", |v: Value| -> Value {
        let s = format!("({})", v);
        if v.is_safe() {
            Value::from_safe_string(s)
        } else {
            Value::from(s)
        }
    });
    env.add_function("fail", || -> Result<Value, minijinja::Error> {
        Err(minijinja::Error::new(minijinja::ErrorKind::InvalidOperation, "boom"))
    });
    env.add_function("failif", |c: bool| -> Result<Value, minijinja::Error> {
        if c {
            Err(minijinja::Error::new(minijinja::ErrorKind::InvalidOperation, "boom"))
        } else {
            Ok(Value::from(""))
        }
    });
    // the recover-and-keep-rendering pattern: a Rust function that runs a nested evaluation on
    // the caller's State and swallows its failure
    env.add_function(
        "try_call",
        |state: &mut minijinja::State, f: Value, args: minijinja::value::Rest<Value>| -> Value {
            match f.call(state, &args[..]) {
                Ok(rv) => rv,
                Err(_) => Value::from("!E"),
            }
        },
    );
    env.add_function("try_block", |state: &mut minijinja::State, name: String| -> Value {
        match state.render_block(&name) {
            Ok(rv) => {
                if matches!(state.auto_escape(), minijinja::AutoEscape::None) {
                    Value::from(rv)
                } else {
                    Value::from_safe_string(rv)
                }
            }
            Err(_) => Value::from("!E"),
        }
    });
    // a call whose first argument and whose list argument wait on the operand stack while `loop(x)` runs
    env.add_function("pj", |a: String, l: Vec<Value>| -> Value {
        let mut s = a;
        for v in l.iter() {
            s.push_str(&v.to_string());
        }
        Value::from_safe_string(s)
    });
    env.add_function("issafe", |v: Value| -> String { if v.is_safe() { "1".into() } else { "0".into() } });
    env.add_function("probe", |state: &minijinja::State| -> String {
        // template name, current block and auto-escape mode as the engine's State reports them
        let mode = match state.auto_escape() {
            minijinja::AutoEscape::None => "N",
            minijinja::AutoEscape::Html => "H",
            _ => "C",
        };
        format!("{}~{}~{}", state.name(), state.current_block().unwrap_or("-"), mode)
    });
    if cfg == Cfg::Loader {
        let mut map: BTreeMap<String, String> = HELPERS.iter().map(|(n, s)| (n.to_string(), s.to_string())).collect();
        if let Some(src) = shape_src {
            map.insert("shape.txt".to_string(), src.to_string());
        }
        env.set_loader(move |name| Ok(map.get(name).cloned()));
    } else {
        for (n, src) in HELPERS.iter() {
            env.add_template_owned(n.to_string(), syn(cfg, src)).unwrap();
        }
        if let Some(src) = shape_src {
            let _ = env.add_template_owned("shape.txt".to_string(), syn(cfg, src));
        }
    }
    env
}

/// how the template is run
#[derive(Clone, Copy, PartialEq, Eq, Debug)]
enum Entry {
    Render,
    ToWrite,
    /// `render_captured`, then `call_macro` and `render_block` on the captured state
    Captured,
    /// `template_from_named_str`
    FromStr,
    /// the shape as the PARENT of a generated child template (`child.txt`: `{% extends 'shape.txt' %}` +
    /// an override `⟦{{ super() }}⟧` / `⟦{{ super()|safe }}⟧` of every block of the shape): the shape's
    /// main stream runs behind `LoadBlocks` and the end-of-stream switch, every block body of the shape
    /// runs through `perform_super` (statement and captured form), failures inside them pass through
    /// its error path; the brackets taken out, the output is that of the shape rendered directly
    Child,
}
const ENTRIES: [(Entry, &str); 5] = [
    (Entry::Render, "render"),
    (Entry::ToWrite, "render_captured_to+call_macro"),
    (Entry::Captured, "render_captured+call_macro+render_block"),
    (Entry::FromStr, "template_from_named_str"),
    (Entry::Child, "extends+super"),
];

fn engine_ctx(p: &Params) -> Value {
    let tree = Value::from(minijinja::value::Serde(serde_json::json!([[[]], []])));
    let tre = if p.xs.is_empty() {
        Value::from(Vec::<Value>::new())
    } else {
        Value::from(minijinja::value::Serde(serde_json::json!([[[[]], []], []])))
    };
    minijinja::context! { xs => p.xs.clone(), c => p.c, k => p.k, h => "<", bz => "<", tree => tree, tre => tre }
}

fn mismatch_text(ms: &[balance::Mismatch]) -> String {
    ms.iter()
        .map(|m| {
            format!(
                "{}@{}:frames {}->{},caps {}->{},esc {:?}->{:?},escstack {}",
                m.name,
                m.entry_pc,
                m.entry.frames,
                m.exit.frames,
                m.entry.captures,
                m.exit.captures,
                m.entry.auto_escape,
                m.exit.auto_escape,
                m.exit.auto_escape_stack
            )
        })
        .collect::<Vec<_>>()
        .join(";")
}

/// how `<` is written under an auto-escape mode
fn esc_lt(mode: u8) -> &'static str {
    match mode {
        0 => "<",
        1 => "&lt;",
        _ => "%3C",
    }
}

/// the mode `{% autoescape true %}` (or an html template) selects given the template's initial mode
fn mode_on(base: u8) -> u8 {
    if base == 0 {
        1
    } else {
        base
    }
}

/// sentinel pieces (`[dX]` + probes) of an output, wrappers of filters ignored
fn pieces(s: &str) -> Vec<String> {
    let clean: String = s.chars().filter(|c| *c != '(' && *c != ')').collect();
    clean.split('[').filter(|x| !x.is_empty()).map(|x| x.to_string()).collect()
}

fn subsequence(spec: &str, got: &str) -> bool {
    let want = pieces(spec);
    let have = pieces(got);
    let mut i = 0;
    for h in have.iter() {
        if i < want.len() && *h == want[i] {
            i += 1;
        }
    }
    i == want.len()
}

fn nested_text(ms: &[balance::NestedMismatch]) -> String {
    ms.iter()
        .map(|m| {
            let mut d: Vec<String> = vec![];
            if m.before.frames != m.after.frames {
                d.push(format!("frames {}->{}", m.before.frames, m.after.frames));
            }
            if m.before.depth != m.after.depth {
                d.push(format!("depth {}->{}", m.before.depth, m.after.depth));
            }
            if m.before.instructions != m.after.instructions {
                d.push(format!("instructions {}->{}", m.before.name, m.after.name));
            }
            if m.before.auto_escape != m.after.auto_escape {
                d.push(format!("esc {:?}->{:?}", m.before.auto_escape, m.after.auto_escape));
            }
            if m.before.current_block != m.after.current_block {
                d.push(format!("block {:?}->{:?}", m.before.current_block, m.after.current_block));
            }
            if m.before.blocks != m.after.blocks || m.before.block_stacks != m.after.block_stacks {
                d.push(format!(
                    "blocks {}/{}->{}/{}",
                    m.before.blocks, m.before.block_stacks, m.after.blocks, m.after.block_stacks
                ));
            }
            if m.before.frame_closures != m.after.frame_closures {
                d.push(format!("closures {:?}->{:?}", m.before.frame_closures, m.after.frame_closures));
            }
            if m.before.frame_loops != m.after.frame_loops {
                d.push(format!("loops {:?}->{:?}", m.before.frame_loops, m.after.frame_loops));
            }
            if m.before.loaded_templates != m.after.loaded_templates {
                d.push(format!("loaded {}->{}", m.before.loaded_templates, m.after.loaded_templates));
            }
            format!("{}:{}:{}", m.kind, if m.ok { "ok" } else { "err" }, d.join(","))
        })
        .collect::<Vec<_>>()
        .join(";")
}

/// the builtins that take `&State` / `&mut State`, each applied once (kept in sync with the
/// signatures in the sources by the table item C05_STATE_BUILTINS)
const BI_COVERED: [&str; 29] = [
    "escape", "replace", "join", "default", "int", "float", "sum", "attr", "min", "max", "sort", "list", "string",
    "bool", "slice", "batch", "select", "selectattr", "reject", "rejectattr", "map", "unique", "chain", "zip", "format",
    "is_in", "is_filter", "is_test", "debug",
];

const BI_REST: &str = "{{ 'ab'|replace('a', 'c') }}{{ [1, 2]|join('-') }}{{ nope|default('d') }}{{ '7'|int }}{{ '1.5'|float }}\
{{ [1, 2]|sum }}{{ {'a': 5}|attr('a') }}{{ [3, 1]|min }}{{ [3, 1]|max }}{{ [2, 1]|sort|join }}{{ 'ab'|list|length }}{{ 5|string }}\
{{ 1|bool }}{{ [1, 2, 3]|slice(2)|list|length }}{{ [1, 2, 3]|batch(2)|list|length }}{{ [0, 1, 2]|select|list|length }}\
{{ [{'a': 1}, {'a': 0}]|selectattr('a')|list|length }}{{ [0, 1, 2]|reject|list|length }}\
{{ [{'a': 1}, {'a': 0}]|rejectattr('a')|list|length }}{{ [1, 2]|map('string')|join }}{{ [1, 1, 2]|unique|list|length }}\
{{ [1]|chain([2])|list|length }}{{ [1]|zip([2])|list|length }}{{ '%s'|format('k') }}{{ 1 is in([1]) }}{{ 'upper' is filter }}\
{{ 'odd' is test }}{{ debug()|length > 0 }}";

fn bi_src() -> String {
    format!("{{{{ bz|e }}}}[{}]{{% set sc %}}x{{% endset %}}{{{{ issafe(sc) }}}}", BI_REST)
}

/// what the applications of the builtins print (independent of the auto-escape mode: letters,
/// digits, `-` and `.` only), evaluated once outside any construct
fn bi_rest_expected() -> &'static str {
    static CELL: std::sync::OnceLock<String> = std::sync::OnceLock::new();
    CELL.get_or_init(|| {
        let env = shape_env();
        balance::set_call_snapshots(false);
        let rv = env.render_str(BI_REST, ()).unwrap_or_else(|e| format!("!builtin-error:{e}"));
        balance::set_call_snapshots(true);
        rv
    })
}

fn params_for(shape: &Shape) -> Vec<Params> {
    let uses_xs = shape.kinds.iter().any(|k| matches!(k, Kind::For | Kind::ForE | Kind::ForEl | Kind::ForF | Kind::ForRE));
    let uses_c = shape.kinds.iter().any(|k| matches!(k, Kind::IfC | Kind::IfEl | Kind::IfA));
    let uses_k = shape.kinds.iter().any(|k| matches!(k, Kind::IfK)) || shape.leaf == Leaf::FailK;
    let mut v = vec![];
    for xs in if uses_xs { vec![vec![], vec![1, 2, 3]] } else { vec![vec![1, 2, 3]] } {
        for c in if uses_c { vec![true, false] } else { vec![true] } {
            for k in if uses_k { vec![1, 2] } else { vec![1] } {
                v.push(Params { xs: xs.clone(), c, k, else_after_first_break: false, base_ae: 0 });
            }
        }
    }
    v
}

fn params_name(p: &Params) -> String {
    format!("xs={},c={},k={}", p.xs.len(), p.c as u8, p.k)
}

/// renders one shape under one context on the real engine and judges the result
/// the child template of `Entry::Child` for a compiled shape
/// where the `extends` statement of the child sits: at the top level or inside a construct of the child
/// (the child's own output is discarded either way; the parent's output has to reach the real output)
const EXTENDS_AT: [(&str, &str, &str); 7] = [
    ("top", "", ""),
    ("set", "{% set ev %}e", "f{% endset %}"),
    ("filter", "{% filter upper %}e", "f{% endfilter %}"),
    ("with", "{% with ew = 1 %}", "{% endwith %}"),
    ("for", "{% for ei in [1] %}", "{% endfor %}"),
    ("if", "{% if true %}", "{% endif %}"),
    ("autoescape", "{% autoescape true %}", "{% endautoescape %}"),
];

fn child_source(t: &minijinja::Template<'_, '_>, variant: usize) -> String {
    let (_, open, close) = EXTENDS_AT[variant % EXTENDS_AT.len()];
    let mut child = format!("{}{{% extends '{}' %}}{}", open, t.name(), close);
    let mut names: Vec<String> = get_compiled_template(t).blocks.keys().map(|x| x.to_string()).collect();
    names.sort();
    for (i, b) in names.iter().enumerate() {
        let call = if i % 2 == 0 { "{{ super() }}" } else { "{{ super()|safe }}" };
        write!(child, "{{% block {b} %}}⟦{call}⟧{{% endblock %}}").unwrap();
    }
    child
}

fn run_dynamic(
    env: &Environment<'_>,
    tmpl_name: &str,
    shape: &Shape,
    p: &Params,
    entry: Entry,
    src: &str,
    verbose: bool,
) -> String {
    let spec_a = Spec::run(shape, p);
    let mut p2 = p.clone();
    p2.else_after_first_break = true;
    let spec_b = Spec::run(shape, &p2);
    let _ = balance::take_mismatches();
    let _ = balance::take_counters();
    let _ = balance::take_nested_mismatches();
    let _ = balance::take_nested_counters();
    let ctx = engine_ctx(p);
    let expect_ok = spec_a.as_ref().map_or(false, |a| a != "!RENDER-ERROR");
    let mut extra: Vec<String> = vec![];
    let res = guarded(|| {
        let t = env.get_template(tmpl_name).unwrap();
        match entry {
            Entry::Render => (t.render(ctx), vec![]),
            Entry::ToWrite => {
                let mut buf: Vec<u8> = vec![];
                match t.render_captured_to(ctx, &mut buf) {
                    Err(e) => (Err(e), vec![]),
                    Ok(mut cap) => {
                        let mut ex = vec![];
                        cap.with_state_mut(|state| match state.call_macro("cm1", &[]) {
                            Ok(s) if s == "n1" => {}
                            other => ex.push(format!("call_macro(cm1)={:?}", other.map_err(|e| e.kind()))),
                        });
                        (Ok(String::from_utf8(buf).unwrap()), ex)
                    }
                }
            }
            Entry::FromStr => {
                let t2 = env.template_from_named_str(tmpl_name, src).unwrap();
                (t2.render(ctx), vec![])
            }
            Entry::Child => {
                // the position of the `extends` statement rotates with the shape; the first render that
                // departs from the others is the result (short chains: every position)
                let pick = shape.name().bytes().map(|b| b as usize).sum::<usize>();
                let variants: Vec<usize> = if shape.kinds.len() <= 1 { (0..EXTENDS_AT.len()).collect() } else { vec![0, 1 + pick % (EXTENDS_AT.len() - 1)] };
                let mut rv = None;
                let mut ex = vec![];
                for v in variants {
                    let child = child_source(&t, v);
                    let t2 = env.template_from_named_str("child.txt", &child).unwrap();
                    let r = t2.render(ctx.clone()).map(|x| x.replace(['⟦', '⟧'], ""));
                    let same = match (&rv, &r) {
                        (None, _) => 0,
                        (Some(Ok(a)), Ok(b)) if a == b => 1,
                        (Some(Err(_)), Err(_)) => 1,
                        _ => 2,
                    };
                    if same == 0 {
                        rv = Some(r);
                    } else if same == 2 {
                        let a = rv.as_ref().unwrap();
                        ex.push(format!(
                            "extends inside {}: {:?} / at the top level: {:?}",
                            EXTENDS_AT[v].0,
                            r.as_ref().map_err(|e| e.kind()),
                            a.as_ref().map_err(|e| e.kind())
                        ));
                        if a.is_ok() && r.is_ok() {
                            // the output comparison below gets the departing one
                            rv = Some(r);
                        }
                    }
                }
                (rv.unwrap(), ex)
            }
            Entry::Captured => match t.render_captured(ctx) {
                Err(e) => (Err(e), vec![]),
                Ok(mut cap) => {
                    let out = cap.output().to_string();
                    let mut ex = vec![];
                    let blocks: Vec<String> = get_compiled_template(&t).blocks.keys().map(|x| x.to_string()).collect();
                    cap.with_state_mut(|state| {
                        // the macro declared at the top level still sees the last assignment of `cv`
                        match state.call_macro("cm1", &[]) {
                            Ok(s) if s == "n1" => {}
                            other => ex.push(format!("call_macro(cm1)={:?}", other.map_err(|e| e.kind()))),
                        }
                        for b in blocks.iter() {
                            let _ = state.render_block(b);
                        }
                        match state.call_macro("cm1", &[]) {
                            Ok(s) if s == "n1" => {}
                            other => ex.push(format!("call_macro(cm1) after render_block={:?}", other.map_err(|e| e.kind()))),
                        }
                    });
                    (Ok(out), ex)
                }
            },
        }
    });
    let res: Result<Result<String, minijinja::Error>, String> = match res {
        Ok((r, ex)) => {
            if expect_ok {
                extra = ex;
            }
            Ok(r)
        }
        Err(p) => Err(p),
    };
    let ms = balance::take_mismatches();
    let nms = balance::take_nested_mismatches();
    let (started, finished) = balance::take_counters();
    let (nested_ok, nested_err) = balance::take_nested_counters();
    if verbose {
        eprintln!("ctx {}:\n  engine: {:?}\n  spec:   {:?}\n  spec':  {:?}\n  activations {} normal exits {} mismatches [{}]\n  nested evaluations ok {} failed {} not restored [{}]",
            params_name(p), res, spec_a, spec_b, started, finished, mismatch_text(&ms), nested_ok, nested_err, nested_text(&nms));
    }
    let mut fails: Vec<String> = vec![];
    if !ms.is_empty() {
        fails.push(format!("depth-mismatch[{}]", mismatch_text(&ms)));
    }
    if !nms.is_empty() {
        fails.push(format!("nested-not-restored[{}]", nested_text(&nms)));
    }
    for e in extra {
        fails.push(format!("entry-point[{}]", e));
    }
    let expects_failures = matches!(shape.leaf, Leaf::Fail | Leaf::FailK | Leaf::FailInc);
    match (&res, &spec_a) {
        (Err(_), _) => fails.push(format!("panic@{}", last_panic_location())),
        (Ok(Err(_)), Some(a)) if a == "!RENDER-ERROR" => {}
        (Ok(Ok(got)), Some(a)) if a == "!RENDER-ERROR" => fails.push(format!("output[{}]expected[render error]", got)),
        (Ok(_), None) => {
            if fails.is_empty() {
                return "skip:stray-loop-control".into();
            }
        }
        (Ok(Ok(got)), Some(_)) if got == "!NO-OUTPUT" => {}
        (Ok(Ok(got)), Some(a)) => {
            // what happens to text that was captured before a `break`/`continue` left the capture
            // is not the property's business (the engine drops it, like the reference does): for
            // those shapes only the text the reference produces must appear, in order
            let tolerant = matches!(shape.leaf, Leaf::Brk | Leaf::Cont)
                && shape.class().contains("capture")
                && (subsequence(a, got) || spec_b.as_ref().map_or(false, |b| subsequence(b, got)));
            if got != a && Some(got) != spec_b.as_ref() && !tolerant {
                fails.push(format!("output[{}]expected[{}]", got, a));
            } else if started != finished && !expects_failures {
                fails.push(format!("activations {} exits {}", started, finished));
            }
        }
        (Ok(Err(e)), Some(_)) => fails.push(format!("error:{:?}:{}", e.kind(), e.to_string().replace(['\t', '\n'], " "))),
    }
    if fails.is_empty() {
        "ok".into()
    } else {
        format!("fail:{}", fails.join("|"))
    }
}

/// Failure at every instruction position: the template is rendered with 1, 2, 3, … units of fuel, so
/// that the run stops with an error in front of every instruction it dispatches in turn — inside
/// macro bodies, call blocks, blocks, includes and imports as well as between them.  Whatever position
/// the error comes from, every nested evaluation it passes through on its way out (`Macro::call`,
/// `State::render_block`, `Include`, `CallBlock`, `FastSuper`, filter / function calls when the call
/// snapshots are on) must hand back the execution state it was given (`ExecSnapshot` comparison by
/// the hooks), and every activation that did finish before must have restored its depths.
/// Returns (positions tried, nested evaluations that ended in an error, first failure).
fn out_of_fuel(e: &minijinja::Error) -> bool {
    let mut cur: Option<&(dyn std::error::Error + 'static)> = Some(e);
    while let Some(x) = cur {
        if let Some(m) = x.downcast_ref::<minijinja::Error>() {
            if m.kind() == minijinja::ErrorKind::OutOfFuel {
                return true;
            }
        }
        cur = x.source();
    }
    false
}

fn fuel_sweep(env: &mut Environment<'static>, tname: &str, p: &Params) -> (usize, u64, Option<String>) {
    let ctx = engine_ctx(p);
    let mut n: u64 = 1;
    let mut tried = 0usize;
    let mut nested_err_total = 0u64;
    let mut failure: Option<String> = None;
    while n <= 6000 {
        env.set_fuel(Some(n));
        let _ = balance::take_mismatches();
        let _ = balance::take_counters();
        let _ = balance::take_nested_mismatches();
        let _ = balance::take_nested_counters();
        let res = guarded(|| env.get_template(tname).unwrap().render(ctx.clone()));
        tried += 1;
        let ms = balance::take_mismatches();
        let nms = balance::take_nested_mismatches();
        let (_, nested_err) = balance::take_nested_counters();
        nested_err_total += nested_err;
        if failure.is_none() {
            if !nms.is_empty() {
                failure = Some(format!("nested-not-restored[{}]@fuel={}", nested_text(&nms), n));
            } else if !ms.is_empty() {
                failure = Some(format!("depth-mismatch[{}]@fuel={}", mismatch_text(&ms), n));
            } else if res.is_err() {
                failure = Some(format!("panic@{}|fuel={}", last_panic_location(), n));
            }
        }
        match res {
            // (an include or a macro wraps the error of its body: look through the sources)
            Ok(Err(e)) if out_of_fuel(&e) => {}
            // the render got through (or ends in an error of its own): every position was visited
            _ => break,
        }
        n += if n < 150 { 1 } else { 3 };
    }
    env.set_fuel(Some(200_000));
    (tried, nested_err_total, failure)
}

/// Failure at every frame-pushing position: the template is rendered under recursion limits 1, 2, 3, …
/// so that in turn every `PushWith` / `PushLoop` / macro call / include / block call / `super()` is the
/// one that exceeds the limit (`Context::push_frame` takes the frame off again, `incr_depth` gives
/// the cost back).  Same oracle as the fuel sweep: snapshots around every nested evaluation on the
/// way out, depth counters of the activations that finished.
fn limit_sweep(env: &mut Environment<'static>, tname: &str, p: &Params) -> (usize, u64, Option<String>) {
    let ctx = engine_ctx(p);
    let mut tried = 0usize;
    let mut nested_err_total = 0u64;
    let mut failure: Option<String> = None;
    for limit in 1..=48usize {
        env.set_recursion_limit(limit);
        let _ = balance::take_mismatches();
        let _ = balance::take_counters();
        let _ = balance::take_nested_mismatches();
        let _ = balance::take_nested_counters();
        let res = guarded(|| env.get_template(tname).unwrap().render(ctx.clone()));
        tried += 1;
        let ms = balance::take_mismatches();
        let nms = balance::take_nested_mismatches();
        let (_, nested_err) = balance::take_nested_counters();
        nested_err_total += nested_err;
        if failure.is_none() {
            if !nms.is_empty() {
                failure = Some(format!("nested-not-restored[{}]@limit={}", nested_text(&nms), limit));
            } else if !ms.is_empty() {
                failure = Some(format!("depth-mismatch[{}]@limit={}", mismatch_text(&ms), limit));
            } else if res.is_err() {
                failure = Some(format!("panic@{}|limit={}", last_panic_location(), limit));
            }
        }
    }
    env.set_recursion_limit(500);
    (tried, nested_err_total, failure)
}

/// REPEAT: the whole shape is run twice from the same starting state — as the body of
/// `{% for rep in reps %}…{% endfor %}` with one and with two items — under the default recursion limit
/// and under small ones (so that in turn other frame pushes / macro calls / includes fail and are
/// swallowed).  Every construct leaves scope, capture and escape state (and the depth budget, the pool
/// of macro contexts, the block table …) as it found them, and a loop iteration starts with fresh
/// locals, so the second run has to behave exactly like the first: same text once more, or the same
/// failure in the first run already.  No reference interpreter is involved: the engine is compared
/// with itself, whatever a construct is defined to print.
fn repeat_check(src: &str, p: &Params, limits: &[usize]) -> (usize, Option<String>) {
    let mut env = shape_env();
    env.set_fuel(Some(2_000_000));
    // (`rl`: a variable assigned at the end of an iteration is gone at the start of the next one)
    let wrapped = format!("{{% for rep in reps %}}{{{{ rl|default('') }}}}{}{{% set rl = 'LEAKED-LOCAL' %}}{{% endfor %}}", src);
    match guarded(|| env.add_template_owned("rep.txt".to_string(), wrapped)) {
        Ok(Ok(())) => {}
        _ => return (0, None),
    }
    let ctx1 = minijinja::context! { reps => vec![1], ..engine_ctx(p) };
    let ctx2 = minijinja::context! { reps => vec![1, 2], ..engine_ctx(p) };
    let mut tried = 0usize;
    let mut failure: Option<String> = None;
    for &limit in limits {
        env.set_recursion_limit(limit);
        let r1 = guarded(|| env.get_template("rep.txt").unwrap().render(ctx1.clone()));
        let r2 = guarded(|| env.get_template("rep.txt").unwrap().render(ctx2.clone()));
        tried += 2;
        let f = match (r1, r2) {
            (Ok(Ok(a)), Ok(Ok(b))) => {
                if b == format!("{a}{a}") {
                    None
                } else {
                    // where the second run departs from the first
                    let n = a.len();
                    let second = b.get(n..).unwrap_or("");
                    let at = a.bytes().zip(second.bytes()).take_while(|(x, y)| x == y).count();
                    let lo = at.saturating_sub(20);
                    let cut = |t: &str| -> String { t.chars().skip(lo).take(60).collect() };
                    Some(format!(
                        "second run prints other text than the first at offset {}: first …{:?} second …{:?}",
                        at,
                        cut(&a),
                        cut(second)
                    ))
                }
            }
            // (two runs may need more fuel than the environment grants one render: inconclusive)
            (Ok(Ok(_)), Ok(Err(e))) if out_of_fuel(&e) => None,
            (Ok(Ok(_)), Ok(Err(e))) => Some(format!("the first run succeeds, the second fails: {:?}", e.kind())),
            (Ok(Err(_)), Ok(Ok(_))) => Some("the first run fails, first + second succeed".to_string()),
            // a failure of the first run ends both; panics are reported by the other streams
            _ => None,
        };
        if failure.is_none() {
            if let Some(f) = f {
                failure = Some(format!("repeat[limit={}: {}]", limit, f));
            }
        }
    }
    let _ = balance::take_mismatches();
    let _ = balance::take_counters();
    let _ = balance::take_nested_mismatches();
    let _ = balance::take_nested_counters();
    (tried, failure)
}

static THOROUGH: std::sync::atomic::AtomicBool = std::sync::atomic::AtomicBool::new(false);

fn do_shape(out: &mut impl std::io::Write, shape: &Shape, verbose: bool) -> bool {
    do_shape_n(out, shape, verbose, None)
}

/// `idx`: position of the shape in the enumeration; selects the extra environment configuration
/// and the extra entry point the shape is also run under (`None`: all of them)
fn do_shape_n(out: &mut impl std::io::Write, shape: &Shape, verbose: bool, idx: Option<usize>) -> bool {
    let name = shape.name();
    let class = shape.class();
    let src = shape.source();
    let _ = bi_rest_expected();
    // snapshots around every filter / test / function call cost an allocation per call: always on
    // where the state-taking builtins are applied, on for every fourth shape otherwise
    balance::set_call_snapshots(shape.leaf == Leaf::Bi || idx.map_or(true, |i| i % 4 == 0));
    let mut env = shape_env();
    let tname = "shape.txt";
    let added = guarded(|| env.add_template_owned(tname.to_string(), src.clone()));
    match added {
        Err(_) => {
            writeln!(out, "R\t{}\t{}\t-\tfail:panic-in-compiler@{}", name, class, last_panic_location()).unwrap();
            return true;
        }
        Ok(Err(e)) => {
            writeln!(out, "R\t{}\t{}\t-\tnocompile:{}", name, class, e.to_string().replace(['\t', '\n'], " ")).unwrap();
            return false;
        }
        Ok(Ok(())) => {}
    }
    {
        let t = env.get_template(tname).unwrap();
        dump_template(out, &name, &class, &t);
    }
    if verbose {
        eprintln!("source: {}", src);
    }
    if shape.not_enclosed() {
        // a `break` / `continue` that no loop encloses (none at all, or a macro / call / block body in
        // between) and the compiler accepted it all the same: then the code it emitted is held to the
        // property like any other — its streams go to the verified checker (`D` lines above), and one
        // render must neither panic, nor leave an activation with other depths than it found, nor
        // spin for ever (the text behind the construct never reaches the output)
        let _ = balance::take_mismatches();
        let p = Params { xs: vec![1, 2, 3], c: true, k: 1, else_after_first_break: false, base_ae: 0 };
        let res = guarded(|| env.get_template(tname).unwrap().render(engine_ctx(&p)));
        let ms = balance::take_mismatches();
        let verdict = match res {
            Err(_) => format!("fail:panic@{}", last_panic_location()),
            Ok(_) if !ms.is_empty() => format!("fail:depth-mismatch[{}]", mismatch_text(&ms)),
            Ok(Err(e)) if out_of_fuel(&e) => "fail:does-not-terminate(out of fuel): text behind the construct never reaches the output".to_string(),
            Ok(Err(_)) => "ok-error:accepted by the compiler, refused at run time".to_string(),
            Ok(Ok(_)) => "ok:accepted by the compiler and balanced".to_string(),
        };
        writeln!(out, "R\t{}\t{}\t{} not-enclosed\t{}", name, class, params_name(&p), verdict).unwrap();
        return true;
    }
    // the operand stack heights of every activation: for every shape with a loop recursion, and for
    // every `trace_every`-th other shape
    let trace_every: usize = std::env::var("VERIF_C05_TRACE_EVERY")
        .ok()
        .and_then(|x| x.parse().ok())
        .unwrap_or(16)
        .max(1);
    // (of the recursion shapes deeper than 3, every fourth)
    let traced = (Shape::is_rec_leaf(shape.leaf) && (shape.kinds.len() <= 3 || idx.map_or(true, |i| i % 4 == 0)))
        || idx.map_or(true, |i| i % trace_every == 0);
    let mut ops = if traced { Some(OpsTraces::new(&env.get_template(tname).unwrap())) } else { None };
    let params = params_for(shape);
    for p in params.iter() {
        ops_record(traced);
        let r = run_dynamic(&env, tname, shape, p, Entry::Render, &src, verbose);
        ops_record(false);
        if let Some(o) = ops.as_mut() {
            o.absorb();
        }
        writeln!(out, "R\t{}\t{}\t{}\t{}", name, class, params_name(p), r).unwrap();
    }
    if let Some(o) = ops.as_ref() {
        o.dump(out, &name, &class);
        if verbose {
            eprintln!("operand traces: {} events kept, {} activations on other streams", o.events, o.unmatched);
        }
    }
    // the same shape through other entry points and under other environment configurations
    let last = params.last().unwrap().clone();
    // failure at every instruction position, for the shapes with nested evaluations
    let thorough = THOROUGH.load(std::sync::atomic::Ordering::Relaxed);
    let sweep_every: usize = std::env::var("VERIF_C05_SWEEP_EVERY")
        .ok()
        .and_then(|x| x.parse().ok())
        .unwrap_or(if thorough { 48 } else { 96 })
        .max(1);
    let has_nested = shape.kinds.iter().any(|k| {
        matches!(
            k,
            Kind::Mac | Kind::Call | Kind::Blk | Kind::TMac | Kind::TCal | Kind::TBlk | Kind::SeqI | Kind::SeqM | Kind::SeqH | Kind::SeqP
        )
    });
    if has_nested && idx.map_or(true, |i| i % sweep_every == 0) {
        let (tried, nested_err, failure) = fuel_sweep(&mut env, tname, &last);
        let verdict = match failure {
            None => "ok".to_string(),
            Some(f) => format!("fail:{}", f),
        };
        writeln!(
            out,
            "R\t{}\t{}\t{} fuel-sweep positions={} nested-errors={}\t{}",
            name, class, params_name(&last), tried, nested_err, verdict
        )
        .unwrap();
        let (tried, nested_err, failure) = limit_sweep(&mut env, tname, &last);
        let verdict = match failure {
            None => "ok".to_string(),
            Some(f) => format!("fail:{}", f),
        };
        writeln!(
            out,
            "R\t{}\t{}\t{} limit-sweep positions={} nested-errors={}\t{}",
            name, class, params_name(&last), tried, nested_err, verdict
        )
        .unwrap();
    }
    // REPEAT: every shape of depth <= 2 and every fourth other shape, under the default limit and —
    // the shapes with nested evaluations — under small recursion limits
    if shape.kinds.len() <= 2 || idx.map_or(true, |i| i % 4 == 1) {
        let limits: &[usize] = if has_nested { &[500, 7, 10, 14, 19, 25] } else { &[500] };
        let (tried, failure) = repeat_check(&src, &last, limits);
        let verdict = match failure {
            None => "ok".to_string(),
            Some(f) => format!("fail:{}", f),
        };
        writeln!(out, "R\t{}\t{}\t{} repeat renders={}\t{}", name, class, params_name(&last), tried, verdict).unwrap();
    }
    let entries: Vec<(Entry, &str)> = match idx {
        Some(i) => vec![ENTRIES[1 + i % (ENTRIES.len() - 1)]],
        None => ENTRIES[1..].to_vec(),
    };
    for (entry, ename) in entries {
        let r = run_dynamic(&env, tname, shape, &last, entry, &src, verbose);
        writeln!(out, "R\t{}\t{}\t{} entry={}\t{}", name, class, params_name(&last), ename, r).unwrap();
    }
    let mut cfgs: Vec<(Cfg, &str)> = match idx {
        Some(i) => vec![CFGS[1 + i % (CFGS.len() - 1)]],
        None => CFGS[1..].to_vec(),
    };
    if shape.leaf == Leaf::Bi {
        // the builtins under every auto-escape mode an environment can start a template in
        for want in [Cfg::AeHtml, Cfg::AeCustom] {
            if !cfgs.iter().any(|c| c.0 == want) {
                cfgs.push(*CFGS.iter().find(|c| c.0 == want).unwrap());
            }
        }
    }
    for (cfg, cname) in cfgs {
        let env2 = shape_env_cfg(cfg, Some(&src));
        if env2.get_template(tname).is_err() {
            writeln!(out, "R\t{}\t{}\t{} cfg={}\tfail:does-not-compile-under-configuration", name, class, params_name(&last), cname).unwrap();
            continue;
        }
        let mut p2 = last.clone();
        p2.base_ae = match cfg {
            Cfg::AeHtml => 1,
            Cfg::AeCustom => 2,
            _ => 0,
        };
        let r = run_dynamic(&env2, tname, shape, &p2, Entry::Render, &syn(cfg, &src), verbose);
        writeln!(out, "R\t{}\t{}\t{} cfg={}\t{}", name, class, params_name(&last), cname, r).unwrap();
    }
    true
}

fn is_core(k: Kind) -> bool {
    matches!(
        k,
        Kind::For
            | Kind::ForE
            | Kind::ForEl
            | Kind::ForR
            | Kind::ForRE
            | Kind::With
            | Kind::Set
            | Kind::Ae1
            | Kind::IfC
            | Kind::IfK
            | Kind::Mac
            | Kind::Call
            | Kind::Blk
            | Kind::TMac
            | Kind::TBlk
            | Kind::SeqN
            | Kind::ForF
            | Kind::TCal
            | Kind::SeqI
    )
}

fn enumerate(max_depth: usize, f: &mut impl FnMut(&Shape)) {
    fn rec(kinds: &mut Vec<Kind>, max_depth: usize, f: &mut impl FnMut(&Shape)) {
        if !kinds.is_empty() {
            for (leaf, _) in LEAVES.iter() {
                // the recursion forms with waiting operands: every chain up to depth 2, the chains of
                // core kinds beyond (the other kinds come with the sampled deeper chains)
                if matches!(leaf, Leaf::RecP | Leaf::RecL | Leaf::RecM | Leaf::RecN)
                    && kinds.len() >= 3
                    && !kinds.iter().all(|x| is_core(*x))
                {
                    continue;
                }
                let s = Shape { kinds: kinds.clone(), leaf: *leaf };
                // loop controls are generated at EVERY position: where no loop encloses them the
                // compiler has to refuse the template (or emit balanced code all the same)
                if s.admissible() || s.not_enclosed() {
                    f(&s);
                }
            }
        }
        if kinds.len() < max_depth {
            for (k, _) in KINDS.iter() {
                // beyond depth 3 the exhaustive enumeration is restricted to the core kinds (the
                // other kinds are variations of them and appear in the sampled deeper chains)
                if kinds.len() + 1 > 3 && !(kinds.iter().all(|x| is_core(*x)) && is_core(*k)) {
                    continue;
                }
                kinds.push(*k);
                rec(kinds, max_depth, f);
                kinds.pop();
            }
        }
    }
    rec(&mut vec![], max_depth, f);
}

// ------------------------------------------------------------------------------------------
// fixtures of the repository

fn repo_root() -> String {
    std::env::var("VERIF_REPO").unwrap_or_else(|_| "/repo".to_string())
}

fn walk(dir: &std::path::Path, acc: &mut Vec<std::path::PathBuf>) {
    let Ok(rd) = std::fs::read_dir(dir) else { return };
    let mut entries: Vec<_> = rd.filter_map(|e| e.ok()).map(|e| e.path()).collect();
    entries.sort();
    for p in entries {
        let name = p.file_name().and_then(|x| x.to_str()).unwrap_or("");
        if p.is_dir() {
            if name == "target" || name == ".git" || name == "node_modules" || name == "snapshots" {
                continue;
            }
            walk(&p, acc);
        } else if name.ends_with(".html") || name.ends_with(".j2") {
            acc.push(p);
        }
    }
}

#[derive(serde::Deserialize, Default)]
#[serde(default)]
struct TestSettings {
    keep_trailing_newline: bool,
    lstrip_blocks: bool,
    trim_blocks: bool,
    markers: Option<[String; 6]>,
    line_statement_prefix: Option<String>,
    line_comment_prefix: Option<String>,
    undefined: Option<String>,
}

fn fixture_env(settings: TestSettings, refs: &[(String, String)]) -> Environment<'static> {
    let mut env = Environment::new();
    env.set_fuel(Some(2_000_000));
    env.add_function("get_args", |args: minijinja::value::Rest<Value>| -> Value { Value::from(args.0) });
    env.set_undefined_behavior(match settings.undefined.as_deref() {
        Some("strict") => UndefinedBehavior::Strict,
        Some("chainable") => UndefinedBehavior::Chainable,
        _ => UndefinedBehavior::Lenient,
    });
    env.set_keep_trailing_newline(settings.keep_trailing_newline);
    env.set_trim_blocks(settings.trim_blocks);
    env.set_lstrip_blocks(settings.lstrip_blocks);
    let mut b = minijinja::syntax::SyntaxConfig::builder();
    if let Some(ref m) = settings.markers {
        b.block_delimiters(m[0].clone(), m[1].clone())
            .variable_delimiters(m[2].clone(), m[3].clone())
            .comment_delimiters(m[4].clone(), m[5].clone());
    }
    if let Some(p) = settings.line_statement_prefix {
        b.line_statement_prefix(p);
    }
    if let Some(p) = settings.line_comment_prefix {
        b.line_comment_prefix(p);
    }
    if let Ok(s) = b.build() {
        env.set_syntax(s);
    }
    for (n, s) in refs {
        let _ = env.add_template_owned(n.clone(), s.clone());
    }
    env
}

fn do_fixtures(out: &mut impl std::io::Write) {
    let root = repo_root();
    let inputs = std::path::Path::new(&root).join("minijinja/tests/inputs");
    let mut refs: Vec<(String, String)> = vec![];
    if let Ok(rd) = std::fs::read_dir(inputs.join("refs")) {
        let mut ps: Vec<_> = rd.filter_map(|e| e.ok()).map(|e| e.path()).collect();
        ps.sort();
        for p in ps {
            if let Ok(s) = std::fs::read_to_string(&p) {
                refs.push((p.file_name().unwrap().to_str().unwrap().to_string(), s));
            }
        }
    }
    // the reference templates themselves
    {
        let env = fixture_env(TestSettings::default(), &refs);
        for (n, _) in &refs {
            if let Ok(t) = env.get_template(n) {
                dump_template(out, &format!("file:minijinja/tests/inputs/refs/{}", n), "fixture", &t);
            }
        }
    }
    let mut files: Vec<std::path::PathBuf> = vec![];
    if let Ok(rd) = std::fs::read_dir(&inputs) {
        files = rd.filter_map(|e| e.ok()).map(|e| e.path()).filter(|p| p.is_file()).collect();
        files.sort();
    }
    for path in files {
        let filename = path.file_name().unwrap().to_str().unwrap().to_string();
        let Ok(contents) = std::fs::read_to_string(&path) else { continue };
        let mut it = contents.splitn(2, "\n---\n");
        let (Some(front), Some(body)) = (it.next(), it.next()) else { continue };
        let ctx_json: serde_json::Value = serde_json::from_str(front).unwrap_or(serde_json::Value::Null);
        let settings: TestSettings = ctx_json
            .get("$settings")
            .and_then(|s| serde_json::from_value(s.clone()).ok())
            .unwrap_or_default();
        let mut env = fixture_env(settings, &refs);
        let case = format!("file:minijinja/tests/inputs/{}", filename);
        match guarded(|| env.add_template_owned(filename.clone(), body.to_string())) {
            Ok(Ok(())) => {}
            Ok(Err(_)) => {
                writeln!(out, "R\t{}\tfixture\t-\tnocompile:syntax", case).unwrap();
                continue;
            }
            Err(_) => {
                writeln!(out, "R\t{}\tfixture\t-\tfail:panic-in-compiler@{}", case, last_panic_location()).unwrap();
                continue;
            }
        }
        let t = env.get_template(&filename).unwrap();
        dump_template(out, &case, "fixture", &t);
        // dynamic: counters only (the expected output of fixtures is the repo's own business)
        let _ = balance::take_mismatches();
        let _ = balance::take_counters();
        let ctx = Value::from(minijinja::value::Serde(ctx_json.clone()));
        let ctx = minijinja::context! { one_shot_iterator => Value::make_one_shot_iterator(0..3), ..ctx };
        let mut ops = OpsTraces::new(&t);
        ops_record(true);
        let res = guarded(|| t.render(ctx));
        ops_record(false);
        ops.absorb();
        ops.dump(out, &case, "fixture");
        let ms = balance::take_mismatches();
        let verdict = match (&res, ms.is_empty()) {
            (Err(p), _) => format!("fail:panic@{}:{}", last_panic_location(), p.replace(['\t', '\n'], " ")),
            (_, false) => format!("fail:depth-mismatch[{}]", mismatch_text(&ms)),
            (Ok(Ok(_)), true) => "ok".to_string(),
            (Ok(Err(_)), true) => "ok-error".to_string(),
        };
        writeln!(out, "R\t{}\tfixture\tfixture-ctx\t{}", case, verdict).unwrap();
    }
    // every *.html / *.j2 of the repository that compiles (static part only)
    let mut others = vec![];
    walk(std::path::Path::new(&root), &mut others);
    for p in others {
        let rel = p.strip_prefix(&root).unwrap_or(&p).to_str().unwrap_or("?").to_string();
        if rel.starts_with("minijinja/tests/inputs/") {
            continue;
        }
        let Ok(src) = std::fs::read_to_string(&p) else { continue };
        let mut env = Environment::new();
        let name = p.file_name().unwrap().to_str().unwrap().to_string();
        let case = format!("file:{}", rel);
        match guarded(|| env.add_template_owned(name.clone(), src.clone())) {
            Ok(Ok(())) => {
                let t = env.get_template(&name).unwrap();
                dump_template(out, &case, "fixture", &t);
            }
            Ok(Err(_)) => writeln!(out, "R\t{}\tfixture\t-\tnocompile:syntax", case).unwrap(),
            Err(_) => writeln!(out, "R\t{}\tfixture\t-\tfail:panic-in-compiler@{}", case, last_panic_location()).unwrap(),
        }
    }
}

/// hand-written templates that exercise nested evaluation (include / extends+super / import /
/// caller / self-recursive macros) around unbalanced-looking control flow
fn do_extras(out: &mut impl std::io::Write) {
    let sets: Vec<(&str, Vec<(&str, &str)>, &str)> = vec![
        (
            "extra:include-in-loop",
            vec![
                ("inc.txt", "{% with q = 1 %}{% for y in [1,2] %}{% if y == 2 %}{% break %}{% endif %}i{{ y }}{% endfor %}{% endwith %}"),
                ("main.txt", "{% for x in [1,2,3] %}{% if x == 2 %}{% continue %}{% endif %}{% include 'inc.txt' %}[{{ x }}]{% endfor %}Z"),
            ],
            "i1[1]i1[3]Z",
        ),
        (
            "extra:extends-super",
            vec![
                ("base.txt", "{% for x in [1,2] %}{% block b %}<{{ x }}>{% endblock %}{% endfor %}Z"),
                ("main.txt", "{% extends 'base.txt' %}{% block b %}{% set v %}{{ super() }}{% endset %}{{ v }}{% if x == 1 %}{% with a = 1 %}s{% endwith %}{% endif %}{% endblock %}"),
            ],
            "<1>s<2>Z",
        ),
        (
            "extra:import-from",
            vec![
                ("lib.txt", "{% macro m(xs) %}{% for x in xs %}{% if x == 2 %}{% break %}{% endif %}{% filter upper %}a{{ x }}{% endfilter %}{% endfor %}{% endmacro %}"),
                ("main.txt", "{% from 'lib.txt' import m %}{% import 'lib.txt' as l %}{{ m([1,2,3]) }}|{{ l.m([3]) }}Z"),
            ],
            "A1|A3Z",
        ),
        (
            "extra:recursive-macro-and-loop",
            vec![(
                "main.txt",
                "{% macro r(n) %}{% if n > 0 %}{% with z = n %}{{ n }}{{ r(n - 1) }}{% endwith %}{% endif %}{% endmacro %}{{ r(3) }}|{% for x in [[[]],[]] recursive %}({{ loop(x) }}){% else %}e{% endfor %}Z",
            )],
            "321|(())()Z",
        ),
        (
            "extra:loop-alias",
            vec![(
                "main.txt",
                "{% for x in [[[]],[]] recursive %}[{% set r = loop %}{% for y in [1] %}{% with q = 1 %}{{ r(x) }}{% endwith %}{% endfor %}]{% endfor %}Z",
            )],
            "[[]][]Z",
        ),
        (
            "extra:loop-into-macro",
            vec![(
                "main.txt",
                "{% for x in [[[]],[]] recursive %}[{% macro m(l, a) %}({{ l(a) }}){% endmacro %}{{ m(loop, x) }}]{% endfor %}Z",
            )],
            // since 08f57de the engine refuses to re-enter a loop that is not running in the calling
            // context (the model's assumption about `CallFunction` on loop objects, now enforced)
            "!error",
        ),
        (
            // a failing include inside a block rendered (and forgiven) 80 times: the include's
            // recursion cost, closure, frames, auto-escape, block table come back every time
            "extra:try-block-include-fail",
            vec![
                ("bad.html", "{% with y = 1 %}{% autoescape false %}{% set c %}x{% for i in [1] %}{{ fail() }}{% endfor %}{% endset %}{% endautoescape %}{% endwith %}"),
                ("main.txt", "{% set g = 'G' %}{% if false %}{% block b %}{% with z = 1 %}{% include 'bad.html' %}{% endwith %}{% endblock %}{% endif %}{% for i in range(80) %}{{ try_block('b') }}{% endfor %}|{{ probe() }}{{ g }}{{ z is defined }}{{ y is defined }}{{ '<' }}Z"),
            ],
            "!E!E!E!E!E!E!E!E!E!E!E!E!E!E!E!E!E!E!E!E!E!E!E!E!E!E!E!E!E!E!E!E!E!E!E!E!E!E!E!E!E!E!E!E!E!E!E!E!E!E!E!E!E!E!E!E!E!E!E!E!E!E!E!E!E!E!E!E!E!E!E!E!E!E!E!E!E!E!E!E|main.txt~-~NGFalseFalse<Z",
        ),
        (
            // super() into a failing parent block, forgiven by the function that rendered the block
            "extra:try-block-super-fail",
            vec![
                ("base.txt", "{% if false %}{% block b %}{% with p = 1 %}{{ fail() }}{% endwith %}{% endblock %}{% endif %}{% for i in [1, 2] %}{{ try_block('b') }}{% endfor %}|{{ probe() }}{{ q is defined }}{{ p is defined }}Z"),
                ("main.txt", "{% extends 'base.txt' %}{% block b %}{% with q = 1 %}<{{ super() }}>{% set v = super() %}{% endwith %}{% endblock %}"),
            ],
            "!E!E|base.txt~-~NFalseFalseZ",
        ),
        (
            // a macro that fails inside an include inside a loop, after opening scopes of its own
            "extra:try-call-include-fail",
            vec![
                ("bad.html", "{% with y = 1 %}{% set c %}x{{ fail() }}{% endset %}{% endwith %}"),
                ("main.txt", "{% set g = 'G' %}{% macro m(a) %}{% with z = a %}{% for i in [1, 2] %}{% autoescape true %}{% if i == 2 %}{% include 'bad.html' %}{% endif %}{{ i }}{% endautoescape %}{% endfor %}{% endwith %}{% endmacro %}{% with o = 'O' %}{% for k in [1, 2] %}[{{ try_call(m, k) }}{{ o }}{{ g }}{{ a is defined }}{{ z is defined }}{{ '<' }}]{% endfor %}{% endwith %}{{ o is defined }}|{{ probe() }}Z"),
            ],
            "[!EOGFalseFalse<][!EOGFalseFalse<]False|main.txt~-~NZ",
        ),
        (
            // a template that includes itself from inside its recursive loop and calls `loop(…)` outside
            // that loop's text: the included activation re-enters the includer's loop (same
            // instructions, loop live in the shared context) — outside the abstract machine, which
            // only knows the loops of the activation itself; the engine's own counters are the oracle
            "extra:self-include-recursion",
            vec![(
                "main.txt",
                "{% if top is undefined %}{% for x in [[[]], []] recursive %}<{{ x|length }}{% with top = false, item = x %}{% include 'main.txt' %}{% endwith %}>{% else %}E{% endfor %}{% else %}[{{ 'p' ~ loop(item) ~ 'q' }}{{ loop(item) }}]{% endif %}Z",
            )],
            "<1[p<0[pq]Z>q<0[pq]Z>]Z><0[pq]Z>Z",
        ),
        (
            "extra:recurse-from-block",
            vec![("main.txt", "{% for x in [[1]] recursive %}{% block b %}<{{ loop(x) }}>{% endblock %}{% endfor %}Z")],
            "!error",
        ),
        (
            "extra:recurse-from-include",
            vec![
                ("inc.txt", "{% with a = 1 %}{{ loop(x) }}{% endwith %}"),
                ("main.txt", "{% for x in [[1]] recursive %}{% include 'inc.txt' %}{% endfor %}Z"),
            ],
            "!error",
        ),
    ];
    for (case, tmpls, expected) in sets {
        let mut env = shape_env();
        let mut ok = true;
        for (n, s) in &tmpls {
            if env.add_template_owned(n.to_string(), s.to_string()).is_err() {
                ok = false;
            }
        }
        if !ok {
            writeln!(out, "R\t{}\textra\t-\tnocompile:syntax", case).unwrap();
            continue;
        }
        for (n, _) in &tmpls {
            let t = env.get_template(n).unwrap();
            dump_template(out, &format!("{}/{}", case, n), "extra", &t);
        }
        let _ = balance::take_mismatches();
        let _ = balance::take_nested_mismatches();
        let res = guarded(|| env.get_template("main.txt").unwrap().render(()));
        let ms = balance::take_mismatches();
        let nms = balance::take_nested_mismatches();
        let verdict = match res {
            _ if !nms.is_empty() => format!("fail:nested-not-restored[{}]", nested_text(&nms)),
            Err(_) => format!("fail:panic@{}", last_panic_location()),
            Ok(Err(e)) if expected == "!error" && e.kind() != minijinja::ErrorKind::OutOfFuel && ms.is_empty() => {
                "ok".to_string()
            }
            Ok(Err(e)) => format!("fail:error:{:?}", e.kind()),
            Ok(Ok(s)) if !ms.is_empty() => format!("fail:depth-mismatch[{}] output[{}]", mismatch_text(&ms), s),
            Ok(Ok(s)) if s != expected => format!("fail:output[{}]expected[{}]", s, expected),
            Ok(Ok(_)) => "ok".to_string(),
        };
        writeln!(out, "R\t{}\textra\t-\t{}", case, verdict).unwrap();
    }
}

fn main() {
    balance::set_call_snapshots(true);
    ops_install_hook();
    // panics are results; remember where the last one happened (its site)
    std::panic::set_hook(Box::new(|info| {
        let loc = info
            .location()
            .map(|l| {
                let f = l.file();
                let f = f.rsplit("minijinja/src/").next().unwrap_or(f);
                format!("{}#{}", f, l.line())
            })
            .unwrap_or_else(|| "?".to_string());
        LAST_PANIC.with(|x| *x.borrow_mut() = loc);
    }));
    let args: Vec<String> = std::env::args().collect();
    let stdout = std::io::stdout();
    let mut out = std::io::BufWriter::with_capacity(1 << 20, stdout.lock());
    match args.get(1).map(|s| s.as_str()) {
        Some("gen") => {
            let tier = args.get(2).map(|s| s.as_str()).unwrap_or("quick");
            let depth = if tier == "thorough" { 4 } else { 3 };
            THOROUGH.store(tier == "thorough", std::sync::atomic::Ordering::Relaxed);
            do_fixtures(&mut out);
            do_extras(&mut out);
            {
                let env = shape_env();
                for n in ["inc.txt", "inc.html", "incp.html", "lib.txt", "libp.txt", "bad.html"] {
                    dump_template(&mut out, &format!("extra:shape-helpers/{}", n), "extra", &env.get_template(n).unwrap());
                }
            }
            // the shapes: exhaustive enumeration, then a seeded sample of deeper nestings
            let mut shapes: Vec<(usize, Shape)> = vec![];
            enumerate(depth, &mut |s| {
                let i = shapes.len();
                shapes.push((i, s.clone()));
            });
            let mut rng = Rng::new(seed_from_env());
            let (n, lo, hi) = if tier == "thorough" { (80_000, 5, 7) } else { (12_000, 4, 6) };
            let mut done = 0;
            let mut tries = 0;
            while done < n && tries < 50 * n {
                tries += 1;
                let d = lo + rng.below((hi - lo + 1) as u64) as usize;
                let kinds: Vec<Kind> = (0..d).map(|_| rng.pick(&KINDS).0).collect();
                // bias towards loop controls: they are what the property is about
                let leaf = match rng.below(10) {
                    0 => match rng.below(3) {
                        0 => Leaf::T,
                        1 => Leaf::Empty,
                        _ => Leaf::Bi,
                    },
                    1..=4 => Leaf::Brk,
                    5..=7 => Leaf::Cont,
                    8 => match rng.below(8) {
                        0 => Leaf::Rec,
                        1 => Leaf::RecF,
                        2 => Leaf::FailInc,
                        3 => Leaf::RecP,
                        4 => Leaf::RecL,
                        5 => Leaf::RecM,
                        6 => Leaf::RecN,
                        _ => Leaf::FailK,
                    },
                    _ => if rng.chance(1, 2) { Leaf::Fail } else { Leaf::FailK },
                };
                let s = Shape { kinds, leaf };
                // blocks inside macros do not compile: not worth a sample
                let block_in_macro = s.kinds.iter().enumerate().any(|(i, k)| {
                    matches!(k, Kind::Blk | Kind::TBlk)
                        && s.kinds[..i].iter().any(|m| matches!(m, Kind::Mac | Kind::Call | Kind::TMac | Kind::TCal))
                });
                if s.admissible() && !block_in_macro {
                    shapes.push((tries, s));
                    done += 1;
                }
            }
            // run them on a few threads (all hook state is thread-local); output in shape order
            let nthreads = std::env::var("VERIF_THREADS").ok().and_then(|x| x.parse().ok()).unwrap_or(8usize).max(1);
            let chunk = (shapes.len() + nthreads - 1) / nthreads.max(1);
            let bufs: Vec<Vec<u8>> = std::thread::scope(|sc| {
                let handles: Vec<_> = shapes
                    .chunks(chunk.max(1))
                    .map(|part| {
                        sc.spawn(move || {
                            ops_install_hook();
                            let mut buf: Vec<u8> = Vec::with_capacity(1 << 20);
                            for (i, shape) in part.iter() {
                                do_shape_n(&mut buf, shape, false, Some(*i));
                            }
                            buf
                        })
                    })
                    .collect();
                handles.into_iter().map(|h| h.join().unwrap()).collect()
            });
            for b in bufs {
                out.write_all(&b).unwrap();
            }
        }
        Some("one") => {
            let s = args.get(2).expect("shape");
            match Shape::parse(s) {
                Some(shape) => {
                    do_shape(&mut out, &shape, true);
                }
                None => {
                    eprintln!("cannot parse shape {}", s);
                    std::process::exit(2);
                }
            }
        }
        Some("src") => {
            let path = args.get(2).expect("file");
            let src = std::fs::read_to_string(path).unwrap();
            let mut env = shape_env();
            match env.add_template_owned("src.txt".to_string(), src) {
                Err(e) => println!("nocompile: {}", e),
                Ok(()) => {
                    let t = env.get_template("src.txt").unwrap();
                    dump_template(&mut out, &format!("src:{}", path), "src", &t);
                    let _ = balance::take_mismatches();
                    let p = Params { xs: vec![1, 2, 3], c: true, k: 1, else_after_first_break: false, base_ae: 0 };
                    let res = guarded(|| t.render(engine_ctx(&p)));
                    let ms = balance::take_mismatches();
                    writeln!(out, "render: {:?}\nmismatches: [{}]", res, mismatch_text(&ms)).unwrap();
                }
            }
        }
        _ => {
            eprintln!("usage: c05 gen <quick|thorough> | one <shape> | src <file>");
            std::process::exit(2);
        }
    }
    out.flush().unwrap();
    let _ = BTreeMap::<u8, u8>::new();
}
