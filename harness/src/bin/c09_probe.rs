use minijinja::value::Value;
use minijinja::{context, Environment, UndefinedBehavior};
use std::collections::BTreeMap;
fn main() {
    let exprs: Vec<String> = std::env::args().skip(1).collect();
    for ub in [UndefinedBehavior::Lenient, UndefinedBehavior::Chainable, UndefinedBehavior::SemiStrict, UndefinedBehavior::Strict] {
        let mut env = Environment::new();
        env.set_undefined_behavior(ub);
        let mut m: BTreeMap<Value, Value> = BTreeMap::new();
        m.insert(Value::from(1), Value::from("one"));
        m.insert(Value::from(-1), Value::from("minus"));
        m.insert(Value::from(0), Value::from("zero"));
        m.insert(Value::from("1"), Value::from("strone"));
        m.insert(Value::from("k"), Value::from("kay"));
        m.insert(Value::from(true), Value::from("tru"));
        let mut m2: BTreeMap<Value, Value> = BTreeMap::new();
        m2.insert(Value::from(1), Value::from("one"));
        m2.insert(Value::from(0), Value::from("zero"));
        let ctx = context! {
            xs => vec![10, 11, 12, 13],
            s => "héllo",
            b => Value::from_bytes(vec![1,2,3]),
            m => Value::from_object(m),
            m2 => Value::from_object(m2),
            big => Value::from(1u128 << 70),
            nbig => Value::from(-(1i128 << 70)),
            u63 => Value::from(1u64 << 63),
            it => Value::make_iterable(|| (0..5).filter(|_| true)),
            f1 => 1.0f64, f15 => 1.5f64, nan => f64::NAN, inf => f64::INFINITY, nf1 => -1.0f64, nz => -0.0f64,
            n => Value::from(()),
        };
        for e in &exprs {
            let r = env.compile_expression(e).and_then(|x| x.eval(&ctx));
            match r {
                Ok(v) => println!("{:?}\t{}\t=> {:?} [{}]", ub, e, v, v.kind()),
                Err(err) => println!("{:?}\t{}\t=> ERR {:?}: {}", ub, e, err.kind(), err),
            }
        }
    }
}
