//! C14 harness: error locations (DESIGN.md §3 C14).
//!
//! Streams (one line per case, `case<TAB>result`):
//!
//!   lex <cfg> <spec>                 real tokenizer: spans of every token + the lexer error
//!   ast <spec>                       every span stored in the AST of a valid template
//!   tbl <ops>                        real `Instructions::{add, add_with_line, add_with_span}` driven
//!                                    with an arbitrary add sequence, then `get_line/get_span` per pc
//!   cg <ops>                         the real `CodeGenerator` driven with a script of set_line / push_span /
//!                                    pop_span / add / add_with_span calls, then `get_line/get_span` per pc
//!   stm <spec>                       per top-level statement of a template: its span and the instructions it
//!                                    compiles to (name, line, span)
//!   ins <tid> <block> <spec>         line/span tables of real compiled templates, per pc
//!   err <id> <class> <cfg> <v> <h>   failing template `id` in environment configuration `cfg`, shifted by
//!                                    vertical variant v and horizontal variant h: the located error chain
//!
//! `<spec>` is a compact source description: segments joined by `.`, `R<n>x<hex>` (unit repeated n
//! times) or `H<hex>`.  Nothing here decides pass/fail: lib/props/c14.py evaluates the oracle and the
//! Lean model's predictions.
//!
//!   cga <layout> <spec>             real AST (compact dump) + real tokens + per-pc (name, line, span) of the root
//!                                    instructions and of every block; layout o = as written, x0/x1/x2 = a newline
//!                                    at every / every even / every odd token gap inside tags
//!   cge <spec>                       the same for a standalone expression (parse_expr + compile_expr)
//!
//! Every output line is prefixed with `<seq>.<sub>\t` (global work item number): `gen <tier> <k> <n>`
//! runs only the work items with `seq % n == k`, lib/props/c14.py runs the shards in parallel and
//! merges them by that number.
//!
//! usage: c14 gen <quick|thorough> [<k> <n>]
//!        c14 one <stream> <fields…>       replay of one case line (`one err <id> <class> <cfg> <v> <h> [show]`)
use minijinja::machinery::{self, Instruction, Instructions, Span, WhitespaceConfig};
use minijinja::syntax::SyntaxConfig;
use minijinja::value::Value;
use minijinja::{context, Environment, Error, ErrorKind, UndefinedBehavior};
use mjh::*;
use std::io::Write;

// ------------------------------------------------------------------------------------------------
// compact sources
#[derive(Clone)]
enum Seg {
    Rep(String, usize),
    Lit(String),
}

#[derive(Clone, Default)]
struct Src(Vec<Seg>);

impl Src {
    fn lit(s: &str) -> Src {
        Src(vec![Seg::Lit(s.to_string())])
    }
    fn push_lit(&mut self, s: &str) {
        if !s.is_empty() {
            self.0.push(Seg::Lit(s.to_string()));
        }
    }
    fn push_rep(&mut self, unit: &str, n: usize) {
        if n > 0 && !unit.is_empty() {
            self.0.push(Seg::Rep(unit.to_string(), n));
        }
    }
    fn build(&self) -> String {
        let mut s = String::new();
        for seg in &self.0 {
            match seg {
                Seg::Rep(u, n) => s.push_str(&u.repeat(*n)),
                Seg::Lit(l) => s.push_str(l),
            }
        }
        s
    }
    fn spec(&self) -> String {
        if self.0.is_empty() {
            return "H".into();
        }
        self.0
            .iter()
            .map(|seg| match seg {
                Seg::Rep(u, n) => format!("R{}x{}", n, hex(u.as_bytes())),
                Seg::Lit(l) => format!("H{}", hex(l.as_bytes())),
            })
            .collect::<Vec<_>>()
            .join(".")
    }
    fn parse(spec: &str) -> Src {
        let mut v = Vec::new();
        for part in spec.split('.') {
            if let Some(rest) = part.strip_prefix('R') {
                let (n, h) = rest.split_once('x').expect("bad R segment");
                v.push(Seg::Rep(String::from_utf8(unhex(h)).unwrap(), n.parse().unwrap()));
            } else if let Some(h) = part.strip_prefix('H') {
                if !h.is_empty() {
                    v.push(Seg::Lit(String::from_utf8(unhex(h)).unwrap()));
                }
            } else {
                panic!("bad spec segment");
            }
        }
        Src(v)
    }
}

fn span_str(s: &Span) -> String {
    format!(
        "{}:{}:{}:{}:{}:{}",
        s.start_line, s.start_col, s.start_offset, s.end_line, s.end_col, s.end_offset
    )
}

include!("c14_ast.inc");
include!("c14_gram.inc");

// ------------------------------------------------------------------------------------------------
// description of one located error (and its minijinja cause chain)
fn fmt_mask(e: &Error) -> (u32, String) {
    let mut mask = 0u32;
    let mut first = String::new();
    for i in 0..5 {
        let r = guarded(|| match i {
            0 => format!("{}", e),
            1 => format!("{:#}", e),
            2 => format!("{:?}", e),
            3 => format!("{:#?}", e),
            _ => format!("{}", e.display_debug_info()),
        });
        match r {
            Err(msg) => {
                mask |= 1 << i;
                if first.is_empty() {
                    first = msg;
                }
            }
            Ok(full) => {
                // the same form into writers that fail after `budget` bytes (bits 5..9): whatever write
                // of the display path is the one that fails, the formatter has to hand the failure back
                let n = full.len();
                // (what the display path does with a failing writer does not depend on the size of the source;
                // rendering the window of a 65535-line source 50 times per error would only cost time)
                if e.template_source().map_or(false, |s| s.len() > 4096) {
                    continue;
                }
                let mut budgets = vec![0, 1, n.saturating_sub(1)];
                for k in 1..8 {
                    budgets.push(n * k / 8);
                }
                budgets.sort();
                budgets.dedup();
                for b in budgets {
                    let r = guarded(|| {
                        use std::fmt::Write as _;
                        let mut w = FailingWriter { left: b, failed: false };
                        let res = match i {
                            0 => write!(w, "{}", e),
                            1 => write!(w, "{:#}", e),
                            2 => write!(w, "{:?}", e),
                            3 => write!(w, "{:#?}", e),
                            _ => write!(w, "{}", e.display_debug_info()),
                        };
                        (res.is_ok(), w.failed)
                    });
                    match r {
                        Err(msg) => {
                            mask |= 1 << (5 + i);
                            if first.is_empty() {
                                first = format!("{} (into a writer that fails after {} of {} bytes)", msg, b, n);
                            }
                            break;
                        }
                        // (whether a failure of the writer is handed back or swallowed is not C14's business)
                        Ok(_) => {}
                    }
                }
            }
        }
    }
    (mask, first)
}

/// a `fmt::Write` that accepts `left` bytes and fails from then on
struct FailingWriter {
    left: usize,
    failed: bool,
}

impl std::fmt::Write for FailingWriter {
    fn write_str(&mut self, s: &str) -> std::fmt::Result {
        if self.failed || s.len() > self.left {
            self.failed = true;
            self.left = 0;
            return Err(std::fmt::Error);
        }
        self.left -= s.len();
        Ok(())
    }
}

/// `(col, width)` of the caret line of the rendered debug info, if there is one
fn caret(e: &Error) -> Result<Option<(usize, usize)>, String> {
    let s = guarded(|| format!("{}", e.display_debug_info()))?;
    for l in s.lines() {
        if let Some(rest) = l.strip_prefix("     i ") {
            let sp = rest.bytes().take_while(|b| *b == b' ').count();
            let w = rest.bytes().skip(sp).take_while(|b| *b == b'^').count();
            return Ok(Some(if w > 0 { (sp, w) } else { (sp.saturating_sub(1), 0) }));
        }
    }
    Ok(None)
}

/// the source-line window of the rendered debug info: `first:current:last:count` (1-based line
/// numbers as printed; `current` is the line marked with `>`)
fn window(e: &Error) -> String {
    let s = match guarded(|| format!("{}", e.display_debug_info())) {
        Ok(s) => s,
        Err(_) => return "p".into(),
    };
    let mut shown: Vec<usize> = Vec::new();
    let mut cur: Option<usize> = None;
    for l in s.split('\n') {
        if l.starts_with("~~~~") {
            break;
        }
        let t = l.trim_start_matches(' ');
        let digits = t.bytes().take_while(|b| b.is_ascii_digit()).count();
        if digits == 0 || l.len() - t.len() + digits < 4 {
            continue;
        }
        let rest = &t[digits..];
        if rest.starts_with(" | ") || rest.starts_with(" > ") {
            let n: usize = t[..digits].parse().unwrap();
            if rest.starts_with(" > ") {
                cur = Some(n);
            }
            shown.push(n);
        }
    }
    match (shown.first(), shown.last()) {
        (Some(f), Some(l)) => format!("{}:{}:{}:{}", f, opt(cur), l, shown.len()),
        _ => format!("-:{}:-:0", opt(cur)),
    }
}

fn opt<T: std::fmt::Display>(x: Option<T>) -> String {
    x.map(|v| v.to_string()).unwrap_or_else(|| "-".into())
}

/// one record per located error in the chain:
/// name,line,kind,detail,rs,re,srclen,nlines,inb,sb,eb,tsok,fmtmask,fmtmsg,caret,window
fn describe_chain(e: &Error, sources: &dyn Fn(&str) -> Option<String>) -> String {
    let mut out = Vec::new();
    let mut cur: Option<&Error> = Some(e);
    let mut depth = 0;
    while let Some(e) = cur {
        let src = e.template_source();
        let named = e.name().and_then(sources);
        let (rs, re) = match e.range() {
            Some(r) => (Some(r.start), Some(r.end)),
            None => (None, None),
        };
        let refsrc: Option<&str> = src.or(named.as_deref());
        let (inb, sb, eb) = match (e.range(), refsrc) {
            (Some(r), Some(s)) => (
                ((r.start <= r.end && r.end <= s.len()) as u8).to_string(),
                (s.is_char_boundary(r.start) as u8).to_string(),
                (s.is_char_boundary(r.end) as u8).to_string(),
            ),
            _ => ("-".into(), "-".into(), "-".into()),
        };
        let tsok = match (src, &named) {
            (Some(s), Some(n)) => ((s == n) as u8).to_string(),
            (None, _) => "n".into(),  // no template source attached
            (Some(_), None) => "u".into(), // name unknown to the case (or missing)
        };
        let (mask, msg) = fmt_mask(e);
        let car = match caret(e) {
            Ok(Some((c, w))) => format!("c{}w{}", c, w),
            Ok(None) => "-".into(),
            Err(_) => "p".into(),
        };
        out.push(format!(
            "{},{},{:?},{},{},{},{},{},{},{},{},{},{},{},{},{}",
            e.name().map(|n| hex(n.as_bytes())).unwrap_or_else(|| "-".into()),
            opt(e.line()),
            e.kind(),
            e.detail().map(|d| hex(d.as_bytes())).unwrap_or_else(|| "-".into()),
            opt(rs),
            opt(re),
            opt(refsrc.map(|s| s.len())),
            opt(refsrc.map(|s| 1 + s.bytes().filter(|b| *b == b'\n').count())),
            inb,
            sb,
            eb,
            tsok,
            mask,
            hex(msg.as_bytes()),
            car,
            if src.is_some() { window(e) } else { "n".into() }
        ));
        cur = std::error::Error::source(e).and_then(|s| s.downcast_ref::<Error>());
        depth += 1;
        if depth > 16 {
            break;
        }
    }
    out.join(";")
}

// ------------------------------------------------------------------------------------------------
// failing-template cases
#[derive(Clone)]
struct Case {
    id: String,
    /// (name, text).  The text of `shifted` carries the markers `@@` (horizontal insertion point,
    /// in data state, on the line of the failing construct) and optionally `^^` (vertical insertion
    /// point, at the start of a line in data state; default: top of the template).
    templates: Vec<(String, String)>,
    main: String,
    shifted: String,
    flags: String, // s = strict undefined, f = fuel
    class: &'static str,
}

fn rt(id: &str, flags: &str, main: &str, shifted: &str, templates: &[(&str, &str)]) -> Case {
    Case {
        id: id.to_string(),
        templates: templates.iter().map(|(a, b)| (a.to_string(), b.to_string())).collect(),
        main: main.to_string(),
        shifted: shifted.to_string(),
        flags: flags.to_string(),
        class: "runtime",
    }
}

fn one(id: &str, flags: &str, text: &str) -> Case {
    rt(id, flags, "main", "main", &[("main", text)])
}

/// cases whose `@@` marker is only the horizontal insertion point: the error is reported for a
/// construct elsewhere (inside the macro / block that the marked call runs)
const FREE_MARKER: &[&str] = &["macro_body_shift_call", "macro_imported_shift_main", "macro_default_err", "self_block_call"];

fn runtime_cases() -> Vec<Case> {
    let mut v = Vec::new();
    // --- plain expressions / operators
    v.push(one("add_types", "", "head\n@@{{ 1 + \"a\" }}\ntail"));
    v.push(one("add_types_mb", "", "häad €\nä€𝄞 @@{{ 1 + \"ä\" }} 𝄞\ntail"));
    v.push(one("add_types_ml", "", "a\n@@{{ [\n  1,\n  2 + \"a\"\n] }}\nb"));
    v.push(one("add_types_ml2", "", "a\n@@{{      1 +\n\"a\" }}\nb"));
    v.push(one("sub_types", "", "@@{{ x - \"a\" }}"));
    v.push(one("mul_types", "", "\n\n@@{{ \"a\" * \"b\" }}"));
    v.push(one("neg_type", "", "x\n@@{{ -s }}"));
    v.push(one("intdiv_zero", "", "a\nb @@{{ 1 // n }}"));
    v.push(one("rem_zero", "", "a\nb @@{{ 1 % n }}"));
    v.push(one("pow_types", "", "@@{{ s ** 2 }}"));
    v.push(one("crlf_before", "", "a\r\nb\r\n@@{{ 1 + s }}\r\nc"));
    v.push(one("slice_zero_step", "", "a\n@@{{ lst[::n] }}"));
    v.push(one("getitem_strict", "s", "a\n@@{{ d.nope.deeper }}"));
    v.push(one("in_type", "", "@@{{ 1 in 2 }}"));
    // --- filters / tests / functions / methods
    v.push(one("unknown_filter", "", "a\n@@{{ x|bogus }}\nb"));
    v.push(one("unknown_filter_chain", "", "a\n@@{{ x|string|bogus|upper }}\nb"));
    v.push(one("unknown_filter_ml", "", "a\n@@{{ x\n  |string\n  |bogus }}\nb"));
    v.push(one("unknown_test", "", "a\n\n@@{{ x is bogus }}"));
    v.push(one("unknown_test_if", "", "a\n@@{% if x is bogus %}y{% endif %}"));
    v.push(one("unknown_function", "", "@@{{ bogus() }}"));
    v.push(one("unknown_function_args", "", "1\n2\n3\n@@{{ bogus(1,\n 2) }}"));
    v.push(one("unknown_method", "", "a\n@@{{ s.bogus() }}"));
    v.push(one("unknown_method_map", "", "a\n@@{{ d.bogus(1) }}"));
    v.push(one("call_non_callable", "", "a\n@@{{ x() }}"));
    v.push(one("callblock_unknown_ml", "", "a\n@@{% call bogus() %}\nbody {{ x }}\n\n{% endcall %}\nb"));
    v.push(one("callblock_method_ml", "", "a\n@@{% call(u) s.bogus(1) %}\nbody\n{% set q = u %}\n{% endcall %}\nb"));
    v.push(one("filter_bad_arg", "", "a\n@@{{ s|int }}"));
    v.push(one("filter_too_many", "", "a\n@@{{ s|upper(1, 2) }}"));
    v.push(one("filter_missing_arg", "", "a\n@@{{ s|replace }}"));
    v.push(one("fn_too_many", "", "a\n@@{{ range(1, 2, 3, 4) }}"));
    v.push(one("fn_missing", "", "a\n@@{{ range() }}"));
    v.push(one("fn_zero_step", "", "a\n@@{{ range(1, 5, n) }}"));
    v.push(one("custom_fn_err", "", "a\n@@{{ boom() }}"));
    v.push(one("custom_fn_err_src", "", "a\n@@{{ boom_src() }}"));
    v.push(one("custom_filter_err", "", "a\nxx @@{{ x|boomf }}"));
    v.push(one("custom_test_err", "", "a\nxx @@{{ x is boomt }}"));
    // --- undefined
    v.push(one("strict_print", "s", "a\n@@{{ missing }}\nb"));
    v.push(one("strict_print_attr", "s", "a\n@@{{ d.missing }}\nb"));
    v.push(one("strict_iter", "s", "a\n@@{% for a in missing %}{% endfor %}"));
    v.push(one("strict_if", "s", "a\n@@{% if missing %}{% endif %}"));
    v.push(one("strict_filter_arg", "s", "a\n@@{{ s|replace(missing, 1) }}"));
    // the failing instruction is the last one of its line, the next one is on the next line
    v.push(one("strict_print_ws", "s", "a\n@@{{ missing -}}\n{{- x }}\nb"));
    v.push(one("strict_if_ws", "s", "a\n@@{% if missing -%}\n{{- x }}\n{% endif %}"));
    v.push(one("strict_print_ws_before", "s", "a\n{{ x -}}\n@@{{- missing }}\nb"));
    v.push(one("undef_attr_of_undef", "", "a\n@@{{ missing.attr }}\nb"));
    v.push(one("undef_index_of_undef", "", "a\n@@{{ missing[0] }}\nb"));
    // --- statements
    v.push(one("for_non_iterable", "", "a\n@@{% for a in x %}{{ a }}{% endfor %}"));
    v.push(one("for_body", "", "a\n{% for a in lst %}\n  @@{{ a + s }}\n{% endfor %}"));
    v.push(one("for_body_else", "", "{% for a in [] %}\n{% else %}\n @@{{ 1 + s }}\n{% endfor %}"));
    v.push(one("for_filter_cond", "", "a\n@@{% for a in lst if a + s %}{% endfor %}"));
    v.push(one("for_unpack", "", "a\n@@{% for a, b in lst %}{% endfor %}"));
    v.push(one("for_unpack_len", "", "a\n@@{% for a, b in [[1, 2, 3]] %}{% endfor %}"));
    v.push(one("for_nested", "", "{% for a in lst %}\n{% for b in lst %}\n@@{{ a + b + s }}\n{% endfor %}\n{% endfor %}"));
    v.push(one("for_loop_attr", "s", "{% for a in lst %}\n@@{{ loop.bogus }}\n{% endfor %}"));
    v.push(one("for_recursive", "", "{% for a in [[1]] recursive %}\n@@{{ loop(a) }}{{ 1 + s }}\n{% endfor %}"));
    v.push(one("for_recursive_noniter", "", "a\n{% for a in [1] recursive %}\n@@{{ loop(a) }}\n{% endfor %}"));
    v.push(one("if_cond", "", "a\n@@{% if 1 + s %}y{% endif %}"));
    v.push(one("if_body", "", "a\n{% if x %}\n@@{{ 1 + s }}\n{% endif %}"));
    v.push(one("elif_cond", "", "a\n{% if not x %}\n@@{% elif 1 + s %}y{% endif %}"));
    v.push(one("else_body", "", "{% if not x %}\n{% else %}\n@@{{ 1 + s }}{% endif %}"));
    v.push(one("set_expr", "", "a\n@@{% set q = 1 + s %}"));
    v.push(one("set_unpack", "", "a\n@@{% set a, b = x %}"));
    v.push(one("set_block", "", "a\n{% set q %}\n@@{{ 1 + s }}\n{% endset %}"));
    v.push(one("set_block_filter", "", "a\n@@{% set q | bogus %}zz{% endset %}"));
    v.push(one("with_expr", "", "a\n@@{% with q = 1 + s %}{% endwith %}"));
    v.push(one("with_body", "", "a\n{% with q = 1 %}\n@@{{ q + s }}\n{% endwith %}"));
    v.push(one("autoescape_bad", "", "a\n@@{% autoescape \"bogus\" %}{% endautoescape %}"));
    v.push(one("autoescape_body", "", "a\n{% autoescape true %}\n@@{{ 1 + s }}\n{% endautoescape %}"));
    v.push(one("filter_block_body", "", "a\n{% filter upper %}\n@@{{ 1 + s }}\n{% endfilter %}"));
    v.push(one("filter_block_unknown", "", "a\n@@{% filter bogus %}zz{% endfilter %}"));
    v.push(one("ternary", "", "a\n@@{{ 1 if 1 + s else 2 }}"));
    v.push(one("list_lit", "", "a\n@@{{ [1, 2, 3 + s] }}"));
    v.push(one("map_lit", "", "a\n@@{{ {'k': 1 + s} }}"));
    v.push(one("kwargs_call", "", "a\n@@{{ dict(a=1 + s) }}"));
    v.push(one("concat_ok_then_err", "", "a {{ 1 ~ s }}\n@@{{ 1 ~ s + 1 }}"));
    v.push(one("two_on_line", "", "a\n{{ x }} @@{{ 1 + s }} {{ x }}"));
    v.push(one("emitraw_after", "", "{{ x }}\nsome text\nmore @@text {{ 1 + s }}"));
    v.push(one("do_call", "", "a\n@@{% do bogus() %}"));
    v.push(one("out_of_fuel", "f", "{% for a in range(5) %}\n{{ a }}\n{% endfor %}\n@@{% for a in range(1000) %}{{ a }}{% endfor %}"));
    // --- macros
    v.push(one("macro_body", "", "{% macro m(a) %}\n  @@{{ a + s }}\n{% endmacro %}\nx\n{{ m(1) }}"));
    v.push(one("macro_body_shift_call", "", "{% macro m(a) %}\n  {{ a + s }}\n{% endmacro %}\nx\n@@{{ m(1) }}"));
    v.push(one("macro_bad_kwarg", "", "{% macro m(a) %}{{ a }}{% endmacro %}\nx\n@@{{ m(zz=1) }}"));
    v.push(one("macro_too_many", "", "{% macro m(a) %}{{ a }}{% endmacro %}\nx\n@@{{ m(1, 2) }}"));
    v.push(one("macro_default_err", "", "{% macro m(a=1 + s) %}{{ a }}{% endmacro %}\nx\n@@{{ m() }}"));
    v.push(one("macro_nested", "", "{% macro o() %}\n{% macro i() %}\n@@{{ 1 + s }}\n{% endmacro %}{{ i() }}\n{% endmacro %}\n{{ o() }}"));
    v.push(one("call_block_body", "", "{% macro m() %}[{{ caller() }}]{% endmacro %}\n{% call m() %}\n  @@{{ 1 + s }}\n{% endcall %}"));
    v.push(one("call_block_in_macro", "", "{% macro m() %}\n@@{{ caller(1 + s) }}\n{% endmacro %}\n{% call(q) m() %}{{ q }}{% endcall %}"));
    v.push(one("caller_outside", "", "a\n@@{{ caller() }}"));
    v.push(rt("macro_imported", "", "main", "lib", &[
        ("lib", "{% macro m(a) %}\n  @@{{ a + s }}\n{% endmacro %}\n"),
        ("main", "{% import \"lib\" as lib %}\nx\n{{ lib.m(1) }}"),
    ]));
    v.push(rt("macro_imported_shift_main", "", "main", "main", &[
        ("lib", "{% macro m(a) %}\n  {{ a + s }}\n{% endmacro %}\n"),
        ("main", "{% from \"lib\" import m %}\nx\n@@{{ m(1) }}"),
    ]));
    v.push(one("import_missing", "", "a\n@@{% import \"missing\" as m %}"));
    v.push(rt("from_import_missing_name", "", "main", "main", &[
        ("lib", "{% macro m(a) %}{{ a }}{% endmacro %}"),
        ("main", "a\n{% from \"lib\" import nope %}@@{{ nope() }}"),
    ]));
    v.push(rt("import_toplevel_err", "", "main", "lib", &[
        ("lib", "x\n@@{% set q = 1 + s %}"),
        ("main", "a\n{% import \"lib\" as lib %}"),
    ]));
    // --- includes
    v.push(one("include_missing", "", "a\n@@{% include \"missing\" %}\nb"));
    v.push(one("include_missing_list", "", "a\n@@{% include [\"m1\", \"m2\"] %}\nb"));
    v.push(one("include_bad_type", "", "a\n@@{% include 42 %}\nb"));
    v.push(rt("include_inner_err", "", "main", "inc", &[
        ("inc", "i1\ni2 @@{{ 1 + s }}\ni3"),
        ("main", "a\n{% include \"inc\" %}\nb"),
    ]));
    v.push(rt("include_inner_err_shift_main", "", "main", "main", &[
        ("inc", "i1\ni2 {{ 1 + s }}\ni3"),
        ("main", "a\n@@{% include \"inc\" %}\nb"),
    ]));
    v.push(rt("include_nested", "", "main", "inc2", &[
        ("inc2", "j1\nj2\n@@{{ x|bogus }}"),
        ("inc", "i1\n{% include \"inc2\" %}"),
        ("main", "a\n\n{% include \"inc\" %}"),
    ]));
    v.push(rt("include_nested_shift_mid", "", "main", "inc", &[
        ("inc2", "j1\nj2\n{{ x|bogus }}"),
        ("inc", "i1\n@@{% include \"inc2\" %}"),
        ("main", "a\n\n{% include \"inc\" %}"),
    ]));
    v.push(rt("include_syntax_err", "", "main", "inc", &[
        ("inc", "i1\n@@{% bogus %}"),
        ("main", "a\n{% include \"inc\" %}"),
    ]));
    v.push(rt("include_in_loop", "", "main", "inc", &[
        ("inc", "i1\n@@{{ a + s }}"),
        ("main", "{% for a in lst %}\n{% include \"inc\" %}\n{% endfor %}"),
    ]));
    v.push(rt("include_in_macro", "", "main", "inc", &[
        ("inc", "\n\n@@{{ 1 + s }}"),
        ("main", "{% macro m() %}\n{% include \"inc\" %}\n{% endmacro %}\n\n{{ m() }}"),
    ]));
    // --- inheritance
    v.push(one("extends_missing", "", "@@{% extends \"missing\" %}"));
    v.push(one("extends_bad_type", "", "@@{% extends 42 %}"));
    v.push(rt("extends_twice", "", "main", "main", &[
        ("base", "b1\n{% block b %}{% endblock %}"),
        ("main", "{% extends \"base\" %}\n@@{% extends \"base\" %}"),
    ]));
    v.push(one("block_body", "", "a\n{% block b %}\n@@{{ 1 + s }}\n{% endblock %}"));
    v.push(rt("child_block", "", "main", "main", &[
        ("base", "b1\n{% block b %}{% endblock %}\nb3"),
        ("main", "{% extends \"base\" %}\n{% block b %}\n @@{{ 1 + s }}\n{% endblock %}"),
    ]));
    v.push(rt("parent_block", "", "main", "base", &[
        ("base", "b1\n{% block b %}\n@@{{ 1 + s }}\n{% endblock %}\nb3"),
        ("main", "{% extends \"base\" %}\n{% block other %}{% endblock %}"),
    ]));
    v.push(rt("parent_toplevel", "", "main", "base", &[
        ("base", "b1\n@@{{ 1 + s }}\n{% block b %}{% endblock %}"),
        ("main", "{% extends \"base\" %}\n{% block b %}x{% endblock %}"),
    ]));
    v.push(rt("super_err", "", "main", "base", &[
        ("base", "b1\n{% block b %}\n@@{{ 1 + s }}\n{% endblock %}\nb3"),
        ("main", "{% extends \"base\" %}\n{% block b %}\n[{{ super() }}]\n{% endblock %}"),
    ]));
    v.push(rt("super_err_shift_child", "", "main", "main", &[
        ("base", "b1\n{% block b %}\n{{ 1 + s }}\n{% endblock %}\nb3"),
        ("main", "{% extends \"base\" %}\n{% block b %}\n@@[{{ super() }}]\n{% endblock %}"),
    ]));
    v.push(rt("super_no_parent", "", "main", "main", &[
        ("main", "a\n{% block b %}\n@@{{ super() }}\n{% endblock %}"),
    ]));
    v.push(rt("grandparent_block", "", "main", "mid", &[
        ("base", "{% block b %}base{% endblock %}"),
        ("mid", "{% extends \"base\" %}\n{% block b %}\n@@{{ super() + 1 + s }}{{ 1 + s }}\n{% endblock %}"),
        ("main", "{% extends \"mid\" %}\n{% block b %}\n{{ super() }}\n{% endblock %}"),
    ]));
    v.push(rt("self_block_call", "", "main", "main", &[
        ("main", "{% block b %}\n{{ 1 + s if go else \"\" }}\n{% endblock %}\n@@{% set go = true %}{{ self.b() }}"),
    ]));
    v.push(rt("block_in_include", "", "main", "inc", &[
        ("inc", "{% block q %}\n@@{{ 1 + s }}\n{% endblock %}"),
        ("main", "a\n{% include \"inc\" %}"),
    ]));
    // --- failing prints (`{{ VAR }}`) in every construct: `nothing` is none (refused by the failing
    // custom formatter of configuration `n`), `missing` is undefined (strict print; with a custom
    // formatter that check lives in Environment::format instead of the VM)
    for (tag, var, flags) in [("none", "nothing", ""), ("undef", "missing", "s")] {
        let mut p = |id: &str, main: &str, shifted: &str, templates: &[(&str, &str)]| {
            let t: Vec<(String, String)> = templates.iter().map(|(a, b)| (a.to_string(), b.replace("VAR", var))).collect();
            let tr: Vec<(&str, &str)> = t.iter().map(|(a, b)| (a.as_str(), b.as_str())).collect();
            v.push(rt(&format!("print_{}_{}", tag, id), flags, main, shifted, &tr));
        };
        p("top", "main", "main", &[("main", "first\nsecond\n  @@{{ VAR }}\nlast")]);
        p("top_after_print", "main", "main", &[("main", "first\nsecond {{ 42 }}\n  @@{{ VAR }}\nlast")]);
        p("top_ml", "main", "main", &[("main", "a\n@@{{\n  VAR\n}}\nc")]);
        p("top_ws", "main", "main", &[("main", "a\n@@{{ VAR -}}\n{{- x }}\nb")]);
        p("cond_expr", "main", "main", &[("main", "a\n@@{{ VAR if x else 1 }}\nb")]);
        p("macro", "main", "main", &[("main", "{% macro m(v) %}\n  @@{{ VAR }}\n{% endmacro %}\nx\n{{ m(1) }}")]);
        p("macro_arg", "main", "main", &[("main", "{% macro m(v) %}\n  @@{{ v }}\n{% endmacro %}\nx\n{{ m(VAR) }}")]);
        p("macro_imported", "main", "lib", &[
            ("lib", "{# lib #}\n{% macro show(v) %}\n  @@{{ v }}\n{% endmacro %}\n"),
            ("main", "{% import \"lib\" as lib %}\n1\n2\n3\n4\n5\n6\n{{ lib.show(VAR) }}"),
        ]);
        p("macro_from_import", "main", "lib", &[
            ("lib", "{% macro show() %}\n\n  @@{{ VAR }}\n{% endmacro %}\n"),
            ("main", "{% from \"lib\" import show %}\n1\n2\n{{ show() }}"),
        ]);
        p("call_body", "main", "main", &[("main", "{% macro m() %}[{{ caller() }}]{% endmacro %}\n{% call m() %}\n  @@{{ VAR }}\n{% endcall %}")]);
        p("call_body_imported_macro", "main", "main", &[
            ("lib", "{% macro m() %}[{{ caller() }}]{% endmacro %}"),
            ("main", "{% from \"lib\" import m %}\n{% call m() %}\n  @@{{ VAR }}\n{% endcall %}"),
        ]);
        p("block_plain", "main", "main", &[("main", "a\n{% block b %}\n@@{{ VAR }}\n{% endblock %}")]);
        p("block_child", "main", "main", &[
            ("base", "b1\n<{% block b %}{% endblock %}>\nb3"),
            ("main", "{% extends \"base\" %}\n{% block b %}\n x @@{{ VAR }}\n{% endblock %}"),
        ]);
        p("block_parent", "main", "base", &[
            ("base", "b1\n{% block b %}\n@@{{ VAR }}\n{% endblock %}\nb3"),
            ("main", "{% extends \"base\" %}\n{% block other %}{% endblock %}"),
        ]);
        p("layout_toplevel", "main", "base", &[
            ("base", "b1\n@@{{ VAR }}\n{% block b %}{% endblock %}"),
            ("main", "{% extends \"base\" %}\n{% block b %}x{% endblock %}"),
        ]);
        p("super", "main", "base", &[
            ("base", "b1\n{% block b %}\n@@{{ VAR }}\n{% endblock %}\nb3"),
            ("main", "{% extends \"base\" %}\n{% block b %}\n[{{ super() }}]\n{% endblock %}"),
        ]);
        p("self_block", "main", "main", &[("main", "{% set go = false %}{% block b %}\n@@{{ VAR if go else 1 }}\n{% endblock %}\n{% set go = true %}{{ self.b() }}")]);
        p("include", "main", "inc", &[
            ("inc", "i1\ni2 @@{{ VAR }}\ni3"),
            ("main", "a\n{% include \"inc\" %}\nb"),
        ]);
        p("include_nested", "main", "inc2", &[
            ("inc2", "j1\nj2\n@@{{ VAR }}"),
            ("inc", "i1\n{% include \"inc2\" %}"),
            ("main", "a\n\n{% include \"inc\" %}"),
        ]);
        p("include_in_macro", "main", "inc", &[
            ("inc", "\n\n@@{{ VAR }}"),
            ("main", "{% macro m() %}\n{% include \"inc\" %}\n{% endmacro %}\n\n{{ m() }}"),
        ]);
        p("loop", "main", "main", &[("main", "a\n{% for a in lst %}\n  @@{{ VAR }}\n{% endfor %}")]);
        p("loop_after_print", "main", "main", &[("main", "a\n{% for a in lst %}\n  {{ a }} @@{{ VAR }}\n{% endfor %}")]);
        p("loop_else", "main", "main", &[("main", "{% for a in [] %}\n{% else %}\n @@{{ VAR }}\n{% endfor %}")]);
        p("loop_recursive", "main", "main", &[("main", "{% for a in [[1]] recursive %}\n{% if a is iterable %}{{ loop(a) }}{% else %}\n@@{{ VAR }}{% endif %}\n{% endfor %}")]);
        p("filter_block", "main", "main", &[("main", "a\n{% filter upper %}\n@@{{ VAR }}\n{% endfilter %}")]);
        p("set_block", "main", "main", &[("main", "a\n{% set q %}\n@@{{ VAR }}\n{% endset %}")]);
        p("with_body", "main", "main", &[("main", "a\n{% with q = 1 %}\n@@{{ VAR }}\n{% endwith %}")]);
        p("if_body", "main", "main", &[("main", "a\n{% if x %}\n@@{{ VAR }}\n{% endif %}")]);
        p("autoescape_body", "main", "main", &[("main", "a\n{% autoescape true %}\n@@{{ VAR }}\n{% endautoescape %}")]);
        p("escape_filter", "main", "main", &[("main", "a\nb @@{{ VAR|e }}\nc")]);
        p("join_filter", "main", "main", &[("main", "a\nb @@{{ [1, VAR]|join(\",\") }}\nc")]);
        p("string_concat", "main", "main", &[("main", "a\nb @@{{ VAR }}{{ x }}\nc")]);
    }
    // --- rows of the interpreter that need a special surrounding
    v.push(rt("row_super_args", "", "main", "main", &[
        ("base", "b1\n{% block b %}x{% endblock %}"),
        ("main", "{% extends \"base\" %}\n{% block b %}\n@@{{ super(1) }}\n{% endblock %}"),
    ]));
    v.push(one("row_super_call_no_parent", "", "a\n{% block b %}\n@@{{ super() ~ \"\" }}\n{% endblock %}"));
    v.push(rt("row_super_call_err", "", "main", "main", &[
        ("base", "b1\n{% block b %}\n{{ 1 + s }}\n{% endblock %}"),
        ("main", "{% extends \"base\" %}\n{% block b %}\n@@{{ super() ~ \"\" }}\n{% endblock %}"),
    ]));
    v.push(one("row_fastrecurse_unknown", "", "a\n@@{{ loop(1) }}"));
    v.push(one("row_required_block", "", "a\n@@{% block rq required %}{% endblock %}$$\nb"));
    v.push(one("row_recurse_other_block", "", "{% for fa in [[1]] recursive %}\n{% block b %}\n@@{{ loop(fa) }}\n{% endblock %}\n{% endfor %}"));
    v.push(one("row_recurse_inactive", "", "{% set ns = namespace() %}{% for fa in [[1]] recursive %}{% set ns.l = loop %}{% endfor %}\n{% set l2 = ns.l %}\n@@{{ l2([1]) }}"));
    v.push(one("tabs_before", "", "a\n\t\t@@{{ 1 + s }}\tb\n\tc"));
    // --- other entry points
    v.push(one("entry_render_block", "B", "a\n{% if false %}{% block b %}\nx\n@@{{ 1 + s }}\n{% endblock %}{% endif %}"));
    v.push(rt("entry_render_block_child", "B", "main", "main", &[
        ("base", "b1\n{% block b %}{% endblock %}"),
        ("main", "{% extends \"base2\" %}\n{% block b %}\n@@{{ x|bogus }}\n{% endblock %}"),
        ("base2", "b1\nno blocks here"),
    ]));
    v.push(one("entry_call_macro", "M", "{% macro m() %}\n a\n@@{{ 1 + s }}\n{% endmacro %}\ntext"));
    v.push(rt("entry_call_macro_include", "M", "main", "inc", &[
        ("inc", "i1\n@@{{ s.bogus() }}"),
        ("main", "{% macro m() %}\n{% include \"inc\" %}\n{% endmacro %}"),
    ]));
    v.push(one("entry_render_captured", "C", "a\n{% set cap %}\n@@{{ 1 + s }}\n{% endset %}"));
    // --- user code: errors that come with / without their own location
    v.push(rt("usr_nested_render_fn", "", "main", "inner", &[
        ("inner", "i1\ni2 @@{{ 1 + s }}\ni3"),
        ("main", "a\nb {{ render_inner() }}\nc"),
    ]));
    v.push(rt("usr_nested_render_fn_shift_main", "", "main", "main", &[
        ("inner", "i1\ni2 {{ 1 + s }}\ni3"),
        ("main", "a\nb @@{{ render_inner() }}\nc"),
    ]));
    v.push(rt("usr_nested_render_filter", "", "main", "inner", &[
        ("inner", "i1\n\n@@{{ x|bogus }}"),
        ("main", "a\nb {{ x|render_f }}\nc"),
    ]));
    v.push(rt("usr_wrapped", "", "main", "main", &[
        ("inner", "i1\ni2 {{ 1 + s }}\ni3"),
        ("main", "a\nb @@{{ wrap_inner() }}\nc"),
    ]));
    v.push(rt("usr_wrapped_shift_inner", "", "main", "inner", &[
        ("inner", "i1\ni2 @@{{ 1 + s }}\ni3"),
        ("main", "a\nb {{ wrap_inner() }}\nc"),
    ]));
    v.push(rt("usr_nested_syntax", "L", "main", "inner", &[
        ("inner", "i1\n@@{% bogus %}"),
        ("main", "a\nb {{ render_inner() }}\nc"),
    ]));
    // --- lazily loaded templates: syntax errors and loader failures surface through include / extends / import
    v.push(rt("lazy_extends_syntax", "L", "main", "lazybad", &[
        ("lazybad", "b1\n@@{% bogus %}\n{% block b %}{% endblock %}"),
        ("main", "{% extends \"lazybad\" %}\n{% block b %}x{% endblock %}"),
    ]));
    v.push(rt("lazy_extends_syntax_shift_main", "L", "main", "main", &[
        ("lazybad", "b1\n{% bogus %}"),
        ("main", "a\n@@{% extends \"lazybad\" %}\n{% block b %}x{% endblock %}"),
    ]));
    v.push(rt("lazy_import_syntax", "L", "main", "lazybad", &[
        ("lazybad", "b1\n@@{{ 'ä"),
        ("main", "a\n{% import \"lazybad\" as lb %}"),
    ]));
    v.push(rt("lazy_include_lexer_err_mb", "L", "main", "lazybad", &[
        ("lazybad", "ä\n€ @@{{ € }}"),
        ("main", "a\n{% include \"lazybad\" %}"),
    ]));
    v.push(rt("lazy_include_loader_fails", "L", "main", "main", &[("main", "a\n@@{% include \"loaderfails\" %}\nb")]));
    v.push(rt("lazy_extends_loader_fails", "L", "main", "main", &[("main", "a\n@@{% extends \"loaderfails\" %}")]));
    v.push(rt("lazy_include_list_loader_fails", "L", "main", "main", &[("main", "a\n@@{% include [\"nope\", \"loaderfails\"] %}")]));
    // --- Expression API
    for (id, flags, text) in [
        ("expr_add", "e", "@@1 + s"),
        ("expr_ml", "e", "[\n  1,\n  @@2 + s\n]"),
        ("expr_filter", "e", "x|string|@@bogus"),
        ("expr_undef", "es", "@@missing.x.y"),
        ("expr_call", "e", "@@boom()"),
        ("expr_in", "e", "@@1 in 2 == true"),
        ("expr_syntax_eof", "e", "@@1 +"),
        ("expr_syntax_char", "e", "1 @@? 2"),
        ("expr_syntax_mb", "e", "'ä' ~ @@€"),
        ("expr_syntax_trailing", "e", "1 + 2 @@3"),
        ("expr_syntax_string", "e", "@@'abc"),
        ("expr_empty", "e", "@@"),
        ("expr_ws_only", "e", "@@   "),
    ] {
        v.push(rt(id, flags, "<expression>", "<expression>", &[("<expression>", text)]));
    }
    // --- vertical insertion in the middle of the template (marker ^^)
    v.push(one("vmid_expr", "", "{{ x }}\nline two {{ x }}\n^^third\n@@{{ 1 + s }}\n"));
    v.push(one("vmid_for", "", "{% for a in lst %}\n^^{{ a }}\n@@{{ a + s }}\n{% endfor %}"));
    v.push(one("vmid_macro", "", "{% macro m(a) %}\n  {{ a }}\n^^  @@{{ a + s }}\n{% endmacro %}\nx\n{{ m(1) }}"));
    v.push(rt("vmid_include", "", "main", "main", &[
        ("inc", "i1\ni2 {{ 1 + s }}\ni3"),
        ("main", "a\n^^b\n@@{% include \"inc\" %}\nb"),
    ]));
    // --- template-level syntax errors at fixed sites (the planted stream has many more)
    let mut syn = vec![
        one("syn_unexpected_char", "", "a\n@@{{ ? }}"),
        one("syn_unexpected_char_mb", "", "a\n@@{{ € }}"),
        one("syn_unexpected_char_mb4", "", "a\n@@{{ x + 𝄞 }}"),
        one("syn_after_mb", "", "ä\n'ä@@{{ 'ä'"),
        one("syn_unclosed_string", "", "a\n@@{{ 'abc"),
        one("syn_unclosed_string_mb", "", "a\n@@{{ 'ä"),
        one("syn_unclosed_string_dq_mb", "", "a\n@@{{ \"€𝄞"),
        one("syn_unclosed_comment", "", "a\nä@@{# abc"),
        one("syn_unclosed_comment_ml", "", "a\n@@{# abc\nd€f\n"),
        one("syn_unclosed_raw", "", "a\nä@@{% raw %}xx"),
        one("syn_unclosed_raw_mb", "", "a\n@@{% raw %}x€"),
        one("syn_unclosed_var", "", "a\n@@{{ x"),
        one("syn_unclosed_var_ws", "", "a\n@@{{ x   "),
        one("syn_unclosed_block", "", "a\n@@{% if x"),
        one("syn_only_start", "", "a\n@@{{"),
        one("syn_only_block_start", "", "a\n@@{%"),
        one("syn_unknown_tag", "", "a\n@@{% bogus %}"),
        one("syn_missing_endif", "", "a\n@@{% if x %}\nabc\ndef"),
        one("syn_missing_endfor", "", "a\n@@{% for a in x %}abc\ndef"),
        one("syn_missing_endblock", "", "a\n@@{% block b %}\nabc"),
        one("syn_missing_endmacro", "", "a\n@@{% macro m() %}\nabc"),
        one("syn_wrong_end", "", "a\n{% for a in x %}\n@@{% endif %}"),
        one("syn_endblock_name", "", "a\n{% block b %}\n@@{% endblock c %}"),
        one("syn_dup_block", "", "{% block b %}{% endblock %}\n@@{% block b %}{% endblock %}"),
        one("syn_bad_filter", "", "a\n@@{{ x | }}"),
        one("syn_bad_filter2", "", "a\n@@{{ x |\n 42 }}"),
        one("syn_bad_test", "", "a\n@@{{ x is 42 }}"),
        one("syn_number_underscore", "", "a\nä@@{{ 1_ }}"),
        one("syn_number_underscore_nl", "", "a\n@@{{ 1_\n}}"),
        one("syn_number_too_large", "", "a\n@@{{ 99999999999999999999999999999999999999999 }}"),
        one("syn_bad_float", "", "a\n@@{{ 1e }}"),
        one("syn_bad_escape", "", "a\n@@{{ 'a\\xzz' }}"),
        one("syn_unbalanced_paren", "", "a\n@@{{ (1 + 2 }}"),
        one("syn_close_paren", "", "a\n@@{{ 1 + 2) }}"),
        one("syn_ml_expr", "", "a\n@@{{ 1 +\n €"),
        one("syn_ml_expr2", "", "a\n@@{{ [1,\n 2,\n 3 4] }}"),
        one("syn_for_missing_in", "", "a\n@@{% for a lst %}{% endfor %}"),
        one("syn_set_missing_eq", "", "a\n@@{% set a 1 %}"),
        one("syn_reserved", "", "a\n@@{% set true = 1 %}"),
        one("syn_break_outside", "", "a\n@@{% break %}"),
        one("syn_macro_dup_arg", "", "a\n@@{% macro m(a=1, b) %}{% endmacro %}"),
        one("syn_call_kwarg_order", "", "a\n@@{{ f(a=1, 2) }}"),
        one("syn_extra_tokens", "", "a\n@@{% endfor foo %}"),
        one("syn_trailing_data_mb", "", "a\n@@{% if x %}ä€𝄞"),
        one("syn_crlf", "", "a\r\nb\r\n@@{{ ? }}\r\n"),
    ];
    for c in syn.iter_mut() {
        c.class = "syntax";
    }
    v.extend(syn);
    v
}

/// Failing instructions that the code generator emits WITHOUT a span of their own (they rely on
/// `current_line`), planted in every span-stack context and with every kind of sub-expression in
/// the tag.  (site, statement text with EXPR placeholder, flags, only-config)
const SPANLESS_SITES: &[(&str, &str, &str, &str)] = &[
    // PushAutoEscape: "invalid value to autoescape tag"
    ("autoescape", "@@{% autoescape EXPR %}zz{% endautoescape %}", "", ""),
    ("autoescape_ml", "@@{% autoescape\n   EXPR\n%}zz{% endautoescape %}", "", ""),
    // Emit of a filter block whose filter returns undefined (strict)
    ("filter_emit", "@@{% filter undef2(UEXPR) %}zz{% endfilter %}$$", "s", ""),
    // JumpIfFalse of a conditional expression outside of an emit (strict: undefined condition)
    ("ifexpr_jump", "@@{% set q = 1 if UEXPR else 2 %}", "s", ""),
    // Not on an undefined value (strict)
    ("not_op", "@@{% set q = not UEXPR %}", "s", ""),
    // Emit of a call block: the macro returns a string the failing formatter refuses
    ("callblock_emit", "@@{% call(u) refu(EXPR) %}zz{% endcall %}$$", "", "n"),
    // frame pushes without span (fail under the recursion limit of configuration r)
    ("with_push", "@@{% with q = EXPR %}zz{% endwith %}$$", "", "r"),
    ("import_push", "@@{% import \"splib\" as spl %}", "", "r"),
    ("from_import_push", "@@{% from \"splib\" import spm %}", "", "r"),
];

/// sub-expressions evaluating to the invalid mode "bogus" / to undefined, one of every kind
const EXPR_KINDS: &[(&str, &str, &str)] = &[
    ("var", "bad", "missing"),
    ("attr", "cfg.mode", "d.nope"),
    ("item", "cfg[\"mode\"]", "d[\"nope\"]"),
    ("filter", "bad|lower", "x|undef"),
    ("call", "mkbad()", "mkundef()"),
    ("test_cond", "(\"bogus\" if x is defined else \"html\")", "(missing if x is defined else 1)"),
    ("cond", "(bad if x else \"html\")", "(d.nope if x else 1)"),
    ("concat", "bad ~ \"\"", "d.nope or missing"),
    ("slice", "bad[0:5]", "lst[7]"),
];

/// span-stack contexts: (name, main template with STMT on its own line(s), other templates).
/// `PRE` defines the helper macro; the statement never shares a line with the surrounding construct.
const SPAN_CONTEXTS: &[(&str, &str, &str)] = &[
    ("top", "PRE\nline\n{{ x }}\n^^STMT\nend", ""),
    ("callbody", "PRE\n{% macro m() %}[{{ caller() }}]{% endmacro %}\n{% call m() %}\n  a\n^^STMT\n{% endcall %}", ""),
    ("callbody_args", "PRE\n{% macro m(a, b=1) %}[{{ caller() }}]{% endmacro %}\n{% call m(x, b=lst[0]) %}\n\n^^STMT\n{% endcall %}", ""),
    ("after_ns", "PRE\n{% set ns = namespace() %}\n{% set ns.mode = 1 %}\ntext\n\n^^STMT\nend", ""),
    ("after_ns_in_for", "PRE\n{% set ns = namespace() %}\n{% for a in [1] %}\n{% set ns.mode = a %}\ntext\n^^STMT\n{% endfor %}", ""),
    ("macro", "PRE\n{% macro w() %}\n a\n^^STMT\n{% endmacro %}\nx\n{{ w() }}", ""),
    ("macro_ns", "PRE\n{% macro w() %}\n{% set ns = namespace() %}{% set ns.k = 2 %}\n a\n^^STMT\n{% endmacro %}\nx\n{{ w() }}", ""),
    ("filterblock", "PRE\n{% filter upper %}\nabc\n^^STMT\n{% endfilter %}", ""),
    ("setblock", "PRE\n{% set cap %}\nabc\n^^STMT\n{% endset %}", ""),
    ("for", "PRE\n{% for a in lst %}\n{{ a }}\n^^STMT\n{% endfor %}", ""),
    ("for_filter", "PRE\n{% for a in lst if a > 0 %}\n{{ a }}\n^^STMT\n{% endfor %}", ""),
    ("if", "PRE\n{% if x %}\nyes\n^^STMT\n{% endif %}", ""),
    ("else", "PRE\n{% if not x %}\n{% else %}\nno\n^^STMT\n{% endif %}", ""),
    ("with", "PRE\n{% with q = 1 %}\n{{ q }}\n^^STMT\n{% endwith %}", ""),
    ("autoescape", "PRE\n{% autoescape true %}\nabc\n^^STMT\n{% endautoescape %}", ""),
    ("block", "PRE\n{% block b %}\nabc\n^^STMT\n{% endblock %}", ""),
    ("child_block", "{% extends \"spbase\" %}\nPRE\n{% block b %}\nabc\n^^STMT\n{% endblock %}", ""),
    ("include", "i1\nPRE\n^^STMT\ni3", "a\n{% include \"THIS\" %}\nb"),
    ("after_print", "PRE\n{{ d.a }} {{ lst[0] }} {{ x|string }}\n{{ mkbad() }}\n^^STMT", ""),
    ("macro_imported", "PRE\n{% macro w() %}\n a\n^^STMT\n{% endmacro %}", "{% import \"THIS\" as lb %}\nx\n\n{{ lb.w() }}"),
];

/// One construct per fallible row of `eval_impl` (table C14_VM_ROWS): (site id, statement, flags).
/// lib/props/c14.py maps every table row to the sites that make exactly that row fail.
const ROW_SITES: &[(&str, &str, &str)] = &[
    ("emit_undef", "@@{{ missing }}", "s"),
    ("lookup_invalid", "@@{{ inv }}", ""),
    ("getattr_invalid", "@@{{ holder.inv }}", ""),
    ("getattr_undef", "@@{{ missing.attr }}", ""),
    ("setattr_bad", "@@{% set x.attr = 1 %}", ""),
    ("getitem_invalid", "@@{{ holder[\"inv\"] }}", ""),
    ("getitem_undef", "@@{{ missing[0] }}", ""),
    ("slice_undef", "@@{{ missing[1:2] }}", "s"),
    ("slice_zero", "@@{{ lst[::n] }}", ""),
    ("mergekwargs", "@@{{ dict(**x) }}", ""),
    ("unpacklist", "@@{% set ua, ub = x %}", ""),
    ("unpacklist_arity", "@@{% set ua, ub = lst %}", ""),
    ("unpacklists", "@@{{ range(*x) }}", ""),
    ("add", "@@{{ 1 + s }}", ""),
    ("sub", "@@{{ 1 - s }}", ""),
    ("mul", "@@{{ s * s }}", ""),
    ("mul_overflow", "@@{{ big * big * big * big }}", ""),
    ("div", "@@{{ 1 / s }}", ""),
    ("div_zero", "@@{{ 1 / n }}", ""),
    ("intdiv_zero", "@@{{ 1 // n }}", ""),
    ("rem_zero", "@@{{ 1 % n }}", ""),
    ("pow", "@@{{ s ** 2 }}", ""),
    ("eq_undef", "@@{{ missing == 1 }}", "s"),
    ("ne_undef", "@@{{ 1 != missing }}", "s"),
    ("gt_undef", "@@{{ missing > 1 }}", "s"),
    ("gte_undef", "@@{{ 1 >= missing }}", "s"),
    ("lt_undef", "@@{{ missing < 1 }}", "s"),
    ("lte_undef", "@@{{ 1 <= missing }}", "s"),
    ("not_undef", "@@{{ not missing }}", "s"),
    ("concat_left", "@@{{ missing ~ 1 }}", "s"),
    ("concat_right", "@@{{ 1 ~ missing }}", "s"),
    ("in_iterable", "@@{{ 1 in missing }}", "s"),
    ("in_undef", "@@{{ missing in lst }}", "s"),
    ("in_contains", "@@{{ 1 in 2 }}", ""),
    ("notin_contains", "@@{{ 1 not in 2 }}", ""),
    ("cap_eq_a", "@@{{ missing == 1 == 1 }}", "s"),
    ("cap_eq_b", "@@{{ 1 == missing == 1 }}", "s"),
    ("cap_ne_a", "@@{{ missing != 1 == true }}", "s"),
    ("cap_ne_b", "@@{{ 1 != missing == true }}", "s"),
    ("cap_lt_a", "@@{{ missing < 1 < 2 }}", "s"),
    ("cap_lt_b", "@@{{ 0 < missing < 2 }}", "s"),
    ("cap_lte_a", "@@{{ missing <= 1 <= 2 }}", "s"),
    ("cap_lte_b", "@@{{ 0 <= missing <= 2 }}", "s"),
    ("cap_gt_a", "@@{{ missing > 1 > 0 }}", "s"),
    ("cap_gt_b", "@@{{ 2 > missing > 0 }}", "s"),
    ("cap_gte_a", "@@{{ missing >= 1 >= 0 }}", "s"),
    ("cap_gte_b", "@@{{ 2 >= missing >= 0 }}", "s"),
    ("cap_in_iterable", "@@{{ 1 in missing == true }}", "s"),
    ("cap_in_undef", "@@{{ missing in lst == true }}", "s"),
    ("cap_in_contains", "@@{{ 1 in 2 == true }}", ""),
    ("cap_notin_contains", "@@{{ 1 not in 2 == true }}", ""),
    ("cap_in_contains_mid", "@@{{ 0 < 1 in 2 < 3 }}", ""),
    ("neg", "@@{{ -s }}", ""),
    ("pushloop", "@@{% for fa in x %}{% endfor %}", ""),
    ("iterate_invalid", "@@{% for fa in invlist %}{{ 1 }}{% endfor %}", ""),
    ("jump_if_false", "@@{% if missing %}{% endif %}", "s"),
    ("jump_if_false_or_pop", "@@{{ missing and 1 }}", "s"),
    ("jump_if_true_or_pop", "@@{{ missing or 1 }}", "s"),
    ("autoescape", "@@{% autoescape bad %}{% endautoescape %}", ""),
    ("filter_unknown", "@@{{ x|bogus }}", ""),
    ("filter_fails", "@@{{ x|boomf }}", ""),
    ("test_unknown", "@@{{ x is bogus }}", ""),
    ("test_fails", "@@{{ x is boomt }}", ""),
    ("fn_loop_args", "{% for fa in lst %}@@{{ loop(1, 2) }}{% endfor %}", ""),
    ("fn_loop_recurse", "{% for fa in lst %}@@{{ loop(fa) ~ \"\" }}{% endfor %}", ""),
    ("fn_fails", "@@{{ boom() }}", ""),
    ("fn_unknown", "@@{{ bogus() }}", ""),
    ("fn_not_callable", "@@{{ x() }}", ""),
    ("method_unknown", "@@{{ s.bogus() }}", ""),
    ("callobject", "@@{{ lst[0]() }}", ""),
    ("fastrecurse_nonrecursive", "{% for fa in lst %}@@{{ loop(fa) }}{% endfor %}", ""),
    ("include_nonstring", "@@{% include 42 %}", ""),
    ("include_missing", "@@{% include \"nosuchtemplate\" %}", ""),
    ("import_nonstring", "@@{% import 42 as zz %}", ""),
    ("from_import_missing", "@@{% from \"nosuchtemplate\" import zz %}", ""),
];

/// API entry points other than `render`: the site inside a block that only `State::render_block`
/// reaches (flag B) / inside a macro that only `State::call_macro` reaches (flag M)
const ROW_ENTRY_CONTEXTS: &[(&str, &str, &str)] = &[
    ("entryblock", "PRE\n{% if false %}{% block b %}\nabc\n^^STMT\n{% endblock %}{% endif %}\nend", "B"),
    ("entrymacro", "PRE\n{% macro m() %}\n a\n^^STMT\n{% endmacro %}\nend", "M"),
];

/// the contexts the row sites are planted in
const ROW_CONTEXTS: &[&str] = &["top", "macro_imported", "child_block", "include", "callbody", "for", "setblock", "macro"];

fn row_cases(tier: &str) -> Vec<Case> {
    let mut out = Vec::new();
    for (si, (site, stmt, flags)) in ROW_SITES.iter().enumerate() {
        for (ci, (ctx, wrapper, includer)) in SPAN_CONTEXTS.iter().enumerate() {
            if !ROW_CONTEXTS.contains(ctx) {
                continue;
            }
            // quick tier: top, imported macro and child block always; the other contexts rotate
            if tier != "thorough" && !matches!(*ctx, "top" | "macro_imported" | "child_block") && (si + ci) % 3 != 0 {
                continue;
            }
            let text = wrapper.replace("PRE", SP_PRELUDE).replace("STMT", stmt);
            let mut templates = vec![
                ("spbase".to_string(), "b1\n{% block b %}{% endblock %}\nb3".to_string()),
                ("splib".to_string(), "{% macro spm() %}m{% endmacro %}".to_string()),
            ];
            let (main, shifted) = if includer.is_empty() {
                templates.push(("main".to_string(), text));
                ("main", "main")
            } else {
                templates.push(("spinc".to_string(), text));
                templates.push(("main".to_string(), includer.replace("THIS", "spinc")));
                ("main", "spinc")
            };
            out.push(Case {
                id: format!("row_{}__{}", site, ctx),
                templates,
                main: main.to_string(),
                shifted: shifted.to_string(),
                flags: flags.to_string(),
                class: "runtime",
            });
        }
        // entry points render_block / call_macro
        for (ei, (ctx, wrapper, eflag)) in ROW_ENTRY_CONTEXTS.iter().enumerate() {
            if tier != "thorough" && (si + ei) % 2 != 0 {
                continue;
            }
            let text = wrapper.replace("PRE", SP_PRELUDE).replace("STMT", stmt);
            out.push(Case {
                id: format!("row_{}__{}", site, ctx),
                templates: vec![
                    ("splib".to_string(), "{% macro spm() %}m{% endmacro %}".to_string()),
                    ("main".to_string(), text),
                ],
                main: "main".to_string(),
                shifted: "main".to_string(),
                flags: format!("{}{}", flags, eflag),
                class: "runtime",
            });
        }
        // entry point Environment::compile_expression + Expression::eval
        if let Some(x) = stmt.strip_prefix("@@{{ ").and_then(|x| x.strip_suffix(" }}")) {
            out.push(Case {
                id: format!("row_{}__expression", site),
                templates: vec![("<expression>".to_string(), format!("@@{}", x))],
                main: "<expression>".to_string(),
                shifted: "<expression>".to_string(),
                flags: format!("e{}", flags),
                class: "runtime",
            });
        }
    }
    out
}

const SP_PRELUDE: &str = "{% macro refu(v) %}REFU{{ \"SED\" }}{% if false %}{{ caller(1) }}{% endif %}{% endmacro %}";
/// contexts that open no frame of their own (reachable under the recursion limit of configuration r)
const FRAMELESS_CONTEXTS: &[&str] = &["top", "after_ns", "filterblock", "setblock", "if", "else", "autoescape", "after_print"];

fn spanless_cases(tier: &str) -> Vec<Case> {
    let mut out = Vec::new();
    for (si, (site, stmt, flags, only)) in SPANLESS_SITES.iter().enumerate() {
        for (ci, (ctx, wrapper, includer)) in SPAN_CONTEXTS.iter().enumerate() {
            if *only == "r" && !FRAMELESS_CONTEXTS.contains(ctx) {
                continue;
            }
            for (ki, (kind, e, u)) in EXPR_KINDS.iter().enumerate() {
                let uses_expr = stmt.contains("EXPR");
                if !uses_expr && ki > 0 {
                    continue;
                }
                // quick tier: every site x context, the kinds rotate; every kind in the main contexts of
                // the autoescape site
                if tier != "thorough" && uses_expr && !(ki == (si + ci) % EXPR_KINDS.len() || (si == 0 && ci < 4)) {
                    continue;
                }
                let st = stmt.replace("UEXPR", u).replace("EXPR", e);
                let text = wrapper.replace("PRE", SP_PRELUDE).replace("STMT", &st);
                let mut templates = vec![
                    ("spbase".to_string(), "b1\n{% block b %}{% endblock %}\nb3".to_string()),
                    ("splib".to_string(), "{% macro spm() %}m{% endmacro %}".to_string()),
                ];
                let (main, shifted) = if includer.is_empty() {
                    templates.push(("main".to_string(), text));
                    ("main", "main")
                } else {
                    templates.push(("spinc".to_string(), text));
                    templates.push(("main".to_string(), includer.replace("THIS", "spinc")));
                    ("main", "spinc")
                };
                out.push(Case {
                    id: format!("sl_{}_{}_{}", site, ctx, if uses_expr { kind } else { "-" }),
                    templates,
                    main: main.to_string(),
                    shifted: shifted.to_string(),
                    flags: flags.to_string(),
                    class: "runtime",
                });
            }
        }
    }
    out
}

/// Failing expressions inside a tag with a slot `§` at every place where white space may be inserted:
/// after the opening delimiter, between sub-expressions, before the closing delimiter.  `@@ … $$`
/// brackets the failing operation INCLUDING its operands / arguments.  Rule checked: the reported
/// line lies within the lines of that operation; line breaks inserted before its first token shift
/// the report (and the range) by exactly their number, those after its last token by 0.
const INNER_SITES: &[(&str, &str, &str)] = &[
    ("add", "", "{{§ @@1§ +§ s$$§ }}"),
    ("filter", "", "{{§ @@x§ |§ bogus$$§ }}"),
    ("filter_chain", "", "{{§ @@x§ |§ string§ |§ bogus$$§ |§ upper§ }}"),
    ("filter_args", "", "{{§ @@s§ |§ replace§ (§ 1§ )$$§ }}"),
    ("call", "", "{{§ @@bogus§ (§ 1§ ,§ 2§ )$$§ }}"),
    ("call_kwargs", "", "{{§ @@boom§ (§ a§ =§ 1§ )$$§ }}"),
    ("method", "", "{{§ @@s.bogus§ (§ )$$§ }}"),
    ("test", "", "{{§ @@x§ is§ bogus$$§ }}"),
    ("getattr_strict", "s", "{{§ @@d.nope§ .deeper$$§ }}"),
    ("getitem", "", "{{§ @@missing§ [§ 0§ ]$$§ }}"),
    ("compare_chain", "", "{{§ @@0§ <§ 1§ in§ 2§ <§ 3$$§ }}"),
    ("in", "", "{{§ @@1§ in§ 2$$§ }}"),
    ("neg", "", "{{§ @@-§ s$$§ }}"),
    ("arg_of_macro", "", "{{§ m(§ @@1§ +§ s$$§ ,§ 2§ )§ }}"),
    ("list_item", "", "{{§ [§ 1§ ,§ @@2§ +§ s$$§ ,§ 3§ ]§ }}"),
    ("ternary_cond", "", "{{§ 1§ if§ @@1§ +§ s$$§ else§ 2§ }}"),
    ("self_block_unknown", "", "{{§ @@self.nope§ (§ )$$§ }}"),
    ("self_block_required", "", "{{§ @@self.rq§ (§ )$$§ }}"),
    ("self_block_in_expr", "", "{{§ @@self.nope§ (§ )$$§ ~§ 1§ }}"),
    ("super_fast", "", "{{§ @@super§ (§ )$$§ }}"),
    ("super_in_expr", "", "{{§ @@super§ (§ )$$§ ~§ 1§ }}"),
    ("loop_fast", "", "{{§ @@loop§ (§ fa§ )$$§ }}"),
    ("loop_in_expr", "", "{{§ @@loop§ (§ fa§ )$$§ ~§ 1§ }}"),
    ("include_nonstring", "", "{%§ @@include§ 42$$§ %}"),
    ("include_missing", "", "{%§ @@include§ \"nosuch\"$$§ %}"),
    ("extends_nonstring", "", "{%§ @@extends§ 42$$§ %}"),
    ("extends_missing", "", "{%§ @@extends§ \"nosuch\"$$§ %}"),
    ("import_nonstring", "", "{%§ @@import§ 42§ as§ zz$$§ %}"),
    ("from_import_missing", "", "{%§ @@from§ \"nosuch\"§ import§ zz$$§ %}"),
    ("autoescape", "", "{%§ @@autoescape§ bad$$§ %}zz{% endautoescape %}"),
    ("for_noniterable", "", "{%§ @@for§ fa§ in§ x$$§ %}{% endfor %}"),
    ("set_unpack", "", "{%§ @@set§ ua§ ,§ ub§ =§ x$$§ %}"),
    ("if_strict", "s", "{%§ @@if§ missing$$§ %}{% endif %}"),
    ("with_expr", "", "{%§ with§ q§ =§ @@1§ +§ s$$§ %}{% endwith %}"),
    ("filter_block", "", "{%§ @@filter§ bogus$$§ %}zz{% endfilter %}"),
    ("call_block", "", "{%§ @@call§ bogus§ (§ )$$§ %}zz{% endcall %}"),
    ("call_block_ml", "", "{%§ @@call§ bogus§ (§ )$$§ %}z\nz{{ x }}\n{% endcall %}"),
    ("call_block_args", "", "{%§ @@call§ (§ u§ )§ bogus§ (§ 1§ ,§ k§ =§ x§ )$$§ %}\nz{{ u }}\n{% endcall %}"),
    ("block_required", "", "{%§ @@block§ rq2§ required$$§ %}{% endblock %}"),
];

fn inner_cases(tier: &str) -> Vec<Case> {
    let mut out = Vec::new();
    for (site, flags, text) in INNER_SITES {
        let nslots = text.matches('§').count();
        for j in 0..nslots {
            // quick tier: the slot after the opening delimiter, the one before the closing delimiter and
            // every second one in between
            if tier != "thorough" && !(j == 0 || j + 1 == nslots || j % 2 == 1) {
                continue;
            }
            let mut k = 0;
            let mut marked = String::new();
            for ch in text.chars() {
                if ch == '§' {
                    if k == j {
                        marked.push_str("^^");
                    }
                    k += 1;
                } else {
                    marked.push(ch);
                }
            }
            let surround = match *site {
                "super_fast" | "super_in_expr" => format!("a\n{{% block b %}}\nx {}\n{{% endblock %}}", marked),
                "loop_fast" | "loop_in_expr" => format!("a\n{{% for fa in lst %}}\nx {}\n{{% endfor %}}", marked),
                "self_block_required" => format!("{{% if false %}}{{% block rq required %}}{{% endblock %}}{{% endif %}}\nx {}\nb", marked),
                "arg_of_macro" => format!("{{% macro m(a, b) %}}{{{{ a }}}}{{% endmacro %}}\nx {}\nb", marked),
                _ => format!("a\nx {}\nb", marked),
            };
            out.push(Case {
                id: format!("inn_{}_{}", site, j),
                templates: vec![("main".to_string(), surround)],
                main: "main".to_string(),
                shifted: "main".to_string(),
                flags: format!("i{}", flags),
                class: "runtime",
            });
        }
    }
    out
}

/// empty / degenerate constructs: whatever they do (parse error, run-time error, nothing), every span
/// involved has to be a well-formed slice
fn degenerate_cases() -> Vec<Case> {
    let mut v = Vec::new();
    for (id, text) in [
        ("for_empty_target", "a\n@@{% for in [1] %}x{% endfor %}"),
        ("for_empty_target_ctx", "a\n@@{% for in lst %}x{{ 1 + s }}{% endfor %}"),
        ("for_trailing_comma", "a\n@@{% for fa, in [1] %}x{% endfor %}"),
        ("for_empty_tuple", "a\n@@{% for () in [1] %}x{% endfor %}"),
        ("for_empty_iter", "a\n@@{% for fa in %}x{% endfor %}"),
        ("set_empty_target", "a\n@@{% set = 1 %}"),
        ("set_empty_tuple", "a\n@@{% set () = 1 %}"),
        ("set_paren_target", "a\n@@{% set (ua, ub) = 1 %}"),
        ("set_empty_value", "a\n@@{% set q = %}"),
        ("set_block_empty", "a\n@@{% set q %}{% endset %}{{ q + 1 }}"),
        ("with_empty", "a\n@@{% with %}{{ 1 + s }}{% endwith %}"),
        ("with_empty_target", "a\n@@{% with = 1 %}{% endwith %}"),
        ("empty_tuple_op", "a\n@@{{ () + 1 }}"),
        ("empty_tuple_filter", "a\n@@{{ ()|bogus }}"),
        ("empty_list_op", "a\n@@{{ [] + s }}"),
        ("empty_map_op", "a\n@@{{ {} + 1 }}"),
        ("empty_call_args", "a\n@@{{ bogus( ) }}"),
        ("empty_filter_args", "a\n@@{{ x|bogus() }}"),
        ("empty_test_args", "a\n@@{{ x is bogus() }}"),
        ("empty_subscript", "a\n@@{{ lst[] }}"),
        ("empty_slice", "a\n@@{{ lst[:]|bogus }}"),
        ("empty_slice_colons", "a\n@@{{ lst[::]|bogus }}"),
        ("empty_variable_tag", "a\n@@{{ }}"),
        ("empty_block_tag", "a\n@@{% %}"),
        ("empty_block_body", "a\n{% block b %}{% endblock %}@@{{ self.nope() }}"),
        ("empty_macro", "{% macro m() %}{% endmacro %}\n@@{{ m(1) }}"),
        ("empty_macro_args_default", "a\n@@{% macro m(a=) %}{% endmacro %}{{ m() }}"),
        ("empty_call_block", "{% macro m() %}{{ caller() }}{% endmacro %}\n@@{% call m() %}{% endcall %}{{ 1 + s }}"),
        ("empty_call_block_args", "{% macro m() %}{{ caller() }}{% endmacro %}\n@@{% call() m() %}{{ bogus() }}{% endcall %}"),
        ("empty_filter_block", "a\n@@{% filter bogus %}{% endfilter %}"),
        ("empty_if", "a\n@@{% if %}{% endif %}"),
        ("empty_if_body", "a\n@@{% if 1 + s %}{% endif %}"),
        ("empty_include", "a\n@@{% include %}"),
        ("empty_include_list", "a\n@@{% include [] %}"),
        ("empty_extends", "a\n@@{% extends %}"),
        ("empty_import_names", "a\n@@{% from \"nosuch\" import %}"),
        ("empty_autoescape", "a\n@@{% autoescape %}{% endautoescape %}"),
        ("empty_do", "a\n@@{% do %}"),
        ("empty_raw", "a\n{% raw %}{% endraw %}@@{{ 1 + s }}"),
        ("empty_comment", "a\n{##}@@{{ 1 + s }}"),
        ("empty_string_ops", "a\n@@{{ '' + 1 }}"),
        ("unpack_empty_list", "a\n@@{% set ua, ub = [] %}"),
        ("unpack_nested_empty", "a\n@@{% for (fa, ()), fb in [[[1, []], 2]] %}{{ fa + s }}{% endfor %}"),
    ] {
        let mut c = one(&format!("deg_{}", id), "", text);
        c.class = "runtime";
        v.push(c);
    }
    v
}

/// valid templates whose every line starts in data state; syntax errors are planted at every
/// token position of these
const BASES: &[&str] = &[
    "hello {{ name }}!\nbye {{ x + 1 }}\n",
    "ä€ {{ x|upper }} 𝄞\n{% if x %}yes{% else %}no{% endif %}\nend",
    "{% for a in lst %}\n  <{{ a }}>{{ loop.index }}\n{% endfor %}\n",
    "{% macro m(a, b=2) %}{{ a ~ b }}{% endmacro %}\n{{ m(1) }}\n{{ m(1, b=3) }}",
    "{% set q = [1, 2, {'k': 'v€'}] %}\n{{ q[2].k }} {{ q[0:2] }} {{ 'a' if x else 'b' }}",
    "{% block b %}inner {{ x }}{% endblock %}\n{% with a = 1, b = 2 %}{{ a + b }}{% endwith %}",
    "a{# comment ä #}b\n{% raw %}{{ raw }}{% endraw %}\n{{ x is defined and x is not none }}",
    "{% filter upper %}text {{ x }}{% endfilter %}\n{% set z %}cap{% endset %}{{ z }}",
    "{{ 1.5e3 + 0x1f - 1_000 * (2 // 3) % 4 ** 2 }}\n{{ not x or x in [1] and -x < +x <= 3 != 4 }}",
    "{% call(u) m() %}{{ u }}{% endcall %}\n{% autoescape false %}{{ s }}{% endautoescape %}",
    "{% include 'inc' ignore missing %}\n{% from 'lib' import m as n, o %}\n{{ \"dq\\n\" ~ 'sq' }}",
    "{%- if x -%} t {%- elif y -%} u {%- endif -%}\n{{- x -}}\n",
    "{% for k, v in d|items if v recursive %}{{ k }}{% else %}e{% endfor %}\r\nline\r\n{{ x }}",
];

const BAD_IN_TAG: &[&str] = &["?", "'abc", "\"ä", "€", "1_ ", ")", "𝄞", "|"];
const BAD_IN_DATA: &[&str] = &[
    "{% bogus %}", "{{ € }}", "{# unclosed ä", "{% raw %}unclosed€", "{% endfor %}", "{{ 'ä", "{{ x | }}",
    "{{", "{% if x %}", "{{ 1 + }}",
];

fn planted_cases(tier: &str, rng: &mut Rng) -> Vec<Case> {
    let mut out = Vec::new();
    // the fixed base templates, and a few valid templates drawn from the grammar (a sample of the positions)
    let mut bases: Vec<String> = BASES.iter().map(|s| s.to_string()).collect();
    let n_fixed = bases.len();
    let (gt, _) = grammar_sources(rng, if tier == "quick" { 30 } else { 200 });
    let want = if tier == "quick" { 8 } else { 40 };
    for t in gt {
        // (no white-space control markers: text inserted in front of a trimming tag changes what the tag strips)
        if ["{%-", "-%}", "{{-", "-}}", "{#-", "-#}"].iter().any(|m| t.contains(m)) {
            continue;
        }
        if bases.len() - n_fixed >= want || t.len() >= 400 || machinery::parse(&t, "main", SyntaxConfig::default(), WhitespaceConfig::default()).is_err() {
            continue;
        }
        // every line break has to lie in template data (the horizontal insertion point is the start of a line)
        let data: Vec<(usize, usize)> = machinery::tokenize(&t, false, SyntaxConfig::default(), WhitespaceConfig::default())
            .filter_map(|x| x.ok())
            .filter(|(tok, _)| matches!(tok, machinery::Token::TemplateData(_)))
            .map(|(_, sp)| (sp.start_offset as usize, sp.end_offset as usize))
            .collect();
        if t.bytes().enumerate().all(|(o, b)| b != b'\n' || data.iter().any(|(a, e)| *a <= o && o < *e)) {
            bases.push(t);
        }
    }
    for (bi, base) in bases.iter().enumerate() {
        let base: &str = base;
        let toks: Vec<(bool, Span)> = machinery::tokenize(base, false, SyntaxConfig::default(), WhitespaceConfig::default())
            .map(|t| {
                let (tok, span) = t.expect("base template must tokenize");
                (matches!(tok, machinery::Token::TemplateData(_)), span)
            })
            .collect();
        // sanity: every line start lies in data state
        let mut positions: Vec<(usize, String, &'static str)> = Vec::new(); // (offset, inserted text, kind)
        for (ti, (is_data, span)) in toks.iter().enumerate() {
            let s = span.start_offset as usize;
            let e = span.end_offset as usize;
            positions.push((e, String::new(), "trunc"));
            if *is_data {
                for off in [s, e] {
                    let pick = if tier == "quick" { 3 } else { BAD_IN_DATA.len() };
                    let start = rng.below(BAD_IN_DATA.len() as u64) as usize;
                    for j in 0..pick {
                        positions.push((off, BAD_IN_DATA[(start + j) % BAD_IN_DATA.len()].to_string(), "data"));
                    }
                }
            } else {
                let pick = if tier == "quick" { 2 } else { BAD_IN_TAG.len() };
                let start = rng.below(BAD_IN_TAG.len() as u64) as usize;
                for j in 0..pick {
                    positions.push((s, format!("{} ", BAD_IN_TAG[(start + j) % BAD_IN_TAG.len()]), "tag"));
                }
                // inside the token (between its first and second character) when it is longer
                if e > s + 1 && base.is_char_boundary(s + 1) {
                    positions.push((s + 1, BAD_IN_TAG[ti % BAD_IN_TAG.len()].to_string(), "intok"));
                }
            }
        }
        positions.sort();
        positions.dedup();
        if bi >= n_fixed {
            // grammar-drawn base: a sample of 14 positions
            let mut keep = Vec::new();
            for _ in 0..14 {
                if !positions.is_empty() {
                    keep.push(positions.swap_remove(rng.below(positions.len() as u64) as usize));
                }
            }
            keep.sort();
            positions = keep;
        }
        for (pi, (off, ins, kind)) in positions.iter().enumerate() {
            let text = if *kind == "trunc" {
                base[..*off].to_string()
            } else {
                format!("{}{}{}", &base[..*off], ins, &base[*off..])
            };
            // H marker at the start of the line of the planted position
            // (not on the empty last line after a trailing newline: the tokenizer drops one trailing
            // newline, so text inserted there would change more than the position)
            let eff = if *off == text.len() && text.ends_with('\n') { *off - 1 } else { *off };
            let ls = text[..eff].rfind('\n').map(|p| p + 1).unwrap_or(0);
            let marked = format!("{}@@{}", &text[..ls], &text[ls..]);
            out.push(Case {
                id: format!("plant_{}_{}_{}", bi, pi, kind),
                templates: vec![("main".into(), marked)],
                main: "main".into(),
                shifted: "main".into(),
                flags: String::new(),
                class: "planted",
            });
        }
    }
    out
}

fn boom() -> Result<Value, Error> {
    Err(Error::new(ErrorKind::InvalidOperation, "boom"))
}
fn boom_src() -> Result<Value, Error> {
    Err(Error::new(ErrorKind::InvalidOperation, "boom with source")
        .with_source(std::io::Error::new(std::io::ErrorKind::Other, "io")))
}
fn boomf(_v: Value) -> Result<Value, Error> {
    Err(Error::new(ErrorKind::InvalidOperation, "boom filter"))
}
fn boomt(_v: Value) -> Result<bool, Error> {
    Err(Error::new(ErrorKind::InvalidOperation, "boom test"))
}

const V_SHIFTS: &[(usize, &str)] = &[(0, ""), (1, "\n"), (2, "xé\n"), (7, "\r\n"), (300, "€\n"), (usize::MAX, "\n"), (70000, "\n")];
const H_SHIFTS: &[&str] = &["", "x", "ä€𝄞", "L"];

struct Built {
    sources: Vec<(String, Src)>,
    pv: usize,
    ph: usize,
    vline: usize,
    n: usize,
    vbytes: usize,
    hbytes: usize,
    /// 1-based line of the `@@` marker in the unshifted text and the number of further lines the
    /// marked construct (the tag that follows the marker) extends over
    mline: usize,
    mext: usize,
    /// inner cases: end of the failing construct in the unshifted text (else -1)
    pe: i64,
}

/// removes the markers `^^` (vertical insertion point), `@@` (start of the failing construct =
/// horizontal insertion point) and `$$` (end of the failing construct); positions in the plain text
fn strip_markers(text: &str) -> (String, Option<usize>, usize, Option<usize>) {
    let mut plain = String::new();
    let (mut pv, mut ph, mut pe) = (None, None, None);
    let mut i = 0;
    while i < text.len() {
        let rest = &text[i..];
        if rest.starts_with("^^") {
            pv = Some(plain.len());
            i += 2;
        } else if rest.starts_with("@@") {
            ph = Some(plain.len());
            i += 2;
        } else if rest.starts_with("$$") {
            pe = Some(plain.len());
            i += 2;
        } else {
            let ch = rest.chars().next().unwrap();
            plain.push(ch);
            i += ch.len_utf8();
        }
    }
    (plain, pv, ph.expect("case needs an @@ marker"), pe)
}

/// vertical variants from this index on are the layouts of `explode` (every / even / odd token gaps)
const EXPLODED_FIRST: usize = 7;

/// whitespace inserted INSIDE a tag (inner cases, flag i): (repetitions, unit)
const INNER_SHIFTS: &[(usize, &str)] = &[(0, ""), (1, "\n"), (2, "\n  "), (7, "\r\n"), (3, " "), (300, "\n"), (2, "\t\n")];

fn build_case(c: &Case, vi: usize, hi: usize) -> Built {
    let mut sources = Vec::new();
    let (mut pv, mut ph, mut vline, mut n, mut vbytes, mut hbytes) = (0, 0, 1, 0, 0, 0);
    let (mut mline, mut mext) = (1, 0);
    let mut pe_out: i64 = -1;
    for (name, text) in &c.templates {
        if *name != c.shifted {
            sources.push((name.clone(), Src::lit(text)));
            continue;
        }
        let (plain, a, h, cend) = strip_markers(text);
        let inner = c.flags.contains('i');
        pv = a.unwrap_or(0);
        ph = h;
        assert!(inner || pv <= ph, "vertical marker must precede the horizontal one");
        vline = 1 + plain[..pv].bytes().filter(|x| *x == b'\n').count();
        mline = 1 + plain[..ph].bytes().filter(|x| *x == b'\n').count();
        let tail = &plain[ph..];
        let tag_end = ["}}", "%}", "#}", "»", "%>", "#>"].iter().filter_map(|e| tail.find(e)).min().unwrap_or(tail.len());
        // an unclosed block extends to the end of the template
        let tag_end = if c.id.starts_with("syn_missing_") { tail.len() } else { tag_end };
        let tag_end = cend.map(|e| e - ph).unwrap_or(tag_end);
        if inner && vi < EXPLODED_FIRST {
            pe_out = (ph + tag_end) as i64;
        }
        mext = tail[..tag_end].bytes().filter(|x| *x == b'\n').count();
        if vi >= EXPLODED_FIRST {
            // a newline at every (even / odd) token gap inside the tags of the whole template: the failing
            // operation lies between the first token after the opening delimiter that follows the
            // marker and the last token before the end of the marked construct
            let is_expr = c.flags.contains('e');
            let toks_of = |t: &str| tokens_of(t, is_expr);
            if let Some((text2, map)) = explode_with(&plain, vi - EXPLODED_FIRST, &[ph, ph + tag_end], is_expr) {
                let line_at = |off: usize| 1 + text2[..off].bytes().filter(|x| *x == b'\n').count();
                let (mut a, b) = (map[0], map[1]);
                if !c.flags.contains('i') {
                    // (only the inner cases bracket the failing operation itself; elsewhere a marker inside a
                    // tag is just the horizontal insertion point: the operation starts with the tag's first token)
                    if let Some(toks) = toks_of(&text2) {
                        let mut open = 0usize;
                        let mut inside = is_expr;
                        for (k, s) in &toks {
                            if s.start_offset as usize >= a {
                                break;
                            }
                            match k.as_str() {
                                "vs" | "bs" => {
                                    inside = true;
                                    open = s.start_offset as usize;
                                }
                                "ve" | "be" => inside = false,
                                _ => {}
                            }
                        }
                        if inside {
                            a = open;
                        }
                    }
                }
                let mut lo = line_at(a);
                let mut hi = line_at(b);
                if let Some(toks) = toks_of(&text2) {
                    let inner: Vec<&(String, Span)> = toks
                        .iter()
                        .filter(|(k, s)| {
                            s.start_offset as usize >= a && s.end_offset as usize <= b && !matches!(k.as_str(), "vs" | "bs" | "ve" | "be" | "data")
                        })
                        .collect();
                    if let (Some(f), Some(l)) = (inner.first(), inner.last()) {
                        lo = f.1.start_line as usize;
                        hi = l.1.end_line as usize;
                    }
                }
                ph = a;
                pv = 0;
                vline = 1;
                mline = lo;
                mext = hi.saturating_sub(lo);
                sources.push((name.clone(), Src::lit(&text2)));
                continue;
            }
            sources.push((name.clone(), Src::lit(&plain)));
            pv = 0;
            vline = 1;
            continue;
        }
        let base_lines = 1 + plain.bytes().filter(|x| *x == b'\n').count();
        let (vn, unit) = if inner { INNER_SHIFTS[vi] } else { V_SHIFTS[vi] };
        let reps = if vn == usize::MAX { 65535 - base_lines } else { vn };
        let hunit = H_SHIFTS[hi];
        // expressions: only whitespace can be inserted
        let is_expr = c.flags.contains('e');
        let unit = if is_expr && unit != "\r\n" { "\n" } else { unit };
        let hunit = if is_expr && hunit != "L" { &"   "[..hunit.chars().count()] } else { hunit };
        n = reps * unit.bytes().filter(|x| *x == b'\n').count();
        vbytes = unit.len() * reps;
        // the two insertions in source order (the vertical one first when they coincide)
        let mut s = Src::default();
        let (first, second) = if pv <= ph { (pv, ph) } else { (ph, pv) };
        let push_v = |s: &mut Src| s.push_rep(unit, reps);
        let push_h = |s: &mut Src, hbytes: &mut usize| {
            if hunit == "L" {
                s.push_rep(if is_expr { " " } else { "x" }, 65540);
                *hbytes = 65540;
            } else {
                s.push_lit(hunit);
                *hbytes = hunit.len();
            }
        };
        s.push_lit(&plain[..first]);
        if pv <= ph {
            push_v(&mut s);
            s.push_lit(&plain[first..second]);
            push_h(&mut s, &mut hbytes);
        } else {
            push_h(&mut s, &mut hbytes);
            s.push_lit(&plain[first..second]);
            push_v(&mut s);
        }
        s.push_lit(&plain[second..]);
        sources.push((name.clone(), s));
    }
    Built { sources, pv, ph, vline, n, vbytes, hbytes, mline, mext, pe: pe_out }
}

/// environment configurations (one letter each):
///   d default (debug on)          x debug off
///   p pass-through custom formatter (`set_formatter(escape_formatter)`)
///   n custom formatter that refuses `none` and the string "REFUSED"
///   a auto-escape callback choosing a custom (unknown) format for the shifted template
///   j every template auto-escaped as JSON, u as HTML
///   k keep_trailing_newline       t trim_blocks + lstrip_blocks
///   c custom delimiters `<% %>`, `« »`, `<# #>` (the templates are rewritten accordingly)
///   s strict, m semi-strict, h chainable undefined behaviour
///   r recursion limit 1: every instruction that opens a frame (with, for, import, macro call,
///     include, block) fails right there
///   w render_captured_to (a writer) instead of render     l every template comes from a loader (lazily compiled)
///   API entry points (the main template reaches the engine through …):
///   1 Environment::render_str (name `<string>`)      2 template_from_named_str
///   3 add_template_owned                             4 render_named_str
///   5 template_from_str (name `<string>`)
const CONFIGS: &[&str] = &["d", "p", "n", "x", "a", "j", "u", "k", "t", "c", "s", "m", "h", "r", "w", "l", "1", "2", "3", "4", "5"];
const ENTRY_CFGS: &[&str] = &["1", "2", "3", "4", "5"];

fn custom_syntax_case(c: &Case) -> Case {
    let mut c2 = c.clone();
    for (_, t) in c2.templates.iter_mut() {
        *t = t
            .replace("{%", "<%")
            .replace("%}", "%>")
            .replace("{{", "«")
            .replace("}}", "»")
            .replace("{#", "<#")
            .replace("#}", "#>");
    }
    c2
}

fn run_case(c0: &Case, cfg: &str, vi: usize, hi: usize) -> String {
    let cc;
    let c = if cfg == "c" {
        cc = custom_syntax_case(c0);
        &cc
    } else {
        c0
    };
    let b = build_case(c, vi, hi);
    let texts: Vec<(String, String)> = b.sources.iter().map(|(n, s)| (n.clone(), s.build())).collect();
    // render_str / template_from_str: the main template is called `<string>`
    let anon = matches!(cfg, "1" | "5");
    let lookup = |name: &str| {
        let name = if anon && name == "<string>" { c.main.as_str() } else { name };
        texts.iter().find(|(n, _)| n == name).map(|(_, s)| s.clone())
    };
    let res = guarded(|| {
        let mut env = Environment::new();
        env.set_debug(cfg != "x");
        if c.flags.contains('s') || cfg == "s" {
            env.set_undefined_behavior(UndefinedBehavior::Strict);
        } else if cfg == "m" {
            env.set_undefined_behavior(UndefinedBehavior::SemiStrict);
        } else if cfg == "h" {
            env.set_undefined_behavior(UndefinedBehavior::Chainable);
        }
        match cfg {
            "p" => env.set_formatter(|out, state, value| minijinja::escape_formatter(out, state, value)),
            "n" => env.set_formatter(|out, state, value| {
                if value.is_none() || value.as_str() == Some("REFUSED") {
                    return Err(Error::new(ErrorKind::InvalidOperation, "refusing to print this value"));
                }
                minijinja::escape_formatter(out, state, value)
            }),
            "a" => {
                let shifted = c.shifted.clone();
                env.set_auto_escape_callback(move |name| {
                    if name == shifted {
                        minijinja::AutoEscape::Custom("weird")
                    } else {
                        minijinja::AutoEscape::None
                    }
                });
            }
            // every template auto-escaped as JSON / as HTML: every print goes through the serializer / the escaper
            "j" => env.set_auto_escape_callback(|_| minijinja::AutoEscape::Json),
            "u" => env.set_auto_escape_callback(|_| minijinja::AutoEscape::Html),
            "r" => env.set_recursion_limit(1),
            "k" => env.set_keep_trailing_newline(true),
            "t" => {
                env.set_trim_blocks(true);
                env.set_lstrip_blocks(true);
            }
            "c" => env.set_syntax(
                SyntaxConfig::builder()
                    .block_delimiters("<%", "%>")
                    .variable_delimiters("«", "»")
                    .comment_delimiters("<#", "#>")
                    .build()
                    .unwrap(),
            ),
            _ => {}
        }
        if c.flags.contains('f') {
            env.set_fuel(Some(60));
        }
        env.add_function("boom", boom);
        env.add_function("boom_src", boom_src);
        env.add_filter("boomf", boomf);
        env.add_test("boomt", boomt);
        env.add_function("render_inner", |state: &minijinja::State| -> Result<Value, Error> {
            // user code that renders another template and hands its (located) error through
            let t = state.env().get_template("inner")?;
            t.render(context! { s => "str", x => 1 }).map(Value::from)
        });
        env.add_function("wrap_inner", |state: &minijinja::State| -> Result<Value, Error> {
            let t = state.env().get_template("inner")?;
            t.render(context! { s => "str", x => 1 })
                .map(Value::from)
                .map_err(|e| Error::new(ErrorKind::InvalidOperation, "wrapped by user code").with_source(e))
        });
        env.add_filter("render_f", |state: &minijinja::State, _v: Value| -> Result<Value, Error> {
            let t = state.env().get_template("inner")?;
            t.render(context! { s => "str", x => 1 }).map(Value::from)
        });
        env.add_function("mkbad", || Value::from("bogus"));
        env.add_function("mkundef", || Value::UNDEFINED);
        env.add_filter("undef", |_v: Value| Value::UNDEFINED);
        env.add_filter("undef2", |_v: Value, _a: Value| Value::UNDEFINED);
        // the main template is added last so that the others exist; a failing add of a non-main
        // template is kept out of the environment (then the include fails as "missing")
        let mut first_err: Option<Error> = None;
        for (name, text) in &texts {
            if *name == c.main {
                continue;
            }
            if let Err(e) = env.add_template(name, text) {
                if first_err.is_none() && *name == c.shifted {
                    first_err = Some(e);
                }
            }
        }
        let lazy = c.id == "include_syntax_err" || c.flags.contains('L') || cfg == "l";
        if lazy {
            // everything (but a main template added explicitly below) is loaded lazily through a loader, so
            // syntax errors and loader failures surface while the including / extending template renders
            env = {
                let mut e2 = Environment::new();
                std::mem::swap(&mut e2, &mut env);
                e2.clear_templates();
                e2
            };
            let t2 = texts.clone();
            env.set_loader(move |name| {
                if name == "loaderfails" {
                    return Err(Error::new(ErrorKind::InvalidOperation, "the loader failed")
                        .with_source(std::io::Error::new(std::io::ErrorKind::Other, "disk on fire")));
                }
                Ok(t2.iter().find(|(n, _)| n == name).map(|(_, s)| s.clone()))
            });
            first_err = None;
        }
        if let Some(e) = first_err {
            return format!("load|{}", describe_chain(&e, &lookup));
        }
        let main_text = lookup(&c.main).unwrap();
        let inv = Value::from(Error::new(ErrorKind::BadSerialization, "this value refuses to serialize"));
        let ctx = context! { x => 1, y => 0, n => 0, s => "str", lst => vec![1, 2, 3], d => context!{ a => 1 }, name => "n", nothing => Value::from(()),
            bad => "bogus", cfg => context!{ mode => "bogus" }, big => u64::MAX,
            inv => inv.clone(), holder => Value::from(std::collections::BTreeMap::from([("inv".to_string(), inv.clone())])), invlist => Value::from(vec![inv.clone()]) };
        if c.flags.contains('e') {
            // Expression API
            return match env.compile_expression(&main_text) {
                Err(e) => format!("load|{}", describe_chain(&e, &lookup)),
                Ok(ex) => match ex.eval(ctx) {
                    Err(e) => format!("render|{}", describe_chain(&e, &lookup)),
                    Ok(_) => "noerror|".to_string(),
                },
            };
        }
        if matches!(cfg, "1" | "4") {
            let rv = if cfg == "1" { env.render_str(&main_text, ctx) } else { env.render_named_str(&c.main, &main_text, ctx) };
            return match rv {
                // (these entry points do not tell loading from rendering apart)
                Err(e) => format!("{}|{}", if e.kind() == ErrorKind::SyntaxError { "load" } else { "render" }, describe_chain(&e, &lookup)),
                Ok(_) => "noerror|".to_string(),
            };
        }
        let got = if matches!(cfg, "2" | "5") {
            Ok(())
        } else if cfg == "l" {
            env.get_template(&c.main).map(|_| ())
        } else if cfg == "3" {
            env.add_template_owned(c.main.clone(), main_text.clone())
        } else {
            env.add_template(&c.main, &main_text)
        };
        let env = &env;
        match got {
            Err(e) => format!("load|{}", describe_chain(&e, &lookup)),
            Ok(()) => {
                let direct = match cfg {
                    "2" => Some(env.template_from_named_str(&c.main, &main_text)),
                    "5" => Some(env.template_from_str(&main_text)),
                    _ => None,
                };
                let t = match direct {
                    Some(Err(e)) => return format!("load|{}", describe_chain(&e, &lookup)),
                    Some(Ok(t)) => t,
                    None => env.get_template(&c.main).unwrap(),
                };
                let rv = if c.flags.contains('B') {
                    t.render_captured(ctx).and_then(|mut cap| cap.with_state_mut(|st| st.render_block("b").map(|_| ())))
                } else if c.flags.contains('M') {
                    t.render_captured(ctx).and_then(|mut cap| cap.with_state_mut(|st| st.call_macro("m", &[]).map(|_| ())))
                } else if c.flags.contains('C') {
                    t.render_captured(ctx).map(|_| ())
                } else if cfg == "w" {
                    let mut sink: Vec<u8> = Vec::new();
                    t.render_captured_to(ctx, &mut sink).map(|_| ())
                } else {
                    t.render(ctx).map(|_| ())
                };
                match rv {
                    Err(e) => format!("render|{}", describe_chain(&e, &lookup)),
                    Ok(_) => "noerror|".to_string(),
                }
            }
        }
    });
    let body = match res {
        Ok(s) => s,
        Err(msg) => format!("panic|{}", hex(msg.as_bytes())),
    };
    let mut specs: Vec<String> = b.sources.iter().map(|(n, s)| format!("{}={}", hex(n.as_bytes()), s.spec())).collect();
    let mut shifted_name = c.shifted.clone();
    if anon {
        if let Some((_, s)) = b.sources.iter().find(|(n, _)| *n == c.main) {
            specs.push(format!("{}={}", hex(b"<string>"), s.spec()));
        }
        if c.shifted == c.main {
            shifted_name = "<string>".to_string();
        }
    }
    format!(
        "P{},{},{},{},{},{},{},{},{},{},{}|{}|{}",
        b.pv, b.ph, b.vline, b.n, b.vbytes, b.hbytes, hex(shifted_name.as_bytes()), b.mline, b.mext,
        FREE_MARKER.contains(&c.id.as_str()) as u8, b.pe, body, specs.join(";")
    )
}

// ------------------------------------------------------------------------------------------------
// lexer stream
fn lex_cfg(cfg: &str) -> (SyntaxConfig, WhitespaceConfig) {
    match cfg {
        "default" => (SyntaxConfig::default(), WhitespaceConfig::default()),
        "trim" => (
            SyntaxConfig::default(),
            WhitespaceConfig { keep_trailing_newline: true, lstrip_blocks: true, trim_blocks: true },
        ),
        "linestmt" => (
            SyntaxConfig::builder()
                .line_statement_prefix("#")
                .line_comment_prefix("##")
                .build()
                .unwrap(),
            WhitespaceConfig::default(),
        ),
        "custom" => (
            SyntaxConfig::builder()
                .block_delimiters("<%", "%>")
                .variable_delimiters("«", "»")
                .comment_delimiters("<#", "#>")
                .build()
                .unwrap(),
            WhitespaceConfig { keep_trailing_newline: false, lstrip_blocks: true, trim_blocks: false },
        ),
        _ => panic!("bad lexer cfg"),
    }
}

fn run_lex(cfg: &str, src: &str) -> String {
    let (sc, wc) = lex_cfg(cfg);
    let r = guarded(|| {
        let mut out = Vec::new();
        let mut tail = "end".to_string();
        for t in machinery::tokenize(src, false, sc, wc) {
            match t {
                Ok((_, span)) => out.push(span_str(&span)),
                Err(e) => {
                    let r = e.range();
                    tail = format!(
                        "err:{}:{}:{}",
                        opt(e.line()),
                        opt(r.as_ref().map(|r| r.start)),
                        opt(r.as_ref().map(|r| r.end))
                    );
                    break;
                }
            }
        }
        format!("{}|{}", out.join(","), tail)
    });
    match r {
        Ok(s) => s,
        Err(msg) => format!("panic|{}", hex(msg.as_bytes())),
    }
}

const LEX_ALPHABET: &[&str] = &[
    "{{", "}}", "{%", "%}", "{#", "#}", "-", "+", " ", "\n", "\r\n", "\t", "a", "if", "endif", "for", "in", "endfor", "raw",
    "endraw", "x", "1", "1.5", "'", "\"", "ä", "€", "𝄞", "|", "(", ")", "[", "]", ".", ",", "#", "##", "<%", "%>", "«", "»",
    "text ", "\\", "?", "1_", "==", "~", "set", "=", ":", "\r", "%}\r", "#}\r", "{% endraw %}\r",
];

fn random_lex_source(rng: &mut Rng) -> String {
    let n = 1 + rng.below(24) as usize;
    let mut s = String::new();
    for _ in 0..n {
        s.push_str(*rng.pick(LEX_ALPHABET));
    }
    s
}

// ------------------------------------------------------------------------------------------------
// AST spans
fn collect_spans(v: &serde_json::Value, out: &mut Vec<String>) {
    match v {
        serde_json::Value::Object(m) => {
            if let (Some(a), Some(b)) = (m.get("start_line"), m.get("end_offset")) {
                if a.is_u64() && b.is_u64() {
                    let g = |k: &str| m.get(k).and_then(|x| x.as_u64()).unwrap_or(u64::MAX);
                    out.push(format!(
                        "{}:{}:{}:{}:{}:{}",
                        g("start_line"), g("start_col"), g("start_offset"), g("end_line"), g("end_col"), g("end_offset")
                    ));
                    return;
                }
            }
            for (_, x) in m {
                collect_spans(x, out);
            }
        }
        serde_json::Value::Array(a) => {
            for x in a {
                collect_spans(x, out);
            }
        }
        _ => {}
    }
}

fn run_ast(src: &str) -> String {
    let r = guarded(|| match machinery::parse(src, "main", SyntaxConfig::default(), WhitespaceConfig::default()) {
        Ok(ast) => {
            let j = serde_json::to_value(&ast).unwrap();
            let mut out = Vec::new();
            collect_spans(&j, &mut out);
            format!("ok|{}", out.join(","))
        }
        Err(e) => format!("err|{:?}", e.kind()),
    });
    r.unwrap_or_else(|m| format!("panic|{}", hex(m.as_bytes())))
}

// ------------------------------------------------------------------------------------------------
// side tables
fn parse_span(s: &str) -> Span {
    let f: Vec<u64> = s.split('.').map(|x| x.parse().unwrap()).collect();
    Span {
        start_line: f[0] as u16,
        start_col: f[1] as u16,
        start_offset: f[2] as u32,
        end_line: f[3] as u16,
        end_col: f[4] as u16,
        end_offset: f[5] as u32,
    }
}

fn lookups(ins: &Instructions, upto: u32) -> String {
    (0..upto)
        .map(|pc| {
            format!(
                "{}/{}",
                opt(ins.get_line(pc)),
                ins.get_span(pc).map(|s| span_str(&s)).unwrap_or_else(|| "-".into())
            )
        })
        .collect::<Vec<_>>()
        .join(",")
}

fn run_tbl(ops: &str) -> String {
    let r = guarded(|| {
        let mut ins = Instructions::new("t", "");
        let mut n = 0u32;
        for op in ops.split(',').filter(|x| !x.is_empty()) {
            n += 1;
            if op == "a" {
                ins.add(Instruction::DupTop);
            } else if let Some(l) = op.strip_prefix('l') {
                ins.add_with_line(Instruction::DupTop, l.parse().unwrap());
            } else if let Some(s) = op.strip_prefix('s') {
                ins.add_with_span(Instruction::DupTop, parse_span(s));
            } else {
                panic!("bad op");
            }
        }
        lookups(&ins, n + 2)
    });
    r.unwrap_or_else(|m| format!("panic|{}", hex(m.as_bytes())))
}

const TBL_ALPHABET: &[&str] = &["a", "l1", "l2", "s0.0.0.0.0.0", "s1.0.0.1.3.3", "s1.4.4.2.1.9", "s2.0.7.2.5.12"];

fn tbl_cases(tier: &str, rng: &mut Rng) -> Vec<String> {
    let mut out = vec![String::new()];
    let maxlen = if tier == "quick" { 5 } else { 6 };
    let mut frontier = vec![String::new()];
    for _ in 0..maxlen {
        let mut next = Vec::new();
        for p in &frontier {
            for a in TBL_ALPHABET {
                let s = if p.is_empty() { a.to_string() } else { format!("{},{}", p, a) };
                next.push(s);
            }
        }
        out.extend(next.iter().cloned());
        frontier = next;
    }
    // long random sequences with long runs (binary search over many runs)
    let nrand = if tier == "quick" { 300 } else { 3000 };
    for _ in 0..nrand {
        let len = 1 + rng.below(120) as usize;
        let mut ops = Vec::new();
        let mut line = 1 + rng.below(3);
        while ops.len() < len {
            let run = 1 + rng.below(6);
            let kind = rng.below(4);
            if rng.chance(1, 2) {
                line = if rng.chance(1, 8) { rng.below(65536) } else { line + rng.below(3) } % 65536;
            }
            let col = rng.below(40);
            for _ in 0..run {
                ops.push(match kind {
                    0 => "a".to_string(),
                    1 => format!("l{}", line),
                    2 => format!("s{}.{}.{}.{}.{}.{}", line, col, line * 50 + col, line, col + 3, line * 50 + col + 3),
                    _ => {
                        if rng.chance(1, 4) {
                            "s0.0.0.0.0.0".to_string()
                        } else {
                            format!("s{}.{}.{}.{}.{}.{}", line, col, line * 50 + col, line + 1, 2, line * 50 + 52)
                        }
                    }
                });
            }
        }
        out.push(ops.join(","));
    }
    out
}

// ------------------------------------------------------------------------------------------------
// the real CodeGenerator driven with a script of its location primitives
fn run_cg(ops: &str) -> String {
    let r = guarded(|| {
        let mut cg = machinery::CodeGenerator::new("t", "");
        let mut n = 0u32;
        for op in ops.split(',').filter(|x| !x.is_empty()) {
            if op == "a" {
                cg.add(Instruction::DupTop);
                n += 1;
            } else if op == "o" {
                cg.pop_span();
            } else if let Some(l) = op.strip_prefix('l') {
                cg.set_line(l.parse().unwrap());
            } else if let Some(sp) = op.strip_prefix('p') {
                cg.push_span(parse_span(sp));
            } else if let Some(sp) = op.strip_prefix('s') {
                cg.add_with_span(Instruction::DupTop, parse_span(sp));
                n += 1;
            } else {
                panic!("bad op");
            }
        }
        let (ins, _) = cg.finish();
        lookups(&ins, n + 1)
    });
    r.unwrap_or_else(|m| format!("panic|{}", hex(m.as_bytes())))
}

const CG_ALPHABET: &[&str] = &["a", "o", "l1", "l2", "p1.0.0.1.3.3", "p2.1.7.2.5.12", "p1.4.4.2.1.9", "s2.0.7.2.5.12"];

fn cg_cases(tier: &str, rng: &mut Rng) -> Vec<String> {
    let mut out = vec![String::new()];
    let maxlen = if tier == "quick" { 4 } else { 5 };
    let mut frontier = vec![String::new()];
    for _ in 0..maxlen {
        let mut next = Vec::new();
        for p in &frontier {
            for a in CG_ALPHABET {
                next.push(if p.is_empty() { a.to_string() } else { format!("{},{}", p, a) });
            }
        }
        out.extend(next.iter().cloned());
        frontier = next;
    }
    // long random scripts shaped like compilations: statements that set a line, nested balanced
    // expressions, adds in between, occasionally an unbalanced push (attribute assignment)
    let nrand = if tier == "quick" { 1500 } else { 20000 };
    for _ in 0..nrand {
        let mut ops: Vec<String> = Vec::new();
        let mut line = 1u64;
        let mut depth = 0;
        let len = 5 + rng.below(60) as usize;
        while ops.len() < len {
            match rng.below(10) {
                0 | 1 => {
                    line += rng.below(3);
                    ops.push(format!("l{}", line));
                }
                2 | 3 => {
                    let l = line + rng.below(2);
                    let c = rng.below(30);
                    ops.push(format!("p{}.{}.{}.{}.{}.{}", l, c, l * 40 + c, l + rng.below(2), c + 4, l * 40 + c + 4));
                    depth += 1;
                }
                4 | 5 => {
                    if depth > 0 || rng.chance(1, 6) {
                        ops.push("o".into());
                        if depth > 0 {
                            depth -= 1;
                        }
                    }
                }
                6 => {
                    let c = rng.below(30);
                    ops.push(format!("s{}.{}.{}.{}.{}.{}", line, c, line * 40 + c, line, c + 2, line * 40 + c + 2));
                }
                _ => ops.push("a".into()),
            }
        }
        out.push(ops.join(","));
    }
    out
}

// ------------------------------------------------------------------------------------------------
// per top-level statement: the instructions it compiles to, with their names and locations
fn run_stm(src: &str) -> String {
    let r = guarded(|| {
        let ast = match machinery::parse(src, "main", SyntaxConfig::default(), WhitespaceConfig::default()) {
            Ok(a) => a,
            Err(e) => return format!("err|{:?}", e.kind()),
        };
        let children = match &ast {
            machinery::ast::Stmt::Template(t) => &t.children,
            _ => return "err|not-a-template".to_string(),
        };
        let mut cg = machinery::CodeGenerator::new("main", src);
        let mut ranges = Vec::new();
        for child in children {
            let j = serde_json::to_value(child).unwrap();
            let mut one = Vec::new();
            if let Some(sp) = j.get("inner").and_then(|x| x.get(1)) {
                collect_spans(sp, &mut one);
            }
            let kind = j.get("stmt").and_then(|x| x.as_str()).unwrap_or("?").to_string();
            let a = cg.next_instruction();
            cg.compile_stmt(child);
            let b = cg.next_instruction();
            ranges.push((kind, one.first().cloned().unwrap_or_else(|| "-".into()), a, b));
        }
        let (ins, _blocks) = cg.finish();
        let parts: Vec<String> = ranges
            .iter()
            .map(|(kind, span, a, b)| {
                let body: Vec<String> = (*a..*b)
                    .map(|pc| {
                        let name = format!("{:?}", ins.get(pc).unwrap());
                        let name = name.split(|c: char| !c.is_alphanumeric()).next().unwrap_or("").to_string();
                        format!(
                            "{}/{}/{}",
                            name,
                            opt(ins.get_line(pc)),
                            ins.get_span(pc).map(|s| span_str(&s)).unwrap_or_else(|| "-".into())
                        )
                    })
                    .collect();
                format!("{}@{}={}", kind, span, body.join(";"))
            })
            .collect();
        format!("ok|{}", parts.join("|"))
    });
    r.unwrap_or_else(|m| format!("panic|{}", hex(m.as_bytes())))
}

/// templates whose compiled instruction tables are dumped
fn ins_templates() -> Vec<String> {
    let mut v: Vec<String> = BASES.iter().map(|s| s.to_string()).collect();
    for c in runtime_cases() {
        if c.class == "runtime" {
            for (_, t) in &c.templates {
                v.push(t.replace("@@", "").replace("^^", "").replace("$$", ""));
            }
        }
    }
    for c in spanless_cases("quick") {
        for (_, t) in &c.templates {
            v.push(t.replace("@@", "").replace("^^", "").replace("$$", ""));
        }
    }
    v.sort();
    v.dedup();
    v
}

fn run_ins(out: &mut dyn Write, tid: usize, src: &str) {
    let spec = Src::lit(src).spec();
    let r = guarded(|| {
        let mut env = Environment::new();
        env.set_debug(true);
        let mut lines = Vec::new();
        match env.template_from_named_str("main", src) {
            Ok(t) => {
                let ct = machinery::get_compiled_template(&t);
                lines.push(format!("ins {} <root> {}\t{}", tid, spec, lookups(&ct.instructions, ct.instructions.len_pub() as u32 + 1)));
                for (name, ins) in ct.blocks.iter() {
                    lines.push(format!("ins {} {} {}\t{}", tid, hex(name.as_bytes()), spec, lookups(ins, ins.len_pub() as u32 + 1)));
                }
            }
            Err(e) => lines.push(format!("ins {} <root> {}\tcompile-error:{:?}", tid, spec, e.kind())),
        }
        lines
    });
    match r {
        Ok(lines) => {
            for l in lines {
                writeln!(out, "{}", l).unwrap();
            }
        }
        Err(m) => writeln!(out, "ins {} <root> {}\tpanic|{}", tid, spec, hex(m.as_bytes())).unwrap(),
    }
}

trait LenPub {
    fn len_pub(&self) -> usize;
}
impl LenPub for Instructions<'_> {
    fn len_pub(&self) -> usize {
        let mut n = 0u32;
        while self.get(n).is_some() {
            n += 1;
        }
        n as usize
    }
}

// ------------------------------------------------------------------------------------------------
fn all_cases(tier: &str, rng: &mut Rng) -> Vec<Case> {
    let mut v = runtime_cases();
    v.extend(spanless_cases(tier));
    v.extend(row_cases(tier));
    v.extend(inner_cases(tier));
    v.extend(degenerate_cases());
    v.extend(planted_cases(tier, rng));
    v.extend(grammar_cases(tier, rng));
    v
}

/// templates drawn from the grammar (c14_gram.inc), rendered as they are — undefined names, unknown filters /
/// tests / functions, missing templates and type errors make most of them fail somewhere, in whatever
/// construct combination the draw produced; every second one under strict undefined behaviour.  Class
/// `planted`: the static predicates and the shift invariance of the whole error chain apply (the text is
/// inserted in data state at the very start of the template).
fn grammar_cases(tier: &str, rng: &mut Rng) -> Vec<Case> {
    let (gt, _) = grammar_sources(rng, if tier == "quick" { 240 } else { 1200 });
    gt.iter().enumerate().map(|(i, t)| grammar_case(i, t)).collect()
}

/// the drawn template as the main template, as an included one, as the parent of a child template or as the
/// library a macro is imported from and called (every fourth each): the failing construct then lies in a
/// template other than the one that is rendered, behind an include / block / macro frame
fn grammar_case(i: usize, t: &str) -> Case {
    let marked = format!("@@{}", t);
    let (templates, shifted): (Vec<(String, String)>, &str) = match i % 4 {
        0 | 1 => (vec![("main".into(), marked)], "main"),
        2 => (vec![("main".into(), "top\n{% include 'lib' %}\nbottom".into()), ("lib".into(), marked)], "lib"),
        _ => {
            if t.contains("extends") {
                (vec![("main".into(), marked)], "main")
            } else if t.contains("{% macro mac") || t.contains("macro\n") {
                (
                    vec![
                        ("main".into(), "{% import 'lib' as lib %}\n{{ lib.mac0() }}{{ lib.mac1(1) }}{{ lib.mac2(1, 2) }}".into()),
                        ("lib".into(), marked),
                    ],
                    "lib",
                )
            } else {
                (vec![("main".into(), "{% extends 'lib' %}\n{% block blk1 %}child {{ super() }}{% endblock %}".into()), ("lib".into(), marked)], "lib")
            }
        }
    };
    Case {
        id: format!("gram_{}", i),
        templates,
        main: "main".into(),
        shifted: shifted.into(),
        flags: if (i / 4) % 2 == 0 { "s".into() } else { String::new() },
        class: "planted",
    }
}

/// which (cfg, v, h) variants a case gets.  Fixed-site cases: the whole shift grid in the default
/// configuration and (failing prints: every configuration, whole grid) a reduced grid in every other
/// configuration.  Planted cases: small shifts always and the large ones for a deterministic sample
/// in the default configuration, plus one other configuration per case (rotating) on a reduced
/// grid.  Thorough: whole grid for fixed-site cases in every configuration; planted cases whole grid
/// in the default configuration and the reduced grid in one rotating configuration.
fn variants(c: &Case, idx: usize, tier: &str) -> Vec<(&'static str, usize, usize)> {
    const REDUCED: &[(usize, usize)] = &[(0, 0), (1, 0), (3, 2), (4, 1), (5, 0), (0, 3), (6, 1)];
    // (not `t`: with lstrip_blocks text inserted in front of a block tag changes what the tag strips,
    // so "nothing else changes" does not hold for the data tokens some end-of-input errors point at)
    const PLANT_CFGS: &[&str] = &["p", "n", "x", "k", "c"];
    let mut out = Vec::new();
    let is_print = c.id.starts_with("print_");
    // the layouts with a newline at every / every even / every odd token gap inside the tags: every
    // failing construct that is not a syntax error, default configuration (the rule checked is that the
    // report lies on the lines of the failing operation's own tokens)
    if c.class == "runtime" && !c.flags.contains('f') && !FREE_MARKER.contains(&c.id.as_str()) && !c.id.starts_with("deg_") {
        let generated = ["sl_", "row_", "inn_", "print_", "deg_"].iter().any(|p| c.id.starts_with(p));
        let only = SPANLESS_SITES.iter().find(|s| c.id.starts_with(&format!("sl_{}_", s.0))).map(|s| s.3).unwrap_or("");
        let xcfg: &'static str = if c.id.starts_with("sl_") && !only.is_empty() { only } else { "d" };
        for layout in 0..4 {
            if layout == 0 || layout == 3 || tier == "thorough" || !generated || idx % 2 == layout % 2 {
                out.push((xcfg, EXPLODED_FIRST + layout, 0));
            }
        }
        // line terminator axis (lone CR / CRLF behind every tag end) x white-space configurations
        // (not where a site fails only because of what the data between the tags says: the sites of one named
        // configuration, e.g. the formatter that refuses the text REFUSED)
        for layout in 4..6 {
            if xcfg != "d" {
                break;
            }
            for cfg in [xcfg, "t", "k"] {
                if cfg != xcfg && !generated_ok_in_ws_cfg(c) {
                    continue;
                }
                if cfg != xcfg {
                    out.push((cfg, 0, 0));
                }
                out.push((cfg, EXPLODED_FIRST + layout, 0));
            }
        }
    }
    for cfg in CONFIGS {
        let cfg: &'static str = cfg;
        if ENTRY_CFGS.contains(&cfg) {
            // entry points: fixed-site cases and the `top` context of the generated row sites; the
            // string-rendering entry points have no Template object to call render_block etc. on
            let fixed = c.class != "planted" && !c.flags.contains('i') && !c.flags.contains('e') && !c.flags.contains('L')
                && !c.flags.contains('f') && !c.id.starts_with("sl_") && (!c.id.contains("__") || c.id.ends_with("__top"));
            let needs_template = c.flags.contains('B') || c.flags.contains('M') || c.flags.contains('C');
            if !fixed || (needs_template && matches!(cfg, "1" | "4")) || c.id.starts_with("entry_") && matches!(cfg, "1" | "4") {
                continue;
            }
            let grid: &[(usize, usize)] = if c.id.contains("__") || tier != "thorough" { &[(0, 0), (1, 0)] } else { &[(0, 0), (1, 0), (3, 2), (5, 1)] };
            for (vi, hi) in grid {
                out.push((cfg, *vi, *hi));
            }
            continue;
        }
        if c.class == "planted" {
            if cfg != "d" && PLANT_CFGS[idx % PLANT_CFGS.len()] != cfg {
                continue;
            }
        } else if c.flags.contains('i') {
            if cfg != "d" {
                continue;
            }
        } else if c.id.starts_with("row_") && c.id.contains("__") {
            // generated row sites: default configuration (+ debug off for the unshifted template)
            if cfg != "d" && cfg != "x" {
                continue;
            }
        } else if cfg == "r" && c.id.starts_with("entry_") {
            // an error raised by the entry point itself (render_block / call_macro opening their frame under
            // recursion limit 1) belongs to no template construct: out of the property's scope
            continue;
        } else if c.flags.contains('e') && !matches!(cfg, "d" | "x" | "s") {
            continue; // expressions: no templates, formatters or loaders involved
        } else if c.id.starts_with("sl_") {
            // spanless sites: the configuration in which the site fails (default unless the site names one),
            // plus debug off
            let only = SPANLESS_SITES.iter().find(|s| c.id.starts_with(&format!("sl_{}_", s.0))).map(|s| s.3).unwrap_or("");
            let want = if only.is_empty() { "d" } else { only };
            if cfg != want && !(cfg == "x" && only.is_empty()) {
                continue;
            }
        } else if cfg == "a" && (!is_print || c.id.ends_with("_after_print")) {
            continue; // the custom auto-escape format makes every print of the shifted template fail
        } else if cfg != "d" && c.flags.contains('f') {
            continue; // where the fuel runs out depends on the number of instructions, i.e. on the configuration and the inserted text
        }
        for vi in 0..V_SHIFTS.len() {
            for hi in 0..H_SHIFTS.len() {
                let big = V_SHIFTS[vi].0 > 1000 || H_SHIFTS[hi] == "L";
                let small_sample = vi <= 1 || (vi == 3 && hi == 2) || (vi == 2 && hi == 1);
                let keep = if c.flags.contains('i') {
                    hi == 0 && (vi <= 4 || tier == "thorough")
                } else if tier == "thorough" {
                    (c.class != "planted" && !c.id.starts_with("sl_") && !c.id.contains("__")) || (c.class == "planted" && cfg == "d") || REDUCED.contains(&(vi, hi))
                } else if c.flags.contains('i') {
                    hi == 0 && matches!(vi, 0 | 1 | 2 | 3 | 4)
                } else if c.id.starts_with("row_") && c.id.contains("__") {
                    matches!((vi, hi), (0, 0) | (1, 0) | (3, 2) | (5, 1)) && (cfg != "x" || (vi, hi) == (0, 0))
                } else if c.id.starts_with("sl_") {
                    REDUCED.contains(&(vi, hi)) && (cfg != "x" || vi <= 1)
                } else if c.class != "planted" {
                    cfg == "d"
                        || (is_print && matches!(cfg, "p" | "n" | "a"))
                        || (matches!(cfg, "p" | "n" | "x") && REDUCED.contains(&(vi, hi)))
                        || matches!((vi, hi), (0, 0) | (1, 0) | (3, 2))
                        || ((vi, hi) == (5, 1) && matches!(cfg, "k" | "c" | "l" | "t"))
                } else if cfg != "d" {
                    matches!((vi, hi), (0, 0) | (1, 1) | (3, 2)) || (idx % 8 == 0 && REDUCED.contains(&(vi, hi)))
                } else if big {
                    idx % 16 == (vi * 4 + hi) % 16
                } else {
                    small_sample || idx % 4 == 0
                };
                if keep {
                    out.push((cfg, vi, hi));
                }
            }
        }
    }
    let mut seen = std::collections::HashSet::new();
    out.retain(|x| seen.insert(*x));
    out
}

/// cases that run in the white-space configurations t / k at all (the sites that fail only in one named
/// configuration, expressions and loader-backed cases do not)
fn generated_ok_in_ws_cfg(c: &Case) -> bool {
    !c.id.starts_with("sl_") && !c.flags.contains('e') && !c.flags.contains('i') && !c.flags.contains('L')
}

/// the sources of the `cga` stream: every valid template of the fixed-site, span-less, row, inner and
/// degenerate cases and the base templates
fn cga_templates(tier: &str) -> Vec<String> {
    let mut v: Vec<String> = BASES.iter().map(|s| s.to_string()).collect();
    let strip = |t: &str| t.replace("@@", "").replace("^^", "").replace("$$", "").replace('§', " ");
    for c in runtime_cases().into_iter().chain(spanless_cases(tier)).chain(row_cases(tier)).chain(degenerate_cases()) {
        if c.class == "runtime" && !c.flags.contains('e') {
            for (_, t) in &c.templates {
                v.push(strip(t));
            }
        }
    }
    for (_, _, text) in INNER_SITES {
        v.push(format!("{{% block b %}}{{% for fa in lst %}}{}{{% endfor %}}{{% endblock %}}", strip(text)));
    }
    // the excluded region of `instr_line_in_construct`: a constant-folded comparison whose previous token
    // is on an earlier line, first operand of a short-circuit operator
    v.push("{{ foo(\n 1 == 1 and x) }}".to_string());
    v.push("{{ foo(\n 1 < 2 < 3 or x, 1 if\n 2 in [2] else 3) }}".to_string());
    v.sort();
    v.dedup();
    v
}

fn cge_sources() -> Vec<String> {
    let mut v: Vec<String> = Vec::new();
    for (_, stmt, _) in ROW_SITES {
        if let Some(x) = stmt.strip_prefix("@@{{ ").and_then(|x| x.strip_suffix(" }}")) {
            v.push(x.to_string());
        }
    }
    for (_, a, b) in EXPR_KINDS {
        v.push(a.to_string());
        v.push(b.to_string());
    }
    for x in ["1 in 2 == true", "a if b else c if d else e", "x|f(1, k=2, *y, **z)|g is h(1)", "[1, (2, 3), {'a': b}][0].c(d)[1:2:3]",
              "not a and b or not c in d", "-x ** 2 ~ 'q'", "1 == 1 and x", "loop(x)", "super()", "self.b()"] {
        v.push(x.to_string());
    }
    v.sort();
    v.dedup();
    v
}

struct Shard {
    k: usize,
    n: usize,
    seq: usize,
}

impl Shard {
    /// the number of the next work item if it belongs to this shard
    fn mine(&mut self) -> Option<usize> {
        let s = self.seq;
        self.seq += 1;
        if s % self.n == self.k {
            Some(s)
        } else {
            None
        }
    }
}

fn gen(tier: &str, k: usize, n: usize) {
    let stdout = std::io::stdout();
    let mut out = std::io::BufWriter::new(stdout.lock());
    let mut rng = Rng::new(seed_from_env());
    let mut sh = Shard { k, n, seq: 0 };
    // err stream
    let cases = all_cases(tier, &mut rng);
    for (idx, c) in cases.iter().enumerate() {
        for (cfg, vi, hi) in variants(c, idx, tier) {
            if let Some(q) = sh.mine() {
                writeln!(out, "{}.0\terr {} {} {} {} {}\t{}", q, c.id, c.class, cfg, vi, hi, run_case(c, cfg, vi, hi)).unwrap();
            }
        }
    }
    // lex stream: bases, all failing templates (unshifted and lightly shifted), random soups
    let mut lex_srcs: Vec<Src> = Vec::new();
    for b in BASES {
        lex_srcs.push(Src::lit(b));
    }
    for c in &cases {
        let b = build_case(c, 0, 0);
        for (n, s) in &b.sources {
            if *n == c.shifted {
                lex_srcs.push(s.clone());
            }
        }
        let generated = ["sl_", "row_", "inn_", "print_", "deg_"].iter().any(|p| c.id.starts_with(p));
        if c.class != "planted" && (!generated || tier == "thorough") && !c.flags.contains('i') {
            for (vi, hi) in [(3, 2), (5, 0), (0, 3), (6, 1)] {
                let b = build_case(c, vi, hi);
                for (n, s) in &b.sources {
                    if *n == c.shifted {
                        lex_srcs.push(s.clone());
                    }
                }
            }
        }
    }
    let nrand = if tier == "quick" { 1500 } else { 30000 };
    for _ in 0..nrand {
        lex_srcs.push(Src::lit(&random_lex_source(&mut rng)));
    }
    for (i, s) in lex_srcs.iter().enumerate() {
        let q = match sh.mine() {
            Some(q) => q,
            None => continue,
        };
        let text = s.build();
        let cfgs: &[&str] = if text.len() > 10000 { &["default"] } else { &["default", "trim", "linestmt", "custom"] };
        let cfg = if text.len() > 10000 { "default" } else { cfgs[i % cfgs.len()] };
        writeln!(out, "{}.0\tlex {} {}\t{}", q, cfg, s.spec(), run_lex(cfg, &text)).unwrap();
        if text.len() <= 10000 && cfg != "default" {
            writeln!(out, "{}.1\tlex default {}\t{}", q, s.spec(), run_lex("default", &text)).unwrap();
        }
    }
    // ast + ins streams
    for (tid, src) in ins_templates().iter().enumerate() {
        let q = match sh.mine() {
            Some(q) => q,
            None => continue,
        };
        writeln!(out, "{}.0\tast {}\t{}", q, Src::lit(src).spec(), run_ast(src)).unwrap();
        // a vertically shifted copy: lines in the tables move, the structure stays
        let mut s = Src::default();
        s.push_rep("é\n", 3);
        s.push_lit(src);
        writeln!(out, "{}.1\tast {}\t{}", q, s.spec(), run_ast(&s.build())).unwrap();
        writeln!(out, "{}.2\tstm {}\t{}", q, Src::lit(src).spec(), run_stm(src)).unwrap();
        let mut buf: Vec<u8> = Vec::new();
        run_ins(&mut buf, tid, src);
        for (j, l) in String::from_utf8(buf).unwrap().lines().enumerate() {
            writeln!(out, "{}.{}\t{}", q, 3 + j, l).unwrap();
        }
    }
    // cga stream: AST dump + per-pc tables of the whole program, as written and in the three
    // "newline at the token gaps" layouts
    for src in cga_templates(tier) {
        for layout in 0..5usize {
            let q = match sh.mine() {
                Some(q) => q,
                None => continue,
            };
            let (tag, text) = if layout == 0 {
                ("o".to_string(), src.clone())
            } else {
                match explode_with(&src, layout - 1, &[], false) {
                    Some((t, _)) => (format!("x{}", layout - 1), t),
                    None => continue,
                }
            };
            writeln!(out, "{}.0\tcga {} {}\t{}", q, tag, Src::lit(&text).spec(), run_cga(&text)).unwrap();
        }
    }
    for src in cge_sources() {
        for layout in 0..2usize {
            let q = match sh.mine() {
                Some(q) => q,
                None => continue,
            };
            let text = if layout == 0 {
                src.clone()
            } else {
                match explode_with(&src, 0, &[], true) {
                    Some((t, _)) => t,
                    None => continue,
                }
            };
            writeln!(out, "{}.0\tcge {}\t{}", q, Src::lit(&text).spec(), run_cge(&text)).unwrap();
        }
    }
    // grammar-drawn templates and expressions: every span of the AST (ast), the per-statement tables (stm),
    // the node-span classification and the code generator correspondence (cga / cge)
    let (gt, ge) = grammar_sources(&mut rng, if tier == "quick" { 500 } else { 3000 });
    for src in &gt {
        let q = match sh.mine() {
            Some(q) => q,
            None => continue,
        };
        writeln!(out, "{}.0\tast {}\t{}", q, Src::lit(src).spec(), run_ast(src)).unwrap();
        writeln!(out, "{}.1\tstm {}\t{}", q, Src::lit(src).spec(), run_stm(src)).unwrap();
        writeln!(out, "{}.2\tcga g {}\t{}", q, Src::lit(src).spec(), run_cga(src)).unwrap();
    }
    for src in &ge {
        if let Some(q) = sh.mine() {
            writeln!(out, "{}.0\tcge {}\t{}", q, Src::lit(src).spec(), run_cge(src)).unwrap();
        }
    }
    // cg stream
    for ops in cg_cases(tier, &mut rng) {
        if let Some(q) = sh.mine() {
            writeln!(out, "{}.0\tcg {}\t{}", q, if ops.is_empty() { "-" } else { &ops }, run_cg(&ops)).unwrap();
        }
    }
    // tbl stream
    for ops in tbl_cases(tier, &mut rng) {
        if let Some(q) = sh.mine() {
            writeln!(out, "{}.0\ttbl {}\t{}", q, if ops.is_empty() { "-" } else { &ops }, run_tbl(&ops)).unwrap();
        }
    }
}

fn main() {
    quiet_panics();
    let args: Vec<String> = std::env::args().collect();
    match args.get(1).map(|s| s.as_str()) {
        Some("gen") => gen(
            args.get(2).map(|s| s.as_str()).unwrap_or("quick"),
            args.get(3).and_then(|s| s.parse().ok()).unwrap_or(0),
            args.get(4).and_then(|s| s.parse().ok()).unwrap_or(1),
        ),
        Some("gram") => {
            // debugging aid: the grammar-drawn sources and what the parser says about them
            let mut rng = Rng::new(seed_from_env());
            let (gt, ge) = grammar_sources(&mut rng, args.get(2).and_then(|s| s.parse().ok()).unwrap_or(50));
            for s in gt {
                let r = machinery::parse(&s, "main", SyntaxConfig::default(), WhitespaceConfig::default());
                println!("T {:?} {:?}", r.err().map(|e| e.to_string()), s);
            }
            for s in ge {
                let r = machinery::parse_expr(&s);
                println!("E {:?} {:?}", r.err().map(|e| e.to_string()), s);
            }
        }
        Some("gramstream") => {
            // the grammar-drawn part of `gen` alone, for `n` templates / expressions (robustness runs over many
            // draws): ast, stm, cga, cge and the err cases in the default configuration
            let n: usize = args.get(2).and_then(|s| s.parse().ok()).unwrap_or(1000);
            let mut rng = Rng::new(seed_from_env());
            let (gt, ge) = grammar_sources(&mut rng, n);
            let stdout = std::io::stdout();
            let mut out = std::io::BufWriter::new(stdout.lock());
            for (i, src) in gt.iter().enumerate() {
                writeln!(out, "ast {}\t{}", Src::lit(src).spec(), run_ast(src)).unwrap();
                writeln!(out, "stm {}\t{}", Src::lit(src).spec(), run_stm(src)).unwrap();
                writeln!(out, "cga g {}\t{}", Src::lit(src).spec(), run_cga(src)).unwrap();
                let c = grammar_case(i, src);
                for (vi, hi) in [(0, 0), (1, 0), (3, 2), (2, 1)] {
                    writeln!(out, "err {} {} d {} {}\t{}", c.id, c.class, vi, hi, run_case(&c, "d", vi, hi)).unwrap();
                }
            }
            for src in &ge {
                writeln!(out, "cge {}\t{}", Src::lit(src).spec(), run_cge(src)).unwrap();
            }
            // syntax errors planted into grammar-drawn bases
            let n_fixed = BASES.len();
            for c in planted_cases("thorough", &mut rng) {
                let bi: usize = c.id.split('_').nth(1).and_then(|x| x.parse().ok()).unwrap_or(0);
                if bi >= n_fixed {
                    for (cfg, vi, hi) in [("d", 0, 0), ("d", 1, 0), ("d", 3, 2), ("d", 2, 1), ("k", 0, 0), ("k", 1, 1), ("c", 0, 0), ("c", 3, 2)] {
                        writeln!(out, "err {} {} {} {} {}\t{}", c.id, c.class, cfg, vi, hi, run_case(&c, cfg, vi, hi)).unwrap();
                    }
                }
            }
        }
        Some("one") => {
            let stream = args[2].as_str();
            match stream {
                "err" => {
                    let mut rng = Rng::new(seed_from_env());
                    let tier = std::env::var("VERIF_TIER").unwrap_or_else(|_| "quick".into());
                    let cases = all_cases(&tier, &mut rng);
                    let c = cases.iter().find(|c| c.id == args[3]).expect("unknown case id");
                    let cfg = args[5].as_str();
                    let (vi, hi): (usize, usize) = (args[6].parse().unwrap(), args[7].parse().unwrap());
                    println!("err {} {} {} {} {}\t{}", c.id, c.class, cfg, vi, hi, run_case(c, cfg, vi, hi));
                    if args.get(8).map(|s| s == "show").unwrap_or(false) {
                        let cc = if cfg == "c" { custom_syntax_case(c) } else { c.clone() };
                        let b = build_case(&cc, vi, hi);
                        for (n, s) in &b.sources {
                            let t = s.build();
                            eprintln!("--- {} ({} bytes){}", n, t.len(), if t.len() < 400 { format!("\n{}", t) } else { String::new() });
                        }
                    }
                }
                "lex" => println!("lex {} {}\t{}", args[3], args[4], run_lex(&args[3], &Src::parse(&args[4]).build())),
                "ast" => println!("ast {}\t{}", args[3], run_ast(&Src::parse(&args[3]).build())),
                "tbl" => println!("tbl {}\t{}", args[3], run_tbl(if args[3] == "-" { "" } else { &args[3] })),
                "cg" => println!("cg {}\t{}", args[3], run_cg(if args[3] == "-" { "" } else { &args[3] })),
                "stm" => println!("stm {}\t{}", args[3], run_stm(&Src::parse(&args[3]).build())),
                "cga" => println!("cga {} {}\t{}", args[3], args[4], run_cga(&Src::parse(&args[4]).build())),
                "cge" => println!("cge {}\t{}", args[3], run_cge(&Src::parse(&args[3]).build())),
                "ins" => {
                    let stdout = std::io::stdout();
                    let mut out = stdout.lock();
                    run_ins(&mut out, args[3].parse().unwrap(), &Src::parse(&args[5]).build());
                }
                _ => panic!("unknown stream"),
            }
        }
        _ => {
            eprintln!("usage: c14 gen <quick|thorough> [<shard> <shards>] | c14 one <stream> <fields…>");
            std::process::exit(2);
        }
    }
}
