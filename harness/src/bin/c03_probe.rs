use minijinja::machinery::get_compiled_template;
use minijinja::Environment;
fn main() {
    let a: Vec<String> = std::env::args().collect();
    let mut env = Environment::new();
    env.add_template("t", &a[1]).unwrap();
    let t = env.get_template("t").unwrap();
    let c = get_compiled_template(&t);
    let mut i = 0;
    while let Some(ins) = c.instructions.get(i) { println!("{} {}", i, serde_json::to_string(ins).unwrap()); i += 1; }
}
