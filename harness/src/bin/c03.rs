//! C03 harness: typed program generator over the core fragment, real parser in the loop, real render.
//!
//! usage: c03 gen <quick|thorough> [n]  — generate programs; one line per case:
//!            <id>\t<ctx sexp>\t<prog sexp>\t<result>\t<source hex>\t<stats>\t<real instruction stream>
//!        c03 argbind <quick|thorough>  — the argument-binding box (c03_args.inc), same case lines
//!        c03 shapes                    — the box of fast-path body shapes x auto-escape modes (c03_esc.inc)
//!        c03 batch                     — stdin lines `<id>\t<ctx sexp>\t<prog sexp>` -> same case lines
//!                                        (replay, shrinking, corpus)
//!        c03 src <source> [ctx sexp]   — render a hand-written source, dumping the parsed AST as sexp
//!        c03 wrap <kind> <P> <T> [ctx] — a hand-written wrapper case (see c03_wrap.inc): `(wrap kind P T)`
//!
//! result: `ok:<hex utf-8 output>` | `err:<ErrorKind>` | `panic` | `parse-mismatch:…` | `parse-error:…`
//! Strings inside s-expressions are hex-encoded UTF-8 (`-` = empty); names are bare atoms.
//! The AST handed to the Lean driver is the one dumped from the REAL parser (serde JSON ->
//! `s_from`), and it is asserted equal to the generated AST, so `unparse` and the parser are in
//! the loop.
use minijinja::machinery::{get_compiled_template, parse, Instruction, WhitespaceConfig};
use minijinja::syntax::SyntaxConfig;
use minijinja::{Environment, Value};
use mjh::*;
use serde_json::Value as J;
use std::io::Write;

// ------------------------------------------------------------------------------------------ AST
#[derive(Clone, Debug, PartialEq)]
pub enum Lit { None, Bool(bool), Int(i64), Str(String) }

#[derive(Clone, Debug, PartialEq)]
pub enum Tgt { Var(String), Tuple(Vec<Tgt>) }

pub type Args = Vec<(Option<String>, E)>;

#[derive(Clone, Debug, PartialEq)]
pub enum E {
    Const(Lit),
    Var(String),
    Not(Box<E>),
    Neg(Box<E>),
    Bin(&'static str, Box<E>, Box<E>),
    Cmp(Box<E>, Vec<(&'static str, E)>),
    If(Box<E>, Box<E>, Option<Box<E>>),
    Filter(String, Box<E>, Args),
    Test(String, Box<E>, Args),
    Attr(Box<E>, String),
    Item(Box<E>, Box<E>),
    Call(Box<E>, Args),
    List(Vec<E>),
    Map(Vec<(E, E)>),
}

pub type FilterApp = (String, Args);

#[derive(Clone, Debug, PartialEq)]
pub enum S {
    Text(String),
    Emit(E),
    If(E, Vec<S>, Vec<S>),
    For(Tgt, E, Option<E>, Vec<S>, Vec<S>),
    Set(Tgt, E),
    SetBlock(String, Vec<FilterApp>, Vec<S>),
    With(Vec<(Tgt, E)>, Vec<S>),
    FilterBlock(Vec<FilterApp>, Vec<S>),
    Macro(String, Vec<String>, Vec<E>, Vec<S>),
    CallBlock(E, Args, Vec<String>, Vec<E>, Vec<S>),
    Break,
    Continue,
}

#[derive(Clone, Debug, PartialEq)]
pub enum CV { None, Bool(bool), Int(i64), Str(String), /// a string marked safe (`Value::from_safe_string`): the same string for the core constructs
    Safe(String), List(Vec<CV>), Map(Vec<(String, CV)>) }

pub type Ctx = Vec<(String, CV)>;

pub const BINOPS: [(&str, &str, &str); 15] = [
    ("add", "+", "Add"), ("sub", "-", "Sub"), ("mul", "*", "Mul"), ("fdiv", "//", "FloorDiv"),
    ("rem", "%", "Rem"), ("cat", "~", "Concat"), ("eq", "==", "Eq"), ("ne", "!=", "Ne"),
    ("lt", "<", "Lt"), ("le", "<=", "Lte"), ("gt", ">", "Gt"), ("ge", ">=", "Gte"),
    ("in", "in", "In"), ("and", "and", "ScAnd"), ("or", "or", "ScOr"),
];
pub const CMPOPS: [(&str, &str, &str); 8] = [
    ("eq", "==", "Eq"), ("ne", "!=", "Ne"), ("lt", "<", "Lt"), ("le", "<=", "Lte"),
    ("gt", ">", "Gt"), ("ge", ">=", "Gte"), ("in", "in", "In"), ("notin", "not in", "NotIn"),
];
fn binop_src(op: &str) -> &'static str { BINOPS.iter().find(|x| x.0 == op).unwrap().1 }
fn cmpop_src(op: &str) -> &'static str { CMPOPS.iter().find(|x| x.0 == op).unwrap().1 }

fn hx(s: &str) -> String { if s.is_empty() { "-".into() } else { hex(s.as_bytes()) } }

include!("c03_sexp.inc");
include!("c03_parse.inc");
include!("c03_gen.inc");
include!("c03_wrap.inc");
include!("c03_args.inc");
include!("c03_esc.inc");

// ------------------------------------------------------------------------------------------ run
fn cv_value(v: &CV) -> Value {
    match v {
        CV::None => Value::from(()),
        CV::Bool(b) => Value::from(*b),
        CV::Int(i) => Value::from(*i),
        CV::Str(s) => Value::from(s.as_str()),
        CV::Safe(s) => Value::from_safe_string(s.clone()),
        CV::List(xs) => Value::from(xs.iter().map(cv_value).collect::<Vec<_>>()),
        CV::Map(kvs) => Value::from_pairs(kvs.iter().map(|(k, v)| (k.clone(), cv_value(v)))),
    }
}

/// a constant of the instruction stream in the value syntax of the context s-expressions
fn value_sexp(v: &Value, o: &mut String) {
    use minijinja::value::ValueKind;
    if v.is_undefined() { o.push_str("undef"); return; }
    match v.kind() {
        ValueKind::None => o.push_str("none"),
        ValueKind::Bool => o.push_str(if v.is_true() { "t" } else { "f" }),
        ValueKind::Number => match i64::try_from(v.clone()) { Ok(i) => o.push_str(&format!("(i {})", i)), Err(_) => o.push_str(&format!("(other num:{})", v)) },
        ValueKind::String => o.push_str(&format!("(s {})", hx(v.as_str().unwrap_or("")))),
        ValueKind::Seq => { o.push_str("(l"); if let Ok(it) = v.try_iter() { for x in it { o.push(' '); value_sexp(&x, o); } } o.push(')'); }
        ValueKind::Map => {
            o.push_str("(m");
            if let Ok(it) = v.try_iter() {
                for k in it {
                    match k.as_str() { Some(ks) => o.push_str(&format!(" ({} ", hx(ks))), None => o.push_str(" (other-key ") }
                    value_sexp(&v.get_item(&k).unwrap_or_default(), o); o.push(')');
                }
            }
            o.push(')');
        }
        other => o.push_str(&format!("(other {:?})", other)),
    }
}

/// the REAL instruction stream of the compiled template
fn code_sexp(t: &minijinja::Template) -> String {
    let c = get_compiled_template(t);
    let mut items: Vec<String> = vec![];
    let mut i = 0;
    while let Some(ins) = c.instructions.get(i) {
        i += 1;
        let mut o = String::new();
        o.push_str(" (");
        if let Instruction::LoadConst(v) = ins { o.push_str("LoadConst "); value_sexp(v, &mut o); o.push(')'); items.push(o); continue; }
        let j = serde_json::to_value(ins).unwrap_or(J::Null);
        let op = j["op"].as_str().unwrap_or("?").to_string();
        o.push_str(&op);
        match &j["arg"] {
            J::Null => { if op == "BuildList" { o.push_str(" _"); } }
            J::String(s) => { if op == "EmitRaw" { o.push(' '); o.push_str(&hx(s)); } else { o.push(' '); o.push_str(s); } }
            J::Number(n) => o.push_str(&format!(" {}", n)),
            J::Bool(b) => o.push_str(&format!(" {}", b)),
            J::Array(a) => for x in a { match x { J::String(s) => { o.push(' '); o.push_str(s); } J::Null => o.push_str(" _"), other => o.push_str(&format!(" {}", other)) } },
            other => o.push_str(&format!(" {}", other)),
        }
        o.push(')');
        items.push(o);
    }
    // the engine emits the `Enclose` instructions of a macro in `HashSet` order: canonicalise
    let mut k = 0;
    while k < items.len() {
        if items[k].starts_with(" (Enclose ") {
            let mut e = k;
            while e < items.len() && items[e].starts_with(" (Enclose ") { e += 1; }
            items[k..e].sort();
            k = e;
        } else { k += 1; }
    }
    format!("(code{})", items.concat())
}

/// -> (render result, real instruction stream)
fn render_real(src: &str, ctx: &Ctx) -> (String, String) {
    let r = guarded(|| {
        let mut env = Environment::new();
        if let Err(e) = env.add_template("t", src) { return (format!("err:{}", error_kind_name(&e)), "-".to_string()); }
        let t = env.get_template("t").unwrap();
        let code = code_sexp(&t);
        let root = Value::from_pairs(ctx.iter().map(|(k, v)| (k.clone(), cv_value(v))));
        match t.render(root) {
            Ok(s) => (format!("ok:{}", hx(&s)), code),
            Err(e) => (format!("err:{}", error_kind_name(&e)), code),
        }
    });
    r.unwrap_or_else(|_| ("panic".to_string(), "-".to_string()))
}

/// the case line: AST from the REAL parser (compared with `expected` when given)
fn run_case(id: &str, ctx: &Ctx, src: &str, expected: Option<&[S]>, stats: &str) -> String {
    let clean = |s: String| s.replace('\t', " ").replace('\n', " ");
    let (prog, result, code) = match real_ast(src) {
        Err(e) => (expected.map(|p| p.to_vec()).unwrap_or_default(),
                   if e.starts_with("parse-error") { clean(e) } else { clean(format!("parse-mismatch:{}", e)) }, "-".to_string()),
        Ok(p) => {
            if expected.map_or(false, |x| x != &p[..]) { (p, "parse-mismatch:ast differs from the generated one".to_string(), "-".to_string()) }
            else { let r = render_real(src, ctx); (p, r.0, r.1) }
        }
    };
    format!("{}\t{}\t{}\t{}\t{}\t{}\t{}", id, ctx_sexp(ctx), prog_sexp(&prog), result, hx(src), stats, code)
}

fn main() {
    quiet_panics();
    let args: Vec<String> = std::env::args().collect();
    let out = std::io::stdout();
    let mut out = std::io::BufWriter::new(out.lock());
    match args.get(1).map(|s| s.as_str()) {
        Some("gen") => {
            let tier = args.get(2).map(|s| s.as_str()).unwrap_or("quick");
            let n: usize = args.get(3).and_then(|s| s.parse().ok()).unwrap_or(if tier == "thorough" { 100_000 } else { 3_000 });
            // consecutive seeds of `Rng::new` give the same stream shifted by one draw: decorrelate
            let mut rng = Rng::new(seed_from_env());
            let mixed = rng.next() ^ seed_from_env().wrapping_mul(0xD6E8_FEB8_6659_FD93).rotate_left(23);
            let mut rng = Rng(mixed);
            let mut rng_tw = Rng(mixed ^ 0x7717_e5ca_9e00_0001);
            for i in 0..n {
                let (ctx, prog, stats, winfo) = gen_case(&mut rng);
                let src = b_src(&prog);
                writeln!(out, "{}", run_case(&format!("g{}", i), &ctx, &src, Some(&prog), &stats)).unwrap();
                // the same program through one of the other entry forms
                let kind = WRAP_KINDS[i % WRAP_KINDS.len()];
                let tail = gen_tail(&mut rng, kind, &winfo, &ctx);
                let p: &[S] = if kind == "expr" { &[] } else { &winfo.wprog };
                writeln!(out, "{}", run_wrap_case(&format!("g{}w", i), &ctx, kind, p, &tail, &format!("kinds=wrap-{}", kind))).unwrap();
                // ... and under an auto-escape mode: absolute (`esc-ident`) or against its neutral twin
                let ek = ESC_KINDS[i % ESC_KINDS.len()];
                let twin = if ek.starts_with("esc-") { vec![] } else { neutral_twin(&mut rng_tw, &prog, ek) };
                writeln!(out, "{}", run_esc_case(&format!("g{}e", i), &ctx, ek, &prog, &twin, &format!("kinds=wrap-{}", ek))).unwrap();
            }
        }
        Some("argbind") => {
            let tier = args.get(2).map(|s| s.as_str()).unwrap_or("quick");
            gen_argbind(tier, &mut out);
        }
        Some("shapes") => { gen_shapes(&mut out); }
        Some("batch") => {
            let mut line = String::new();
            while std::io::stdin().read_line(&mut line).unwrap() > 0 {
                let f: Vec<&str> = line.trim_end_matches('\n').split('\t').collect();
                if f.len() >= 3 && f[2].starts_with("(wrap ") {
                    match (parse_ctx(f[1]), parse_wrap(f[2])) {
                        (Some(ctx), Some((kind, p, t))) if ESC_KINDS.contains(&kind.as_str()) => writeln!(out, "{}", run_esc_case(f[0], &ctx, &kind, &p, &t, "-")).unwrap(),
                        (Some(ctx), Some((kind, p, t))) => writeln!(out, "{}", run_wrap_case(f[0], &ctx, &kind, &p, &t, "-")).unwrap(),
                        _ => writeln!(out, "{}\t{}\t{}\tbad-case\t-\t-\t-", f[0], f[1], f[2]).unwrap(),
                    }
                } else if f.len() >= 3 {
                    match (parse_ctx(f[1]), parse_prog(f[2])) {
                        (Some(ctx), Some(prog)) => {
                            let src = b_src(&prog);
                            writeln!(out, "{}", run_case(f[0], &ctx, &src, Some(&prog), "-")).unwrap();
                        }
                        _ => writeln!(out, "{}\t{}\t{}\tbad-case\t-\t-\t-", f[0], f[1], f[2]).unwrap(),
                    }
                }
                line.clear();
            }
        }
        Some("src") => {
            let ctx = args.get(3).map(|s| parse_ctx(s).expect("ctx sexp")).unwrap_or_default();
            writeln!(out, "{}", run_case("src", &ctx, &args[2], None, "-")).unwrap();
        }
        Some("wrap") => {
            // c03 wrap <kind> <source of P> <source of T> [ctx]: a hand-written wrapper case
            let ctx = args.get(5).map(|s| parse_ctx(s).expect("ctx sexp")).unwrap_or_default();
            let p = real_ast(&args[3]).expect("P");
            let t = real_ast(&args[4]).expect("T");
            writeln!(out, "{}", run_wrap_case("wrap", &ctx, &args[2], &p, &t, "-")).unwrap();
        }
        _ => eprintln!("usage: c03 gen <quick|thorough> [n] | batch | src <source> [ctx] | wrap <kind> <P> <T> [ctx]"),
    }
}
