//! C03 probe (temporary)
use minijinja::machinery::{parse, WhitespaceConfig};
use minijinja::syntax::SyntaxConfig;
use minijinja::{Environment, Value};

fn conv(j: &serde_json::Value) -> Value {
    match j {
        serde_json::Value::Null => Value::from(()),
        serde_json::Value::Bool(b) => Value::from(*b),
        serde_json::Value::Number(n) => Value::from(n.as_i64().unwrap()),
        serde_json::Value::String(s) => Value::from(s.as_str()),
        serde_json::Value::Array(a) => Value::from(a.iter().map(conv).collect::<Vec<_>>()),
        serde_json::Value::Object(o) => Value::from_pairs(o.iter().map(|(k, v)| (k.clone(), conv(v)))),
    }
}

fn main() {
    let args: Vec<String> = std::env::args().collect();
    match args[1].as_str() {
        "ast" => {
            let ast = parse(&args[2], "t", SyntaxConfig::default(), WhitespaceConfig::default()).unwrap();
            println!("{}", serde_json::to_string(&ast).unwrap());
        }
        "render" => {
            let mut env = Environment::new();
            env.add_template("t", &args[2]).unwrap();
            let ctx: serde_json::Value = serde_json::from_str(args.get(3).map(|s| s.as_str()).unwrap_or("{}")).unwrap();
            let t = env.get_template("t").unwrap();
            match t.render(conv(&ctx)) {
                Ok(s) => println!("OK [{}]", s),
                Err(e) => println!("ERR {:?} {}", e.kind(), e),
            }
        }
        _ => {}
    }
}
