//! C12 harness: every case is one template rendered under the four undefined behaviours.
//!
//! Output of `gen <quick|thorough>`: one line per case, tab separated
//!
//!   <stream> <id> <label> <template> <chainable> <lenient> <semistrict> <strict> <prog>
//!
//! * result = `ok:<hex of the output>` | `err:<ErrorKind>` | `panic:<hex msg>`
//! * `<prog>` = `-` or the token serialisation of (context, formatter flag, the REAL instruction
//!   stream the compiler produced) that the Lean model driver executes (see `enc_prog`).
//! * streams: `site` (documented site matrix; label = `<class>`), `fmt` / `fmtv` / `fmtc` (same
//!   through custom formatters: delegating / every value kind visible / counting its calls; also
//!   `stmtv`, `stmtc`, `progv`, `progc`), `prog` (generated programs of the core fragment), `call` (every builtin
//!   filter/test/function with possibly-undefined operands in each argument position; label =
//!   `<kind>:<name>:<what was substituted where>`), `sweep` (every builtin x small operand pool).
//!
//! `one <template>` replays a single template (context: the shared one) and prints the same line.
//! `names` prints the builtin names the `call`/`sweep` streams cover (cross-checked by the check
//! against defaults.rs).
use minijinja::machinery::{get_compiled_template, Instruction};
use minijinja::value::{Value, ValueKind};
use minijinja::{context, Environment, UndefinedBehavior};
use mjh::*;
use std::fmt::Write as _;
use std::io::Write as _;

const MODES: [UndefinedBehavior; 4] = [
    UndefinedBehavior::Chainable,
    UndefinedBehavior::Lenient,
    UndefinedBehavior::SemiStrict,
    UndefinedBehavior::Strict,
];

/// context of the modelled streams (`site`, `fmt`, `prog`): only values the Lean model knows
fn ctx_small() -> Value {
    context! {
        i1 => 3, i2 => 7, z => 0, s1 => "ab", s2 => "", s3 => "b", b1 => true, b0 => false, n => (),
        l1 => vec![1, 2, 3], l0 => Vec::<i32>::new(), ls => vec!["b", "a"],
        m1 => context!{ k => 1, n => context!{ q => "x" } },
        a => context!{ x => 1 },
        lm => vec![context!{ k => 1, v => "p" }, context!{ k => 2, v => "q" }, context!{ v => "r" }],
        h1 => "<b>&", hs => safe("<i>"), lh => vec![safe("<x>"), Value::from("<y>")], lp => vec!["a&", "'b"],
    }
}

/// richer context for the builtin streams
fn ctx_big() -> Value {
    context! {
        i1 => 3, i2 => 7, z => 0, s1 => "ab", s2 => "", s3 => "b", b1 => true, b0 => false, n => (),
        l1 => vec![1, 2, 3], l0 => Vec::<i32>::new(), ls => vec!["b", "a"],
        m1 => context!{ k => 1, n => context!{ q => "x" } },
        a => context!{ x => 1 },
        lm => vec![context!{ k => 1, v => "p" }, context!{ k => 2, v => "q" }, context!{ v => "r" }],
        f1 => 2.5, nl => "a\nb c", neg => -3, fmt => "%s-%s", html => "<a b>", sn => "42", sf => "4.5",
        ..zoo_values()
    }
}

// ---- a value zoo for the oracle-only streams: custom objects of each repr, bytes, wide / special numbers
#[derive(Debug)]
struct PlainObj;
impl minijinja::value::Object for PlainObj {
    fn repr(self: &std::sync::Arc<Self>) -> minijinja::value::ObjectRepr {
        minijinja::value::ObjectRepr::Plain
    }
}
#[derive(Debug)]
struct MapObj;
impl minijinja::value::Object for MapObj {
    fn get_value(self: &std::sync::Arc<Self>, key: &Value) -> Option<Value> {
        match key.as_str()? {
            "k" => Some(Value::from(1)),
            "un" => Some(Value::UNDEFINED),
            _ => None,
        }
    }
    fn enumerate(self: &std::sync::Arc<Self>) -> minijinja::value::Enumerator {
        minijinja::value::Enumerator::Str(&["k", "un"])
    }
}
#[derive(Debug)]
struct SeqObj;
impl minijinja::value::Object for SeqObj {
    fn repr(self: &std::sync::Arc<Self>) -> minijinja::value::ObjectRepr {
        minijinja::value::ObjectRepr::Seq
    }
    fn get_value(self: &std::sync::Arc<Self>, key: &Value) -> Option<Value> {
        match key.as_usize()? {
            0 => Some(Value::from("x")),
            1 => Some(Value::UNDEFINED),
            _ => None,
        }
    }
    fn enumerate(self: &std::sync::Arc<Self>) -> minijinja::value::Enumerator {
        minijinja::value::Enumerator::Seq(2)
    }
}

fn zoo_values() -> Value {
    context! {
        by => Value::from_bytes(vec![97, 0, 255]), opl => Value::from_object(PlainObj), om => Value::from_object(MapObj),
        os => Value::from_object(SeqObj), oit => Value::make_iterable(|| vec![Value::from(1), Value::UNDEFINED].into_iter()),
        big => Value::from(i128::MAX), ubig => Value::from(u128::MAX), nan => f64::NAN, inf => f64::INFINITY,
    }
}

/// the contexts with every string a *safe* string (auto-escape streams)
fn safe(s: &str) -> Value {
    Value::from_safe_string(s.to_string())
}

fn ctx_safe() -> Value {
    context! {
        i1 => 3, i2 => 7, z => 0, s1 => safe("ab"), s2 => safe(""), s3 => safe("b"), b1 => true, b0 => false, n => (),
        l1 => vec![1, 2, 3], l0 => Vec::<i32>::new(), ls => vec![safe("b"), safe("a")],
        m1 => context!{ k => 1, n => context!{ q => safe("x") } },
        a => context!{ x => 1 },
        lm => vec![context!{ k => 1, v => safe("p") }, context!{ k => 2, v => "q" }, context!{ v => "r" }],
        f1 => 2.5, nl => safe("a\nb c"), neg => -3, fmt => safe("%s-%s"), html => "<a b>", sn => safe("42"), sf => "4.5",
        ..zoo_values()
    }
}

struct Envs {
    /// default formatter
    envs: Vec<Environment<'static>>,
    /// custom formatters (Emit goes through Environment::format): [delegating, visible, counting]
    fmt_envs: [Vec<Environment<'static>>; 3],
    /// default formatter + everything minijinja-contrib registers + pycompat's method callback
    contrib_envs: Vec<Environment<'static>>,
}

thread_local! {
    /// number of invocations of the counting formatter during the current render
    static FMT_CALLS: std::cell::Cell<usize> = const { std::cell::Cell::new(0) };
}

/// 0 = default formatter, 1 = custom formatter delegating to escape_formatter, 2 = custom formatter
/// that makes every value kind visible (undefined -> U, also the silent one; none -> N),
/// 3 = delegating formatter with a side effect (counts its invocations; the count is appended
/// to the observed output as `#n`)
fn fmt_kind(stream: &str) -> usize {
    match stream {
        "fmt" => 1,
        "fmtv" | "stmtv" | "progv" => 2,
        "fmtc" | "stmtc" | "progc" => 3,
        _ => 0,
    }
}

/// templates the generated programs include by name (no blocks, no nested includes)
const INCLUDABLE: [&str; 5] = ["inc", "incdef", "base", "base2", "base3"];

/// user filters, one per string-like argument type of value/argtypes.rs
fn add_arg_filters(e: &mut Environment<'static>) {
    e.add_function("xf", || Value::UNDEFINED);
    e.add_filter("t_string", |s: String| format!("<{}>", s));
    e.add_filter("t_cow", |s: std::borrow::Cow<'_, str>| format!("<{}>", s));
    e.add_filter("t_input", |s: minijinja::value::StringInput<'_>| format!("<{}>", s.as_str()));
    e.add_filter("t_str", |s: &str| format!("<{}>", s));
    e.add_filter("t_value", |v: Value| format!("<{}>", v));
    e.add_filter("t_optstring", |v: Option<String>| format!("<{}>", v.unwrap_or_default()));
    e.add_filter("t_two", |a: String, b: String| format!("<{}{}>", a, b));
    e.add_filter("t_vec", |v: Vec<String>| format!("<{}>", v.join(",")));
    e.add_filter("t_rest", |a: String, r: minijinja::value::Rest<String>| format!("<{}:{}>", a, r.join(",")));
    // the public State / Value API called from Rust with the template's values
    e.add_function("api", |state: &mut minijinja::State, op: String, args: minijinja::value::Rest<Value>| -> Result<Value, minijinja::Error> {
        let name = |i: usize| args.get(i).and_then(|v| v.as_str()).unwrap_or("").to_string();
        let arg = |i: usize| args.get(i).cloned().unwrap_or_default();
        let rest = |i: usize| -> Vec<Value> { args.iter().skip(i).cloned().collect() };
        match op.as_str() {
            "format" => state.format(arg(0)).map(Value::from),
            "apply_filter" => state.apply_filter(&name(0), &rest(1)),
            "perform_test" => state.perform_test(&name(0), &rest(1)).map(Value::from),
            "call_macro" => state.call_macro(&name(0), &rest(1)).map(Value::from),
            "call" => arg(0).call(state, &rest(1)),
            "call_method" => arg(0).call_method(state, &name(1), &rest(2)),
            "get_attr" => arg(0).get_attr(&name(1)),
            "get_item" => arg(0).get_item(&arg(1)),
            "get_item_by_index" => arg(0).get_item_by_index(1),
            "try_iter" => arg(0).try_iter().map(|it| Value::from(it.collect::<Vec<_>>())),
            "len" => Ok(Value::from(arg(0).len().map(|x| x as i64).unwrap_or(-1))),
            "is_true" => Ok(Value::from(arg(0).is_true())),
            "lookup" => Ok(state.lookup(&name(0)).unwrap_or_default()),
            "render_block" => state.render_block(&name(0)).map(Value::from),
            "to_string" => Ok(Value::from(arg(0).to_string())),
            _ => Err(minijinja::Error::new(minijinja::ErrorKind::InvalidOperation, "unknown api op")),
        }
    });
    // templates for the multi-template statements of the `stmt` stream
    e.add_template("inc", "(inc {{ i1 }}{{ u }})").unwrap();
    e.add_template("incdef", "(incdef {{ u is defined }}{{ u|default(1) }})").unwrap();
    e.add_template("mac", "{% macro f(a, b=u) %}<{{ a }}|{{ b }}>{% endmacro %}{% macro g(a) %}<{{ a is defined }}>{% endmacro %}").unwrap();
    e.add_template("base", "B{% block blk %}[{{ u }}]{% endblock %}{% block other %}o{% endblock %}E").unwrap();
    e.add_template("base2", "B{% block blk %}[{{ u|default(2) }}]{% endblock %}E").unwrap();
    e.add_template("base3", "{% extends 'base2' %}{% block blk %}<{{ super() }}|{{ w if b0 }}>{% endblock %}").unwrap();
}

fn mk_envs() -> Envs {
    let mut envs = vec![];
    let mut fmt_envs = [vec![], vec![], vec![]];
    let mut contrib_envs = vec![];
    for m in MODES {
        let mut e = Environment::new();
        e.set_undefined_behavior(m);
        add_arg_filters(&mut e);
        envs.push(e);
        let mut e = Environment::new();
        e.set_undefined_behavior(m);
        add_arg_filters(&mut e);
        minijinja_contrib::add_to_environment(&mut e);
        e.set_unknown_method_callback(minijinja_contrib::pycompat::unknown_method_callback);
        contrib_envs.push(e);
        for kind in 1..=3 {
            let mut e = Environment::new();
            e.set_undefined_behavior(m);
            add_arg_filters(&mut e);
            match kind {
                1 => e.set_formatter(|out, state, value| minijinja::escape_formatter(out, state, value)),
                2 => e.set_formatter(|out, state, value| {
                    if value.is_undefined() {
                        out.write_str("U").map_err(minijinja::Error::from)
                    } else if value.is_none() {
                        out.write_str("N").map_err(minijinja::Error::from)
                    } else {
                        minijinja::escape_formatter(out, state, value)
                    }
                }),
                _ => e.set_formatter(|out, state, value| {
                    FMT_CALLS.with(|c| c.set(c.get() + 1));
                    minijinja::escape_formatter(out, state, value)
                }),
            }
            fmt_envs[kind - 1].push(e);
        }
    }
    Envs { envs, fmt_envs, contrib_envs }
}

fn render(env: &Environment, src: &str, ctx: &Value, counting: bool) -> String {
    render_named(env, "<string>", src, ctx, counting)
}

/// `name` decides the auto-escaping (`*.html` = Html)
fn render_named(env: &Environment, name: &str, src: &str, ctx: &Value, counting: bool) -> String {
    FMT_CALLS.with(|c| c.set(0));
    match guarded(|| env.render_named_str(name, src, ctx.clone())) {
        Ok(Ok(mut s)) => {
            if counting {
                s.push_str(&format!("#{}", FMT_CALLS.with(|c| c.get())));
            }
            format!("ok:{}", hex(s.as_bytes()))
        }
        Ok(Err(e)) => format!("err:{}", error_kind_name(&e)),
        Err(p) => format!("panic:{}", hex(p.as_bytes())),
    }
}

// ------------------------------------------------------------------------------------------
// serialisation of values / instructions for the Lean driver

fn hx(s: &str) -> String {
    if s.is_empty() { "-".into() } else { hex(s.as_bytes()) }
}

fn is_silent(strict: &Environment, v: &Value) -> bool {
    // a silent undefined prints under Strict, a default one does not
    v.is_undefined() && strict.render_str("{{ v }}", context! { v => v.clone() }).is_ok()
}

/// `None` = outside the model's value domain
fn enc_value(strict: &Environment, v: &Value, out: &mut String) -> Option<()> {
    match v.kind() {
        ValueKind::Undefined => out.push_str(if is_silent(strict, v) { "S" } else { "U" }),
        ValueKind::None => out.push('N'),
        ValueKind::Bool => out.push(if v.is_true() { 'T' } else { 'F' }),
        ValueKind::Number => {
            if !v.is_integer() {
                return None;
            }
            let i = i64::try_from(v.clone()).ok()?;
            write!(out, "I {}", i).unwrap();
        }
        ValueKind::String => {
            let s = v.as_str()?;
            if !s.chars().all(|c| (' '..='~').contains(&c)) {
                return None;
            }
            write!(out, "{} {}", if v.is_safe() { "Y" } else { "X" }, hx(s)).unwrap();
        }
        ValueKind::Seq => {
            if v.is_tuple() {
                return None;
            }
            let items: Vec<Value> = v.try_iter().ok()?.collect();
            write!(out, "L {}", items.len()).unwrap();
            for it in &items {
                out.push(' ');
                enc_value(strict, it, out)?;
            }
        }
        ValueKind::Map => {
            if v.is_kwargs() {
                return None;
            }
            let keys: Vec<Value> = v.try_iter().ok()?.collect();
            write!(out, "M {}", keys.len()).unwrap();
            for k in &keys {
                let ks = k.as_str()?;
                write!(out, " {} ", hx(ks)).unwrap();
                enc_value(strict, &v.get_item(k).ok()?, out)?;
            }
        }
        _ => return None,
    }
    Some(())
}

const NON_CTX_NAMES: [&str; 2] = ["self", "super"];

fn enc_instr(strict: &Environment, ins: &Instruction, out: &mut String) {
    use Instruction as I;
    let argc = |n: &Option<u16>| n.map(|x| x as i64).unwrap_or(-1);
    match ins {
        I::EmitRaw(s) => write!(out, "EmitRaw {}", hx(s)).unwrap(),
        I::Emit => out.push_str("Emit"),
        I::StoreLocal(n) => write!(out, "StoreLocal {}", hx(n)).unwrap(),
        I::Lookup(n) => {
            if NON_CTX_NAMES.contains(n) {
                write!(out, "Unsupported Lookup-{}", n).unwrap()
            } else {
                write!(out, "Lookup {}", hx(n)).unwrap()
            }
        }
        I::GetAttr(n) => write!(out, "GetAttr {}", hx(n)).unwrap(),
        I::GetItem => out.push_str("GetItem"),
        I::Slice => out.push_str("Slice"),
        I::LoadConst(v) => {
            let mut s = String::new();
            match enc_value(strict, v, &mut s) {
                Some(()) => write!(out, "LoadConst {}", s).unwrap(),
                None => out.push_str("Unsupported LoadConst"),
            }
        }
        I::BuildList(Some(n)) => write!(out, "BuildList {}", n).unwrap(),
        I::BuildList(None) => out.push_str("BuildListDyn"),
        I::Neg => out.push_str("Neg"),
        I::BuildMap(n) => write!(out, "BuildMap {}", n).unwrap(),
        I::Div => out.push_str("Binop Div"),
        I::IntDiv => out.push_str("Binop IntDiv"),
        I::Rem => out.push_str("Binop Rem"),
        I::Pow => out.push_str("Binop Pow"),
        I::BuildKwargs(n) => write!(out, "BuildKwargs {}", n).unwrap(),
        I::MergeKwargs(n) => write!(out, "MergeKwargs {}", n).unwrap(),
        I::UnpackList(n) => write!(out, "UnpackList {}", n).unwrap(),
        I::CallFunction(n, a) if argc(a) >= 0 => write!(out, "CallFunction {} {}", hx(n), argc(a)).unwrap(),
        I::CallMethod(n, a) if argc(a) >= 0 => write!(out, "CallMethod {} {}", hx(n), argc(a)).unwrap(),
        I::CallObject(a) if argc(a) >= 0 => write!(out, "CallObject {}", argc(a)).unwrap(),
        // `*args`: the number of arguments is on the stack (pushed by UnpackLists)
        I::CallFunction(n, None) => write!(out, "CallFunctionDyn {}", hx(n)).unwrap(),
        I::CallMethod(n, None) => write!(out, "CallMethodDyn {}", hx(n)).unwrap(),
        I::CallObject(None) => out.push_str("CallObjectDyn"),
        I::ApplyFilter(n, None, _) => write!(out, "ApplyFilterDyn {}", hx(n)).unwrap(),
        I::PerformTest(n, None, _) => write!(out, "PerformTestDyn {}", hx(n)).unwrap(),
        I::UnpackLists(n) => write!(out, "UnpackLists {}", n).unwrap(),
        I::IsUndefined => out.push_str("IsUndefined"),
        I::Enclose(n) => write!(out, "Enclose {}", hx(n)).unwrap(),
        I::GetClosure => out.push_str("GetClosure"),
        I::BuildMacro(n, off, flags) => write!(out, "BuildMacro {} {} {}", hx(n), off, flags).unwrap(),
        I::Return => out.push_str("Return"),
        I::Include(ignore) => write!(out, "Include {}", *ignore as u8).unwrap(),
        I::CallBlock(n) => write!(out, "CallBlock {}", hx(n)).unwrap(),
        I::LoadBlocks => out.push_str("LoadBlocks"),
        I::FastSuper => out.push_str("FastSuper"),
        I::Add => out.push_str("Add"),
        I::Sub => out.push_str("Sub"),
        I::Mul => out.push_str("Mul"),
        I::Eq => out.push_str("Eq"),
        I::Ne => out.push_str("Ne"),
        I::Gt => out.push_str("Gt"),
        I::Gte => out.push_str("Gte"),
        I::Lt => out.push_str("Lt"),
        I::Lte => out.push_str("Lte"),
        I::Not => out.push_str("Not"),
        I::StringConcat => out.push_str("StringConcat"),
        I::In => out.push_str("In"),
        I::CompareAndPreserve(op) => {
            let j = serde_json::to_string(op).unwrap();
            write!(out, "CompareAndPreserve {}", j.trim_matches('"')).unwrap()
        }
        I::ApplyFilter(n, a, _) if argc(a) >= 0 => write!(out, "ApplyFilter {} {}", hx(n), argc(a)).unwrap(),
        I::PerformTest(n, a, _) if argc(a) >= 0 => write!(out, "PerformTest {} {}", hx(n), argc(a)).unwrap(),
        I::PushLoop(flags) => write!(out, "PushLoop {}", flags).unwrap(),
        I::Iterate(t) => write!(out, "Iterate {}", t).unwrap(),
        I::PushDidNotIterate => out.push_str("PushDidNotIterate"),
        I::PopFrame => out.push_str("PopFrame"),
        I::PopLoopFrame => out.push_str("PopLoopFrame"),
        I::PushWith => out.push_str("PushWith"),
        I::Jump(t) => write!(out, "Jump {}", t).unwrap(),
        I::JumpIfFalse(t) => write!(out, "JumpIfFalse {}", t).unwrap(),
        I::JumpIfFalseOrPop(t) => write!(out, "JumpIfFalseOrPop {}", t).unwrap(),
        I::JumpIfTrueOrPop(t) => write!(out, "JumpIfTrueOrPop {}", t).unwrap(),
        I::BeginCapture(_) => {
            let j = serde_json::to_string(ins).unwrap_or_default();
            if j.contains("\"Capture\"") {
                out.push_str("BeginCapture")
            } else {
                out.push_str("BeginCaptureDiscard")
            }
        }
        I::EndCapture => out.push_str("EndCapture"),
        I::ExportLocals => out.push_str("ExportLocals"),
        I::PushAutoEscape => out.push_str("PushAutoEscape"),
        I::PopAutoEscape => out.push_str("PopAutoEscape"),
        I::DupTop => out.push_str("DupTop"),
        I::DiscardTop => out.push_str("DiscardTop"),
        I::Swap => out.push_str("Swap"),
        other => {
            let j = serde_json::to_value(other).ok();
            let name = j
                .as_ref()
                .and_then(|v| v.get("op"))
                .and_then(|v| v.as_str())
                .unwrap_or("unknown")
                .to_string();
            write!(out, "Unsupported {}", name).unwrap()
        }
    }
}

/// `C @ F <formatter kind 0..3> P <number of codes> (K <hex name|-> N <count> <instr>…)…` (`@` = the context of the preceding `ctx` line) or `-` when
/// the template does not compile
/// `name` decides the initial auto-escaping (`A 1` = HTML)
fn enc_prog_named(envs: &Envs, name: &str, src: &str, ctx: &Value, fmt_kind: usize) -> String {
    let strict = &envs.envs[3];
    let auto_escape = name.ends_with(".html") as u8;
    let r = guarded(|| {
        let tmpl = match strict.template_from_named_str(name, src) {
            Ok(t) => t,
            Err(_) => return None,
        };
        let compiled = get_compiled_template(&tmpl);
        // the context is the shared one announced by the `ctx` line
        let _ = ctx;
        let mut codes: Vec<(String, String, u32)> = vec![];
        let enc_code = |instrs: &minijinja::machinery::Instructions| -> (String, u32, bool) {
            let mut n = 0u32;
            let mut body = String::new();
            let mut includes = false;
            while let Some(ins) = instrs.get(n) {
                body.push(' ');
                includes |= matches!(ins, Instruction::Include(_) | Instruction::LoadBlocks);
                enc_instr(strict, ins, &mut body);
                n += 1;
            }
            (body, n, includes)
        };
        let (body, n, mut includes) = enc_code(&compiled.instructions);
        codes.push(("-".into(), body, n));
        // the blocks of the template itself (`@name`); templates that extend another one stay outside the model
        for (name, instrs) in compiled.blocks.iter() {
            let (body, n, inner) = enc_code(instrs);
            includes |= inner;
            codes.push((hx(&format!("@-@{}", name)), body, n));
        }
        if includes {
            // the templates a generated program can include by name
            for name in INCLUDABLE {
                let t = strict.get_template(name).ok()?;
                let c = get_compiled_template(&t);
                let (body, n, _) = enc_code(&c.instructions);
                codes.push((hx(name), body, n));
                // the blocks of a template that can be extended: `@<template>@<block>`
                for (bname, instrs) in c.blocks.iter() {
                    let (body, n, _) = enc_code(instrs);
                    codes.push((hx(&format!("@{}@{}", name, bname)), body, n));
                }
            }
        }
        let mut out = String::from("C @");
        write!(out, " F {} A {} P {}", fmt_kind, auto_escape, codes.len()).unwrap();
        for (name, body, n) in &codes {
            write!(out, " K {} N {}{}", name, n, body).unwrap();
        }
        Some(out)
    });
    match r {
        Ok(Some(s)) => s,
        _ => "-".into(),
    }
}

/// `ctx<TAB><value tokens>`: the context of the modelled streams
/// other ways into the engine / other configurations of the environment
const ENTRIES: &[&str] = &["loader", "from_str", "captured", "expression", "block", "syntax", "nodebug", "escape_cb", "macro", "late_mode", "clone_mode"];

fn entry_render(entry: &str, mode: UndefinedBehavior, src: &str, ctx: &Value) -> String {
    let r = guarded(|| -> Result<String, minijinja::Error> {
        let mut env = Environment::new();
        env.set_undefined_behavior(mode);
        add_arg_filters(&mut env);
        match entry {
            "loader" => {
                let owned = src.to_string();
                env.set_loader(move |name| Ok(if name == "site" { Some(owned.clone()) } else { None }));
                env.get_template("site")?.render(ctx.clone())
            }
            "from_str" => env.template_from_str(src)?.render(ctx.clone()),
            "late_mode" => {
                // the template is compiled while the environment still has the default mode; the mode is set afterwards
                let mut env = Environment::new();
                add_arg_filters(&mut env);
                env.add_template_owned("site".to_string(), src.to_string())?;
                env.set_undefined_behavior(mode);
                env.get_template("site")?.render(ctx.clone())
            }
            "clone_mode" => {
                // compiled in a Strict environment, rendered by a clone that was switched to the mode
                let mut base = Environment::new();
                base.set_undefined_behavior(UndefinedBehavior::Strict);
                add_arg_filters(&mut base);
                base.add_template_owned("site".to_string(), src.to_string())?;
                let mut env = base.clone();
                env.set_undefined_behavior(mode);
                env.get_template("site")?.render(ctx.clone())
            }
            "captured" => Ok(env.template_from_str(src)?.render_captured(ctx.clone())?.into_output()),
            "expression" => {
                // `[{{ EXPR }}]` sites only
                let inner = src.strip_prefix("[{{ ").and_then(|s| s.strip_suffix(" }}]"));
                match inner {
                    Some(e) if !e.contains("}}") => Ok(format!("[{}]", env.compile_expression(e)?.eval(ctx.clone())?)),
                    _ => Ok("not-an-expression".into()),
                }
            }
            "block" => {
                let wrapped = format!("{{% block site %}}{}{{% endblock %}}", src);
                let tmpl = env.template_from_str(&wrapped)?;
                let mut cap = tmpl.render_captured(ctx.clone())?;
                cap.with_state_mut(|state| state.render_block("site"))
            }
            "syntax" => {
                let syntax = minijinja::syntax::SyntaxConfig::builder()
                    .block_delimiters("<%", "%>")
                    .variable_delimiters("<<", ">>")
                    .comment_delimiters("<#", "#>")
                    .build()?;
                env.set_syntax(syntax);
                let t = src.replace("{{", "<<").replace("}}", ">>").replace("{%", "<%").replace("%}", "%>");
                env.render_str(&t, ctx.clone())
            }
            "nodebug" => {
                env.set_debug(false);
                env.render_str(src, ctx.clone())
            }
            "escape_cb" => {
                env.set_auto_escape_callback(|_| minijinja::AutoEscape::Html);
                env.render_str(src, ctx.clone())
            }
            "macro" => {
                // the site inside a macro body, called through State::call_macro
                let wrapped = format!("{{% macro site() %}}{}{{% endmacro %}}{{{{ api('call_macro', 'site') }}}}", src);
                env.render_str(&wrapped, ctx.clone())
            }
            _ => unreachable!(),
        }
    });
    match r {
        Ok(Ok(s)) => format!("ok:{}", hex(s.as_bytes())),
        Ok(Err(e)) => err_text(&e),
        Err(p) => format!("panic:{}", hex(p.as_bytes())),
    }
}

// ------------------------------------------------------------------------------------------
// the site matrix in every OUTPUT CONTEXT and entry form (stream `cx.<context>.<entry>.<formatter>`)
//
// "the output goes nowhere" must not switch a check off: every site template is placed at the top
// level, inside a block / macro / call block / set block / filter block / autoescape block / loop
// body / loop else / with / if, at the top level of a child template after `{% extends %}` (the
// output is DISCARDING there), inside a child block, in the parent's block reached through super(),
// in an included template, in a module loaded with `import .. as` (captured) and with
// `from .. import` (discarding), with captures nested inside the discarding contexts, and is
// rendered through render / render_captured / render_captured_to a writer and a sink /
// render_named_str / State::render_block(_to_write) / Expression::eval (null output).

/// `err:<kind>` or `err:<kind>/<kind of the innermost error>` (errors raised in an included or imported
/// template, or in a block, are wrapped)
fn err_text(e: &minijinja::Error) -> String {
    let top = error_kind_name(e);
    let mut root = top.clone();
    let mut src = std::error::Error::source(e);
    while let Some(inner) = src {
        if let Some(me) = inner.downcast_ref::<minijinja::Error>() {
            root = error_kind_name(me);
        }
        src = inner.source();
    }
    if root == top { format!("err:{}", top) } else { format!("err:{}/{}", top, root) }
}

const CX_BASE: &str = "<{% block body %}base{% endblock %}>";
const CX_HELLO: &str = "{% macro hello() %}hello{% endmacro %}";

/// output contexts: the ones from `extends_top` on run (partly) with a discarding output
const CXS: &[&str] = &[
    "top", "block", "macro", "callblock", "setblock", "filterblock", "autoescape_off", "autoescape_html", "loop", "loopelse", "with", "ifbranch",
    "extends_block", "extends_super", "include", "import_as", "import_print", "from_import_macro",
    "extends_top", "extends_top_set", "extends_top_macro", "extends_top_loop", "extends_top_include", "from_import", "from_import_if", "from_import_set",
    "from_import_nested",
];

struct CxCase {
    /// (name, source) of the templates next to the main one
    templates: Vec<(&'static str, String)>,
    main: String,
    /// expected output of the modes that must not fail (`None`: only ok-vs-error is judged)
    expect: Option<String>,
}

fn cx_build(cx: &str, site: &str, e: &str) -> CxCase {
    let base = || vec![("cx_base", CX_BASE.to_string())];
    let s = site;
    let (templates, main, expect): (Vec<(&'static str, String)>, String, Option<String>) = match cx {
        "top" => (vec![], s.to_string(), Some(e.to_string())),
        "block" => (vec![], format!("{{% block cxb %}}{s}{{% endblock %}}"), Some(e.to_string())),
        "macro" => (vec![], format!("{{% macro cxm() %}}{s}{{% endmacro %}}{{{{ cxm() }}}}"), Some(e.to_string())),
        "callblock" => (vec![], format!("{{% macro cxm() %}}<{{{{ caller() }}}}>{{% endmacro %}}{{% call cxm() %}}{s}{{% endcall %}}"), Some(format!("<{e}>"))),
        "setblock" => (vec![], format!("{{% set cxv %}}{s}{{% endset %}}{{{{ cxv }}}}"), Some(e.to_string())),
        "filterblock" => (vec![], format!("{{% filter trim %}}{s}{{% endfilter %}}"), Some(e.trim().to_string())),
        "autoescape_off" => (vec![], format!("{{% autoescape false %}}{s}{{% endautoescape %}}"), Some(e.to_string())),
        "autoescape_html" => (vec![], format!("{{% autoescape 'html' %}}{s}{{% endautoescape %}}"),
            if e.chars().any(|c| "<>&\"'/".contains(c)) { None } else { Some(e.to_string()) }),
        "loop" => (vec![], format!("{{% for cxi in [1] %}}{s}{{% endfor %}}"), Some(e.to_string())),
        "loopelse" => (vec![], format!("{{% for cxi in [] %}}{{% else %}}{s}{{% endfor %}}"), Some(e.to_string())),
        "with" => (vec![], format!("{{% with cxw = 1 %}}{s}{{% endwith %}}"), Some(e.to_string())),
        "ifbranch" => (vec![], format!("{{% if b1 %}}{s}{{% endif %}}"), Some(e.to_string())),
        "extends_block" => (base(), format!("{{% extends 'cx_base' %}}{{% block body %}}{s}{{% endblock %}}"), Some(format!("<{e}>"))),
        "extends_super" => (vec![("cx_base_s", format!("<{{% block body %}}{s}{{% endblock %}}>"))],
            "{% extends 'cx_base_s' %}{% block body %}({{ super() }}){% endblock %}".to_string(), Some(format!("<({e})>"))),
        "include" => (vec![("cx_site", s.to_string())], "{% include 'cx_site' %}".to_string(), Some(e.to_string())),
        "import_as" => (vec![("cx_site", s.to_string())], "{% import 'cx_site' as cxmod %}[ok]".to_string(), Some("[ok]".to_string())),
        "import_print" => (vec![("cx_site", s.to_string())], "{% import 'cx_site' as cxmod %}{{ cxmod }}".to_string(), Some(e.to_string())),
        "from_import_macro" => (vec![("cx_mod", format!("{{% macro cxsite() %}}{s}{{% endmacro %}}"))],
            "{% from 'cx_mod' import cxsite %}{{ cxsite() }}".to_string(), Some(e.to_string())),
        // ---- the output is discarding while the site runs
        "extends_top" => (base(), format!("{{% extends 'cx_base' %}}{s}"), Some("<base>".to_string())),
        "extends_top_set" => (base(), format!("{{% extends 'cx_base' %}}{{% set cxv %}}{s}{{% endset %}}"), Some("<base>".to_string())),
        "extends_top_macro" => (base(), format!("{{% extends 'cx_base' %}}{{% macro cxm() %}}{s}{{% endmacro %}}{{{{ cxm() }}}}"), Some("<base>".to_string())),
        "extends_top_loop" => (base(), format!("{{% extends 'cx_base' %}}{{% for cxi in [1] %}}{s}{{% endfor %}}"), Some("<base>".to_string())),
        "extends_top_include" => { let mut t = base(); t.push(("cx_site", s.to_string())); (t, "{% extends 'cx_base' %}{% include 'cx_site' %}".to_string(), Some("<base>".to_string())) }
        "from_import" => (vec![("cx_mod", format!("{s}{CX_HELLO}"))], "{% from 'cx_mod' import hello %}[{{ hello() }}]".to_string(), Some("[hello]".to_string())),
        "from_import_if" => (vec![("cx_mod", format!("{{% if b1 %}}{s}{{% endif %}}{CX_HELLO}"))], "{% from 'cx_mod' import hello %}[{{ hello() }}]".to_string(), Some("[hello]".to_string())),
        "from_import_set" => (vec![("cx_mod", format!("{{% set cxv %}}{s}{{% endset %}}{CX_HELLO}"))], "{% from 'cx_mod' import hello %}[{{ hello() }}]".to_string(), Some("[hello]".to_string())),
        "from_import_nested" => (vec![("cx_mod", format!("{{% include 'cx_site' %}}{CX_HELLO}")), ("cx_site", s.to_string())],
            "{% from 'cx_mod' import hello %}[{{ hello() }}]".to_string(), Some("[hello]".to_string())),
        _ => unreachable!("unknown output context {cx}"),
    };
    CxCase { templates, main, expect }
}

/// ways into the engine for a (multi-template) case
const CX_ENTRIES: &[&str] = &["render", "captured", "to_vec", "to_sink", "named_str", "render_block", "block_to_write", "eval"];

/// a writer that drops everything
struct Sink;
impl std::io::Write for Sink {
    fn write(&mut self, buf: &[u8]) -> std::io::Result<usize> { Ok(buf.len()) }
    fn flush(&mut self) -> std::io::Result<()> { Ok(()) }
}

fn cx_env(envs: &Envs, mode: usize, k: usize, case: &CxCase) -> Result<Environment<'static>, minijinja::Error> {
    let mut env = if k == 0 { envs.envs[mode].clone() } else { envs.fmt_envs[k - 1][mode].clone() };
    for (n, src) in &case.templates {
        env.add_template_owned(n.to_string(), src.clone())?;
    }
    Ok(env)
}

/// `None` = the entry form does not apply to this case
fn cx_render(envs: &Envs, entry: &str, mode: usize, k: usize, case: &CxCase, site: &str, ctx: &Value) -> Option<String> {
    FMT_CALLS.with(|c| c.set(0));
    let r = guarded(|| -> Result<Option<String>, minijinja::Error> {
        let mut env = cx_env(envs, mode, k, case)?;
        Ok(Some(match entry {
            "render" => {
                env.add_template_owned("cx_main".to_string(), case.main.clone())?;
                env.get_template("cx_main")?.render(ctx.clone())?
            }
            "captured" => env.template_from_str(&case.main)?.render_captured(ctx.clone())?.into_output(),
            "to_vec" => {
                let mut buf: Vec<u8> = vec![];
                env.template_from_str(&case.main)?.render_captured_to(ctx.clone(), &mut buf)?;
                String::from_utf8_lossy(&buf).into_owned()
            }
            "to_sink" => {
                env.template_from_str(&case.main)?.render_captured_to(ctx.clone(), Sink)?;
                String::new()
            }
            "named_str" => env.render_named_str("cx_main.txt", &case.main, ctx.clone())?,
            "render_block" | "block_to_write" => {
                // the block is defined but not reached by the top-level render: only render_block runs the site
                let wrapped = format!("{{% if b0 %}}{{% block cxsite %}}{}{{% endblock %}}{{% endif %}}", case.main);
                let tmpl = env.template_from_str(&wrapped)?;
                let mut cap = tmpl.render_captured(ctx.clone())?;
                if entry == "render_block" {
                    cap.with_state_mut(|state| state.render_block("cxsite"))?
                } else {
                    let mut buf: Vec<u8> = vec![];
                    cap.with_state_mut(|state| state.render_block_to_write("cxsite", &mut buf))?;
                    String::from_utf8_lossy(&buf).into_owned()
                }
            }
            "eval" => {
                // `[{{ EXPR }}]` sites only: the expression is evaluated with a null output
                let inner = site.strip_prefix("[{{ ").and_then(|s| s.strip_suffix(" }}]"));
                match inner {
                    Some(e) if !e.contains("}}") && case.templates.is_empty() && case.main == site => {
                        let v = env.compile_expression(e)?.eval(ctx.clone())?;
                        format!("[{}]", v)
                    }
                    _ => return Ok(None),
                }
            }
            _ => unreachable!(),
        }))
    });
    Some(match r {
        Ok(Ok(Some(mut s))) => {
            if k == 3 {
                s.push_str(&format!("#{}", FMT_CALLS.with(|c| c.get())));
            }
            format!("ok:{}", hex(s.as_bytes()))
        }
        Ok(Ok(None)) => return None,
        Ok(Err(e)) => err_text(&e),
        Err(p) => format!("panic:{}", hex(p.as_bytes())),
    })
}

/// the instruction streams of a multi-template case for the Lean driver (same format as `enc_prog`)
fn enc_prog_cx(envs: &Envs, case: &CxCase, fmt_kind: usize) -> String {
    let r = guarded(|| -> Option<String> {
        let mut env = cx_env(envs, 3, 0, case).ok()?;
        env.add_template_owned("cx_main".to_string(), case.main.clone()).ok()?;
        let strict = &envs.envs[3];
        let enc_code = |instrs: &minijinja::machinery::Instructions| -> (String, u32) {
            let mut n = 0u32;
            let mut body = String::new();
            while let Some(ins) = instrs.get(n) {
                body.push(' ');
                enc_instr(strict, ins, &mut body);
                n += 1;
            }
            (body, n)
        };
        let mut codes: Vec<(String, String, u32)> = vec![];
        let main = env.get_template("cx_main").ok()?;
        let compiled = get_compiled_template(&main);
        let (body, n) = enc_code(&compiled.instructions);
        codes.push(("-".into(), body, n));
        for (name, instrs) in compiled.blocks.iter() {
            let (body, n) = enc_code(instrs);
            codes.push((hx(&format!("@-@{}", name)), body, n));
        }
        let mut names: Vec<&str> = case.templates.iter().map(|t| t.0).collect();
        names.extend(INCLUDABLE);
        for name in names {
            let t = env.get_template(name).ok()?;
            let c = get_compiled_template(&t);
            let (body, n) = enc_code(&c.instructions);
            codes.push((hx(name), body, n));
            for (bname, instrs) in c.blocks.iter() {
                let (body, n) = enc_code(instrs);
                codes.push((hx(&format!("@{}@{}", name, bname)), body, n));
            }
        }
        let mut out = String::from("C @");
        write!(out, " F {} A 0 P {}", fmt_kind, codes.len()).unwrap();
        for (name, body, n) in &codes {
            write!(out, " K {} N {}{}", name, n, body).unwrap();
        }
        Some(out)
    });
    match r {
        Ok(Some(s)) => s,
        _ => "-".into(),
    }
}

/// one line of the `cx` stream; `None` = the entry form does not apply
fn cx_line(envs: &Envs, cx: &str, entry: &str, k: usize, id: usize, class: &str, site: &str, expect: &str, ctx: &Value) -> Option<String> {
    let case = cx_build(cx, site, expect);
    let mut rs = vec![];
    for mode in 0..4 {
        rs.push(cx_render(envs, entry, mode, k, &case, site, ctx)?);
    }
    // what is judged: Expression::eval never prints; the visible / counting formatters write other text;
    // a sink shows nothing
    let class = if entry == "eval" && class == "print" { "model" } else { class };
    let exp = match (&case.expect, k, entry) {
        (_, 3, "to_sink") => None, // only the call count of the counting formatter is visible
        (_, _, "to_sink") => Some(String::new()),
        (Some(e), 0 | 1, _) => Some(e.clone()),
        _ => None,
    };
    let label = format!("{}:{}", class, match exp { Some(e) => hx(&e), None => "*".into() });
    let prog = if entry == "render" { enc_prog_cx(envs, &case, k) } else { "-".into() };
    Some(format!("cx.{}.{}.{}\t{}\t{}\t{}\t{}\t{}", cx, entry, k, id, label, site, rs.join("\t"), prog))
}

/// (context, entry, formatter) combinations of a tier
fn cx_combos(tier: &str) -> Vec<(&'static str, &'static str, usize)> {
    let mut v = vec![];
    let kinds: &[usize] = if tier == "thorough" { &[0, 1, 2, 3] } else { &[0, 2] };
    for cx in CXS {
        for k in kinds {
            v.push((*cx, "render", *k));
        }
    }
    // the delegating custom formatter (Environment::format on the Emit path) where the output is live / discarding
    if tier != "thorough" {
        for cx in ["top", "block", "macro", "extends_top", "from_import", "extends_top_set"] {
            v.push((cx, "render", 1));
        }
    }
    for entry in &CX_ENTRIES[1..] {
        for cx in ["top", "extends_top", "from_import", "include"] {
            for k in kinds {
                if *entry == "eval" && cx != "top" {
                    continue;
                }
                v.push((cx, *entry, *k));
            }
        }
    }
    v
}

fn emit_ctx(w: &mut impl std::io::Write, envs: &Envs) {
    let mut out = String::new();
    enc_value(&envs.envs[3], &ctx_small(), &mut out).expect("context inside the model domain");
    writeln!(w, "ctx\t{}", out).unwrap();
}

/// a builtin call: the last field is the `B …` description of the call instead of a program
fn emit_sig(w: &mut impl std::io::Write, envs: &Envs, stream: &str, id: usize, label: &str, src: &str, ctx: &Value, sig: &str) {
    // streams ending in `h`: a `.html` template (auto-escaping on)
    let name = if stream.ends_with('h') { "c.html" } else { "<string>" };
    // streams ending in `x`: the environment with minijinja-contrib's filters / globals and pycompat
    let es = if stream.ends_with('x') { &envs.contrib_envs } else { &envs.envs };
    let rs: Vec<String> = es.iter().map(|e| render_named(e, name, src, ctx, false)).collect();
    writeln!(w, "{}\t{}\t{}\t{}\t{}\t{}", stream, id, label, src, rs.join("\t"), sig).unwrap();
}

fn emit(w: &mut impl std::io::Write, envs: &Envs, stream: &str, id: usize, label: &str, src: &str, ctx: &Value, model: bool) {
    debug_assert!(!src.contains('\t') && !src.contains('\n'));
    let k = fmt_kind(stream);
    let es = if k == 0 { &envs.envs } else { &envs.fmt_envs[k - 1] };
    // `sitea` / `proga`: a `.html` template (HTML auto-escaping on from the start), inside the model
    let name = if matches!(stream, "sitea" | "proga") { "p.html" } else { "<string>" };
    let rs: Vec<String> = es.iter().map(|e| render_named(e, name, src, ctx, k == 3)).collect();
    let prog = if model { enc_prog_named(envs, name, src, ctx, k) } else { "-".into() };
    writeln!(w, "{}\t{}\t{}\t{}\t{}\t{}", stream, id, label, src, rs.join("\t"), prog).unwrap();
}

// ------------------------------------------------------------------------------------------
// documented site matrix: (class, template).  Classes (judged by the check's oracle):
//   print / iterate : fail under SemiStrict+Strict, otherwise ok
//   truth           : fail under Strict only
//   access          : fail everywhere except Chainable
//   coerce          : string coercion of an undefined in filters/functions and `~`: like print
//   never           : ok in all four modes
//   model           : not named by the property statement (string coercion, comparisons, `in`,
//                     slices, silent undefined, filters): only monotonicity and the Lean model
// The expected *output* of the ok modes is the second component.
const SITES: &[(&str, &str, &str)] = &[
    ("print", "[{{ u }}]", "[]"),
    ("print", "{{ u }}{{ i1 }}", "3"),
    ("print", "{% set y = u %}[{{ y }}]", "[]"),
    ("print", "{% with y = u %}[{{ y }}]{% endwith %}", "[]"),
    ("print", "[{{ a.b }}]", "[]"),
    ("print", "[{{ a['b'] }}]", "[]"),
    ("print", "[{{ l1[9] }}]", "[]"),
    ("print", "[{{ n.x }}]", "[]"),
    ("print", "[{{ i1.x }}]", "[]"),
    ("print", "[{{ s1.x }}]", "[]"),
    ("print", "[{{ u and i1 }}]", "[]"),
    ("print", "[{{ u if b1 else 1 }}]", "[]"),
    ("coerce", "[{{ u ~ 1 }}]", "[1]"),
    ("coerce", "[{{ 1 ~ u }}]", "[1]"),
    ("coerce", "[{{ a.b ~ a.b }}]", "[]"),
    ("coerce", "[{{ u|string }}]", "[]"),
    ("coerce", "[{{ u|upper }}]", "[]"),
    ("coerce", "[{{ u|lower }}]", "[]"),
    ("coerce", "[{{ u|title }}]", "[]"),
    ("coerce", "[{{ u|capitalize }}]", "[]"),
    ("coerce", "[{{ u|safe }}]", "[]"),
    ("coerce", "[{{ u|trim }}]", "[]"),
    ("coerce", "[{{ u|indent(2) }}]", "[]"),
    ("coerce", "[{{ u|replace('a', 'b') }}]", "[]"),
    ("coerce", "[{{ 'aca'|replace('a', u) }}]", "[c]"),
    ("coerce", "[{{ 'ac'|replace(u, '-') }}]", "[-a-c-]"),
    ("coerce", "[{{ u is startingwith('a') }}]", "[False]"),
    ("coerce", "[{{ s1 is startingwith(u) }}]", "[True]"),
    ("coerce", "[{{ s1 is endingwith(u) }}]", "[True]"),
    ("coerce", "[{{ lm|selectattr(u)|list }}]", "[[]]"),
    ("coerce", "[{{ u|t_string }}]", "[<>]"),
    ("coerce", "[{{ u|t_cow }}]", "[<>]"),
    ("coerce", "[{{ u|t_input }}]", "[<>]"),
    ("coerce", "[{{ s1|t_two(u) }}]", "[<ab>]"),
    ("coerce", "[{{ a.b|t_two(s1) }}]", "[<ab>]"),
    ("coerce", "[{{ [s1, u]|t_vec }}]", "[<ab,>]"),
    ("coerce", "[{{ [a.b]|t_vec }}]", "[<>]"),
    ("model", "[{{ u|t_vec }}]", ""),
    ("model", "[{{ s1|t_rest(u, s1) }}]", ""),
    ("model", "[{{ u|t_str }}]", ""),
    ("model", "[{{ u|t_value }}]", ""),
    ("model", "[{{ u|t_optstring }}]", ""),
    ("model", "[{{ (1 if b0)|t_string }}|{{ (1 if b0)|t_cow }}|{{ (1 if b0)|t_input }}]", ""),
    ("model", "[{{ u|int }}]", "[0]"),
    ("iterate", "[{% for x in u %}x{% endfor %}]", "[]"),
    ("iterate", "[{% for x in u %}x{% else %}e{% endfor %}]", "[e]"),
    ("iterate", "[{% for x in a.b %}x{% endfor %}]", "[]"),
    ("iterate", "[{% for x in u if x %}x{% endfor %}]", "[]"),
    // `*args`: the call iterates the value to spread it over the positional arguments
    ("iterate", "{% macro sp() %}x{% endmacro %}[{{ sp(*u) }}]", "[x]"),
    ("iterate", "{% macro sp(p=1) %}{{ p }}{% endmacro %}[{{ sp(*a.b) }}]", "[1]"),
    ("iterate", "{% macro sp(p=1) %}{{ p }}{% endmacro %}[{{ sp(2, *u) }}]", "[2]"),
    ("iterate", "[{{ dict(*u) }}]", "[{}]"),
    ("iterate", "[{{ l1|join(*u) }}]", "[123]"),
    ("iterate", "[{{ i1 is odd(*u) }}]", "[True]"),
    ("model", "{% macro sp(p=1) %}{{ p }}{% endmacro %}[{{ sp(*(1 if b0)) }}|{{ sp(*[]) }}|{{ sp(*[3]) }}|{{ sp(*l0, *[4]) }}]", "[1|1|3|4]"),
    ("model", "{% macro sp(p=1, q=2) %}{{ p }}{{ q }}{% endmacro %}[{{ sp(*[3], q=u|default(5)) }}|{{ sp(*[3, 4]) }}|{{ sp(7, *[8]) }}]", "[35|34|78]"),
    ("model", "{% macro sp(p=1) %}{{ p }}{% endmacro %}[{{ sp(**u) }}]", ""),
    ("model", "{% macro sp(p=1) %}{{ p }}{% endmacro %}[{{ sp(**{'p': u|default(6)}) }}]", "[6]"),
    ("model", "[{{ u|list }}]", "[[]]"),
    ("model", "[{{ 1 in u }}]", "[False]"),
    ("model", "[{{ 1 not in u }}]", "[True]"),
    ("model", "[{{ 1 is in u }}]", "[False]"),
    ("model", "[{{ u|sum }}]", "[0]"),
    ("model", "[{{ u|first }}]", "[]"),
    ("model", "[{{ u|join(',') }}]", "[]"),
    ("truth", "[{% if u %}1{% endif %}]", "[]"),
    ("truth", "[{% if u %}1{% else %}0{% endif %}]", "[0]"),
    ("truth", "[{% if i1 %}1{% elif u %}2{% endif %}{% if z %}1{% elif u %}2{% else %}3{% endif %}]", "[13]"),
    ("truth", "[{{ not u }}]", "[True]"),
    ("truth", "[{{ u or 1 }}]", "[1]"),
    ("truth", "[{{ (u and 1) is undefined }}]", "[True]"),
    ("truth", "[{{ 1 if u else 2 }}]", "[2]"),
    ("truth", "[{{ 1 if u }}]", "[]"),
    ("model", "[{{ u|bool }}]", "[False]"),
    ("model", "[{{ i1|default(5, u) }}]", "[3]"),
    ("truth", "[{% if a.b %}1{% endif %}]", "[]"),
    ("model", "[{{ u[1:2] }}]", "[[]]"),
    ("truth", "[{% for x in l1 if u %}x{% endfor %}]", "[]"),
    ("access", "[{{ u.a }}]", "[]"),
    ("access", "[{{ u[0] }}]", "[]"),
    ("access", "[{{ u['a'] }}]", "[]"),
    ("access", "[{{ u[i1] }}]", "[]"),
    ("access", "[{{ u.a.b.c }}]", "[]"),
    ("access", "[{{ a.b.c }}]", "[]"),
    ("access", "[{{ a.b[0] }}]", "[]"),
    ("access", "[{{ a['b']['c'] }}]", "[]"),
    ("access", "[{{ m1.n.zz.q }}]", "[]"),
    ("access", "[{{ l1[9].x }}]", "[]"),
    ("access", "[{{ n.x.y }}]", "[]"),
    ("access", "[{{ (1 if b0).x }}]", "[]"),
    ("access", "[{{ (1 if b0)[0] }}]", "[]"),
    ("access", "[{{ u|attr('a') }}]", "[]"),
    ("access", "[{{ a.b|attr('c') }}]", "[]"),
    ("access", "[{{ u|attr(0) }}]", "[]"),
    ("access", "[{{ u.a is defined }}]", "[False]"),
    ("access", "[{{ u.a|default(4) }}]", "[4]"),
    ("access", "[{% if u.a %}1{% endif %}]", "[]"),
    ("access", "[{% for x in u.a %}x{% endfor %}]", "[]"),
    ("never", "[{{ u is defined }}]", "[False]"),
    ("never", "[{{ u is undefined }}]", "[True]"),
    ("never", "[{{ u is not defined }}]", "[True]"),
    ("never", "[{{ a.b is defined }}]", "[False]"),
    ("never", "[{{ a.b is undefined }}]", "[True]"),
    ("never", "[{{ a.x is defined }}]", "[True]"),
    ("never", "[{{ (1 if b0) is defined }}]", "[False]"),
    ("never", "[{{ u|default(1) }}]", "[1]"),
    ("never", "[{{ u|d(1) }}]", "[1]"),
    ("never", "[{{ u|default }}]", "[]"),
    ("never", "[{{ u|default('x', true) }}]", "[x]"),
    ("never", "[{{ u|default(1, b0) }}]", "[1]"),
    ("never", "[{{ a.b|default(2) }}]", "[2]"),
    ("never", "[{{ (1 if b0)|default(3) }}]", "[3]"),
    ("never", "[{{ s2|default(3, true) }}]", "[3]"),
    ("never", "[{{ i1|default(1) }}]", "[3]"),
    ("never", "[{% if u is defined %}1{% else %}0{% endif %}]", "[0]"),
    ("never", "[{% set y = u %}{{ y is defined }}]", "[False]"),
    ("never", "[{{ a|attr('b') is defined }}]", "[False]"),
    ("model", "[{{ 1 if b0 }}]", "[]"),
    ("model", "[{{ (u.name if u is defined) }}]", "[]"),
    ("model", "[{{ (a.b if a is defined and b0) }}]", "[]"),
    ("model", "[{{ (a.x if u is defined) }}|{{ a.x if a is defined }}]", "[|1]"),
    ("model", "[{{ ((1 if b0) if b1) }}]", "[]"),
    ("model", "[{{ (1 if b0) or n }}|{{ n }}|{{ none }}]", "[None|None|None]"),
    ("model", "[{{ [(1 if b0), n] }}]", "[[undefined, None]]"),
    ("model", "[{{ (1 if b0)|default('d') }}]", "[d]"),
    ("model", "[{{ (1 if b0)|string }}|{{ (1 if b0)|trim }}|{{ ((1 if b0) ~ (1 if b0)) }}]", "[||]"),
    ("model", "[{% for x in l1 %}{{ x if b0 }}{{ x if x == 2 }}{% endfor %}]", "[2]"),
    ("model", "[{% with y = (1 if b0) %}{{ y }}{% endwith %}]", "[]"),
    ("model", "[{% set y %}{{ 1 if b0 }}{% endset %}{{ y }}]", "[]"),
    ("model", "[{{ [1 if b0]|first }}]", "[]"),
    ("model", "[{{ {'k': (1 if b0)}.k }}]", "[]"),
    ("model", "[{% for x in (1 if b0) %}x{% endfor %}]", "[]"),
    ("model", "[{% if (1 if b0) %}1{% endif %}]", "[]"),
    ("model", "[{{ not (1 if b0) }}]", "[True]"),
    ("model", "[{{ (1 if b0) ~ 2 }}]", "[2]"),
    ("model", "[{{ (1 if b0) == 2 }}]", "[False]"),
    ("model", "[{{ 1 in (1 if b0) }}]", "[False]"),
    ("model", "[{{ (1 if b0)|upper }}]", "[]"),
    ("model", "[{{ (1 if b0)|int }}]", "[0]"),
    ("model", "[{{ (1 if b0)|list }}]", "[[]]"),
    ("model", "[{{ (1 if b0)|bool }}]", "[False]"),
    ("model", "[{% set y = 1 if b0 %}{{ y }}]", "[]"),
    ("model", "[{{ u == 1 }}]", "[False]"),
    ("model", "[{{ 1 != u }}]", "[True]"),
    ("model", "[{{ u < 1 }}]", "[True]"),
    ("model", "[{{ 1 <= u }}]", "[False]"),
    ("model", "[{{ u > 1 }}]", "[False]"),
    ("model", "[{{ u >= u }}]", "[True]"),
    ("model", "[{{ 0 < i1 < u }}]", "[False]"),
    ("model", "[{{ u in l1 }}]", "[False]"),
    ("model", "[{{ u not in l1 }}]", "[True]"),
    ("model", "[{{ u + 1 }}]", ""),
    ("model", "[{{ -u }}]", ""),
    ("model", "[{{ u|length }}]", ""),
    ("model", "[{{ u() }}]", ""),
    ("model", "[{{ l1[u:2] }}]", ""),
];

// ------------------------------------------------------------------------------------------
// the site matrix as a PRODUCT (stream `sx`): every way the language produces a non-silent undefined
// (PRODUCERS) x every construct that prints / iterates / truth-tests / accesses / asks `defined` /
// `default` (CONSUMERS).  The class -- and with it the documented row of the matrix -- belongs to the
// consumer; where the undefined comes from must not matter ("at every site of the language").

/// (statements in front, expression evaluating to a non-silent undefined, statements behind).  The
/// statements print nothing and run the site exactly once, so the expected output is the consumer's.
const PRODUCERS: &[(&str, &str, &str)] = &[
    // context lookups
    ("", "u", ""),
    ("", "a.b", ""),
    ("", "a['b']", ""),
    ("", "a[s1]", ""),
    ("", "m1.n.zz", ""),
    ("", "l1[9]", ""),
    ("", "l1[-9]", ""),
    ("", "l1[i2]", ""),
    ("", "lm[2].k", ""),
    ("", "n.x", ""),
    ("", "i1.x", ""),
    ("", "s1.x", ""),
    ("", "s1[9]", ""),
    // lookups whose container and key are literals (compile-time constants)
    ("", "{'a': 1}['b']", ""),
    ("", "{'a': 1}.b", ""),
    ("", "{}.k", ""),
    ("", "[1, 2][5]", ""),
    ("", "[1, 2][-5]", ""),
    ("", "[].x", ""),
    ("", "'ab'[7]", ""),
    ("", "'ab'.x", ""),
    ("", "(1, 2)[5]", ""),
    ("", "[[1]][0][3]", ""),
    ("", "{'a': {'c': 1} }.a.b", ""),
    ("", "1.x", ""),
    ("", "none.x", ""),
    ("", "true.x", ""),
    // a literal container with a run-time key and the reverse
    ("", "[1, 2][i1]", ""),
    ("", "{'a': 1}[s1]", ""),
    ("", "l1[7]", ""),
    // values stored in literal containers / passed through expressions
    ("", "[u][0]", ""),
    ("", "{'k': u}.k", ""),
    ("", "{'k': u}['k']", ""),
    ("", "(u if b1 else 1)", ""),
    ("", "(1 if b0 else a.b)", ""),
    ("", "(z or u)", ""),
    ("", "(i1 and a.b)", ""),
    // results of filters / functions
    ("", "(l0|first)", ""),
    ("", "([]|last)", ""),
    ("", "(m1|attr('zz'))", ""),
    ("", "([u]|first)", ""),
    ("", "(u|default(u))", ""),
    ("", "dict(x=1).k", ""),
    ("", "(range(0)|first)", ""),
    // undefined values that come from the embedding application: stored in the context, returned by an object's
    // get_value, by a function, by a sequence object; found through a filter
    ("", "xu", ""),
    ("", "[xu][0]", ""),
    ("", "xo.un", ""),
    ("", "xo['un']", ""),
    ("", "xo.nope", ""),
    ("", "xs[1]", ""),
    ("", "xs[5]", ""),
    ("", "xf()", ""),
    ("", "(xs|last)", ""),
    ("", "(lm|map(attribute='zz')|first)", ""),
    // variables bound by statements
    ("{% set pv = u %}", "pv", ""),
    ("{% set pv = {'a': 1}['b'] %}", "pv", ""),
    ("{% set pv, pw = [u, 1] %}", "pv", ""),
    ("{% set pm = {'a': 1} %}", "pm['b']", ""),
    ("{% set pl = [1, 2] %}", "pl[5]", ""),
    ("{% with pv = a.b %}", "pv", "{% endwith %}"),
    ("{% for pv in [u] %}", "pv", "{% endfor %}"),
    ("{% for pv, pw in [[u, 1]] %}", "pv", "{% endfor %}"),
    ("{% for pq in [1] %}{% set pv = loop.previtem %}", "pv", "{% endfor %}"),
    ("{% for pq in [1] %}{% set pv = loop.nextitem %}", "pv", "{% endfor %}"),
    ("{% set pns = namespace() %}", "pns.y", ""),
    ("{% set pns = namespace(y=u) %}", "pns.y", ""),
    ("{% macro pmac(pv) %}", "pv", "{% endmacro %}{{ pmac() }}"),
    ("{% macro pmac(pv) %}", "pv", "{% endmacro %}{{ pmac(u) }}"),
    ("{% macro pmac(pv=u) %}", "pv", "{% endmacro %}{{ pmac() }}"),
    ("{% macro pmac() %}{% call(pv) pcal() %}", "pv", "{% endcall %}{% endmacro %}{% macro pcal() %}{{ caller(u) }}{% endmacro %}{{ pmac() }}"),
];

/// (class, template with `@` for the operand, expected output of the modes that must not fail)
const CONSUMERS: &[(&str, &str, &str)] = &[
    // ---- printing
    ("print", "[{{ @ }}]", "[]"),
    ("print", "{{ @ }}{{ i1 }}", "3"),
    ("print", "[{{ @ }}{{ @ }}]", "[]"),
    ("print", "[{% set cq %}{{ @ }}{% endset %}{{ cq }}]", "[]"),
    ("print", "{% filter upper %}[{{ @ }}]{% endfilter %}", "[]"),
    ("print", "[{% for cx in l1 %}{{ @ }}{% endfor %}]", "[]"),
    ("print", "[{% if b1 %}{{ @ }}{% endif %}]", "[]"),
    ("print", "[{% autoescape 'html' %}{{ @ }}{% endautoescape %}]", "[]"),
    ("print", "[{% autoescape 'none' %}{{ @ }}{% endautoescape %}]", "[]"),
    ("print", "[{% autoescape false %}{{ @ }}{% endautoescape %}{% autoescape true %}{{ @ }}{% endautoescape %}]", "[]"),
    // ---- iterating
    ("iterate", "[{% for cx in @ %}x{% endfor %}]", "[]"),
    ("iterate", "[{% for cx in @ %}x{% else %}e{% endfor %}]", "[e]"),
    ("iterate", "[{% for cx in @ if cx %}x{% endfor %}]", "[]"),
    ("iterate", "[{% for cx, cy in @ %}x{% endfor %}]", "[]"),
    ("iterate", "[{% for cx in @ %}{{ loop.index }}{% endfor %}]", "[]"),
    ("iterate", "[{% for cx in @ recursive %}{{ loop(cx) }}{% endfor %}]", "[]"),
    // re-entering a recursive loop: `loop(x)` iterates x (emitted directly / inside an expression /
    // below the first level / with the loop inside a macro / a set block / an else branch)
    ("iterate", "[{% for cx in [1] recursive %}{{ cx }}{{ loop(@) }}{% endfor %}]", "[1]"),
    ("iterate", "[{% for cx in [1] recursive %}{{ cx ~ loop(@) }}{% endfor %}]", "[1]"),
    ("iterate", "[{% for cx in [1, 2] recursive %}{{ cx }}{% if loop.last %}{{ loop(@) }}{% endif %}{% endfor %}]", "[12]"),
    ("iterate", "[{% for cx in [[1]] recursive %}{% if cx is sequence %}({{ loop(cx) }}){% else %}{{ cx }}{{ loop(@) }}{% endif %}{% endfor %}]", "[(1)]"),
    ("iterate", "[{% for cx in [1] recursive %}{% set cr = loop(@) %}{{ cx }}{{ cr }}{% endfor %}]", "[1]"),
    ("iterate", "[{% for cx in [1] recursive %}{% set cr %}{{ loop(@) }}{% endset %}{{ cx }}{{ cr }}{% endfor %}]", "[1]"),
    ("iterate", "[{% for cx in [1] recursive %}{{ cx }}{{ loop(@)|upper }}{% endfor %}]", "[1]"),
    ("iterate", "[{% for cy in [1] %}{% for cx in [1] recursive %}{{ cx }}{{ loop(@) }}{% endfor %}{% endfor %}]", "[1]"),
    ("iterate", "{% macro crm(cv) %}{% for cx in [1] recursive %}{{ cx }}{{ loop(cv) }}{% endfor %}{% endmacro %}[{{ crm(@) }}]", "[1]"),
    ("iterate", "{% macro crm(cv) %}{% for cx in cv recursive %}{{ loop(cx) }}{% endfor %}{% endmacro %}[{{ crm(@) }}]", "[]"),
    // `*args`
    ("iterate", "[{{ dict(*@)|length }}]", "[0]"),
    ("iterate", "[{{ l1|join(*@) }}]", "[123]"),
    ("iterate", "[{{ i1 is odd(*@) }}]", "[True]"),
    ("iterate", "[{{ range(2, *@)|join(',') }}]", "[0,1]"),
    ("iterate", "[{{ dict(*@, **{})|length }}]", "[0]"),
    ("iterate", "[{{ range(*[2], *@)|join(',') }}]", "[0,1]"),
    ("iterate", "[{{ range(*@, *[2])|join(',') }}]", "[0,1]"),
    ("iterate", "{% macro csp(p=1, q=2) %}{{ p }}{{ q }}{% endmacro %}[{{ csp(*@) }}{{ csp(3, *@) }}{{ csp(*[3], *@, q=4) }}]", "[123234]"),
    // ---- truth-testing
    ("truth", "[{% if @ %}1{% endif %}]", "[]"),
    ("truth", "[{% if @ %}1{% else %}0{% endif %}]", "[0]"),
    ("truth", "[{% if z %}1{% elif @ %}2{% else %}3{% endif %}]", "[3]"),
    ("truth", "[{% if not @ %}1{% endif %}]", "[1]"),
    ("truth", "[{% if @ and i1 %}1{% endif %}]", "[]"),
    ("truth", "[{% if i1 and @ %}1{% endif %}]", "[]"),
    ("truth", "[{% if z or @ %}1{% endif %}]", "[]"),
    ("truth", "[{{ not @ }}]", "[True]"),
    ("truth", "[{{ not not @ }}]", "[False]"),
    ("truth", "[{{ @ or 1 }}]", "[1]"),
    ("truth", "[{{ @ or 'fallback' }}]", "[fallback]"),
    ("truth", "[{{ z or @ or 2 }}]", "[2]"),
    ("truth", "[{{ (@ and 1) is undefined }}]", "[True]"),
    ("truth", "[{{ (@ and 'x') is defined }}]", "[False]"),
    ("truth", "[{{ 1 if @ else 2 }}]", "[2]"),
    ("truth", "[{{ 1 if @ }}]", "[]"),
    ("truth", "[{{ 1 if not @ else 2 }}]", "[1]"),
    ("truth", "[{{ 2 if b0 else (3 if @ else 4) }}]", "[4]"),
    ("truth", "[{% for cx in l1 if @ %}x{% endfor %}]", "[]"),
    ("truth", "[{% for cx in l1 %}{% if @ %}{% break %}{% endif %}{{ cx }}{% endfor %}]", "[123]"),
    ("truth", "[{% for cx in l1 %}{% if @ %}{% continue %}{% endif %}{{ cx }}{% endfor %}]", "[123]"),
    ("truth", "[{% set cq = not @ %}{{ cq }}]", "[True]"),
    // ---- attribute / item access on the undefined
    ("access", "[{{ @.a }}]", "[]"),
    ("access", "[{{ @[0] }}]", "[]"),
    ("access", "[{{ @['a'] }}]", "[]"),
    ("access", "[{{ @[i1] }}]", "[]"),
    ("access", "[{{ @.a.b.c }}]", "[]"),
    ("access", "[{{ @|attr('a') }}]", "[]"),
    ("access", "[{{ @.a is defined }}]", "[False]"),
    ("access", "[{{ @.a|default(4) }}]", "[4]"),
    ("access", "[{% if @.a %}1{% endif %}]", "[]"),
    ("access", "[{% for cx in @.a %}x{% endfor %}]", "[]"),
    ("access", "[{% set cq = @.a %}ok]", "[ok]"),
    ("access", "[{{ not @[0] }}]", "[True]"),
    // ---- string coercion by `~` (rustdoc: string coercion fails under Strict / SemiStrict)
    ("coerce", "[{{ @ ~ 1 }}]", "[1]"),
    ("coerce", "[{{ 'x' ~ @ }}]", "[x]"),
    ("coerce", "[{{ @ ~ @ }}]", "[]"),
    ("coerce", "[{{ @|upper }}]", "[]"),
    // ---- never failing
    ("never", "[{{ @ is defined }}]", "[False]"),
    ("never", "[{{ @ is undefined }}]", "[True]"),
    ("never", "[{{ @ is not defined }}]", "[True]"),
    ("never", "[{{ @|default(1) }}]", "[1]"),
    ("never", "[{{ @|d(1) }}]", "[1]"),
    ("never", "[{{ @|default }}]", "[]"),
    ("never", "[{{ @|default('x', true) }}]", "[x]"),
    ("never", "[{% if @ is defined %}1{% else %}0{% endif %}]", "[0]"),
    ("never", "[{{ 1 if @ is undefined else 2 }}]", "[1]"),
    ("never", "[{% set cq = @ %}{{ cq is defined }}]", "[False]"),
    ("never", "[{{ (@ is undefined) and 1 }}]", "[1]"),
    ("never", "[{% for cx in @|default([]) %}x{% endfor %}]", "[]"),
    // ---- not rows of the documented matrix (`in`, slices, comparisons, arithmetic, iterating / coercing builtins):
    // monotonicity, and the Lean model where it reaches
    ("model", "[{{ 1 in @ }}]", ""),
    ("model", "[{{ 1 not in @ }}]", ""),
    ("model", "[{{ @ in l1 }}]", ""),
    ("model", "[{{ @[1:2] }}]", ""),
    ("model", "[{{ l1[@:2] }}]", ""),
    ("model", "[{{ @ == 1 }}]", ""),
    ("model", "[{{ 1 != @ }}]", ""),
    ("model", "[{{ @ < 1 }}]", ""),
    ("model", "[{{ 0 < i1 < @ }}]", ""),
    ("model", "[{{ @ + 1 }}]", ""),
    ("model", "[{{ -@ }}]", ""),
    ("model", "[{{ @|list }}]", ""),
    ("model", "[{{ @|length }}]", ""),
    ("model", "[{{ @|first }}]", ""),
    ("model", "[{{ @|join(',') }}]", ""),
    ("model", "[{{ l1|join(@) }}]", ""),
    ("model", "[{{ @|sum }}]", ""),
    ("model", "[{{ @|map('upper')|list }}]", ""),
    ("model", "[{{ @|select|list }}]", ""),
    ("model", "[{{ @|reject('odd')|list }}]", ""),
    ("model", "[{{ @|batch(2)|list }}]", ""),
    ("model", "[{{ @|sort }}]", ""),
    ("model", "[{{ @|int }}]", ""),
    ("model", "[{{ @|bool }}]", ""),
    ("model", "[{{ @|string }}]", ""),
    ("model", "[{{ i1|default(5, @) }}]", ""),
    ("model", "[{{ @() }}]", ""),
    ("model", "[{{ @.f() }}]", ""),
    ("model", "[{% include @ ignore missing %}]", ""),
    ("model", "[{{ dict(**@) }}]", ""),
    ("model", "[{% set cx, cy = @ %}]", ""),
    ("model", "[{{ [@] }}|{{ {'k': @} }}]", ""),
];

/// the product; `quick` thins it deterministically (every producer and every consumer stay, each
/// producer meets a third of the consumers, rotated by VERIF_SEED)
fn sx_cases(tier: &str) -> Vec<(&'static str, String, &'static str)> {
    let seed = seed_from_env() as usize;
    let mut v = vec![];
    for (pi, (pre, expr, post)) in PRODUCERS.iter().enumerate() {
        for (ci, (class, tmpl, expect)) in CONSUMERS.iter().enumerate() {
            // the plain variable and the literal lookups meet every consumer in every tier
            let always = pi == 0 || (expr.starts_with(['{', '[', '\'', '(']) && pre.is_empty());
            if tier != "thorough" && !always && (pi + ci + seed) % 3 != 0 {
                continue;
            }
            v.push((*class, format!("{}{}{}", pre, tmpl.replace('@', expr), post), *expect));
        }
    }
    v
}

/// one consumer each with a rotating producer: the product's diagonal, for the entry-point / output-context streams
fn sx_diagonal() -> Vec<(&'static str, String, &'static str)> {
    let seed = seed_from_env() as usize;
    CONSUMERS.iter().enumerate().map(|(ci, (class, tmpl, expect))| {
        // (the output-context / entry streams render over the shared context: no application-supplied values)
        let mut pi = (ci * 7 + seed) % PRODUCERS.len();
        while sx_needs_app_values(PRODUCERS[pi].1) {
            pi = (pi + 1) % PRODUCERS.len();
        }
        let (pre, expr, post) = PRODUCERS[pi];
        (*class, format!("{}{}{}", pre, tmpl.replace('@', expr), post), *expect)
    }).collect()
}

/// the context of the `sx` streams: the modelled one plus undefined values supplied by the application
fn ctx_sx() -> Value {
    context! { xu => Value::UNDEFINED, xo => Value::from_object(MapObj), xs => Value::from_object(SeqObj), ..ctx_small() }
}

fn sx_needs_app_values(src: &str) -> bool {
    ["xu", "xo.", "xo[", "xs[", "xs|", "xf("].iter().any(|n| src.contains(n))
}

/// a line of the `sx` stream: errors as `err:<kind>/<innermost kind>` (a failing `loop(x)` wraps the UndefinedError)
fn emit_sx(w: &mut impl std::io::Write, envs: &Envs, stream: &str, id: usize, label: &str, src: &str, ctx: &Value) {
    debug_assert!(!src.contains('\t') && !src.contains('\n'));
    // `sxa` / `sxj`: the template name switches HTML / JSON auto-escaping on
    let name = match stream { "sxa" => "p.html", "sxj" => "p.json", _ => "<string>" };
    let k = if stream == "sxv" { 2 } else { 0 };
    let es = if k == 0 { &envs.envs } else { &envs.fmt_envs[k - 1] };
    let rs: Vec<String> = es.iter().map(|e| match guarded(|| e.render_named_str(name, src, ctx.clone())) {
        Ok(Ok(s)) => format!("ok:{}", hex(s.as_bytes())),
        Ok(Err(e)) => err_text(&e),
        Err(p) => format!("panic:{}", hex(p.as_bytes())),
    }).collect();
    // the Lean model runs the cases over the shared context only
    let prog = if stream == "sx" && !sx_needs_app_values(src) { enc_prog_named(envs, name, src, &ctx_small(), k) } else { "-".into() };
    writeln!(w, "{}\t{}\t{}\t{}\t{}\t{}", stream, id, label, src, rs.join("\t"), prog).unwrap();
}

/// the site matrix in every output context / entry form / formatter, the product's diagonal included (also the
/// subcommand `cx <tier>`)
fn gen_cx(w: &mut impl std::io::Write, envs: &Envs, tier: &str, id: &mut usize) {
    let small = ctx_small();
    let diag = sx_diagonal();
    for (cx, entry, k) in cx_combos(tier) {
        for (class, src, expect) in SITES.iter().map(|(c, s, e)| (*c, *s, *e)).chain(diag.iter().map(|(c, s, e)| (*c, s.as_str(), *e))) {
            if let Some(l) = cx_line(envs, cx, entry, k, *id, class, src, expect, &small) {
                writeln!(w, "{}", l).unwrap();
                *id += 1;
            }
        }
    }
}

/// the `sx` streams of a tier (also the subcommand `sx <tier>`)
fn gen_sx(w: &mut impl std::io::Write, envs: &Envs, tier: &str, id: &mut usize) {
    // the site matrix as a product: every producer of an undefined x every consuming construct; plain, in a
    // `.html` template, through the visible formatter and in a `.json` template (there only the error pattern is judged)
    let sx = sx_cases(tier);
    let sxc = ctx_sx();
    for (class, src, expect) in &sx {
        emit_sx(w, envs, "sx", *id, &format!("{}:{}", class, hx(expect)), src, &sxc);
        *id += 1;
    }
    for (i, (class, src, expect)) in sx.iter().enumerate() {
        if tier != "thorough" && i % 4 != seed_from_env() as usize % 4 {
            continue;
        }
        let e = if expect.chars().any(|c| "<>&\"'/".contains(c)) { "*".to_string() } else { hx(expect) };
        emit_sx(w, envs, "sxa", *id, &format!("{}:{}", class, e), src, &sxc);
        *id += 1;
        emit_sx(w, envs, "sxv", *id, &format!("{}:*", class), src, &sxc);
        *id += 1;
        // JSON auto-escaping prints other text (an undefined is `null`): the error pattern is judged
        emit_sx(w, envs, "sxj", *id, &format!("{}:*", class), src, &sxc);
        *id += 1;
    }
}

// ------------------------------------------------------------------------------------------
// builtins: name, kind, "good" positional args (arg 0 = the receiver for filters/tests), kwargs
struct B {
    kind: &'static str, // filter | test | function
    name: &'static str,
    args: &'static [&'static str],
    kwargs: &'static [(&'static str, &'static str)],
}
const fn b(kind: &'static str, name: &'static str, args: &'static [&'static str], kwargs: &'static [(&'static str, &'static str)]) -> B {
    B { kind, name, args, kwargs }
}

const BUILTINS: &[B] = &[
    b("filter", "safe", &["s1"], &[]),
    b("filter", "escape", &["html"], &[]),
    b("filter", "e", &["html"], &[]),
    b("filter", "lower", &["'aB'"], &[]),
    b("filter", "upper", &["s1"], &[]),
    b("filter", "title", &["'ab cd'"], &[]),
    b("filter", "capitalize", &["s1"], &[]),
    b("filter", "replace", &["'abcab'", "'ab'", "'x'"], &[]),
    b("filter", "length", &["l1"], &[]),
    b("filter", "count", &["s1"], &[]),
    b("filter", "dictsort", &["m1"], &[("by", "'key'"), ("reverse", "b0"), ("case_sensitive", "b1")]),
    b("filter", "items", &["m1"], &[]),
    b("filter", "reverse", &["l1"], &[]),
    b("filter", "trim", &["' ab '", "' '"], &[]),
    b("filter", "join", &["l1", "','", "'k'"], &[]),
    b("filter", "join", &["ls", "s3"], &[]),
    b("filter", "join", &["[i1, html, s1]", "s3"], &[]),
    b("filter", "join", &["[i1, s1]", "', '"], &[]),
    b("filter", "format", &["fmt", "s1", "html"], &[]),
    b("filter", "replace", &["s1", "s3", "html"], &[]),
    b("filter", "replace", &["html", "'a'", "s1"], &[]),
    b("filter", "default", &["s2", "html", "b1"], &[]),
    b("filter", "indent", &["nl", "2"], &[("first", "b1")]),
    b("filter", "last", &["s1"], &[]),
    b("filter", "reverse", &["s1"], &[]),
    b("filter", "lines", &["nl"], &[]),
    b("filter", "capitalize", &["s3"], &[]),
    b("filter", "trim", &["s1", "s3"], &[]),
    b("filter", "split", &["s1", "s3"], &[]),
    b("filter", "tojson", &["s1"], &[]),
    b("filter", "escape", &["s1"], &[]),
    b("filter", "split", &["'a,b,c'", "','", "1"], &[]),
    b("filter", "lines", &["nl"], &[]),
    b("filter", "default", &["s2", "5", "b1"], &[]),
    b("filter", "d", &["z", "5", "b1"], &[]),
    b("filter", "round", &["f1", "1"], &[("method", "'floor'")]),
    b("filter", "abs", &["neg"], &[]),
    b("filter", "int", &["sn"], &[]),
    b("filter", "float", &["sf"], &[]),
    b("filter", "attr", &["m1", "'k'"], &[]),
    b("filter", "first", &["l1"], &[]),
    b("filter", "last", &["l1"], &[]),
    b("filter", "min", &["l1"], &[]),
    b("filter", "max", &["l1"], &[]),
    b("filter", "sort", &["ls"], &[("reverse", "b1"), ("case_sensitive", "b0"), ("attribute", "'k'")]),
    b("filter", "list", &["s1"], &[]),
    b("filter", "string", &["i1"], &[]),
    b("filter", "bool", &["i1"], &[]),
    b("filter", "batch", &["l1", "2", "0"], &[]),
    b("filter", "slice", &["l1", "2", "0"], &[]),
    b("filter", "sum", &["l1"], &[]),
    b("filter", "indent", &["nl", "2", "b1", "b1"], &[]),
    b("filter", "select", &["l1", "'odd'"], &[]),
    b("filter", "select", &["l1", "'gt'", "1"], &[]),
    b("filter", "select", &["l1", "'=='", "1"], &[]),
    b("filter", "select", &["l1", "'!='", "1"], &[]),
    b("filter", "select", &["l1", "'<'", "2"], &[]),
    b("filter", "select", &["l1", "'<='", "2"], &[]),
    b("filter", "select", &["l1", "'>'", "2"], &[]),
    b("filter", "select", &["l1", "'>='", "2"], &[]),
    b("filter", "select", &["l1", "'in'", "l1"], &[]),
    b("filter", "select", &["l1"], &[]),
    b("filter", "reject", &["l1", "'odd'"], &[]),
    b("filter", "reject", &["l1", "'divisibleby'", "2"], &[]),
    b("filter", "selectattr", &["lm", "'k'", "'eq'", "1"], &[]),
    b("filter", "selectattr", &["lm", "'k'"], &[]),
    b("filter", "rejectattr", &["lm", "'k'", "'eq'", "1"], &[]),
    b("filter", "map", &["lm"], &[("attribute", "'k'"), ("default", "0")]),
    b("filter", "map", &["ls", "'upper'"], &[]),
    b("filter", "map", &["ls", "'replace'", "'a'", "'x'"], &[]),
    b("filter", "map", &["lm", "'attr'", "'k'"], &[]),
    b("filter", "groupby", &["lm", "'v'"], &[("default", "0"), ("case_sensitive", "b1")]),
    b("filter", "groupby", &["lm"], &[("attribute", "'v'")]),
    b("filter", "unique", &["l1"], &[("case_sensitive", "b1"), ("attribute", "'k'")]),
    b("filter", "chain", &["l1", "ls"], &[]),
    b("filter", "zip", &["l1", "ls"], &[]),
    b("filter", "pprint", &["m1"], &[]),
    b("filter", "format", &["fmt", "1", "2"], &[]),
    b("filter", "tojson", &["m1", "2"], &[]),
    b("filter", "tojson", &["m1"], &[("indent", "2")]),
    b("filter", "urlencode", &["'a b'"], &[]),
    b("filter", "urlencode", &["m1"], &[]),
    b("test", "undefined", &["i1"], &[]),
    b("test", "defined", &["i1"], &[]),
    b("test", "none", &["n"], &[]),
    b("test", "safe", &["s1"], &[]),
    b("test", "escaped", &["s1"], &[]),
    b("test", "boolean", &["b1"], &[]),
    b("test", "odd", &["i1"], &[]),
    b("test", "even", &["i1"], &[]),
    b("test", "divisibleby", &["i1", "3"], &[]),
    b("test", "number", &["i1"], &[]),
    b("test", "integer", &["i1"], &[]),
    b("test", "int", &["i1"], &[]),
    b("test", "float", &["f1"], &[]),
    b("test", "string", &["s1"], &[]),
    b("test", "sequence", &["l1"], &[]),
    b("test", "iterable", &["l1"], &[]),
    b("test", "mapping", &["m1"], &[]),
    b("test", "startingwith", &["s1", "'a'"], &[]),
    b("test", "endingwith", &["s1", "'b'"], &[]),
    b("test", "lower", &["s1"], &[]),
    b("test", "upper", &["s1"], &[]),
    b("test", "sameas", &["b1", "b1"], &[]),
    b("test", "eq", &["i1", "3"], &[]),
    b("test", "equalto", &["i1", "3"], &[]),
    b("test", "ne", &["i1", "3"], &[]),
    b("test", "lt", &["i1", "5"], &[]),
    b("test", "lessthan", &["i1", "5"], &[]),
    b("test", "le", &["i1", "3"], &[]),
    b("test", "gt", &["i1", "1"], &[]),
    b("test", "greaterthan", &["i1", "1"], &[]),
    b("test", "ge", &["i1", "3"], &[]),
    b("test", "in", &["i1", "l1"], &[]),
    b("test", "true", &["b1"], &[]),
    b("test", "false", &["b0"], &[]),
    b("test", "filter", &["'upper'"], &[]),
    b("test", "test", &["'odd'"], &[]),
    b("function", "range", &["1", "7", "2"], &[]),
    b("function", "dict", &["m1"], &[("x", "i1")]),
    b("function", "dict", &[], &[("x", "i1"), ("y", "s1")]),
    b("function", "debug", &["i1"], &[]),
    b("function", "namespace", &["m1"], &[("x", "i1")]),
];

/// what minijinja-contrib registers (`add_to_environment`), with a valid call each
const CONTRIB_BUILTINS: &[B] = &[
    b("filter", "pluralize", &["i1", "'y'", "'ies'"], &[]),
    b("filter", "pluralize", &["l1"], &[]),
    b("filter", "filesizeformat", &["i2", "b1"], &[]),
    b("filter", "truncate", &["'hello world foo bar'"], &[("length", "9"), ("killwords", "b1"), ("end", "'..'"), ("leeway", "0")]),
    b("filter", "striptags", &["html"], &[]),
    b("filter", "wordcount", &["nl"], &[]),
    b("filter", "wordwrap", &["nl"], &[("width", "3"), ("break_long_words", "b1"), ("break_on_hyphens", "b0"), ("wrapstring", "'|'")]),
    b("filter", "datetimeformat", &["1700000000"], &[("format", "'short'"), ("tz", "'UTC'")]),
    b("filter", "timeformat", &["1700000000"], &[("format", "'short'"), ("tz", "'UTC'")]),
    b("filter", "dateformat", &["1700000000"], &[("format", "'short'"), ("tz", "'UTC'")]),
    b("filter", "random", &["l1"], &[]),
    b("function", "now", &[], &[]),
    b("function", "lipsum", &["1"], &[("min", "2"), ("max", "3"), ("html", "b0")]),
    b("function", "randrange", &["1", "5"], &[]),
    b("function", "cycler", &["[1, 2]"], &[]),
    b("function", "joiner", &["','"], &[]),
];

/// pycompat's method callback (and objects returned by contrib globals) with possibly-undefined operands
const PYCOMPAT: &[&str] = &[
    "{{ s1.upper() }}", "{{ u.upper() }}", "{{ (1 if b0).upper() }}", "{{ a.b.upper() }}", "{{ s1.replace(u, 'x') }}", "{{ s1.replace('a', u) }}",
    "{{ s1.replace(u, u) }}", "{{ s1.startswith(u) }}", "{{ s1.endswith(u) }}", "{{ s1.startswith((u, 'a')) }}", "{{ s1.find(u) }}", "{{ s1.rfind(u) }}",
    "{{ s1.count(u) }}", "{{ s1.split(u) }}", "{{ s1.split('a', u) }}", "{{ s1.strip(u) }}", "{{ s1.lstrip(u) }}", "{{ s1.rstrip(u) }}", "{{ s1.join(u) }}",
    "{{ s1.join([u]) }}", "{{ s1.join([s3, u]) }}", "{{ s1.join([html|safe, u]) }}", "{{ s1.capitalize() }}", "{{ s1.title() }}", "{{ s1.splitlines(u) }}",
    "{{ s1.isdigit() }}", "{{ s1.format(u) }}", "{{ m1.get(u) }}", "{{ m1.get('zz') }}", "{{ m1.get('zz', u) }}", "{{ m1.get('zz').x }}", "{{ m1.get('zz', u).x }}",
    "{{ m1.items()|list }}", "{{ m1.keys()|list }}", "{{ m1.values()|list }}", "{{ {'k': u}.values()|list }}", "{{ {'k': u}.items()|list }}", "{{ {'k': u}.get('k') }}",
    "{{ {'k': u}.get('k').x }}", "{{ l1.count(u) }}", "{{ [u].count(u) }}", "{{ l1.index(u) }}", "{{ u.get('k') }}", "{{ u.items() }}", "{{ u.count(1) }}",
    "{% set c = cycler([u, 1]) %}{{ c.next() }}|{{ c.next() }}|{{ c.current }}", "{% set c = cycler([u, 1]) %}{{ c.next().x }}", "{% set c = cycler([1, 2]) %}{{ c.nope }}|{{ c.nope.x }}",
    "{{ cycler(u) }}", "{{ cycler([]) }}",
    "{% set j = joiner(u) %}{{ j() }}|{{ j() }}", "{% set j = joiner() %}{{ j() }}{{ j() }}", "{% set j = joiner(s3) %}{{ j(u) }}",
    "{{ lipsum(u) is string }}", "{{ lipsum(n=u) is string }}", "{{ lipsum(1, html=u) is string }}", "{{ randrange(u) }}", "{{ randrange(1, u) }}", "{{ [u, u]|random is defined }}",
    "{{ u|random }}", "{{ u|truncate(length=u) }}", "{{ s1|truncate(length=u) }}", "{{ s1|truncate(end=u) }}", "{{ u|pluralize }}", "{{ i1|pluralize(u) }}",
    "{{ i1|pluralize(u, u) }}", "{{ 1|pluralize(u) }}", "{{ 1|pluralize(u).x }}", "{{ u|wordcount }}", "{{ u|wordwrap }}", "{{ s1|wordwrap(width=u) }}",
    "{{ u|striptags }}", "{{ u|filesizeformat }}", "{{ i1|filesizeformat(u) }}", "{{ u|datetimeformat }}", "{{ 0|datetimeformat(format=u, tz='UTC') }}", "{{ 0|dateformat(tz=u) is string }}",
];

/// statement forms with a possibly-undefined operand (oracle: monotonicity only)
const STMTS: &[&str] = &[
    "{% include u %}", "{% include u ignore missing %}", "{% include [u, 'inc'] %}", "{% include [u, 'incdef'] %}",
    "{% include 'inc' %}", "{% include 'incdef' %}", "{% include (1 if b0) %}", "{% include a.b.c ignore missing %}",
    "{% extends u %}", "{% extends 'base' %}", "{% extends 'base2' %}", "{% extends 'base' %}{% block blk %}<{{ super() }}>{% endblock %}",
    "{% extends 'base2' %}{% block blk %}<{{ super() }}{{ u }}>{% endblock %}", "{% extends 'base' %}{% block blk %}{{ u|default(1) }}{% endblock %}",
    "{% extends 'base' if u else 'base2' %}", "{% block b %}{{ u }}{% endblock %}{{ self.b() }}", "{% block b %}{{ u is defined }}{% endblock %}{{ self.b() }}",
    "{% import u as m %}", "{% import 'mac' as m %}{{ m.f(1) }}", "{% import 'mac' as m %}{{ m.f(u) }}", "{% import 'mac' as m %}{{ m.f(1, 2) }}",
    "{% import 'mac' as m %}{{ m.g(u) }}", "{% import 'mac' as m %}{{ m.g() }}", "{% import 'mac' as m %}{{ m.nope }}", "{% import 'mac' as m %}{{ m.nope.x }}",
    "{% from 'mac' import f %}{{ f(u) }}", "{% from 'mac' import f %}{{ f(1, b=u) }}", "{% from 'mac' import f %}{{ f(a.b.c, 2) }}", "{% from u import f %}",
    "{% from 'mac' import g %}{{ g((1 if b0)) }}", "{% from 'mac' import f %}{% call f(u, 1) %}x{% endcall %}",
    "{% macro m(a, b=u) %}[{{ a }}{{ b }}]{% endmacro %}{{ m() }}", "{% macro m(a, b=u) %}[{{ a is defined }}{{ b|default(3) }}]{% endmacro %}{{ m() }}",
    "{% macro m(a) %}[{{ a }}]{% endmacro %}{{ m(u) }}{{ m(a=u) }}", "{% macro m(a) %}[{% if a %}1{% endif %}]{% endmacro %}{{ m() }}",
    "{% macro m(a) %}[{{ a.x }}]{% endmacro %}{{ m() }}", "{% macro m(a) %}[{{ caller() }}]{% endmacro %}{% call m() %}{{ u }}{% endcall %}",
    "{% macro m(a) %}[{{ caller(u) }}]{% endmacro %}{% call(x) m() %}{{ x is defined }}{% endcall %}", "{% macro m() %}{{ varargs }}{{ kwargs }}{% endmacro %}{{ m(u, k=u) }}",
    "{% macro m(a) %}{{ a }}{% endmacro %}{{ m(*u) }}", "{% macro m(a) %}{{ a }}{% endmacro %}{{ m(**u) }}", "{% macro m(a=1) %}{{ a }}{% endmacro %}{{ m(**{'a': u}) }}",
    "{% autoescape u %}{{ html }}{% endautoescape %}", "{% autoescape (1 if b0) %}{{ html }}{% endautoescape %}", "{% autoescape 'html' %}{{ u }}{{ html }}{% endautoescape %}",
    "{% for x, y in u %}{{ x }}{% endfor %}", "{% for x, y in [u] %}{{ x }}{% endfor %}", "{% for x, y in [[1, u]] %}{{ x }}{{ y is defined }}{% endfor %}", "{% for x, y in [[1, u]] %}{{ y }}{% endfor %}",
    "{% for x in lm recursive %}{{ x.v }}{{ loop(u) }}{% endfor %}", "{% for x in l1 recursive %}{{ x }}{% if x == 1 %}{{ loop(a.b) }}{% endif %}{% endfor %}", "{% for x in u recursive %}{{ loop(x) }}{% endfor %}",
    "{% for x in l1 %}{{ loop.cycle(u, 1) }}{% endfor %}", "{% for x in l1 %}{{ loop.changed(u) }}{% endfor %}", "{% for x in l1 %}{{ loop.previtem }}|{{ loop.nextitem }}|{% endfor %}",
    "{% for x in l1 %}{{ loop.previtem is defined }}{% endfor %}", "{% for x in l1 %}{% if loop.previtem %}p{% endif %}{% endfor %}", "{% for x in l1 %}{{ loop.nope }}{% endfor %}", "{% for x in l1 %}{{ loop.nope.x }}{% endfor %}",
    "{% for x in l1 %}{% if x == u %}{% break %}{% endif %}{{ x }}{% endfor %}", "{% for x in l1 %}{% if u %}{% continue %}{% endif %}{{ x }}{% endfor %}",
    "{% set ns = namespace(x=u) %}{{ ns.x }}", "{% set ns = namespace() %}{% set ns.x = u %}{{ ns.x is defined }}", "{% set ns = namespace() %}{{ ns.y }}", "{% set ns = namespace() %}{{ ns.y.z }}", "{% set u.x = 1 %}", "{% set ns = namespace(u) %}",
    "{% set x, y = u %}", "{% set x, y = [u, 1] %}{{ x is defined }}{{ y }}", "{% set x = u %}{% set y = x %}{{ y|default(1) }}", "{% set x %}{{ u }}{% endset %}{{ x }}", "{% set x | upper %}a{{ u|default('b') }}{% endset %}{{ x }}",
    "{% with x = u, y = x %}{{ y is defined }}{% endwith %}", "{% with x = u.a %}1{% endwith %}", "{% filter upper %}{{ u }}a{% endfilter %}", "{% filter default('d') %}{% endfilter %}", "{% filter replace('a', u) %}aba{% endfilter %}",
    "{% if u is defined and u %}1{% else %}0{% endif %}", "{% if u is undefined or u.x %}1{% endif %}", "{% if u is defined and u.x %}1{% else %}0{% endif %}", "{{ u.x if u is defined else 'd' }}", "{{ (u|default(m1)).k }}", "{{ (u or m1).k }}",
    "{{ range(u) }}", "{{ range(1, u) }}", "{{ range(1, 5, u) }}", "{{ dict(a=u) }}", "{{ dict(u) }}", "{{ dict(**u) }}", "{{ dict(m1, **u) }}", "{{ dict(**a.b) }}", "{{ namespace(**u) }}", "{{ debug(u) is string }}", "{{ lipsum }}", "{{ u() }}", "{{ u.f() }}", "{{ u.f(1) }}", "{{ m1.f() }}", "{{ s1.nope() }}", "{{ a.b() }}", "{{ l1.u() }}",
    "{{ [1, 2] + u }}", "{{ u + u }}", "{{ u ** 2 }}", "{{ u // 2 }}", "{{ 7 % u }}", "{{ u / 1 }}", "{{ -u }}", "{{ +u }}", "{{ u * 'a' }}", "{{ (u, 1) }}", "{{ (u,) }}", "{{ [u] }}", "{{ {'k': u} }}", "{{ {u: 1} }}", "{{ [u, [u]]|string }}", "{{ {'a': u}|tojson }}", "{{ [u]|tojson }}", "{{ u|tojson }}", "{{ {'a': u}|urlencode }}", "{{ {'a': u}|dictsort }}", "{{ [u, 1]|sort }}", "{{ [u, 1]|unique|list }}", "{{ [u, 1]|min }}", "{{ [u, 1]|join('-') }}", "{{ [u, u]|sum }}", "{{ [u]|first }}", "{{ [u]|last.x }}", "{{ ([u]|first).x }}", "{{ [u][0].x }}", "{{ {'a': u}.a.x }}", "{{ {'a': u}['a']['x'] }}",
];

/// one-shot iterators (consumed by the first use) with undefined items / next to undefined operands
const ZOO: &[&str] = &[
    "[{{ os1 }}]", "[{% for x in os1 %}{{ x }}{% endfor %}]", "[{% for x in os1 %}{{ x|default('d') }}{% endfor %}]", "[{{ os1|list }}]",
    "[{{ os1|join(u) }}]", "[{{ os1|join(s3) }}]", "[{{ os1|map('upper')|list }}]", "[{{ os1|map('default', 1)|list }}]", "[{{ os1|select|list }}]",
    "[{{ os1|first }}]", "[{{ os1|length }}]", "[{{ u in os1 }}]", "[{{ 1 in os1 }}{{ 1 in os1 }}]", "[{{ os1[0] }}]", "[{{ os1[1:] }}]", "[{{ os1[u] }}]",
    "[{{ os1|sum }}]", "[{{ os1|sort }}]", "[{{ os1|unique|list }}]", "[{{ os1|batch(2)|list }}]", "[{{ os1 is iterable }}{{ os1 is defined }}]",
    "[{{ [u, os1]|first }}]", "[{{ os0 }}{{ os0|default('d', true) }}]", "[{% if os0 %}y{% endif %}{% if os1 %}y{% endif %}]", "[{{ os1|min }}{{ os0|max }}]",
    "[{{ l1|zip(os1)|list }}]", "[{{ os1|chain(u)|list }}]", "[{{ os1|reverse|list }}]", "[{{ os1 ~ u }}]", "[{{ os1 == u }}]", "[{{ os1|tojson }}]",
];

/// operands of the `api` stream
const API_OPERANDS: &[&str] = &["u", "(1 if b0)", "none", "a.b", "[u]", "[s1, u]", "[html|safe, u]", "s1", "i1", "m1", "{'k': u}"];

fn api_templates() -> Vec<String> {
    let mut v = vec![];
    let pre = "{% macro m(a, b=u) %}<{{ a }}|{{ b is defined }}>{% endmacro %}{% macro t(a) %}{% if a %}y{% else %}n{% endif %}{% endmacro %}{% block blk %}({{ u|default('d') }}{{ w if b0 }}){% endblock %}";
    for x in API_OPERANDS {
        for call in [
            format!("api('format', {x})"),
            format!("api('to_string', {x})"),
            format!("api('apply_filter', 'upper', {x})"),
            format!("api('apply_filter', 'default', {x}, 1)"),
            format!("api('apply_filter', 'default', 1, 2, {x})"),
            format!("api('apply_filter', 'join', {x}, s3)"),
            format!("api('apply_filter', 'join', [s1, {x}], s3)"),
            format!("api('apply_filter', 'join', l1, {x})"),
            format!("api('apply_filter', 'attr', {x}, 'k')"),
            format!("api('apply_filter', 'list', {x})"),
            format!("api('apply_filter', 'int', {x})"),
            format!("api('apply_filter', 'escape', {x})"),
            format!("api('apply_filter', 'replace', s1, {x}, html)"),
            format!("api('apply_filter', 'map', {x}, 'upper')|list"),
            format!("api('apply_filter', 'nope', {x})"),
            format!("api('perform_test', 'defined', {x})"),
            format!("api('perform_test', 'in', 1, {x})"),
            format!("api('perform_test', 'odd', {x})"),
            format!("api('perform_test', 'startingwith', s1, {x})"),
            format!("api('call_macro', 'm', {x})"),
            format!("api('call_macro', 'm', 1, {x})"),
            format!("api('call_macro', 'm')"),
            format!("api('call_macro', 't', {x})"),
            format!("api('call_macro', {x})"),
            format!("api('call', m, {x})"),
            format!("api('call', t, {x})"),
            format!("api('call', {x})"),
            format!("api('call', {x}, 1)"),
            format!("api('call_method', {x}, 'f')"),
            format!("api('call_method', m1, {x})"),
            format!("api('get_attr', {x}, 'k')"),
            format!("api('get_attr', m1, {x})"),
            format!("api('get_item', {x}, 0)"),
            format!("api('get_item', l1, {x})"),
            format!("api('get_item', m1, {x})"),
            format!("api('get_item_by_index', {x})"),
            format!("api('try_iter', {x})"),
            format!("api('len', {x})"),
            format!("api('is_true', {x})"),
            format!("api({x}, 1)"),
        ] {
            v.push(format!("{}[{{{{ {} }}}}]", pre, call));
        }
    }
    for call in ["api('lookup', 'u')", "api('lookup', 'u').x", "api('lookup', 'i1')", "api('render_block', 'blk')", "api('render_block', 'nope')", "api('render_block', u)"] {
        v.push(format!("{}[{{{{ {} }}}}]", pre, call));
    }
    v
}

/// tests whose names are operator symbols are only reachable through select/reject
const SYMBOL_TESTS: [&str; 6] = ["==", "!=", "<", "<=", ">", ">="];

/// substitutes for one operand: undefined, silent undefined, none, containers holding an undefined
const SUBST: &[(&str, &str)] = &[
    ("u", "u"),
    ("model", "(1 if b0)"),
    ("none", "none"),
    ("lu", "[i1, u]"),
    ("mu", "{'k': u}"),
    ("au", "a.b"),
    ("lsu", "[s1, u]"),
    ("lhu", "[html|safe, a.b, i1]"),
];

/// how undefined an operand expression of the builtin streams is: u = undefined, s = silent
/// undefined, n = none, l = a list holding an undefined, L = a list of defined values, M = a map,
/// t = a string, d = anything else
fn kind_of(expr: &str) -> String {
    // a string literal is passed on as such (names of tests / filters, attribute paths)
    if expr.len() >= 2 && expr.starts_with('\'') && expr.ends_with('\'') && !expr[1..expr.len() - 1].contains('\'') {
        let inner = &expr[1..expr.len() - 1];
        if !inner.is_empty() && inner.is_ascii() {
            return format!("q{}", hex(inner.as_bytes()));
        }
    }
    kind_of_simple(expr).to_string()
}

fn kind_of_simple(expr: &str) -> &'static str {
    match expr {
        "u" | "a.b" => "u",
        "(1 if b0)" => "s",
        "none" | "n" => "n",
        "[i1, u]" | "[u]" | "[s1, u]" | "[html|safe, a.b, i1]" => "l",
        "l1" | "ls" | "lm" | "[i1, html, s1]" | "[i1, s1]" => "L",
        "m1" | "a" => "M",
        "s1" | "s3" | "html" | "nl" | "fmt" | "sn" | "sf" => "t",
        _ => "d",
    }
}

/// `B <kind> <name> <kind of each positional argument> [k]` for the signature stream of the check
fn sig_field(kind: &str, name: &str, args: &[String], has_kwargs: bool) -> String {
    let mut s = format!("B {} {}", kind, hx(name));
    for a in args {
        s.push(' ');
        s.push_str(&kind_of(a));
    }
    if has_kwargs {
        s.push_str(" k");
    }
    s
}

fn call_case(bi: &B, args: &[String], kwargs: &[(String, String)]) -> (String, String) {
    (call_src(bi, args, kwargs), sig_field(bi.kind, bi.name, args, !kwargs.is_empty()))
}

fn call_src(bi: &B, args: &[String], kwargs: &[(String, String)]) -> String {
    let mut rest: Vec<String> = vec![];
    let (recv, pos) = match bi.kind {
        "function" => (None, args),
        _ => (Some(args[0].clone()), &args[1..]),
    };
    rest.extend(pos.iter().cloned());
    rest.extend(kwargs.iter().map(|(k, v)| format!("{}={}", k, v)));
    let call = if rest.is_empty() && bi.kind != "function" { String::new() } else { format!("({})", rest.join(", ")) };
    match bi.kind {
        "filter" => format!("[{{{{ {}|{}{} }}}}]", recv.unwrap(), bi.name, call),
        "test" => format!("[{{{{ {} is {}{} }}}}]", recv.unwrap(), bi.name, call),
        // the current time is not printed (the four renders would differ)
        _ if bi.name == "now" => format!("[{{{{ {}{} is defined }}}}]", bi.name, call),
        _ => format!("[{{{{ {}{} }}}}]", bi.name, call),
    }
}

fn gen_calls(list: &[B], tier: &str, f: &mut dyn FnMut(String, (String, String))) {
    for bi in list {
        let args: Vec<String> = bi.args.iter().map(|s| s.to_string()).collect();
        let kw: Vec<(String, String)> = bi.kwargs.iter().map(|(k, v)| (k.to_string(), v.to_string())).collect();
        let npos = args.len();
        let n = npos + kw.len();
        // the good call, with and without kwargs
        f(format!("{}:{}:good", bi.kind, bi.name), call_case(bi, &args, &[]));
        if !kw.is_empty() {
            f(format!("{}:{}:good+kw", bi.kind, bi.name), call_case(bi, &args, &kw));
        }
        let put = |slots: &[(usize, &str)], with_kw: bool| -> (String, String) {
            let mut a = args.clone();
            let mut k = kw.clone();
            for (p, s) in slots {
                if *p < npos { a[*p] = s.to_string() } else { k[*p - npos].1 = s.to_string() }
            }
            // kwargs are only passed when one of them is substituted (or on request)
            let k_used: Vec<(String, String)> = if with_kw { k } else {
                k.into_iter().enumerate().filter(|(i, _)| slots.iter().any(|(p, _)| *p == npos + *i)).map(|(_, x)| x).collect()
            };
            call_case(bi, &a, &k_used)
        };
        for p in 0..n {
            for (sn, se) in SUBST {
                f(format!("{}:{}:arg{}={}", bi.kind, bi.name, p, sn), put(&[(p, se)], false));
                if !kw.is_empty() && p < npos {
                    f(format!("{}:{}:arg{}={}+kw", bi.kind, bi.name, p, sn), put(&[(p, se)], true));
                }
            }
            // dropping trailing positional arguments (shorter arity) with the substitute at p
            if p < npos {
                for cut in (p + 1)..npos {
                    let mut a = args[..cut].to_vec();
                    for (sn, se) in &SUBST[..2] {
                        a[p] = se.to_string();
                        if bi.kind != "function" || !a.is_empty() {
                            f(format!("{}:{}:arity{}:arg{}={}", bi.kind, bi.name, cut, p, sn), call_case(bi, &a, &[]));
                        }
                    }
                }
            }
        }
        // pairs of positions
        let pair_subst: &[(&str, &str)] = if tier == "thorough" { SUBST } else { &SUBST[..2] };
        for p in 0..n {
            for q in (p + 1)..n {
                for (sn, se) in pair_subst {
                    for (tn, te) in pair_subst {
                        f(format!("{}:{}:arg{}={},arg{}={}", bi.kind, bi.name, p, sn, q, tn), put(&[(p, se), (q, te)], false));
                    }
                }
            }
        }
        // an extra trailing undefined argument
        let mut a = args.clone();
        a.push("u".into());
        f(format!("{}:{}:extra=u", bi.kind, bi.name), call_case(bi, &a, &[]));
        // statement forms
        if bi.kind == "filter" {
            let rest: Vec<String> = args[1..].to_vec();
            let call = if rest.is_empty() { String::new() } else { format!("({})", rest.join(", ")) };
            f(format!("filter:{}:block", bi.name), (format!("[{{% filter {}{} %}}{{{{ u }}}}x{{% endfilter %}}]", bi.name, call), "-".to_string()));
            f(format!("filter:{}:setblock", bi.name), (format!("[{{% set y | {}{} %}}{{{{ (1 if b0) }}}}x{{% endset %}}{{{{ y }}}}]", bi.name, call), "-".to_string()));
        }
    }
}

const POOL: &[&str] = &["u", "(1 if b0)", "none", "i1", "s1", "z", "l1", "m1", "b1", "[u]", "f1", "[s1, u]", "by", "opl", "om", "os", "oit", "big", "nan"];

fn all_names() -> Vec<(&'static str, &'static str)> {
    names_of(BUILTINS, true)
}

fn names_of(list: &'static [B], symbols: bool) -> Vec<(&'static str, &'static str)> {
    let mut v: Vec<(&str, &str)> = vec![];
    for bi in list {
        if !v.contains(&(bi.kind, bi.name)) {
            v.push((bi.kind, bi.name));
        }
    }
    if symbols {
        for t in SYMBOL_TESTS {
            v.push(("test", t));
        }
    }
    v
}

fn gen_sweep(names: Vec<(&'static str, &'static str)>, tier: &str, f: &mut dyn FnMut(String, (String, String))) {
    let max_arity = if tier == "thorough" { 3 } else { 2 };
    for (kind, name) in names {
        let symbol = SYMBOL_TESTS.contains(&name);
        for recv in POOL {
            let mut arg_lists: Vec<Vec<&str>> = vec![vec![]];
            let mut frontier: Vec<Vec<&str>> = vec![vec![]];
            for depth in 0..max_arity {
                let mut next = vec![];
                // third arguments only from the small pool
                let pool: &[&str] = if depth >= 2 { &POOL[..5] } else if depth == 1 && tier != "thorough" { &POOL[..12] } else { POOL };
                if depth >= 2 {
                    frontier.retain(|a| a.iter().all(|x| POOL[..5].contains(x)));
                }
                for a in &frontier {
                    for p in pool {
                        let mut x = a.clone();
                        x.push(*p);
                        next.push(x);
                    }
                }
                arg_lists.extend(next.iter().cloned());
                frontier = next;
            }
            for args in arg_lists {
                // quick tier: arity-2 lists only when at least one operand is an undefined of some sort
                if tier != "thorough" && args.len() == 2 && !args.iter().chain(std::iter::once(recv)).any(|a| ["u", "(1 if b0)", "[u]"].contains(a)) {
                    continue;
                }
                let joined = args.join(", ");
                let src = if symbol {
                    // value under test = elements of the receiver list
                    format!("[{{{{ [{}]|select('{}'{}{})|list }}}}]", recv, name, if args.is_empty() { "" } else { ", " }, joined)
                } else {
                    match kind {
                        "filter" => format!("[{{{{ {}|{}{} }}}}]", recv, name, if args.is_empty() { String::new() } else { format!("({})", joined) }),
                        "test" => format!("[{{{{ {} is {}{} }}}}]", recv, name, if args.is_empty() { String::new() } else { format!("({})", joined) }),
                        _ => {
                            let mut all = vec![*recv];
                            all.extend(args.iter());
                            format!("[{{{{ {}({}){} }}}}]", name, all.join(", "), if name == "now" { " is defined" } else { "" })
                        }
                    }
                };
                let sig = if symbol {
                    "-".to_string()
                } else {
                    let mut all: Vec<String> = vec![recv.to_string()];
                    all.extend(args.iter().map(|x| x.to_string()));
                    sig_field(kind, name, &all, false)
                };
                f(format!("{}:{}:sweep{}", kind, name, args.len()), (src, sig));
            }
        }
    }
}

// ------------------------------------------------------------------------------------------
// generated programs of the core fragment

struct Gen {
    rng: Rng,
    locals: Vec<String>,
    macros: Vec<(String, usize)>,
    rich: bool, // also use constructs outside the Lean model (macros, more filters, // and %)
    /// percentage of variable references that go to a missing name
    missing_pct: u64,
    /// percentage of operands generated without regard to the operator's type expectations
    wild_pct: u64,
    /// strings with HTML special characters, safe strings, `safe` / `escape` / safe joins, autoescape blocks
    html: bool,
}

const HTML_VARS: &[&str] = &["h1", "hs", "lh", "lp", "hs", "lh"];
const HTML_FILTERS: &[&str] = &["safe", "escape", "e", "join(hs)", "join('<')", "join", "join(u)", "upper", "trim", "string", "first", "last", "default('<d>')", "default(hs)", "list", "length"];
const HTML_TESTS: &[&str] = &["safe", "escaped", "string", "defined", "eq('<i>')", "in(lh)"];

const DEFINED: &[&str] = &["i1", "i2", "z", "s1", "s2", "s3", "b1", "b0", "n", "l1", "l0", "ls", "m1", "a", "lm"];
const INTS: &[&str] = &["i1", "i2", "z"];
const CONTS: &[&str] = &["l1", "l0", "ls", "s1", "s3", "m1", "a", "lm"];
const MISSING: &[&str] = &["u", "u2", "w"];
const ATTRS: &[&str] = &["k", "n", "q", "x", "b", "c", "v", "zz"];
const MODEL_FILTERS: &[&str] = &["default(1)", "default", "d(s1)", "default(2, true)", "default(2, u)", "int", "string", "bool", "list", "upper", "lower", "length", "count", "attr('k')", "attr('b')", "attr(0)", "first", "last", "join", "join('-')", "join(u)", "min", "max", "sum", "trim"];
const RICH_FILTERS: &[&str] = &["title", "reverse", "sort", "unique|list", "abs", "float", "items|list", "dictsort", "tojson", "safe", "e", "map(attribute='k')|list", "map('upper')|list", "select|list", "select('odd')|list", "reject('none')|list", "batch(2)|list", "replace('a', u)", "replace(u, 'a')", "capitalize", "round", "selectattr('k')|list", "map(attribute='k', default=u)|list", "indent(2)", "pprint", "lines", "split(',')", "urlencode", "format(u)", "zip(u)|list", "chain(u)|list", "groupby('k')|list"];
const MODEL_TESTS: &[&str] = &["defined", "undefined", "none", "true", "false", "eq(1)", "ne(u)", "lt(2)", "gt(u)", "in(l1)", "in(u)", "ge(1)", "le(s1)", "string", "number", "sequence", "mapping", "boolean", "integer"];
const RICH_TESTS: &[&str] = &["odd", "even", "iterable", "divisibleby(2)", "divisibleby(u)", "startingwith('a')", "startingwith(u)", "sameas(u)", "float", "lower", "safe", "filter", "test"];

#[derive(Clone, Copy, PartialEq)]
enum Ty {
    Any,
    Int,
    Cont,
}

impl Gen {
    fn var(&mut self, ty: Ty) -> String {
        if self.rng.below(100) < self.missing_pct {
            return self.rng.pick(MISSING).to_string();
        }
        if self.html && self.rng.chance(1, 3) {
            return self.rng.pick(HTML_VARS).to_string();
        }
        if ty == Ty::Any && self.rng.chance(1, 4) && !self.locals.is_empty() {
            let i = self.rng.below(self.locals.len() as u64) as usize;
            return self.locals[i].clone();
        }
        match ty {
            Ty::Any => self.rng.pick(DEFINED).to_string(),
            Ty::Int => self.rng.pick(INTS).to_string(),
            Ty::Cont => self.rng.pick(CONTS).to_string(),
        }
    }

    fn konst(&mut self, ty: Ty) -> String {
        match ty {
            Ty::Int => format!("{}", self.rng.below(4)),
            Ty::Cont => (*self.rng.pick(&["'ab'", "''", "[]", "[1, 'k']", "{'k': 2}"])).to_string(),
            Ty::Any => match self.rng.below(8) {
                0 => "none".into(),
                1 => "true".into(),
                2 => "false".into(),
                3 => "'ab'".into(),
                4 => "''".into(),
                5 => "'k'".into(),
                _ => format!("{}", self.rng.below(4)),
            },
        }
    }

    fn expr(&mut self, d: u32) -> String {
        self.expr_t(d, Ty::Any)
    }

    fn expr_t(&mut self, d: u32, ty: Ty) -> String {
        let ty = if self.rng.below(100) < self.wild_pct { Ty::Any } else { ty };
        if d == 0 || self.rng.chance(1, 5) {
            return if self.rng.chance(2, 3) { self.var(ty) } else { self.konst(ty) };
        }
        let d1 = d - 1;
        match ty {
            Ty::Int => {
                return match self.rng.below(7) {
                    0 | 1 => {
                        let op = *self.rng.pick(&["+", "-", "*"]);
                        format!("({} {} {})", self.expr_t(d1, Ty::Int), op, self.expr_t(d1, Ty::Int))
                    }
                    2 => format!("{}|{}", self.postfix_t(d1, Ty::Cont), self.rng.pick(&["length", "count"])),
                    3 => format!("{}|default({})", self.var(Ty::Int), self.rng.below(4)),
                    4 => format!("{}|int", self.postfix_t(d1, Ty::Int)),
                    5 => format!("({} if {} else {})", self.expr_t(d1, Ty::Int), self.expr(d1), self.expr_t(d1, Ty::Int)),
                    _ => self.var(Ty::Int),
                };
            }
            Ty::Cont => {
                return match self.rng.below(8) {
                    0 => format!("[{}, {}]", self.expr(d1), self.expr(d1)),
                    1 => format!("{{'k': {}, 'b': {}}}", self.expr(d1), self.expr(d1)),
                    2 => {
                        let (a, b) = (self.bound(), self.bound());
                        format!("{}[{}:{}]", self.postfix_t(d1, Ty::Cont), a, b)
                    }
                    3 => format!("{}|list", self.postfix_t(d1, Ty::Cont)),
                    4 => format!("{}|default({})", self.var(Ty::Cont), self.konst(Ty::Cont)),
                    5 => format!("({} ~ {})", self.expr(d1), self.expr(d1)),
                    6 => format!("({} + {})", self.rng.pick(&["l1", "ls", "l0", "[i1]"]), self.rng.pick(&["l1", "ls", "[u]", "[1]"])),
                    _ => self.var(Ty::Cont),
                };
            }
            Ty::Any => {}
        }
        let top = if self.rich { 30 } else { 24 };
        match self.rng.below(top) {
            0 | 1 => format!("{}.{}", self.postfix(d1), self.rng.pick(ATTRS)),
            2 => format!("{}[{}]", self.postfix_t(d1, Ty::Cont), self.expr_t(d1.min(1), Ty::Int)),
            3 => {
                let (a, b) = (self.bound(), self.bound());
                if self.rng.chance(1, 3) {
                    format!("{}[{}:{}:{}]", self.postfix_t(d1, Ty::Cont), a, b, self.bound())
                } else {
                    format!("{}[{}:{}]", self.postfix_t(d1, Ty::Cont), a, b)
                }
            }
            4 => format!("(not {})", self.expr(d1)),
            5 => format!("({} and {})", self.expr(d1), self.expr(d1)),
            6 => format!("({} or {})", self.expr(d1), self.expr(d1)),
            7 => format!("({} if {} else {})", self.expr(d1), self.expr(d1), self.expr(d1)),
            8 => format!("({} if {})", self.expr(d1), self.expr(d1)),
            9 | 10 => {
                let op = *self.rng.pick(&["==", "!=", "<", "<=", ">", ">="]);
                format!("({} {} {})", self.expr(d1), op, self.expr(d1))
            }
            11 => {
                let op1 = *self.rng.pick(&["==", "<", "<=", ">", "!="]);
                let op2 = *self.rng.pick(&["<", "<=", ">=", "==", "in", "not in"]);
                let third = if op2.ends_with("in") { self.expr_t(d1, Ty::Cont) } else { self.expr(d1) };
                format!("({} {} {} {} {})", self.expr(d1), op1, self.expr(d1), op2, third)
            }
            12 => format!("({} in {})", self.expr(d1), self.expr_t(d1, Ty::Cont)),
            13 => format!("({} not in {})", self.expr(d1), self.expr_t(d1, Ty::Cont)),
            14 | 15 => format!("({} ~ {})", self.expr(d1), self.expr(d1)),
            16 => self.expr_t(d, Ty::Int),
            17 | 18 => {
                let t = if self.html && self.rng.chance(1, 3) { *self.rng.pick(HTML_TESTS) } else if self.rich && self.rng.chance(1, 2) { *self.rng.pick(RICH_TESTS) } else { *self.rng.pick(MODEL_TESTS) };
                let neg = if self.rng.chance(1, 4) { "not " } else { "" };
                format!("({} is {}{})", self.postfix(d1), neg, t)
            }
            19 | 20 | 21 => {
                let f = if self.html && self.rng.chance(1, 2) { *self.rng.pick(HTML_FILTERS) } else if self.rich && self.rng.chance(1, 2) { *self.rng.pick(RICH_FILTERS) } else { *self.rng.pick(MODEL_FILTERS) };
                let needs_cont = ["length", "count", "first", "last", "join", "join('-')", "join(u)", "min", "max", "list", "reverse", "sort", "unique|list", "select|list", "batch(2)|list", "zip(u)|list", "chain(u)|list"].contains(&f);
                let needs_int = ["sum", "abs", "round", "select('odd')|list"].contains(&f);
                let recv = if needs_cont { self.postfix_t(d1, Ty::Cont) } else if needs_int && f != "sum" { self.postfix_t(d1, Ty::Int) } else if f == "sum" { (*self.rng.pick(&["l1", "l0", "u", "[i1, u]", "[1, 2]"])).to_string() } else { self.postfix(d1) };
                format!("{}|{}", recv, f)
            }
            22 => self.expr_t(d, Ty::Cont),
            23 => format!("{{'k': {}, 'b': {}}}", self.expr(d1), self.expr(d1)),
            24 => {
                let op = *self.rng.pick(&["//", "%", "/", "**"]);
                format!("({} {} {})", self.expr_t(d1, Ty::Int), op, self.expr_t(d1.min(1), Ty::Int))
            }
            25 => format!("(-{})", self.postfix_t(d1, Ty::Int)),
            26 if !self.macros.is_empty() => {
                let i = self.rng.below(self.macros.len() as u64) as usize;
                let (name, n) = self.macros[i].clone();
                let mut args = vec![];
                let mut kw = false;
                for j in 0..n {
                    if !self.rng.chance(4, 5) {
                        break;
                    }
                    kw = kw || self.rng.chance(1, 4);
                    if kw { args.push(format!("p{}={}", j, self.expr(d1))) } else { args.push(self.expr(d1)) }
                }
                format!("{}({})", name, args.join(", "))
            }
            27 => format!("range({})|list", self.expr_t(d1.min(1), Ty::Int)),
            28 => format!("dict(x={}, **{})", self.expr(d1), self.rng.pick(&["m1", "a", "u", "{}", "n"])),
            _ => format!("{}|default({}, {})", self.postfix(d1), self.expr(d1), self.expr(d1)),
        }
    }

    fn bound(&mut self) -> String {
        match self.rng.below(8) {
            0 | 1 => String::new(),
            2 => "u".into(),
            3 => "none".into(),
            4 => "-1".into(),
            5 => "i1".into(),
            _ => format!("{}", self.rng.below(4)),
        }
    }

    /// an expression that can take a postfix (`.x`, `[..]`, `|f`, `is t`)
    fn postfix(&mut self, d: u32) -> String {
        self.postfix_t(d, Ty::Any)
    }

    fn postfix_t(&mut self, d: u32, ty: Ty) -> String {
        let e = self.expr_t(d, ty);
        let ident = e.chars().all(|c| c.is_ascii_alphanumeric() || c == '_') && !e.chars().next().map_or(true, |c| c.is_ascii_digit());
        if ident { e } else { format!("({})", e) }
    }

    fn text(&mut self) -> String {
        (*self.rng.pick(&["", "a", "-", " x ", ";"])).to_string()
    }

    fn body(&mut self, d: u32, n: u64) -> String {
        let k = 1 + self.rng.below(n);
        (0..k).map(|_| self.stmt(d)).collect::<Vec<_>>().join("")
    }

    fn stmt(&mut self, d: u32) -> String {
        let ed = 1 + self.rng.below(3) as u32;
        if d == 0 {
            return format!("{}{{{{ {} }}}}", self.text(), self.expr(ed));
        }
        if self.html && self.rng.chance(1, 6) {
            let how = *self.rng.pick(&["'html'", "true", "false", "'none'", "u", "b1", "i1", "none", "(1 if b0)", "'nope'"]);
            return format!("{{% autoescape {} %}}{}{{% endautoescape %}}", how, self.body(d - 1, 2));
        }
        let top = if self.rich { 14 } else { 11 };
        match self.rng.below(top) {
            0 | 1 | 2 => format!("{}{{{{ {} }}}}", self.text(), self.expr(ed)),
            3 | 4 => {
                let mut s = format!("{{% if {} %}}{}", self.expr(ed), self.body(d - 1, 2));
                if self.rng.chance(1, 3) {
                    s += &format!("{{% elif {} %}}{}", self.expr(ed), self.body(d - 1, 2));
                }
                if self.rng.chance(1, 2) {
                    s += &format!("{{% else %}}{}", self.body(d - 1, 2));
                }
                s + "{% endif %}"
            }
            5 | 6 => {
                let v = format!("x{}", self.locals.len());
                let it = self.expr(ed);
                let filt = if self.rng.chance(1, 5) { format!(" if {}", self.expr(1)) } else { String::new() };
                let it = if self.rng.chance(1, 6) { it } else { self.expr_t(ed, Ty::Cont) };
                self.locals.push(v.clone());
                let body = self.body(d - 1, 2);
                self.locals.pop();
                let mut s = format!("{{% for {} in {}{} %}}{}", v, it, filt, body);
                if self.rng.chance(1, 3) {
                    s += &format!("{{% else %}}{}", self.body(d - 1, 1));
                }
                s + "{% endfor %}"
            }
            7 | 8 => {
                let v = format!("y{}", self.rng.below(3));
                let s = format!("{{% set {} = {} %}}", v, self.expr(ed));
                if !self.locals.contains(&v) {
                    self.locals.push(v);
                }
                s
            }
            9 => {
                let v = format!("y{}", self.rng.below(3));
                let s = format!("{{% set {} %}}{}{{% endset %}}", v, self.body(d - 1, 2));
                if !self.locals.contains(&v) {
                    self.locals.push(v);
                }
                s
            }
            10 => {
                let v = format!("w{}", self.locals.len());
                let e = self.expr(ed);
                self.locals.push(v.clone());
                let body = self.body(d - 1, 2);
                self.locals.pop();
                format!("{{% with {} = {} %}}{}{{% endwith %}}", v, e, body)
            }
            11 => {
                let name = format!("mac{}", self.macros.len());
                let n = self.rng.below(3) as usize;
                let mut params = vec![];
                let saved = self.locals.clone();
                for j in 0..n {
                    let p = format!("p{}", j);
                    if self.rng.chance(1, 3) { params.push(format!("{}={}", p, self.konst(Ty::Any))) } else { params.push(p.clone()) }
                    self.locals.push(p);
                }
                // defaults after required only
                let mut seen_def = false;
                for p in params.iter_mut() {
                    if p.contains('=') { seen_def = true } else if seen_def { *p = format!("{}=none", p) }
                }
                let body = self.body(d - 1, 2);
                self.locals = saved;
                self.macros.push((name.clone(), n));
                format!("{{% macro {}({}) %}}{}{{% endmacro %}}", name, params.join(", "), body)
            }
            12 => {
                let f = *self.rng.pick(&["upper", "default('d', true)", "trim", "length", "int", "list|length", "replace('a', u)"]);
                format!("{{% filter {} %}}{}{{% endfilter %}}", f, self.body(d - 1, 2))
            }
            _ => {
                let v = format!("x{}", self.locals.len());
                let it = self.expr(ed);
                self.locals.push(v.clone());
                let e = self.expr(1);
                self.locals.pop();
                format!("{{% for {} in {} %}}{{{{ loop.index }}}}{{{{ loop.cycle({}, 1) }}}}{{% if loop.changed({}) %}}c{{% endif %}}{{% endfor %}}", v, it, e, v)
            }
        }
    }

    fn program(&mut self) -> String {
        self.locals.clear();
        self.macros.clear();
        let d = 1 + self.rng.below(3) as u32;
        let mut out = self.body(d, 4);
        if self.rich && self.rng.chance(1, 6) {
            // a child template: root statements (their output is discarded), overridden blocks, super()
            let parent = *self.rng.pick(&["base", "base2", "base3", "base", "nope"]);
            let mut t = format!("{{% extends '{}' %}}", parent);
            if self.rng.chance(1, 2) {
                t += &self.stmt(1);
            }
            for bname in ["blk", "other", "mine"] {
                if self.rng.chance(1, 2) {
                    let sup = match self.rng.below(4) {
                        0 => "{{ super() }}",
                        1 => "{{ super()|upper }}",
                        2 => "{% if u %}{{ super() }}{% endif %}",
                        _ => "",
                    };
                    t += &format!("{{% block {} %}}{}{}{{% endblock %}}", bname, self.body(1, 2), sup);
                }
            }
            return t;
        }
        if self.rich {
            // top-level blocks (rendered in place and again through `self.name()`) and includes
            let nb = self.rng.below(3);
            for i in 0..nb {
                let body = self.body(d.saturating_sub(1), 2);
                out += &format!("{{% block blk{} %}}{}{{% endblock %}}", i, body);
                if self.rng.chance(1, 2) {
                    out += &format!("{{{{ self.blk{}() }}}}", self.rng.below(i + 1));
                }
            }
            if self.rng.chance(1, 3) {
                out += *self.rng.pick(&["{% include 'inc' %}", "{% include 'incdef' %}", "{% include 'nope' ignore missing %}",
                    "{% include u2 ignore missing %}", "{% include 'nope' %}"]);
                out += &self.stmt(0);
            }
        }
        out
    }
}

// ------------------------------------------------------------------------------------------

fn main() {
    quiet_panics();
    let args: Vec<String> = std::env::args().collect();
    let cmd = args.get(1).map(|s| s.as_str()).unwrap_or("");
    let envs = mk_envs();
    let stdout = std::io::stdout();
    let mut w = std::io::BufWriter::new(stdout.lock());
    match cmd {
        "names" => {
            for (k, n) in all_names() {
                writeln!(w, "{}\t{}", k, n).unwrap();
            }
            for (k, n) in names_of(CONTRIB_BUILTINS, false) {
                writeln!(w, "contrib-{}\t{}", k, n).unwrap();
            }
        }
        "one" => {
            let stream = args.get(2).map(|s| s.as_str()).unwrap_or("prog");
            let src = args.get(3).cloned().unwrap_or_default();
            let small = matches!(stream, "site" | "sitea" | "fmt" | "fmtv" | "fmtc" | "prog" | "proga" | "progv" | "progc");
            let ctx = if small { ctx_small() } else { ctx_big() };
            emit_ctx(&mut w, &envs);
            if let Some(rest) = stream.strip_prefix("cx.") {
                // `cx.<context>.<entry>.<formatter>`: the site template in that output context
                let p: Vec<&str> = rest.split('.').collect();
                let k = p.get(2).and_then(|x| x.parse::<usize>().ok()).unwrap_or(0);
                match cx_line(&envs, p[0], p.get(1).copied().unwrap_or("render"), k, 0, "replay", &src, "", &ctx_small()) {
                    Some(l) => writeln!(w, "{}", l).unwrap(),
                    None => writeln!(w, "{}\t0\treplay:*\t{}\t-\t-\t-\t-\t-", stream, src).unwrap(),
                }
                return;
            }
            if matches!(stream, "sx" | "sxa" | "sxv" | "sxj") {
                emit_sx(&mut w, &envs, stream, 0, "replay:*", &src, &ctx_sx());
                return;
            }
            if stream.ends_with('x') || stream.ends_with('h') {
                let c = if stream.ends_with('x') { context! { RAND_SEED => 42, ..ctx_big() } } else { ctx_safe() };
                emit_sig(&mut w, &envs, stream, 0, "replay", &src, &c, "-");
                return;
            }
            emit(&mut w, &envs, stream, 0, "replay", &src, &ctx, small);
        }
        "sx" | "cx" => {
            let tier = args.get(2).map(|s| s.as_str()).unwrap_or("quick").to_string();
            let mut id = 0usize;
            if cmd == "sx" { gen_sx(&mut w, &envs, &tier, &mut id) } else { gen_cx(&mut w, &envs, &tier, &mut id) }
        }
        "gen" => {
            let tier = args.get(2).map(|s| s.as_str()).unwrap_or("quick").to_string();
            let small = ctx_small();
            let big = ctx_big();
            let mut id = 0usize;
            emit_ctx(&mut w, &envs);
            for (class, src, expect) in SITES {
                emit(&mut w, &envs, "site", id, &format!("{}:{}", class, hx(expect)), src, &small, true);
                id += 1;
            }
            for (class, src, expect) in SITES {
                emit(&mut w, &envs, "fmt", id, &format!("{}:{}", class, hx(expect)), src, &small, true);
                id += 1;
            }
            // the sites in a `.html` template: HTML auto-escaping on (expected text only where nothing is escaped)
            for (class, src, expect) in SITES {
                let e = if expect.chars().any(|c| "<>&\"'/".contains(c)) { "*".to_string() } else { hx(expect) };
                emit(&mut w, &envs, "sitea", id, &format!("{}:{}", class, e), src, &small, true);
                id += 1;
            }
            // the visible and the counting formatter: the outputs differ from the default ones, so
            // only the error pattern of the class is judged (label `class:*`), plus monotonicity
            for stream in ["fmtv", "fmtc"] {
                for (class, src, _) in SITES {
                    emit(&mut w, &envs, stream, id, &format!("{}:*", class), src, &small, true);
                    id += 1;
                }
            }
            gen_sx(&mut w, &envs, &tier, &mut id);
            let diag = sx_diagonal();
            gen_cx(&mut w, &envs, &tier, &mut id);
            let mut calls: Vec<(String, (String, String))> = vec![];
            gen_calls(BUILTINS, &tier, &mut |label, c| calls.push((label, c)));
            for (label, (src, sig)) in &calls {
                emit_sig(&mut w, &envs, "call", id, label, src, &big, sig);
                id += 1;
            }
            let mut sweep: Vec<(String, (String, String))> = vec![];
            gen_sweep(all_names(), &tier, &mut |label, c| sweep.push((label, c)));
            for (label, (src, sig)) in &sweep {
                emit_sig(&mut w, &envs, "sweep", id, label, src, &big, sig);
                id += 1;
            }
            // the same builtin calls in a `.html` template (auto-escaping on) with safe strings around
            let safe_ctx = ctx_safe();
            for (label, (src, sig)) in &calls {
                emit_sig(&mut w, &envs, "callh", id, label, src, &safe_ctx, sig);
                id += 1;
            }
            for (label, (src, sig)) in &sweep {
                if tier != "thorough" && label.ends_with("sweep2") {
                    continue;
                }
                emit_sig(&mut w, &envs, "sweeph", id, label, src, &safe_ctx, sig);
                id += 1;
            }
            for stream in ["stmt", "stmtv", "stmtc"] {
                for src in STMTS {
                    emit(&mut w, &envs, stream, id, "stmt", src, &big, false);
                    id += 1;
                }
            }
            for src in STMTS {
                emit_sig(&mut w, &envs, "stmth", id, "stmt", src, &safe_ctx, "-");
                id += 1;
            }
            // what minijinja-contrib registers, and pycompat's method callback (`x` streams: the contrib environment)
            let mut callsx: Vec<(String, (String, String))> = vec![];
            gen_calls(CONTRIB_BUILTINS, &tier, &mut |label, c| callsx.push((label, c)));
            let bigx = context! { RAND_SEED => 42, ..big.clone() };
            for (label, (src, sig)) in &callsx {
                emit_sig(&mut w, &envs, "callx", id, label, src, &bigx, sig);
                id += 1;
            }
            let mut sweepx: Vec<(String, (String, String))> = vec![];
            gen_sweep(names_of(CONTRIB_BUILTINS, false), &tier, &mut |label, c| sweepx.push((label, c)));
            for (label, (src, sig)) in &sweepx {
                emit_sig(&mut w, &envs, "sweepx", id, label, src, &bigx, sig);
                id += 1;
            }
            for src in PYCOMPAT {
                emit_sig(&mut w, &envs, "pyx", id, "stmt", src, &bigx, "-");
                id += 1;
            }
            // one-shot iterators: the context is rebuilt for every render
            for src in ZOO {
                let rs: Vec<String> = envs.envs.iter().map(|e| {
                    let c = context! { os1 => Value::make_one_shot_iterator(vec![Value::from(1), Value::UNDEFINED, Value::from("x")].into_iter()),
                                       os0 => Value::make_one_shot_iterator(Vec::<Value>::new().into_iter()), i1 => 3, s3 => safe("b"), l1 => vec![1, 2, 3] };
                    render(e, src, &c, false)
                }).collect();
                writeln!(w, "zoo\t{}\tzoo\t{}\t{}\t-", id, src, rs.join("\t")).unwrap();
                id += 1;
            }
            // the public State / Value API, plain and auto-escaped
            for src in api_templates() {
                emit_sig(&mut w, &envs, "api", id, "api", &src, &big, "-");
                id += 1;
                emit_sig(&mut w, &envs, "apih", id, "api", &src, &safe_ctx, "-");
                id += 1;
            }
            // other entry points and environment configurations for the site templates
            for (ei, e) in ENTRIES.iter().enumerate() {
                for (class, src) in SITES.iter().map(|(c, s, _)| (*c, *s)).chain(diag.iter().map(|(c, s, _)| (*c, s.as_str()))) {
                    let rs: Vec<String> = MODES.iter().map(|m| entry_render(e, *m, src, &small)).collect();
                    writeln!(w, "entry\t{}\t{}:{}\t{}\t{}\t-", id, e, class, src, rs.join("\t")).unwrap();
                    id += 1;
                }
                let _ = ei;
            }
            let n_model = if tier == "thorough" { 100000 } else { 2000 };
            let n_rich = if tier == "thorough" { 100000 } else { 2000 };
            let mut g = Gen { rng: Rng::new(seed_from_env()), locals: vec![], macros: vec![], rich: false, missing_pct: 30, wild_pct: 10, html: false };
            for i in 0..(n_model + n_rich) {
                g.rich = i >= n_model;
                g.missing_pct = [8, 15, 30, 50][i % 4];
                g.wild_pct = [3, 10, 25][(i / 4) % 3];
                let src = g.program();
                let label = if g.rich { "rich" } else { "core" };
                emit(&mut w, &envs, "prog", id, label, &src, &small, true);
                id += 1;
                // a fraction of the programs also through the custom formatters
                if i % 3 == 0 {
                    emit(&mut w, &envs, "progv", id, label, &src, &small, true);
                    id += 1;
                }
                if i % 6 == 1 {
                    emit(&mut w, &envs, "progc", id, label, &src, &small, true);
                    id += 1;
                }
                if i % 3 == 2 {
                    emit_sig(&mut w, &envs, "progh", id, label, &src, &safe_ctx, "-");
                    id += 1;
                }
            }
            // auto-escaping and safe strings inside the model: programs over strings with HTML special characters,
            // safe strings, `safe` / `escape` / safe joins (join_safe -> State::format), autoescape blocks; rendered as a
            // plain and as a `.html` template (HTML escaping on from the start), a part through the custom formatters
            let n_html = if tier == "thorough" { 40000 } else { 1200 };
            let mut g = Gen { rng: Rng::new(seed_from_env() ^ 0x5afe), locals: vec![], macros: vec![], rich: false, missing_pct: 30, wild_pct: 10, html: true };
            for i in 0..n_html {
                g.rich = i % 2 == 1;
                g.missing_pct = [8, 15, 30, 50][i % 4];
                g.wild_pct = [3, 10, 25][(i / 4) % 3];
                let src = g.program();
                emit(&mut w, &envs, if i % 3 == 0 { "prog" } else { "proga" }, id, "html", &src, &small, true);
                id += 1;
                if i % 4 == 0 {
                    emit(&mut w, &envs, if i % 8 == 0 { "progv" } else { "progc" }, id, "html", &src, &small, true);
                    id += 1;
                }
            }
        }
        _ => {
            eprintln!("usage: c12 gen <quick|thorough> | sx <tier> | cx <tier> | one <stream> <template> | names");
            std::process::exit(2);
        }
    }
}
