//! probe version
use minijinja::value::Value;
use minijinja::{context, Environment, UndefinedBehavior};
use mjh::*;

const MODES: [(&str, UndefinedBehavior); 4] = [
    ("chainable", UndefinedBehavior::Chainable),
    ("lenient", UndefinedBehavior::Lenient),
    ("semistrict", UndefinedBehavior::SemiStrict),
    ("strict", UndefinedBehavior::Strict),
];

fn ctx() -> Value {
    context! { i1 => 3, i2 => 7, s1 => "ab", l1 => vec![1,2,3], a => context!{ x => 1 }, n => () }
}

fn render(mode: UndefinedBehavior, src: &str) -> String {
    let r = guarded(|| {
        let mut env = Environment::new();
        env.set_undefined_behavior(mode);
        env.render_str(src, ctx())
    });
    match r {
        Ok(Ok(s)) => format!("ok:{:?}", s),
        Ok(Err(e)) => format!("err:{}", error_kind_name(&e)),
        Err(p) => format!("panic:{}", p),
    }
}

fn main() {
    quiet_panics();
    let args: Vec<String> = std::env::args().collect();
    for src in &args[2..] {
        let rs: Vec<String> = MODES.iter().map(|(_, m)| render(*m, src)).collect();
        println!("{}\t{}", src, rs.join("\t"));
    }
}
